#!/bin/bash
# usage: seedcheck.sh <seeded id> [props (comma separated) | all]
# Applies seeded/<id>/patch.diff to a scratch copy of /repo and runs the named checks on it.
set -u
here="$(cd "$(dirname "$0")/.." && pwd)"
id="$1"; props="${2:-all}"
export GOFLAGS=-mod=mod GOPROXY=off GOSUMDB=off GOTOOLCHAIN=local CGO_ENABLED=0; unset GOWORK
export GOCACHE="${VERIF_SCRATCH_GOCACHE:-/tmp/verif-scratch-gocache}"   # scratch copies at ever new paths would bloat the shared cache
( cd "$here/checker" && go build -o "$here/bin/spinecheck" . ) || exit 2
scratch=$(mktemp -d /tmp/seedc.XXXXXX); trap 'rm -rf "$scratch"' EXIT
rsync -a --exclude .git /repo/ "$scratch/repo/"; mkdir -p "$scratch/verif"; cp "$here/known_findings.txt" "$scratch/verif/"
( cd "$scratch/repo" && git init -q . && git apply "$here/seeded/$id/patch.diff" ) || { echo "PATCH DOES NOT APPLY"; exit 3; }
( cd "$scratch/repo" && go build ./... ) || { echo "DOES NOT COMPILE"; exit 4; }
"$here/bin/spinecheck" -props "$props" -repo "$scratch/repo" -verif "$scratch/verif" 2>&1 | grep -E "^(VIOLATION:|UNDECIDED:|environment|analysis panic)" | cut -c1-300
