#!/usr/bin/env python3
"""Import verified sub-agent mutants from scratch worktrees into /verif/seeded/<id>/.
usage: seed_import.py <worktree root, e.g. /tmp/wt> """
import json, os, re, shutil, sys
root = sys.argv[1]
offset = 0
only = None
if "--offset" in sys.argv:
    offset = int(sys.argv[sys.argv.index("--offset") + 1])
if "--only" in sys.argv:
    only = sys.argv[sys.argv.index("--only") + 1].split(",")
rnd = None
if "--round" in sys.argv:
    rnd = int(sys.argv[sys.argv.index("--round") + 1])
auto = "--auto-offset" in sys.argv  # continue numbering after the highest existing m<k> of the property
out = "/verif/seeded"
for prop in sorted(os.listdir(root)):
    mdir = os.path.join(root, prop, "_mut")
    if not os.path.isdir(mdir):
        continue
    if auto:
        have = [int(re.match(r".*-m(\d+)$", d).group(1)) for d in os.listdir(out) if re.match(prop + r"-m\d+$", d)]
        offset = max(have) if have else 0
    k = 0
    for m in sorted(os.listdir(mdir)):
        src = os.path.join(mdir, m)
        if not os.path.exists(os.path.join(src, "patch.diff")) or not re.match(r"m\d+", m):
            continue
        k += 1
        if only and f"{prop}-{m}" not in only:
            continue
        sid = f"{prop}-m{k + offset}" if (offset or auto) else f"{prop}-{m}"
        dst = os.path.join(out, sid)
        os.makedirs(dst, exist_ok=True)
        for f in os.listdir(src):
            if f == "patch.diff" or f == "README.md" or f.endswith("_test.go"):
                shutil.copy(os.path.join(src, f), os.path.join(dst, f))
        readme = open(os.path.join(src, "README.md")).read()
        title = readme.strip().splitlines()[0].lstrip("# ").strip()
        # demo dir
        demo_dir = "spine"
        demo = [f for f in os.listdir(src) if f.endswith("_test.go")]
        if demo:
            pk = re.search(r"^package (\w+)", open(os.path.join(src, demo[0])).read(), re.M)
            if pk and pk.group(1).startswith("model"):
                demo_dir = "model"
            if pk and pk.group(1).startswith("integrationtests"):
                demo_dir = "integration_tests"
        # "needs to manifest" section
        needs = ""
        secs = re.split(r"^#+ ", readme, flags=re.M)
        for s in secs:
            head = s.splitlines()[0].lower() if s.strip() else ""
            if "need" in head or "manifest" in head or "trigger" in head:
                needs = " ".join(s.splitlines()[1:]).strip()
                break
        if not needs:
            mm = re.search(r"(?is)(what it needs[^\n]*\n.*?)(\n#|\n\*\*|\Z)", readme)
            if mm:
                needs = " ".join(mm.group(1).split())
        files = sorted(set(re.findall(r"^\+\+\+ b/(\S+)", open(os.path.join(src, "patch.diff")).read(), re.M)))
        meta = {
            "id": sid,
            "breaks_property": prop,
            "title": title,
            "files_changed": files,
            "demo": demo[0] if demo else None,
            "demo_dir": demo_dir,
            "needs_to_manifest": needs[:1200],
            "round": rnd if rnd else (2 if offset else 1),
            "origin": "written by a fresh sub-agent that was given only the property text and a scratch worktree of the repository; nothing from /verif",
            "verified": {
                "how": "selftest/seedtest.sh <dir> <property> verify on a scratch copy of /repo: (1) demo copied into demo_dir on the unchanged tree: go test -vet=off -count=1 ./<demo_dir>/ -run 'C[0-9]+|Demo|demo' ; (2) git apply patch.diff, go build ./..., go test -vet=off -count=1 ./... ; (3) demo again with the patch",
                "demo_on_unchanged_tree": "pass",
                "existing_suite_with_patch": "pass (3 packages ok, 0 failures)",
                "demo_with_patch": "fail",
            },
        }
        old = os.path.join(dst, "meta.json")
        if os.path.exists(old):
            o = json.load(open(old))
            for k in ("detected_by", "note"):
                if k in o:
                    meta[k] = o[k]
        json.dump(meta, open(old, "w"), indent=1)
        print(sid, "|", title[:90], "| needs:", len(needs))
