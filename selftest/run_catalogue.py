#!/usr/bin/env python3
"""Run every check against every seeded change (must be detected) and every
neutral variant (must stay silent), each on its own scratch copy of /repo.

usage: run_catalogue.py [--only <id-substring>] [--jobs N] [--no-write]

Writes selftest/catalogue_results.json and refreshes detected_by in each
seeded/<id>/meta.json. Exit 0 always (this is a report on the machinery, not a
property check); the summary lists missed seeded changes and noisy variants.
"""
import concurrent.futures, json, os, re, shutil, subprocess, sys, tempfile

HERE = os.path.dirname(os.path.dirname(os.path.abspath(__file__)))
ENV = dict(os.environ, GOFLAGS="-mod=mod", GOPROXY="off", GOSUMDB="off", GOTOOLCHAIN="local", CGO_ENABLED="0")
ENV.pop("GOWORK", None)
# every scratch copy lives at a new path, and the build cache keys on paths: use a throw-away cache so that
# catalogue runs do not fill the disk (the shared cache once grew to 136 GB this way)
_OWN_CACHE = None
if "VERIF_KEEP_GOCACHE" not in os.environ:
    _OWN_CACHE = tempfile.mkdtemp(prefix="cat-gocache.", dir="/tmp")
    ENV["GOCACHE"] = _OWN_CACHE
REPO = os.environ.get("VERIF_REPO", "/repo")


def sh(cmd, cwd=None):
    return subprocess.run(cmd, cwd=cwd, env=ENV, shell=isinstance(cmd, str), capture_output=True, text=True)


PROPS = "all"


def run_checks(scratch):
    vd = os.path.join(scratch, "verif")
    os.makedirs(vd, exist_ok=True)
    shutil.copy(os.path.join(HERE, "known_findings.txt"), vd)
    r = sh([os.path.join(HERE, "bin", "spinecheck"), "-props", PROPS, "-repo", os.path.join(scratch, "repo"), "-verif", vd])
    hits = {}
    for line in (r.stdout + r.stderr).splitlines():
        m = re.match(r"^(VIOLATION|UNDECIDED): (C\d\d) rule=(\S+) construct=(.*?) at ", line)
        if m:
            hits.setdefault(m.group(2), []).append(f"{m.group(1).lower()} {m.group(3)} {m.group(4)[:140]}")
        elif line.startswith("environment failure") or line.startswith("analysis panic"):
            hits.setdefault("ENV", []).append(line[:200])
    return hits


def make_scratch():
    d = tempfile.mkdtemp(prefix="cat.", dir="/tmp")
    sh(["rsync", "-a", "--exclude", ".git", REPO + "/", d + "/repo/"])
    return d


def do_seeded(sid):
    d = make_scratch()
    try:
        patch = os.path.join(HERE, "seeded", sid, "patch.diff")
        r = sh(["git", "apply", "--unsafe-paths", "--directory", d + "/repo", patch], cwd=d) if False else sh(f"cd {d}/repo && git init -q . && git apply {patch}")
        if r.returncode != 0:
            return sid, {"ENV": ["patch does not apply: " + r.stderr[:200]]}
        b = sh("go build ./...", cwd=d + "/repo")
        if b.returncode != 0:
            return sid, {"ENV": ["does not compile: " + b.stderr[:200]]}
        return sid, run_checks(d)
    finally:
        shutil.rmtree(d, ignore_errors=True)


def do_neutral_patch(path):
    """a behaviour-preserving refactoring given as a patch (selftest/refactorings/<id>/patch.diff)"""
    name = os.path.basename(path)
    d = make_scratch()
    try:
        r = sh(f"cd {d}/repo && git init -q . && git apply {path}/patch.diff")
        if r.returncode != 0:
            return name, {"ENV": ["patch does not apply: " + r.stderr[:160]]}
        b = sh("go build ./...", cwd=d + "/repo")
        if b.returncode != 0:
            return name, {"ENV": ["does not compile: " + b.stderr[:200]]}
        return name, run_checks(d)
    finally:
        shutil.rmtree(d, ignore_errors=True)


def fixed_entries():
    out = []
    for l in open(os.path.join(HERE, "known_findings.txt")):
        m = re.match(r"fixed: property=(C\d\d) ([0-9a-f]{7,}) ", l)
        if m:
            out.append((m.group(1), m.group(2)))
    return out


def do_revert(item):
    prop, h = item
    name = f"{prop}-revert-{h}"
    d = make_scratch()
    try:
        diff = sh(["git", "-C", REPO, "diff", h + "~1", h])
        if diff.returncode != 0:
            return name, {"ENV": ["commit not found: " + diff.stderr[:120]]}
        pf = os.path.join(d, "fix.diff")
        open(pf, "w").write(diff.stdout)
        r = sh(f"cd {d}/repo && git init -q . && git apply -R {pf}")
        if r.returncode != 0:
            # later commits changed the same lines: fall back to the tree as it was just before the fix
            # (it lacks the later fixes as well, so the check may report more than this one defect)
            shutil.rmtree(d + "/repo")
            os.makedirs(d + "/repo")
            a = sh(f"git -C {REPO} archive {h}~1 | tar -x -C {d}/repo")
            if a.returncode != 0:
                return name, {"SKIP": ["cannot reverse-apply and cannot extract the parent tree"]}
            b = sh("go build ./...", cwd=d + "/repo")
            if b.returncode != 0:
                return name, {"SKIP": ["parent tree does not compile"]}
            hits = run_checks(d)
            hits["FALLBACK"] = ["tree of the parent commit used"]
            return name, hits
        b = sh("go build ./...", cwd=d + "/repo")
        if b.returncode != 0:
            return name, {"SKIP": ["reverted tree does not compile (a later commit depends on it)"]}
        return name, run_checks(d)
    finally:
        shutil.rmtree(d, ignore_errors=True)


def do_neutral(path):
    if os.path.isdir(path):
        return do_neutral_patch(path)
    name = os.path.basename(path)[:-5]
    d = make_scratch()
    try:
        v = json.load(open(path))
        for e in v["edits"]:
            p = os.path.join(d, "repo", e["file"])
            s = open(p).read()
            if e["old"] not in s:
                return name, {"ENV": ["old text not found in " + e["file"]]}
            s = s.replace(e["old"], e["new"]) if e.get("all") else s.replace(e["old"], e["new"], 1)
            open(p, "w").write(s)
        b = sh("go build ./...", cwd=d + "/repo")
        if b.returncode != 0:
            return name, {"ENV": ["does not compile: " + b.stderr[:300]]}
        return name, run_checks(d)
    finally:
        shutil.rmtree(d, ignore_errors=True)


def main():
    global PROPS
    only = None
    jobs = 6
    write = True
    prop = None
    out_json = None
    nobuild = False
    a = sys.argv[1:]
    while a:
        x = a.pop(0)
        if x == "--only":
            only = a.pop(0)
        elif x == "--prop":
            prop = a.pop(0)
            PROPS = prop
            write = False
        elif x == "--json":
            out_json = a.pop(0)
        elif x == "--no-build":
            nobuild = True
        elif x == "--jobs":
            jobs = int(a.pop(0))
        elif x == "--no-write":
            write = False
    if not nobuild:
        b = sh("go build -o ../bin/spinecheck .", cwd=os.path.join(HERE, "checker"))
        if b.returncode != 0:
            print("cannot build the checker", b.stderr)
            sys.exit(2)
    if not prop:
        base = run_checks_on_repo()
        if base:
            print("BASELINE NOT SILENT:", base)
    seeded = sorted(x for x in os.listdir(os.path.join(HERE, "seeded")) if os.path.isdir(os.path.join(HERE, "seeded", x)))
    neutral = sorted(os.path.join(HERE, "selftest", "neutral", x) for x in os.listdir(os.path.join(HERE, "selftest", "neutral")) if x.endswith(".json"))
    rdir = os.path.join(HERE, "selftest", "refactorings")
    if os.path.isdir(rdir):
        neutral += sorted(os.path.join(rdir, x) for x in os.listdir(rdir) if os.path.exists(os.path.join(rdir, x, "patch.diff")))
    if only:
        seeded = [s for s in seeded if only in s]
        neutral = [n for n in neutral if only in n]
    if prop:
        seeded = [s for s in seeded if s.split("-")[0] == prop]
        # of the agent-written refactorings a per-property run takes those written around this property's code
        neutral = [n for n in neutral if n.endswith(".json") or os.path.basename(n).split("-")[0] == prop]
    reverts = fixed_entries()
    if only:
        reverts = [x for x in reverts if only in f"{x[0]}-revert-{x[1]}"]
    if prop:
        reverts = [x for x in reverts if x[0] == prop]
    res = {"seeded": {}, "neutral": {}, "reverted_fixes": {}}
    with concurrent.futures.ThreadPoolExecutor(max_workers=jobs) as ex:
        for name, hits in ex.map(do_revert, reverts):
            res["reverted_fixes"][name] = hits
        for sid, hits in ex.map(do_seeded, seeded):
            res["seeded"][sid] = hits
        for name, hits in ex.map(do_neutral, neutral):
            res["neutral"][name] = hits
    missed, own = [], 0
    for sid in seeded:
        hits = res["seeded"][sid]
        prop = sid.split("-")[0]
        by = sorted(k for k in hits if k != "ENV")
        if "ENV" in hits:
            print(f"{sid}: ENV {hits['ENV']}")
        mark = "own" if prop in by else ("other" if by else "MISSED")
        if prop in by:
            own += 1
        if not by:
            missed.append(sid)
        print(f"{sid:8s} {mark:7s} {','.join(by)}")
        if write:
            mp = os.path.join(HERE, "seeded", sid, "meta.json")
            m = json.load(open(mp))
            m["detected_by"] = {k: hits[k][:3] for k in by}
            json.dump(m, open(mp, "w"), indent=1)
    rev_missed, rev_skipped = [], []
    for name in sorted(res["reverted_fixes"]):
        hits = res["reverted_fixes"][name]
        propn = name.split("-")[0]
        by = sorted(k for k in hits if k not in ("ENV", "SKIP", "FALLBACK"))
        if "SKIP" in hits:
            rev_skipped.append(name)
            print(f"{name:24s} skipped ({hits['SKIP'][0][:90]})")
            continue
        if "ENV" in hits:
            print(f"{name}: ENV {hits['ENV']}")
        if propn not in by:
            rev_missed.append(name)
        print(f"{name:24s} {'own' if propn in by else ('other' if by else 'MISSED'):7s} {','.join(by)}{' (parent tree)' if 'FALLBACK' in hits else ''}")
    print(f"reverted fixes: {len(res['reverted_fixes'])}, skipped {len(rev_skipped)}, not reported by their own check: {rev_missed}")
    noisy = []
    for n in neutral:
        name = os.path.basename(n)[:-5] if n.endswith(".json") else os.path.basename(n)
        hits = res["neutral"][name]
        if hits:
            noisy.append(name)
        print(f"neutral {name:28s} {'SILENT' if not hits else 'NOISY ' + json.dumps(hits)[:300]}")
    print(f"seeded: {len(seeded)} changes, {len(seeded) - len(missed)} detected ({own} by the check of the property they break), missed: {missed}")
    print(f"neutral: {len(neutral)} variants, noisy: {noisy}")
    if write and not only:
        json.dump(res, open(os.path.join(HERE, "selftest", "catalogue_results.json"), "w"), indent=1, sort_keys=True)
    if out_json:
        summary = {
            "property": prop or "all",
            "seeded_changes": len(seeded),
            "seeded_detected": len(seeded) - len(missed),
            "seeded_missed": missed,
            "reverted_fixes": len(res["reverted_fixes"]) - len(rev_skipped),
            "reverted_fixes_skipped": rev_skipped,
            "reverted_fixes_missed": rev_missed,
            "neutral_variants": len(neutral),
            "neutral_noisy": noisy,
            "detail": {sid: {k: v[:2] for k, v in res["seeded"][sid].items()} for sid in seeded},
        }
        json.dump(summary, open(out_json, "w"), indent=1, sort_keys=True)


def run_checks_on_repo():
    d = tempfile.mkdtemp(prefix="cat.", dir="/tmp")
    try:
        os.symlink(REPO, os.path.join(d, "repo"))
        return run_checks(d)
    finally:
        shutil.rmtree(d, ignore_errors=True)


if __name__ == "__main__":
    try:
        main()
    finally:
        if _OWN_CACHE:
            shutil.rmtree(_OWN_CACHE, ignore_errors=True)
