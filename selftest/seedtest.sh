#!/bin/bash
# usage: seedtest.sh <mutant dir containing patch.diff, demo_test.go, README.md> <property> [verify]
# Verifies (optionally) that the mutant passes the existing suite and that its demo fails with / passes without it,
# then runs the property's check (and, with ALL=1, all checks) against a scratch copy with the patch applied.
set -u
here="$(cd "$(dirname "$0")/.." && pwd)"
m="$1"; prop="$2"; verify="${3:-}"
export GOFLAGS=-mod=mod GOPROXY=off GOSUMDB=off GOTOOLCHAIN=local; unset GOWORK
export GOCACHE="${VERIF_SCRATCH_GOCACHE:-/tmp/verif-scratch-gocache}"   # scratch copies at ever new paths would bloat the shared cache
scratch=$(mktemp -d /tmp/seed.XXXXXX)
trap 'rm -rf "$scratch"' EXIT
rsync -a --exclude .git --exclude _mut /repo/ "$scratch/repo/"
mkdir -p "$scratch/verif"; cp "$here/known_findings.txt" "$scratch/verif/"
demodir=spine
if [ -f "$m/meta.json" ]; then d=$(python3 -c "import json;print(json.load(open('$m/meta.json')).get('demo_dir','spine'))"); demodir=$d; fi
if grep -qiE "copy (it )?(in)?to .?model/|into \`model/\`|package model" "$m/README.md" 2>/dev/null && ! grep -qiE "into .?spine/" "$m/README.md"; then demodir=model; fi
# the package clause of the demonstration decides (it is what the compiler checks)
pk=$(grep -h -m1 '^package ' "$m"/demo*_test.go 2>/dev/null | head -1 | awk '{print $2}')
case "$pk" in model*) demodir=model;; integrationtests*|integration_tests*) demodir=integration_tests;; spine*) demodir=spine;; esac
if [ "$verify" = verify ]; then
  cp "$m"/demo*_test.go "$scratch/repo/$demodir/" 
  ( cd "$scratch/repo" && go test -vet=off -count=1 ./$demodir/ -run 'C[0-9]+|Demo|demo' 2>&1 | tail -3 ) > "$scratch/clean.txt"
  echo "demo on clean tree: $(tail -1 "$scratch/clean.txt")"
  rm -f "$scratch/repo/$demodir"/demo*_test.go
fi
( cd "$scratch/repo" && git init -q . 2>/dev/null; git apply "$m/patch.diff" ) || { echo "PATCH DOES NOT APPLY"; exit 3; }
( cd "$scratch/repo" && go build ./... ) || { echo "MUTANT DOES NOT COMPILE"; exit 4; }
if [ "$verify" = verify ]; then
  ( cd "$scratch/repo" && go test -vet=off -count=1 ./... 2>&1 | grep -v "no test files" ) > "$scratch/suite.txt"
  echo "existing suite with mutant: $(grep -c '^ok' "$scratch/suite.txt") ok, $(grep -c -E '^(FAIL|---)' "$scratch/suite.txt") fail lines"
  cp "$m"/demo*_test.go "$scratch/repo/$demodir/"
  ( cd "$scratch/repo" && go test -vet=off -count=1 ./$demodir/ -run 'C[0-9]+|Demo|demo' 2>&1 | tail -3 ) > "$scratch/mut.txt"
  echo "demo with mutant: $(tail -1 "$scratch/mut.txt")"
  rm -f "$scratch/repo/$demodir"/demo*_test.go
fi
bin="${SPINECHECK_BIN:-$here/bin/spinecheck}"; [ -x "$bin" ] || ( cd "$here/checker" && go build -o "$here/bin/spinecheck" . )
props="$prop"; [ "${ALL:-0}" = 1 ] && props="C01 C02 C03 C04 C05 C06 C07 C08 C09 C10 C11 C12 C13 C14 C15 C16 C17 C18 C19 C20"
all=$("$bin" -props "$(echo $props | tr ' ' ',')" -repo "$scratch/repo" -verif "$scratch/verif" 2>&1 | grep -E "^(VIOLATION:|UNDECIDED:|environment|analysis panic)" | cut -c1-240)
for p in $props; do
  out=$(echo "$all" | grep -E "^(VIOLATION|UNDECIDED): $p |^environment|^analysis panic")
  n=$(echo -n "$out" | grep -c . )
  if [ "$n" -gt 0 ]; then echo "DETECTED by $p ($n):"; echo "$out" | head -4; else echo "not detected by $p"; fi
done
