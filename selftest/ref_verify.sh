#!/bin/bash
# usage: ref_verify.sh <dir with patch.diff> : applies the refactoring to a scratch copy of /repo, builds, vets,
# runs the existing suite, then runs all 20 checks on the copy. Prints one summary line.
set -u
here="$(cd "$(dirname "$0")/.." && pwd)"
m="$1"
export GOFLAGS=-mod=mod GOPROXY=off GOSUMDB=off GOTOOLCHAIN=local; unset GOWORK
export GOCACHE="${VERIF_SCRATCH_GOCACHE:-/tmp/verif-scratch-gocache}"   # scratch copies at ever new paths would bloat the shared cache
scratch=$(mktemp -d /tmp/ref.XXXXXX); trap 'rm -rf "$scratch"' EXIT
rsync -a --exclude .git --exclude _ref --exclude _mut /repo/ "$scratch/repo/"; mkdir -p "$scratch/verif"; cp "$here/known_findings.txt" "$scratch/verif/"
( cd "$scratch/repo" && git init -q . && git apply "$m/patch.diff" ) 2>"$scratch/apply.txt" || { echo "$(basename $(dirname $(dirname $m)))-$(basename $m): PATCH DOES NOT APPLY $(head -1 $scratch/apply.txt)"; exit 3; }
( cd "$scratch/repo" && go build ./... ) 2>"$scratch/build.txt" || { echo "$m: DOES NOT COMPILE"; exit 4; }
suite=$( cd "$scratch/repo" && go test -vet=off -count=1 ./... 2>&1 | grep -v "no test files" )
nok=$(echo "$suite" | grep -c '^ok'); nfail=$(echo "$suite" | grep -c -E '^(FAIL|---)')
out=$(CGO_ENABLED=0 "${SPINECHECK_BIN:-$here/bin/spinecheck}" -props all -repo "$scratch/repo" -verif "$scratch/verif" 2>&1 | grep -E "^(VIOLATION:|UNDECIDED:|environment|analysis panic)" | cut -c1-330)
n=$(echo -n "$out" | grep -c .)
echo "$(basename $(dirname $(dirname $m)))-$(basename $m): suite ${nok}ok/${nfail}fail; alarms $n"
[ "$n" -gt 0 ] && echo "$out" | sed 's/^/    /'
exit 0
