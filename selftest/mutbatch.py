#!/usr/bin/env python3
"""Ad-hoc probe: apply textual mutants (one JSON object per line: id, props, file, old, new[, nth]) to scratch
copies of /repo, make sure each compiles, and run the checks (all 20 by default) on the copy.
usage: mutbatch.py <mutants.jsonl> [--jobs N] [--only id,id] [--props own|all]
Nothing is executed from /repo; /repo itself is never modified.  Output: one line per mutant."""
import json, os, re, shutil, subprocess, sys, tempfile
from concurrent.futures import ThreadPoolExecutor

here = os.path.dirname(os.path.dirname(os.path.abspath(__file__)))
env = dict(os.environ, GOFLAGS="-mod=mod", GOPROXY="off", GOSUMDB="off", GOTOOLCHAIN="local", CGO_ENABLED="0",
           GOCACHE=os.environ.get("VERIF_SCRATCH_GOCACHE", "/tmp/verif-scratch-gocache"))
env.pop("GOWORK", None)
binp = os.environ.get("SPINECHECK_BIN", os.path.join(here, "bin", "spinecheck"))
ALL = ",".join(f"C{i:02d}" for i in range(1, 21))


def run(m, propsmode):
    scratch = tempfile.mkdtemp(prefix="mutb.")
    try:
        subprocess.run(["rsync", "-a", "--exclude", ".git", "/repo/", scratch + "/repo/"], check=True)
        os.makedirs(scratch + "/verif")
        shutil.copy(os.path.join(here, "known_findings.txt"), scratch + "/verif/")
        f = os.path.join(scratch, "repo", m["file"])
        s = open(f).read()
        if s.count(m["old"]) < 1:
            return m["id"], "PATTERN NOT FOUND", []
        nth = m.get("nth", 1)
        idx = -1
        for _ in range(nth):
            idx = s.find(m["old"], idx + 1)
        s = s[:idx] + m["new"] + s[idx + len(m["old"]):]
        open(f, "w").write(s)
        b = subprocess.run(["go", "build", "./..."], cwd=scratch + "/repo", env=env, capture_output=True, text=True)
        if b.returncode != 0:
            return m["id"], "DOES NOT COMPILE: " + b.stderr.strip().splitlines()[-1][:160], []
        props = ALL if propsmode == "all" else m["props"].replace(" ", ",")
        r = subprocess.run([binp, "-props", props, "-repo", scratch + "/repo", "-verif", scratch + "/verif"],
                           env=env, capture_output=True, text=True)
        lines = [l for l in (r.stdout + r.stderr).splitlines()
                 if l.startswith(("VIOLATION:", "UNDECIDED:", "environment", "analysis panic"))]
        return m["id"], "ok", lines
    finally:
        shutil.rmtree(scratch, ignore_errors=True)


def main():
    path = sys.argv[1]
    jobs = int(sys.argv[sys.argv.index("--jobs") + 1]) if "--jobs" in sys.argv else 6
    only = sys.argv[sys.argv.index("--only") + 1].split(",") if "--only" in sys.argv else None
    propsmode = sys.argv[sys.argv.index("--props") + 1] if "--props" in sys.argv else "all"
    muts = [json.loads(l) for l in open(path) if l.strip() and not l.startswith("#")]
    if only:
        muts = [m for m in muts if m["id"] in only]
    with ThreadPoolExecutor(jobs) as ex:
        for m, (mid, status, lines) in zip(muts, ex.map(lambda m: run(m, propsmode), muts)):
            if status != "ok":
                print(f"{mid}\t{status}")
                continue
            own = set(m["props"].split())
            hit = {}
            for l in lines:
                # VIOLATION: property=Cxx rule=... key=...
                mm = re.match(r"\w+: (C\d+)", l)
                p = mm.group(1) if mm else "?"
                hit.setdefault(p, []).append(l[:200])
            verdict = "OWN" if own & set(hit) else ("OTHER" if hit else "MISSED")
            print(f"{mid}\t{verdict}\t{' '.join(sorted(hit))}")
            for p in sorted(hit):
                for l in hit[p][:2]:
                    print(f"\t\t{l}")
            sys.stdout.flush()


main()
