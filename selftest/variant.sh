#!/bin/bash
# usage: variant.sh <variant.json> [props...]
# Applies the textual edits of a variant to a scratch copy of /repo, builds it, runs the named checks
# (default: all) against the copy, prints violations, removes the copy.
set -u
here="$(cd "$(dirname "$0")/.." && pwd)"
v="$1"; shift
props="${*:-C01 C02 C03 C04 C05 C06 C07 C08 C09 C10 C11 C12 C13 C14 C15 C16 C17 C18 C19 C20}"
export GOFLAGS=-mod=mod GOPROXY=off GOSUMDB=off GOTOOLCHAIN=local CGO_ENABLED=0; unset GOWORK
export GOCACHE="${VERIF_SCRATCH_GOCACHE:-/tmp/verif-scratch-gocache}"   # scratch copies at ever new paths would bloat the shared cache
scratch=$(mktemp -d /tmp/variant.XXXXXX)
trap 'rm -rf "$scratch"' EXIT
rsync -a --exclude .git /repo/ "$scratch/repo/"
mkdir -p "$scratch/verif"; cp "$here/known_findings.txt" "$scratch/verif/"
python3 - "$v" "$scratch/repo" <<'PY' || exit 3
import json,sys
v=json.load(open(sys.argv[1])); root=sys.argv[2]
for e in v["edits"]:
    p=root+"/"+e["file"]; s=open(p).read()
    if s.count(e["old"])<1:
        print("SKIP: old text not found in",e["file"]); sys.exit(3)
    s=s.replace(e["old"],e["new"],1) if not e.get("all") else s.replace(e["old"],e["new"])
    open(p,"w").write(s)
PY
( cd "$scratch/repo" && go build ./... ) 2>"$scratch/build.txt" || { echo "VARIANT DOES NOT COMPILE"; head -5 "$scratch/build.txt"; exit 4; }
if [ "${RUN_TESTS:-0}" = 1 ]; then ( cd "$scratch/repo" && go test -vet=off -count=1 ./... 2>&1 | grep -v "no test files" | grep -v "^ok" ); fi
[ -x "$here/bin/spinecheck" ] || ( cd "$here/checker" && go build -o "$here/bin/spinecheck" . )
for p in $props; do
  "$here/bin/spinecheck" -prop $p -repo "$scratch/repo" -verif "$scratch/verif" 2>&1 | grep -E "^(VIOLATION:|UNDECIDED:|environment|analysis panic)" | cut -c1-260
done
