#!/bin/bash
# builds the checker from files on disk only (offline)
set -e
cd "$(dirname "$0")"
export GOFLAGS=-mod=mod GOPROXY=off GOSUMDB=off GOTOOLCHAIN=local CGO_ENABLED=0
unset GOWORK
mkdir -p bin evidence
( cd checker && go build -o ../bin/spinecheck . )
echo "spinecheck built"
