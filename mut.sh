#!/bin/bash
# usage: mut.sh <prop> <file> <python-regex-old> <new>   -- applies one textual mutation to /repo, runs the check, restores
prop="$1"; file="$2"; old="$3"; new="$4"
cd /repo
python3 - "$file" "$old" "$new" <<'PY'
import sys,re
f,old,new=sys.argv[1:4]
s=open(f).read()
n=s.count(old)
if n<1: print("PATTERN NOT FOUND"); sys.exit(3)
s=s.replace(old,new,1)
open(f,'w').write(s)
PY
rc=$?
if [ $rc -ne 0 ]; then git checkout -- . ; exit 3; fi
export GOFLAGS=-mod=mod GOPROXY=off GOSUMDB=off GOTOOLCHAIN=local; unset GOWORK
if ! go build ./... 2>/tmp/mut_build.txt; then echo "MUTANT DOES NOT COMPILE"; head -5 /tmp/mut_build.txt; git checkout -- .; exit 4; fi
cd /verif
for p in $prop; do ./check $p | grep -E "^(VIOLATION:|UNDECIDED:|C[0-9]+ quick)" | cut -c1-300; done
cd /repo && git checkout -- .
