#!/bin/bash
# usage: mut.sh <props (space separated)> <file> <old text> <new text>
# Applies one textual mutation to a SCRATCH COPY of /repo (never to /repo itself), builds it, runs the checks on the copy.
props="$1"; file="$2"; old="$3"; new="$4"
here="$(cd "$(dirname "$0")" && pwd)"
export GOFLAGS=-mod=mod GOPROXY=off GOSUMDB=off GOTOOLCHAIN=local CGO_ENABLED=0; unset GOWORK
export GOCACHE="${VERIF_SCRATCH_GOCACHE:-/tmp/verif-scratch-gocache}"
scratch=$(mktemp -d /tmp/mut.XXXXXX); trap 'rm -rf "$scratch"' EXIT
rsync -a --exclude .git /repo/ "$scratch/repo/"; mkdir -p "$scratch/verif"; cp "$here/known_findings.txt" "$scratch/verif/"
python3 - "$scratch/repo/$file" "$old" "$new" <<'PY' || exit 3
import sys
f,old,new=sys.argv[1:4]
s=open(f).read()
if s.count(old)<1: print("PATTERN NOT FOUND"); sys.exit(3)
open(f,'w').write(s.replace(old,new,1))
PY
( cd "$scratch/repo" && go build ./... ) 2>"$scratch/build.txt" || { echo "MUTANT DOES NOT COMPILE"; head -5 "$scratch/build.txt"; exit 4; }
( cd "$here/checker" && go build -o "$here/bin/spinecheck" . ) || exit 2
"$here/bin/spinecheck" -props "$(echo $props | tr ' ' ',')" -repo "$scratch/repo" -verif "$scratch/verif" 2>&1 | grep -E "^(VIOLATION:|UNDECIDED:|C[0-9]+ quick|environment|analysis panic)" | cut -c1-300
