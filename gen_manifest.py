#!/usr/bin/env python3
"""Generates /verif/MANIFEST.json from the table below (kept next to the checks it describes)."""
import json, os, sys

HERE = os.path.dirname(os.path.abspath(__file__))

# property id -> (technique, level text, level note, design ref)
CLAIMED = {}
NOT_APPLICABLE = {}

def claim(pid, technique, text, note, ref):
    CLAIMED[pid] = dict(technique=technique, text=text, note=note, ref=ref)

exec(open(os.path.join(HERE, "manifest_table.py")).read())

props = [json.loads(l)["id"] for l in open(os.path.join(HERE, "properties.jsonl"))]
checks = []
for pid in props:
    if pid not in CLAIMED:
        continue
    c = CLAIMED[pid]
    checks.append({
        "property_id": pid,
        "quick_cmd": "./check %s --tier quick" % pid,
        "thorough_cmd": "./check %s --tier thorough" % pid,
        "evidence_file": "/verif/evidence/%s.json" % pid,
        "replay_cmd_template": "./check %s --replay {path}" % pid,
        "engine": "spinecheck",
        "level_claimed": {"category": "other", "text": c["text"] + ADDENDA.get(pid, ""), "design_ref": c["ref"] + "; rules as built: §8.1; validation: §10"},
        "level_note": c["note"],
        "technique": c["technique"],
    })
na = []
for pid in props:
    if pid in CLAIMED:
        continue
    na.append({"property_id": pid, "reason": NOT_APPLICABLE.get(pid, "not claimed: no sound static rule built for it in this session (see DESIGN.md)")})

manifest = {
    "version": 1,
    "setup_cmd": "./setup.sh",
    "hooks": {
        "guard": "verif",
        "enable": "no hooks: the checks analyse /repo's source and never build or run it; the build tag 'verif' is reserved and unused",
        "baseline_off_cmd": "cd /repo && GOFLAGS=-mod=mod GOPROXY=off go test -vet=off -count=1 ./...",
        "source_commits": [],
        "add_only": True,
    },
    "engines": [{
        "name": "spinecheck",
        "path": "/verif/checker",
        "serves_properties": sorted(CLAIMED),
        "kind_free_text": "custom static analyser for this repository (go/packages + go/types tables, AST sibling templates, go/ssa dataflow: locksets, guards, provenance, path-sensitive effect counting, retain-predicate truth tables); x/tools v0.29.0",
    }],
    "checks": checks,
    "not_applicable": na,
    "notes": "Static analysis only. Every check re-loads /repo's working tree (go/packages), decides a list of structural obligations (necessary conditions of the property) and reports violating constructs by rule+construct key. Known findings are listed in /verif/known_findings.txt. Exit 2 = environment failure (not a verdict), or, in the thorough tier only, a regression of the check itself found by its self-validation catalogue. Thorough = quick rules + every obligation re-decided for GOARCH=386 + self-validation of this check on scratch copies of /repo: the fix commits recorded for the property reverted, the seeded changes of /verif/seeded that break it, and the behaviour-preserving variants of /verif/selftest/neutral (DESIGN.md §1.5, §10).",
}
json.dump(manifest, open(os.path.join(HERE, "MANIFEST.json"), "w"), indent=1)
print("claimed:", sorted(CLAIMED), "not applicable:", [x["property_id"] for x in na])
