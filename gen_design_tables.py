#!/usr/bin/env python3
"""Regenerates the generated parts of DESIGN.md (between <!-- BEGIN GENERATED:x --> / <!-- END GENERATED:x -->)
from the evidence files, the seeded catalogue, the neutral variants and known_findings.txt."""
import json, os, re, glob
HERE = os.path.dirname(os.path.abspath(__file__))

def rules_table():
    out = []
    for f in sorted(glob.glob(os.path.join(HERE, "evidence", "C??.json"))):
        e = json.load(open(f))
        cov = e["coverage"]
        out.append(f"**{e['property_id']}** — {cov['obligations']} obligations, {cov['discharged']} hold, {cov.get('known_findings',0)} known findings\n")
        out.append("| rule | statement | obligations | holding |")
        out.append("|---|---|---|---|")
        for rid, r in sorted(cov["rules"].items()):
            st = r["statement"].replace("|", "\\|")
            out.append(f"| {rid} | {st} | {r['obligations']} | {r['holding']} |")
        out.append("")
    return "\n".join(out)

def seeded_table():
    out = ["| id | change (written by a sub-agent from the property text alone) | needs to manifest | reported by (rules of the first reporting checks) |", "|---|---|---|---|"]
    for d in sorted(glob.glob(os.path.join(HERE, "seeded", "*", "meta.json"))):
        m = json.load(open(d))
        title = re.sub(r"^C\d\d\s*[/ ]*\s*(mutant\s*)?m?\d\s*[-—:]*\s*", "", m["title"]).strip()
        needs = m.get("needs_to_manifest", "")
        needs = re.sub(r"\s+", " ", needs)[:260].replace("|", "\\|")
        det = m.get("detected_by", {})
        own = m["breaks_property"]
        parts = []
        for k in sorted(det, key=lambda x: (x != own, x)):
            rules = sorted({h.split()[1] for h in det[k]})
            parts.append(f"{k} ({', '.join(rules)})")
        out.append(f"| {m['id']} | {title.replace('|','/')} | {needs} | {'; '.join(parts) or '**missed**'} |")
    return "\n".join(out)

def neutral_table():
    out = ["| variant | edit | all 20 checks |", "|---|---|---|"]
    res = {}
    p = os.path.join(HERE, "selftest", "catalogue_results.json")
    if os.path.exists(p):
        res = json.load(open(p)).get("neutral", {})
    for f in sorted(glob.glob(os.path.join(HERE, "selftest", "neutral", "*.json"))):
        v = json.load(open(f))
        name = os.path.basename(f)[:-5]
        verdict = "silent" if res.get(name) == {} else ("not run" if name not in res else "ALARM " + ",".join(res[name]))
        out.append(f"| {name} | {v['description']} | {verdict} |")
    return "\n".join(out)

def refactoring_table():
    out = ["| refactoring | what it does (title given by its author) | all 20 checks |", "|---|---|---|"]
    res = {}
    p = os.path.join(HERE, "selftest", "catalogue_results.json")
    if os.path.exists(p):
        res = json.load(open(p)).get("neutral", {})
    for d in sorted(glob.glob(os.path.join(HERE, "selftest", "refactorings", "*"))):
        name = os.path.basename(d)
        title = ""
        rd = os.path.join(d, "README.md")
        if os.path.exists(rd):
            for l in open(rd):
                l = l.strip()
                if l:
                    title = re.sub(r"^#+\s*(r\d+\s*[-–—:.]\s*)?", "", l)
                    break
        title = title.replace("|", "/")[:160]
        hits = res.get(name)
        if hits is None:
            verdict = "not run"
        elif hits == {}:
            verdict = "silent"
        else:
            verdict = "reports " + ",".join(sorted(hits))
        note = NOTES.get(name)
        if note:
            verdict += " — " + note
        out.append(f"| {name} | {title} | {verdict} |")
    return "\n".join(out)

NOTES = {}
np_ = os.path.join(HERE, "selftest", "refactoring_notes.json")
if os.path.exists(np_):
    NOTES = json.load(open(np_))

def findings():
    fixed, known = [], []
    for l in open(os.path.join(HERE, "known_findings.txt")):
        l = l.rstrip("\n")
        if l.startswith("fixed:"):
            m = re.match(r"fixed: property=(\S+) (\S+) (.*)", l)
            fixed.append(f"| {m.group(1)} | `{m.group(2)}` | {m.group(3).replace('|','/')} |")
        elif l.startswith("known:"):
            m = re.match(r"known: property=(\S+) rule=(\S+) key=(.*?) :: (.*)", l)
            known.append(f"| {m.group(1)} | {m.group(2)} | `{m.group(3).replace('|','¦')}` | {m.group(4)[:330].replace('|','/')} |")
    return ("| property | commit in /repo | what failed |\n|---|---|---|\n" + "\n".join(fixed),
            "| property | rule | construct key | what fails and why it is not repaired |\n|---|---|---|---|\n" + "\n".join(known))

s = open(os.path.join(HERE, "DESIGN.md")).read()
fx, kn = findings()
for name, body in [("rules", rules_table()), ("seeded", seeded_table()), ("neutral", neutral_table()), ("refactorings", refactoring_table()), ("fixed", fx), ("known", kn)]:
    b, e = f"<!-- BEGIN GENERATED:{name} -->", f"<!-- END GENERATED:{name} -->"
    if b in s:
        s = s[:s.index(b) + len(b)] + "\n" + body + "\n" + s[s.index(e):]
    else:
        print("marker missing:", name)
open(os.path.join(HERE, "DESIGN.md"), "w").write(s)
