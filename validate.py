#!/usr/bin/env python3-vt
import json, jsonschema, glob, sys
m=json.load(open('/verif/MANIFEST.json')); s=json.load(open('/root/.vp/MANIFEST.schema.json'))
jsonschema.validate(m,s); print("manifest valid")
s=json.load(open('/root/.vp/EVIDENCE.schema.json'))
for f in sorted(glob.glob('/verif/evidence/C*.json')):
    jsonschema.validate(json.load(open(f)),s); print(f,"valid")
