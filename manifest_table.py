# one claim(...) per property with a check; everything else is listed as not applicable / not claimed
claim("C18",
      "exhaustive tag/type table rules (go/types) + SSA provenance and guard rules on the command builders",
      "Decides, exhaustively over all registered functions and all fields of CmdType/FilterType, that the tables the JSON round trip relies on are coherent (field present, unique, payload type identical, filter tags well-formed and structurally matching the function they name, JSON names unique) and that the builders wire function, selector/elements and delete/partial roles from the same function-data object. A necessary condition of the property, not the round-trip equality itself.",
      "Trusted: go/types and go/ssa of x/tools v0.29.0, the tag splitting rules of model.EEBusTags, encoding/json. Not decided: decode(encode(v)) == v on values.",
      "DESIGN.md §4 C18")
