# one claim(...) per property with a check; everything else is listed as not applicable / not claimed
claim("C18",
      "exhaustive tag/type table rules (go/types) + SSA provenance and guard rules on the command builders",
      "Decides, exhaustively over all registered functions and all fields of CmdType/FilterType, that the tables the JSON round trip relies on are coherent (field present, unique, payload type identical, filter tags well-formed and structurally matching the function they name, JSON names unique) and that the builders wire function, selector/elements and delete/partial roles from the same function-data object. A necessary condition of the property, not the round-trip equality itself.",
      "Trusted: go/types and go/ssa of x/tools v0.29.0, the tag splitting rules of model.EEBusTags, encoding/json. Not decided: decode(encode(v)) == v on values.",
      "DESIGN.md §4 C18")
claim("C02",
      "sibling-template matching over all 87 UpdateList methods + cross-wiring lint + type tables + SSA stage-order/provenance rules",
      "Decides that every per-type UpdateList method wires its own list field, its own parameters and the success&&persist condition into the generic engine (5 obligations x 87 siblings), that no partial/delete filter or remoteWrite/persist flag is cross-wired anywhere in the repository, that key, selector and elements types satisfy the preconditions of the reflective engine, that the engine runs delete, selector, merge and sort in that order on each other's output, and that the store replaces only when no filter is present. Necessary conditions of the update rules; the value-level fold is not decided.",
      "Trusted: go/types, go/ssa (x/tools v0.29.0). The merge/hash/sort logic inside the engine is computed by reflection on values and is outside what these rules decide.",
      "DESIGN.md §4 C02")
claim("C17",
      "interprocedural lockset analysis on SSA (guarded-by inference, atomic consistency, RW mode, lock pairing, lock-order cycle detection)",
      "Decides, for every struct field of package spine and every function of spine and model, that locking is consistent: each field with a locked write is accessed only under the lock common to its accesses (inferred on every run, 21 guarded fields and 4 atomic fields on the pinned tree), no write or mutating library call happens under a read lock, every Lock is released on every path, and the held->acquired order over all 20+ mutexes along synchronous call edges (through interfaces, promoted-method wrappers, generic instantiations and synchronously run closures) is acyclic. A lockset argument: necessary for, not equal to, freedom from data races and deadlocks.",
      "Trusted: go/ssa, the call graph (static, VTA, CHA fallback); go statements and timers start lock-free contexts; external interfaces (SHIP writer, application callbacks) do not call back synchronously. A mutable field that is never guarded is reported (none on the tree since the five fix commits of session 5).",
      "DESIGN.md §4 C17")
claim("C01",
      "path-sensitive effect counting over a finite abstraction (SSA path enumeration with callee summaries) + provenance rules on response builders and call sites",
      "Decides, for all 84 valuations of (classifier, ackRequest, approval callbacks, payload kind), on every path class of the call tree rooted at ProcessCmd how many error results, success results and replies are sent, and compares them with the SPINE classifier table (never a response to a result, never two, exactly one error for a rejected message, one reply for an accepted read, acknowledgement iff requested, write answered by the write executor). Decides how the two response builders and all 17 call sites address the response. Necessary conditions; payload values and message histories are not decided.",
      "Trusted: go/ssa, call resolution (static, VTA, CHA fallback); loops are unrolled at most once; the abstraction of the datagram to four dimensions; sender methods send one datagram per call.",
      "DESIGN.md §4 C01")
claim("C08",
      "dominance guards + truth-table simulation of the role/type checker + lockset critical-section rule + retain-predicate truth tables + structural fan-out rule + path effect counting",
      "Decides what gates the insertion of a subscription (every grant condition dominates it; the role/type checker is simulated over all 16 assignments of its four comparisons), that the duplicate scan and the insertion are one critical section, what exactly the two removals keep (boolean retain formula evaluated over all assignments), that a miss is an error, that NotifySubscribers sends one correctly wired Notify per entry of the per-feature query, and that SetData/UpdateData/remote writes notify exactly once iff the store succeeded. Necessary conditions; value semantics of the equalities and histories are not decided.",
      "Trusted: go/ssa, go/types; reflect.DeepEqual and the address getters are uninterpreted.",
      "DESIGN.md §4 C08")
claim("C09",
      "lockset critical-section rule + retain-predicate truth tables + dominance guards + truth-table simulation of the role/type checker",
      "Decides that the single-binding look-up and the insertion share one critical section of the lock held at every insertion site (and that a look-up exists), that RemoveBinding keeps an entry iff not (client address and server feature both equal) and the per-entity removal iff not (peer and entity both equal) — evaluated over all assignments of the comparison atoms —, and that every grant condition dominates the insertion. Necessary conditions of the registry property; interleavings beyond the check/insert split and registry contents over histories are not decided.",
      "Trusted: go/ssa, go/types; reflect.DeepEqual and the address getters are uninterpreted.",
      "DESIGN.md §4 C09")
claim("C03",
      "constant propagation of the remoteWrite flag + call-graph route rule + path-sensitive gate/effect enumeration + provenance of gate arguments",
      "Decides that remoteWrite=true has a single origin reachable only through HandleMessage/ApproveOrDenyWrite, that for classifier write every effect (store, notification, publication, acknowledgement, approval callback) is preceded on every path by the pass edges of the three authorisation gates read at processing time, that the gates work on the addressed local feature, the looked-up source feature and the command's own function, and that every denied path sends exactly one error result and nothing else. Necessary conditions of the authorisation property; registry value semantics and histories are not decided.",
      "Trusted: go/ssa and call resolution; loops unrolled at most once; the datagram abstraction; HasLocalFeatureRemoteBinding is checked separately (C09-R6).",
      "DESIGN.md §4 C03")
claim("C07",
      "lockset critical-section rules + who-may-call/provenance of feature ids + path effect counting + dominance and structural rules",
      "Decides that the feature-id generator runs only under its lock inside NextFeatureId and that every local feature constructed in the repository draws its id from it, that look-up and creation of a feature are one critical section decided by a (type, role) scan, that AddEntity/RemoveEntity send exactly one detailed-discovery notification with the constant state added/removed (features attached iff added, list updated first), that the discovery reply is assembled unconditionally from the live getters, and that Operations.Information wires the four flags. Necessary conditions; equality of announcements with the configuration over all configurations is not decided.",
      "Trusted: go/ssa, call resolution; loops unrolled at most once.",
      "DESIGN.md §4 C07")
claim("C13",
      "atomic-consistency and lockset rules + provenance of counters and hash inputs + dominance rules on caching and eviction",
      "Decides that the message counter is only touched atomically (and is 8-aligned under 32-bit layout), that each of the 5 header builders draws its counter from its own call of the counter function, that only the sender transmits, that Notify caches its datagram under its counter before transmitting, that Request's look-up, transmission and insertion are one critical section with insertion only after a successful transmission and after a bounded eviction, that every inbound reference is cleared before processing, and that the hash covers destination and command. Necessary conditions; LRU retention and collisions are not decided.",
      "Trusted: go/ssa, go/types sizes for 386, the lrucache library.",
      "DESIGN.md §4 C13")
claim("C15",
      "lockset rules + dominance rules in Publish + retain-predicate truth table + call-graph reachability",
      "Decides that the handler list is only touched under its lock, that no handler runs while that lock is held, that core-level handlers are called and all others started with go, core level first, over a snapshot copied under the lock, that unsubscribe removes exactly the (level, handler) pair and subscribe de-duplicates atomically, and that no core-level handler type can synchronously reach Publish again. Necessary conditions; exactly-once delivery under concurrent publication is a schedule property and not decided.",
      "Trusted: go/ssa, call resolution; application handlers are external.",
      "DESIGN.md §4 C15")
claim("C16",
      "lockset critical-section rules (check-then-close, stop/create/spawn) + abstract-domain rule on the ticker period + structural loop rules + path effect counting",
      "Decides that the stop channel is only touched under its lock, that the running-check deciding the close and the close are one critical section (no double close), that stop, channel creation and goroutine start are one critical section handing the new channel to the goroutine (no leaked stream), that the counter is atomic, that the ticker period is by construction never more than the announced timeout, that the loop has a returning stop case and refreshes through SetData with a fresh counter, and that RemoveEntity stops a present manager. Necessary conditions; periodicity and in-flight refreshes are timing properties and not decided.",
      "Trusted: go/ssa, time.Ticker.",
      "DESIGN.md §4 C16")
claim("C04",
      "dominance/reachability under finite atom assignments on the update engine + ownership analysis + tag tables + constant propagation",
      "Decides, on the remote-write path of the update engine and the store, whether the wholesale replace path is open to remote writes, whether existing items are written in place before the outcome is known, whether each failure flag is control-dependent on the item being addressed, whether any mutator call or replacement is reachable with an unchangeable item (CFG reachability with writeAllowed=false, remoteWrite=true fixed), whether the reflective mutators consult the writecheck tag and whether the tag-aware one restores the flag (three reachability questions), plus the writecheck tag table. Today's tree has 9 recorded known findings (pinned by tests or not small); everything else holds. Necessary conditions; element-level outcomes over all write shapes are not decided.",
      "Trusted: go/ssa; reflection summarised by the ValueOf(param).Elem()...Set pattern; writeAllowed is uninterpreted.",
      "DESIGN.md §4 C04")
claim("C11",
      "ownership analysis: computed write-through summaries propagated over the call graph + alias rules on the store field + dominance rules",
      "Decides which code can write memory shared between the function-data store, snapshots handed out and event payloads: write-through summaries (pointer stores, element stores, reflect Set, in-place sorts) are computed for ~150 functions and propagated from the stored object and from DataCopy results down to the sites that write elements of a slice they do not own; plus: no caller object is stored, the stored pointer never escapes, DataCopy copies, stores happen only when persisting, siblings assign only under success&&persist. 5 known findings (in-place engine, pinned by tests; returned persisted list). Necessary conditions of snapshot stability.",
      "Trusted: go/ssa, call resolution; DataCopy is shallow by design so everything rests on nothing writing shared lists in place (which is what is decided).",
      "DESIGN.md §4 C11")
claim("C20",
      "lockset read-modify-write rule + ownership rule + sibling/provenance rules",
      "Decides that in each of the four use-case mutators the DataCopy and the SetData of the modified copy share one critical section of one common lock, that no use-case helper writes shared list elements in place, that all five methods key by the entity's own device+entity address, copy the use-case function and delegate to the matching helper, that RemoveEntity clears the entity's use cases and that the read is answered from the stored function. Necessary conditions; registry contents over histories are not decided.",
      "Trusted: go/ssa, call resolution.",
      "DESIGN.md §4 C20")
claim("C06",
      "guard-action coherence by access-path provenance + CFG reachability under finite assignments + dominance rules on the removal cascade + wiring rules",
      "Decides that the entity removed by a discovery notification is the very element whose state was tested, that entries announced as removed are unreachable for creation and feature reset on the add path, that a removal which found the entity is followed by exactly one entity-removed event and the three clean-ups for that entity (and none otherwise), that entity-added events are published once per element of the list of newly created entities (which grows only on a look-up miss), and that SetOperations/NewOperations wire read/write/partial flags from the matching sub-elements. Necessary conditions; equality of the resulting tree with the fold of all announcements is not decided.",
      "Trusted: go/ssa; getters uninterpreted.",
      "DESIGN.md §4 C06")
claim("C10",
      "retain-predicate truth tables + lockset/dominance rules on timers + structural completeness rule of the teardown + event placement rules",
      "Decides that the per-entity registry removals compare the peer as well as the entity and the four client-side clean-ups keep exactly the entries of other devices/entities (boolean retain formula over all assignments), that dropping a peer's pending approvals stops their timers in the same critical section, that RemoveRemoteDevice performs every clean-up step unconditionally for the removed peer over all features of all local entities with the map changed under its lock, and that removal events are published exactly in the removal branch and once per connection removal. Necessary conditions; 'and only' beyond the predicates and later datagrams are not decided.",
      "Trusted: go/ssa, go/types; DeepEqual/getters uninterpreted.",
      "DESIGN.md §4 C10")
claim("C12",
      "lockset claim-by-test-and-delete rule + outer-key guard + path effect counting of both resolvers + finite truth table of the tally",
      "Decides that the per-peer maps are created only on a miss of the outer key, that each resolver (ApproveOrDenyWrite and the timeout callback) claims the pending entry by a comma-ok look-up and delete in one critical section and produces its outcome only after a successful claim, that the timer is armed and stored under the lock, that a claimed write yields exactly one outcome on every path and an unclaimed one none, that each callback is started once, the entry armed first, and that the tally logic reaches the claim exactly when denied, single-callback or unanimous. Necessary conditions; timing is not decided.",
      "Trusted: go/ssa, time.AfterFunc semantics.",
      "DESIGN.md §4 C12")
claim("C14",
      "lockset rules on the callback tables + path effect counting from every HandleMessage implementation + provenance of trigger arguments",
      "Decides that look-up, start and delete of the callbacks of one counter are one critical section with de-duplicating registration under the same lock, that on both HandleMessage implementations an accepted reply triggers the response callbacks exactly once iff a reference is present (rejected: never) and an accepted result triggers response and result callbacks once each, and that every trigger is keyed by the inbound msgCounterReference with a ResponseMessage carrying the receiver and the message's remote feature/entity/device. Necessary conditions; callback identity and registration racing arrival are not decided.",
      "Trusted: go/ssa, call resolution; loops unrolled at most once.",
      "DESIGN.md §4 C14")
claim("C05",
      "wire-taint + nilability dataflow with dominating-guard facts, validator summaries and caller-established facts; reachability rules on reflection; lock pairing/order in the inbound tree",
      "Decides, over the ~3400 functions (with instantiations) synchronously reachable from HandleSpineMesssage, that each of ~730 dereferences, field accesses, constant indexes, unchecked assertions and explicit panics on wire-derived optional data is guarded on the same access path (dominating test, validator summary, or a test every wire-carrying caller makes), that the reflective selector match only calls Elem on non-nil pointers, that the decode error is tested first, and that the inbound tree cannot wedge on its own locks or block on a channel. On the pinned tree this found 37 crash sites, all repaired by fix commits. A necessary condition of crash freedom for the repository's own code; dependencies and value-dependent panics are not decided.",
      "Trusted: go/ssa, call resolution; two invariants are imported from exhaustive table rules (non-empty fct tags, payload types); state-derived nil is outside the taint.",
      "DESIGN.md §4 C05")
claim("C19",
      "writer/reader layout tables + violation-pattern rule on float->integer conversion + provenance of scale and exponent",
      "Decides only the structural part of the conversions: every layout a textual-form constructor writes is in the parser's layout table and both sides use UTC; the scaled product is rounded, not truncated, before conversion; scale and exponent come from the same decimal count and GetValue multiplies number by ten to the scale; duration writer and reader use the same library and relative end times are rounded to the second. The exactness of the round trips themselves (binary floating point, library arithmetic) is NOT decided by static analysis; the claim is deliberately narrow.",
      "Trusted: time.Format/ParseInLocation, the period library, math.Round.",
      "DESIGN.md §4 C19")

# Rules added after the first claim (most of them after a seeded change had been missed, DESIGN.md §10.1);
# appended to the level text by gen_manifest.py.
ADDENDA = {
    "C01": " Also decided: the error-result sites name the look-up on the local device with the datagram's destination; address look-ups never match by prefix; no approval timer outlives its peer. Round 3: the read handler's role tests form the required truth table (server and special answered, client rejected); a pending write is claimed atomically by whoever answers it.",
    "C02": " Also decided: the comparator the merged list is sorted with is a lexicographic ascending '<' over the key values (truth table over the three relations, by CFG simulation of the sort closure). Also decided: truth tables of model.Merge (per existing and per new item), of FilterData.SelectorMatch and of the delete stage, and that the identity string separates its key parts. Round 3: the filters of a received command are extracted for every classifier and wired partial-as-partial / delete-as-delete; unmentioned fields of any kind are carried over on every path of the per-field iteration.",
    "C03": " Also decided: the gate objects are found in ProcessCmd or in single-call-site helpers of it; a binding is revoked exactly for its own client (retain truth tables of RemoveBinding and RemoveBindingsForEntity). Round 3: the binding list is rebuilt atomically; the per-feature listing behind the gate compares whole addresses.",
    "C04": " Also decided: failure monotonicity of the generic engine (under every assignment of stage outcomes a path on which a failed stage ran returns false), and the success && persist guard of all per-type UpdateList siblings. Also decided: truth tables of model.Merge and of the delete stage (no item disappears silently), cross-wiring lint over the update roles including field selectors. Round 3: must-fill of the tag-aware mutator (every path of the iteration).",
    "C05": " Also covered: getters whose field is nil by construction (derived from constructors called with nil, e.g. the address of a remote device before discovery) and custom JSON decoders as additional roots of the inbound tree. Also decided: inbound discovery data cannot remove the remote NodeManagement feature; API entry points that receive an inbound message back from the application are roots of the nil analysis. Round 3: CmdType.Data succeeds only for tagged fields; registered payload types equal the command element types; data-model fields that constructors fill from a getter nil by construction are nilable; lock-order cycles through any lock of the inbound tree, also against application calls.",
    "C06": " Also decided: the element removed is the same list element (loop variable) as the one tested; RemoveAllFeatures dominates every AddFeature on an existing remote entity; the retain truth tables of the per-entity clean-ups. Round 3: the loop over announced entries is left early only by an error return; generated entries do not share a reassigned state cell; the clean-up steps of the cascade are atomic.",
    "C07": " Also decided: retain truth table of RemoveEntity (a rebuild loop left with break is a violation); every read-modify-write of the entity and feature lists lies in one critical section. Round 3: the entity and feature lists are copy-on-write and never the backing array of another list; shared retain table of the per-entity subscription removal; slice-equality lint.",
    "C08": " Also decided: the fan-out loop has no early exit; every read-modify-write of the subscription list lies in one critical section. Round 3: the subscription list is never the backing array of another list.",
    "C09": " Also decided: every read-modify-write of the binding list lies in one critical section. Round 3: the delete pre-check is asked about the features resolved on the local and on the requesting device; the binding list is never the backing array of another list.",
    "C10": " Also decided: registries and client-side caches are rebuilt atomically (read and store in one critical section); the entity-removal cascade applies each clean-up to the removed entity's own address. Round 3: retain conditions may not depend on look-up results being nil; a rebuild ranges over the list it replaces; the core handler is unsubscribed only under 'device map empty'.",
    "C11": " Also decided: one level of shallow cloning is tracked (the inner lists of the elements of a cloned list are still shared); failure monotonicity of the engine. Round 3: append to a reslice, copy and slices.Delete*/Insert/Compact* count as element writes; no address of a mutable state field is handed out; the stored pointer is not passed to callees that may retain it.",
    "C12": " Also decided: key granularity of deletions on the per-peer maps (a function that addresses single writes never deletes a peer's whole entry). Round 3: no lock-order cycle through the locks of the local feature.",
    "C13": "",
    "C14": " Round 3: response callbacks get the data read from the received command; slice-equality lint on the routing look-ups.",
    "C15": " Also decided: the loop over the levels strictly encloses the loop over the handlers; every read-modify-write of the handler list lies in one critical section. Round 3: the stack's own core handler is unsubscribed only when the device map is empty (size read after the delete in its critical section).",
    "C16": " Also decided: the refresh goroutine is only spawned when the local feature is known; the fan-out reaches every subscriber. Round 3: the counter is only ever incremented (atomic Add with a positive constant).",
    "C17": " Also decided: the ownership rule C11-O3 as a race rule (no in-place write into data reachable from snapshots that are read without locks). Round 3: the store never keeps a caller's object (no alias in).",
    "C18": " Also decided: no pointer-to-interface reaches the reflective setters; a field rewritten by both MarshalJSON and UnmarshalJSON is rewritten under the same presence conditions. Round 3: the function of a decoded command comes from the tag only; presence of an element is decided from the field, not its pointee; the emitted remaining duration is not clamped.",
    "C19": " Also decided: encoder/decoder guard agreement of the time period, and the FormatFloat parameters the decimal count is derived from. Round 3: the duration reader rejects only what the parser rejects; constructors never store the address of a package-level variable; MarshalJSON has a value receiver.",
    "C20": " Also decided: the lock of the copy-modify-store cycle is as wide as the data (not per entity); hand-written slice comparisons test lengths for equality. Round 3: remove-all is a retain loop over the address (every actor's entry goes); in-place compaction of the shared use-case lists is an element write.",
}

# Rules added in rounds 4 and 5 of the seeded changes (DESIGN.md §10.1, "Fourth round", "Fifth round").
ROUND45 = {
    "C01": " Rounds 4-5: the result builder carries the error's own number (0 without an error); CmdType.Data takes the function from the tag of the field it returns; per-write approval bookkeeping never touches the peer's other writes; the command builders of the function data assign no field (no memoised reply).",
    "C02": " Rounds 4-5: ExtractFilter examines every filter of the command (no early exit from its loop).",
    "C03": " Rounds 4-5: RemoveEntityByAddress drops exactly the entity it hands to the clean-up (retain truth table), so no entity loses its place in the tree while keeping its bindings.",
    "C04": " Rounds 4-5: no reflective Set through the pointee of a field (a mutator replaces pointers, it never writes what they point to).",
    "C05": " Rounds 4-5: results of repository look-ups that can miss (one pointer/interface result with a constant-nil return; derived on every run) are nilable: every method call, dereference or field access through them in the inbound tree needs a dominating non-nil test; constant indexes into wire text need a length test; the NodeManagement feature of entity [0] is restored by a look-up of its address only; CmdType.Data pairs function and value of the same field (shared with C18).",
    "C06": " Rounds 4-5: the per-entry add and remove of a notification do not depend on earlier entries (no loop-carried condition); the removed-entity search of a full notification ranges over the peer's complete entity list; RemoveEntityByAddress drops exactly the entity it returns; a re-announced entity is rebuilt whenever its description is stored; the learned device address is given to every announced entity that lacks it.",
    "C07": " Rounds 4-5: the announcement renderers (Information of device, entity, feature) keep no rendered result and assign no field; the duplicate scan of the node-management subscription compares whole feature objects.",
    "C08": " Rounds 4-5: the subscription id counter only grows (atomic add of a positive constant); the duplicate scan compares the whole client feature object; every announced remote entity gets the learned device address (RemoveSubscription matches on it).",
    "C09": " Rounds 4-5: the binding id counter only grows; entity look-ups by rendered key need a separator (shared slice-comparison lint).",
    "C10": " Rounds 4-5: RemoveEntityByAddress drops exactly the entity it returns (retain truth table).",
    "C11": " Rounds 4-5: the object put into the store is not also returned; an element copied out of a shallow clone still shares its inner slices with the source (slices.Clip or a reslice do not make them private).",
    "C12": " Rounds 4-5: the tally is compared with the number of callbacks itself, operator '<'; a registration is refused only under the role test.",
    "C13": " Rounds 4-5: the eviction is decided by the constant bound alone, its candidate list is not a zero-filled slice that is only appended to; the clear operation deletes iff a reference is given and cached (truth table); the content of destination and command reaches the digest (a length or comparison result does not count); no arithmetic on the issued counter.",
    "C15": " Rounds 4-5: a handler subscribed at core level starts no goroutine (its work is done when Publish returns); the stack's core subscription is unconditional in the function that sets up a peer.",
    "C17": " Rounds 4-5: no pointer into live state is handed out (shared with C11-O7); writes into a local struct copy are not writes into the state it was copied from. The eight never-guarded fields recorded as known findings until then were repaired in /repo (five fix commits) and are now decided like every other guarded field.",
    "C18": " Rounds 4-5: conditional name table T6 — if a reflective accessor looks a field up by a name computed from the function, every tagged field must be named after its function (exhaustive).",
    "C19": " Rounds 4-5: no float-to-integer conversion of a parsed or divided quantity without rounding.",
    "C20": " Rounds 4-5: address keys may be read through the entity's Address() getter.",
}
for _k, _v in ROUND45.items():
    ADDENDA[_k] = ADDENDA.get(_k, "") + _v

# Rules added after the own probes and round 6 of the seeded changes (DESIGN.md §10.1, "Sixth round", "Own probes").
ROUND6 = {
    "C01": " Round 6: the claim of a pending write is atomic under the lock that guards the pending map (a section of another lock spanning look-up and delete does not count); the result builder does not depend on ackRequest; the binding look-up compares addresses by value (shared with C03/C09).",
    "C02": " Round 6: the stages of the generic UpdateList are chained (every stage result is used, every later stage works on the list the delete stage left); the filters are extracted whatever the command's optional function element says; handlers hand the store the message's filter pair and never re-read filters from the command.",
    "C03": " Round 6: the removal cascade revokes the bindings of a removed entity in the same iteration; a refused write is answered with or without ackRequest.",
    "C04": " Round 6: engine stage results are used and chained; filters are extracted for every write (a lost filter makes a partial write a wholesale replacement).",
    "C05": " Round 6: constant slice bounds on wire data need a length test; a custom decoder returns no error of its own.",
    "C06": " Round 6: additions are applied in the loop that applies removals; only the removal that returns the entity shrinks a peer's entity list; the event handler list is never modified in place; the device-address completion does not depend on whether the entity was known.",
    "C07": " Round 6: the discovery reply reads the entity list once; AddFunctionType has no early exit besides the role refusal and 'already registered'.",
    "C08": " Round 6 and probes: the duplicate test rejects on the compared components alone; the reported list is wired entry by entry from the registry entry; the outcome of Add/RemoveSubscription is the handler's outcome; util.DeepCopy gets a fresh destination and copies through encoding/json; feature constructors keep the announced type.",
    "C09": " Round 6 and probes: as C08 for bindings (single-binding test rejects on the server feature alone; reported list; outcome forwarded; DeepCopy; type kept).",
    "C10": " Round 6: only the removal that returns the entity shrinks a peer's entity list.",
    "C11": " Round 6 and probes: the store's persist flag is the one handed to the per-type UpdateList; no address of a package-level variable is stored into data-model values, also not as one alternative of a choice.",
    "C12": " Round 6: the claim is atomic under the guarding lock (see C01).",
    "C13": " Round 6: a custom decoder returns no error of its own (a reply that cannot be decoded never clears its request).",
    "C14": " Round 6: the merge run by the cache update leaves the received items alone (truth table of model.Merge, shared with C02).",
    "C15": " Round 6 and probes: the level filter is an equality test; no lock-order cycle passes through a lock of the event bus.",
    "C16": " Round 6 and probes: every tick refreshes (no condition between select and SetData); the duration reader returns the parsed value unmodified; no computed string becomes a temporal type outside package model.",
    "C18": " Round 6: every filter value a builder computes reaches the filter list (flow-sensitive).",
    "C19": " Round 6: normalising parse; reader returns the parsed duration unmodified; temporal text is produced by the model's constructors only; decoders add no rejection.",
    "C20": " Round 6: no address of a package-level variable in use-case data (choices included).",
}
for _k, _v in ROUND6.items():
    ADDENDA[_k] = ADDENDA.get(_k, "") + _v

# Rules shared between neighbouring properties in the seventh session (DESIGN.md §10.1, "Six changes ...").
ROUND7 = {
    "C07": " Session 7: the partial / delete filters of the entity notifications carry the control kind their builder was asked for (C18-R6c, imported as R17).",
    "C11": " Session 7: the copy-modify-store cycles on the use-case data are atomic under one device-wide lock (C20-R1, run as O9): an unlocked cycle lets two appends write the spare slot of a backing array a snapshot shares.",
    "C12": " Session 7: application event handlers are started asynchronously by Publish, core handlers synchronously (C15-R3, imported as R13): a verdict given from a handler cannot wait on Publish.",
    "C16": " Session 7: the timestamp written is in the parser's layout table and UTC on both sides (C19-R1, run as R14).",
    "C18": " Session 7: no unguarded index or constant slice on wire-optional data on the path that recognises the function of a command (C05-R2, imported as R9).",
    "C20": " Session 7: the function-data store hands out copies taken under its lock and never the stored pointer (C11-O2, imported as R10).",
}
for _k, _v in ROUND7.items():
    ADDENDA[_k] = ADDENDA.get(_k, "") + _v

# Rules added after round 7 of the seeded changes (stale state across a lifecycle; DESIGN.md §10.1 "Seventh round").
ROUND7B = {
    "C01": " Round 7: no closure works on a captured alias of a state map (the timeout closure reloads the pending map from the feature).",
    "C02": " Round 7: the store applies an update by exactly one call of Updater.UpdateList.",
    "C04": " Round 7: the store applies an update by exactly one call of Updater.UpdateList (no separately persisted delete stage).",
    "C06": " Round 7: after the feature list of a re-announced entity was wiped, every feature added is the one object built from the announcement.",
    "C10": " Round 7: no closure works on a captured alias of a state map (a timer armed before the teardown cannot find its entry in an unlinked per-peer map).",
    "C11": " Round 7: single application of an update (a refused update leaves no persisted first stage behind).",
    "C12": " Round 7: no closure works on a captured alias of a state map.",
}
for _k, _v in ROUND7B.items():
    ADDENDA[_k] = ADDENDA.get(_k, "") + _v
