package main

// E11 — boolean path evaluation inside one function.
//
// Enumerates the acyclic paths of a function under a fixed assignment of a few
// boolean "atoms" (SSA values), evaluating phis on block entry and following
// only the feasible branch where the condition is decided by the assignment.
// Used for rules of the form "whenever X failed on the path, the function
// returns false".

import (
	"fmt"
	"go/token"
	"go/types"
	"sort"
	"strings"

	"golang.org/x/tools/go/ssa"
)

type bool3 int

const (
	bUnknown bool3 = iota
	bFalse
	bTrue
)

func b3(v bool) bool3 {
	if v {
		return bTrue
	}
	return bFalse
}

type boolPath struct {
	Blocks []*ssa.BasicBlock
	Env    map[ssa.Value]bool3
	Calls  map[ssa.Instruction]bool
	Ret    *ssa.Return
}

type boolPaths struct {
	fn    *ssa.Function
	sigma map[ssa.Value]bool // atoms
	// isNilAtom: conditions of the form x == nil decided by the caller (optional)
	cond  func(c ssa.Value) (known, val bool)
	limit int
	n     int
}

func (bp *boolPaths) eval(v ssa.Value, env map[ssa.Value]bool3) bool3 {
	if val, ok := bp.sigma[v]; ok {
		return b3(val)
	}
	if e, ok := env[v]; ok {
		return e
	}
	switch x := v.(type) {
	case *ssa.Const:
		if b, ok := constBool(x); ok {
			return b3(b)
		}
	case *ssa.UnOp:
		if x.Op == token.NOT {
			switch bp.eval(x.X, env) {
			case bTrue:
				return bFalse
			case bFalse:
				return bTrue
			}
		}
	case *ssa.BinOp:
		if x.Op == token.EQL || x.Op == token.NEQ {
			a, b := bp.eval(x.X, env), bp.eval(x.Y, env)
			if a != bUnknown && b != bUnknown {
				return b3((a == b) == (x.Op == token.EQL))
			}
		}
	}
	if bp.cond != nil {
		if known, val := bp.cond(v); known {
			return b3(val)
		}
	}
	return bUnknown
}

// walk calls visit for every path from the entry to a return.
func (bp *boolPaths) walk(visit func(boolPath)) {
	if bp.limit == 0 {
		bp.limit = 20000
	}
	var dfs func(b, prev *ssa.BasicBlock, onPath map[*ssa.BasicBlock]bool, path []*ssa.BasicBlock, env map[ssa.Value]bool3, calls map[ssa.Instruction]bool)
	dfs = func(b, prev *ssa.BasicBlock, onPath map[*ssa.BasicBlock]bool, path []*ssa.BasicBlock, env map[ssa.Value]bool3, calls map[ssa.Instruction]bool) {
		if bp.n > bp.limit || onPath[b] {
			return
		}
		onPath[b] = true
		defer delete(onPath, b)
		path = append(path, b)
		// phis
		var setHere []ssa.Value
		if prev != nil {
			idx := -1
			for i, pb := range b.Preds {
				if pb == prev {
					idx = i
				}
			}
			vals := map[ssa.Value]bool3{}
			for _, ins := range b.Instrs {
				phi, ok := ins.(*ssa.Phi)
				if !ok {
					break
				}
				if idx >= 0 && idx < len(phi.Edges) {
					vals[phi] = bp.eval(phi.Edges[idx], env)
				}
			}
			for k, v := range vals {
				env[k] = v
				setHere = append(setHere, k)
			}
		}
		var callsHere []ssa.Instruction
		for _, ins := range b.Instrs {
			if ci, ok := ins.(ssa.CallInstruction); ok {
				if !calls[ci] {
					calls[ci] = true
					callsHere = append(callsHere, ci)
				}
			}
		}
		undo := func() {
			for _, k := range setHere {
				delete(env, k)
			}
			for _, c := range callsHere {
				delete(calls, c)
			}
		}
		defer undo()
		switch last := b.Instrs[len(b.Instrs)-1].(type) {
		case *ssa.Return:
			bp.n++
			e2 := map[ssa.Value]bool3{}
			for k, v := range env {
				e2[k] = v
			}
			c2 := map[ssa.Instruction]bool{}
			for k := range calls {
				c2[k] = true
			}
			visit(boolPath{Blocks: append([]*ssa.BasicBlock(nil), path...), Env: e2, Calls: c2, Ret: last})
		case *ssa.If:
			switch bp.eval(last.Cond, env) {
			case bTrue:
				dfs(b.Succs[0], b, onPath, path, env, calls)
			case bFalse:
				dfs(b.Succs[1], b, onPath, path, env, calls)
			default:
				dfs(b.Succs[0], b, onPath, path, env, calls)
				dfs(b.Succs[1], b, onPath, path, env, calls)
			}
		default:
			for _, s := range b.Succs {
				dfs(s, b, onPath, path, env, calls)
			}
		}
	}
	dfs(bp.fn.Blocks[0], nil, map[*ssa.BasicBlock]bool{}, nil, map[ssa.Value]bool3{}, map[ssa.Instruction]bool{})
}

// stageOK describes a call to a repository function returning (..., bool) whose
// boolean result is extracted.
type stageOK struct {
	Call *ssa.Call
	OK   ssa.Value // the Extract of the last (bool) result
}

func stageCalls(fn *ssa.Function) []stageOK {
	var res []stageOK
	for _, b := range fn.Blocks {
		for _, ins := range b.Instrs {
			c, ok := ins.(*ssa.Call)
			if !ok {
				continue
			}
			callee := c.Call.StaticCallee()
			if callee == nil || !hasPrefixStr(fnPkgPath(callee), repoMod) {
				continue
			}
			res0 := callee.Signature.Results()
			if res0.Len() < 2 || !isBoolType(res0.At(res0.Len()-1).Type()) {
				continue
			}
			if c.Referrers() == nil {
				continue
			}
			for _, ref := range *c.Referrers() {
				if ex, ok := ref.(*ssa.Extract); ok && ex.Index == res0.Len()-1 {
					res = append(res, stageOK{c, ex})
				}
			}
		}
	}
	return res
}

func isBoolType(t types.Type) bool {
	b, ok := t.Underlying().(*types.Basic)
	return ok && b.Kind() == types.Bool
}

func hasPrefixStr(s, p string) bool { return len(s) >= len(p) && s[:len(p)] == p }

// failureMonotone: on every path of fn, if a stage that ran returned ok=false
// then the boolean result of fn is false. Returns the violations as text.
func failureMonotone(p *Prog, fn *ssa.Function) (nStages, nPaths int, bad []string, undecided []string) {
	stages := stageCalls(fn)
	nStages = len(stages)
	if nStages == 0 || nStages > 8 {
		return
	}
	resIdx := fn.Signature.Results().Len() - 1
	seen := map[string]bool{}
	for m := 0; m < 1<<uint(nStages); m++ {
		sigma := map[ssa.Value]bool{}
		for i, s := range stages {
			sigma[s.OK] = m&(1<<uint(i)) != 0
		}
		bp := &boolPaths{fn: fn, sigma: sigma}
		bp.walk(func(path boolPath) {
			nPaths++
			var failed []string
			for _, s := range stages {
				if path.Calls[s.Call] && !sigma[s.OK] {
					failed = append(failed, p.StableName(s.Call.Call.StaticCallee()))
				}
			}
			if len(failed) == 0 {
				return
			}
			sort.Strings(failed)
			rv := path.Ret.Results[resIdx]
			got := bp.eval(rv, path.Env)
			if got == bFalse {
				return
			}
			msg := fmt.Sprintf("return at %s yields %s although %v reported failure on the path", p.InstrPos(path.Ret), map[bool3]string{bTrue: "true", bUnknown: "an undetermined value"}[got], failed)
			if seen[msg] {
				return
			}
			seen[msg] = true
			if got == bTrue {
				bad = append(bad, msg)
			} else {
				undecided = append(undecided, msg)
			}
		})
	}
	return
}

// reachableUnderPhi: like reachableUnder, but boolean phis (conditions computed
// by && / || into a named variable) are evaluated along the path, so that a
// guard written as "ok := a && b; if ok {…}" decides as much as "if a && b {…}".
func reachableUnderPhi(fn *ssa.Function, target ssa.Instruction, atom func(cond ssa.Value) (known bool, val bool)) bool {
	type state struct {
		b   *ssa.BasicBlock
		sig string
	}
	seen := map[state]bool{}
	var eval func(v ssa.Value, env map[ssa.Value]bool3, d int) bool3
	eval = func(v ssa.Value, env map[ssa.Value]bool3, d int) bool3 {
		if d > 20 {
			return bUnknown
		}
		if known, val := atom(v); known {
			return b3(val)
		}
		if e, ok := env[v]; ok {
			return e
		}
		if b, ok := constBool(v); ok {
			return b3(b)
		}
		if u, ok := v.(*ssa.UnOp); ok && u.Op == token.NOT {
			switch eval(u.X, env, d+1) {
			case bTrue:
				return bFalse
			case bFalse:
				return bTrue
			}
		}
		if call, ok := v.(*ssa.Call); ok && predicateCallee(call) != nil {
			return predicate3(call, func(w ssa.Value) bool3 { return eval(w, env, d+1) }, 0)
		}
		return bUnknown
	}
	var dfs func(b, prev *ssa.BasicBlock, env map[ssa.Value]bool3) bool
	dfs = func(b, prev *ssa.BasicBlock, env map[ssa.Value]bool3) bool {
		// phis of bool type
		if prev != nil {
			idx := -1
			for i, pb := range b.Preds {
				if pb == prev {
					idx = i
				}
			}
			vals := map[ssa.Value]bool3{}
			for _, ins := range b.Instrs {
				phi, ok := ins.(*ssa.Phi)
				if !ok {
					break
				}
				if isBoolType(phi.Type()) && idx >= 0 && idx < len(phi.Edges) {
					vals[phi] = eval(phi.Edges[idx], env, 0)
				}
			}
			if len(vals) > 0 {
				e2 := map[ssa.Value]bool3{}
				for k, v := range env {
					e2[k] = v
				}
				for k, v := range vals {
					e2[k] = v
				}
				env = e2
			}
		}
		if b == target.Block() {
			return true
		}
		var keys []string
		for k, v := range env {
			keys = append(keys, fmt.Sprintf("%s=%d", k.Name(), v))
		}
		sort.Strings(keys)
		st := state{b, fmt.Sprint(keys)}
		if seen[st] {
			return false
		}
		seen[st] = true
		if ifi, ok := b.Instrs[len(b.Instrs)-1].(*ssa.If); ok {
			c, pol := normCond(ifi.Cond, true)
			switch eval(c, env, 0) {
			case bTrue:
				if pol {
					return dfs(b.Succs[0], b, env)
				}
				return dfs(b.Succs[1], b, env)
			case bFalse:
				if pol {
					return dfs(b.Succs[1], b, env)
				}
				return dfs(b.Succs[0], b, env)
			}
		}
		for _, s := range b.Succs {
			if dfs(s, b, env) {
				return true
			}
		}
		return false
	}
	return dfs(fn.Blocks[0], nil, map[ssa.Value]bool3{})
}

// iterationOutcomes simulates one loop iteration from block start under a
// (partial) evaluation of the branch conditions: known conditions are followed,
// unknown ones fork. Outcomes: "continue" (the walk arrives at a block that
// dominates start, i.e. the loop header), "return <const>" / "return ?", "panic".
func iterationOutcomes(start *ssa.BasicBlock, eval func(cond ssa.Value) (known, val bool)) map[string]bool {
	out := map[string]bool{}
	seen := map[*ssa.BasicBlock]bool{}
	var walk func(b *ssa.BasicBlock, first bool)
	walk = func(b *ssa.BasicBlock, first bool) {
		if !first && (b == start || b.Dominates(start)) {
			out["continue"] = true // back at the loop header (a rotated loop's header is the first block of the body itself)
			return
		}
		if seen[b] {
			return
		}
		seen[b] = true
		switch last := b.Instrs[len(b.Instrs)-1].(type) {
		case *ssa.Return:
			if len(last.Results) == 1 {
				if v, ok := constBool(last.Results[0]); ok {
					out[fmt.Sprintf("return %v", v)] = true
					return
				}
			}
			out["return ?"] = true
		case *ssa.If:
			c, pol := normCond(last.Cond, true)
			if isLatch(b, start) {
				out["continue"] = true
				return
			}
			if known, val := eval(c); known {
				if val == pol {
					walk(b.Succs[0], false)
				} else {
					walk(b.Succs[1], false)
				}
				return
			}
			// the latch of a rotated loop ("i < n" tested at the bottom): the iteration ends here; leaving the loop
			// because the collection is exhausted is not an outcome of the iteration
			for i, s := range b.Succs {
				other := b.Succs[1-i]
				if (s == start || s.Dominates(start)) && other != start && !blockReaches(other, start) {
					out["continue"] = true
					return
				}
			}
			walk(b.Succs[0], false)
			walk(b.Succs[1], false)
		case *ssa.Panic:
			out["panic"] = true
		default:
			for _, s := range b.Succs {
				walk(s, false)
			}
		}
	}
	walk(start, true)
	return out
}

// isLatch: b ends the iteration of a rotated loop — one successor is the back edge to the first block of the
// body, the other leaves the loop for good.
func isLatch(b, start *ssa.BasicBlock) bool {
	if len(b.Succs) != 2 {
		return false
	}
	for i, s := range b.Succs {
		other := b.Succs[1-i]
		if (s == start || s.Dominates(start)) && other != start && !blockReaches(other, start) {
			return true
		}
	}
	return false
}

// ---- predicate helpers -------------------------------------------------------
//
// A condition may be written as a call to a small boolean helper of the
// repository ("if writeDenied(remoteWrite, item) {…}"). The evaluators of this
// file (and the loop simulation of c02_merge.go) then evaluate the helper's body
// under the same valuation of leaf conditions, with the helper's parameters
// standing for the arguments of the call.

// predicateCallee: the statically known unexported repository function with a
// body and a single boolean result that call invokes, or nil.
func predicateCallee(call *ssa.Call) *ssa.Function {
	h := call.Call.StaticCallee()
	if h == nil || h.Blocks == nil || !strings.HasPrefix(fnPkgPath(h), repoMod) || isExportedFn(originOf(h)) {
		return nil
	}
	res := h.Signature.Results()
	if res.Len() != 1 || !isBoolType(res.At(0).Type()) || len(h.Blocks) > 40 {
		return nil
	}
	return h
}

func predicateArg(h *ssa.Function, call *ssa.Call, par *ssa.Parameter) ssa.Value {
	args := argsWithRecv(&call.Call)
	for i, q := range h.Params {
		if q == par && i < len(args) {
			return args[i]
		}
	}
	return nil
}

// predicateLeaves: the leaf conditions the helper's result depends on, with
// parameters replaced by the call's arguments.
func predicateLeaves(call *ssa.Call, known func(ssa.Value) bool, depth int) []ssa.Value {
	h := predicateCallee(call)
	if h == nil || depth > 3 {
		return nil
	}
	var out []ssa.Value
	seen := map[ssa.Value]bool{}
	var collect func(v ssa.Value, d int)
	collect = func(v ssa.Value, d int) {
		v, _ = normCond(v, true)
		if seen[v] || d > 8 {
			return
		}
		seen[v] = true
		switch x := v.(type) {
		case *ssa.Phi:
			for _, e := range x.Edges {
				collect(e, d+1)
			}
			return
		case *ssa.Parameter:
			if a := predicateArg(h, call, x); a != nil {
				out = append(out, a)
			}
			return
		case *ssa.Call:
			if !known(x) && predicateCallee(x) != nil {
				out = append(out, predicateLeaves(x, known, depth+1)...)
				return
			}
		}
		if _, isK := constBool(v); isK {
			return
		}
		out = append(out, v)
	}
	for _, b := range h.Blocks {
		switch last := b.Instrs[len(b.Instrs)-1].(type) {
		case *ssa.If:
			collect(last.Cond, 0)
		case *ssa.Return:
			collect(last.Results[0], 0)
		}
	}
	return out
}

// predicate3 evaluates the helper's result: leaf gives the value of a leaf
// condition in the caller's terms (bUnknown if it is free). Unknown branch
// conditions fork; the result is known only if all feasible returns agree.
func predicate3(call *ssa.Call, leaf func(v ssa.Value) bool3, depth int) bool3 {
	if predicateCallee(call) == nil {
		return bUnknown
	}
	return predicate3Idx(call, 0, leaf, depth)
}

// predicate3Idx: the same for result idx of a helper with several results ("v, ok := lookUp(…)": ok is result 1).
func predicate3Idx(call *ssa.Call, idx int, leaf func(v ssa.Value) bool3, depth int) bool3 {
	h := call.Call.StaticCallee()
	if h == nil || h.Blocks == nil || !strings.HasPrefix(fnPkgPath(h), repoMod) || isExportedFn(originOf(h)) || len(h.Blocks) > 40 {
		return bUnknown
	}
	if rs := h.Signature.Results(); idx >= rs.Len() || !isBoolType(rs.At(idx).Type()) {
		return bUnknown
	}
	if depth > 3 {
		return bUnknown
	}
	var ev func(v ssa.Value, choice map[*ssa.Phi]ssa.Value, d int) bool3
	ev = func(v ssa.Value, choice map[*ssa.Phi]ssa.Value, d int) bool3 {
		if d > 20 {
			return bUnknown
		}
		if b, ok := constBool(v); ok {
			return b3(b)
		}
		switch x := v.(type) {
		case *ssa.UnOp:
			if x.Op == token.NOT {
				switch ev(x.X, choice, d+1) {
				case bTrue:
					return bFalse
				case bFalse:
					return bTrue
				}
				return bUnknown
			}
		case *ssa.Phi:
			if e, ok := choice[x]; ok {
				return ev(e, choice, d+1)
			}
			return bUnknown
		case *ssa.Parameter:
			if a := predicateArg(h, call, x); a != nil {
				return leaf(a)
			}
			return bUnknown
		case *ssa.Call:
			if l := leaf(x); l != bUnknown {
				return l
			}
			if predicateCallee(x) != nil {
				return predicate3(x, func(w ssa.Value) bool3 {
					// values of the nested helper's caller (this helper) are evaluated here
					return ev(w, choice, d+1)
				}, depth+1)
			}
			return bUnknown
		}
		return leaf(v)
	}
	const (
		mF = 1
		mT = 2
		mU = 4
	)
	var walk func(b, prev *ssa.BasicBlock, choice map[*ssa.Phi]ssa.Value, onPath map[*ssa.BasicBlock]bool, steps int) int
	walk = func(b, prev *ssa.BasicBlock, choice map[*ssa.Phi]ssa.Value, onPath map[*ssa.BasicBlock]bool, steps int) int {
		if steps > 80 || onPath[b] {
			return mU
		}
		onPath[b] = true
		defer delete(onPath, b)
		if prev != nil {
			idx := -1
			for i, pb := range b.Preds {
				if pb == prev {
					idx = i
				}
			}
			c2 := map[*ssa.Phi]ssa.Value{}
			for k, v := range choice {
				c2[k] = v
			}
			for _, ins := range b.Instrs {
				ph, ok := ins.(*ssa.Phi)
				if !ok {
					break
				}
				if idx >= 0 && idx < len(ph.Edges) {
					c2[ph] = ph.Edges[idx]
				}
			}
			choice = c2
		}
		switch last := b.Instrs[len(b.Instrs)-1].(type) {
		case *ssa.Return:
			if idx >= len(last.Results) {
				return mU
			}
			switch ev(last.Results[idx], choice, 0) {
			case bTrue:
				return mT
			case bFalse:
				return mF
			}
			return mU
		case *ssa.If:
			switch ev(last.Cond, choice, 0) {
			case bTrue:
				return walk(b.Succs[0], b, choice, onPath, steps+1)
			case bFalse:
				return walk(b.Succs[1], b, choice, onPath, steps+1)
			}
			return walk(b.Succs[0], b, choice, onPath, steps+1) | walk(b.Succs[1], b, choice, onPath, steps+1)
		case *ssa.Jump:
			return walk(b.Succs[0], b, choice, onPath, steps+1)
		}
		return mU
	}
	switch walk(h.Blocks[0], nil, map[*ssa.Phi]ssa.Value{}, map[*ssa.BasicBlock]bool{}, 0) {
	case mT:
		return bTrue
	case mF:
		return bFalse
	}
	return bUnknown
}
