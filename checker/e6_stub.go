package main

func notifyCountRule(p *Prog, r *Report, rule string) {}
