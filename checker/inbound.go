package main

// Shared definition of the inbound message abstraction used by C01, C03, C08,
// C12, C14: effects, dimensions (classifier, ackRequest, approval callbacks,
// payload kind) and scope-exit gates.

import (
	"fmt"
	"go/token"
	"go/types"
	"strings"

	"golang.org/x/tools/go/ssa"
)

type inboundVal struct {
	Cls      string // read reply notify write call result other
	Ack      string // nil false true
	Approval bool   // write approval callbacks registered
	Result   bool   // the payload is resultData
}

func (v inboundVal) String() string {
	return fmt.Sprintf("cls=%s ack=%s approval=%v resultPayload=%v", v.Cls, v.Ack, v.Approval, v.Result)
}

type inbound struct {
	p   *Prog
	val inboundVal

	sender, devLocal, featRemote, fdIface, bindMgr, ops *types.Interface
	processCmd                                          *ssa.Function
	missing                                             []string
	eng                                                 *PathEngine
}

func newInbound(p *Prog) *inbound {
	ib := &inbound{p: p}
	get := func(name string) *types.Interface {
		i := p.LookupIface("api", name)
		if i == nil {
			ib.missing = append(ib.missing, "api."+name)
		}
		return i
	}
	ib.sender = get("SenderInterface")
	ib.devLocal = get("DeviceLocalInterface")
	ib.featRemote = get("FeatureRemoteInterface")
	ib.fdIface = get("FunctionDataInterface")
	ib.bindMgr = get("BindingManagerInterface")
	ib.ops = get("OperationsInterface")
	if ib.devLocal != nil {
		impls := p.ImplsOf(ib.devLocal, "ProcessCmd")
		if len(impls) == 1 {
			ib.processCmd = impls[0]
		} else {
			ib.missing = append(ib.missing, "implementation of api.DeviceLocalInterface.ProcessCmd")
		}
	}
	return ib
}

func isNamed(t types.Type, pkgShort, name string) bool {
	n := namedOf(t)
	return n != nil && n.Obj().Name() == name && n.Obj().Pkg() != nil && n.Obj().Pkg().Path() == repoMod+"/"+pkgShort
}

func isClassifierValue(v ssa.Value) bool {
	if _, isC := v.(*ssa.Const); isC {
		return false
	}
	if _, isPtr := v.Type().(*types.Pointer); isPtr {
		return false
	}
	return isNamed(v.Type(), "model", "CmdClassifierType")
}

// literalStrings: the string constants stored into the backing array of a slice literal.
func literalStrings(v ssa.Value) ([]string, bool) {
	sl, ok := v.(*ssa.Slice)
	if !ok {
		return nil, false
	}
	al, ok := sl.X.(*ssa.Alloc)
	if !ok || al.Referrers() == nil {
		return nil, false
	}
	var res []string
	for _, r := range *al.Referrers() {
		ia, ok := r.(*ssa.IndexAddr)
		if !ok {
			continue
		}
		for _, r2 := range *ia.Referrers() {
			if st, ok := r2.(*ssa.Store); ok {
				s, ok := constString(st.Val)
				if !ok {
					return nil, false
				}
				res = append(res, s)
			}
		}
	}
	return res, true
}

func tri(b bool) int {
	if b {
		return 1
	}
	return -1
}

// decide evaluates conditions over the dimensions.
func (ib *inbound) decide(cond ssa.Value, f *pathFacts) int {
	v := ib.val
	switch x := cond.(type) {
	case *ssa.BinOp:
		// every spelling of "approval callbacks are registered": n > 0, n != 0, n >= 1 and the negations n == 0, n < 1, n <= 0
		if k, ok := constInt(x.Y); ok && isApprovalCallbackCount(x.X, 0) {
			switch {
			case (x.Op == token.GTR && k == 0) || (x.Op == token.NEQ && k == 0) || (x.Op == token.GEQ && k == 1):
				return tri(v.Approval)
			case (x.Op == token.EQL && k == 0) || (x.Op == token.LSS && k == 1) || (x.Op == token.LEQ && k == 0):
				return tri(!v.Approval)
			}
		}
		switch x.Op {
		case token.EQL, token.NEQ:
			neg := x.Op == token.NEQ
			res := 0
			for _, side := range [][2]ssa.Value{{x.X, x.Y}, {x.Y, x.X}} {
				if s, ok := constString(side[1]); ok && isClassifierValue(side[0]) {
					res = tri(v.Cls == s)
				}
			}
			if val, trueMeansNil, ok := nilTest(x); ok {
				pth := Path(val)
				_, isPtr := val.Type().Underlying().(*types.Pointer)
				switch {
				case strings.HasSuffix(pth, ".CmdClassifier") && isPtr:
					return tri(!trueMeansNil) // the classifier is present
				case strings.HasSuffix(pth, ".AckRequest") && isPtr:
					return tri((v.Ack == "nil") == trueMeansNil)
				case strings.HasSuffix(pth, ".Cmd.ResultData") || strings.HasSuffix(pth, ".Cmd[0].ResultData"):
					return tri(v.Result != trueMeansNil)
				}
				return 0
			}
			if res == 0 {
				return 0
			}
			if neg {
				return -res
			}
			return res
		case token.GTR:
			// len(writeApprovalCallbacks) > 0
			if k, ok := constInt(x.Y); ok && k == 0 {
				if isApprovalCallbackCount(x.X, 0) {
					return tri(v.Approval)
				}
			}
		}
	case *ssa.UnOp:
		if x.Op == token.MUL && strings.HasSuffix(Path(x.X), ".AckRequest") {
			if _, isBool := x.Type().Underlying().(*types.Basic); isBool {
				return tri(v.Ack == "true")
			}
		}
	case *ssa.Call:
		if c := x.Call.StaticCallee(); c != nil && fnPkgPath(c) == "slices" && originName(c) == "Contains" && len(x.Call.Args) == 2 && isClassifierValue(x.Call.Args[1]) {
			if lits, ok := literalStrings(x.Call.Args[0]); ok {
				for _, l := range lits {
					if l == v.Cls {
						return 1
					}
				}
				return -1
			}
		}
	}
	return 0
}

// gate names scope-exit and authorisation predicates (only inside package spine).
func (ib *inbound) gate(cond ssa.Value) (string, bool) {
	if ins, ok := cond.(ssa.Instruction); ok && ins.Parent() != nil && fnPkgPath(ins.Parent()) != repoMod+"/spine" {
		return "", true
	}
	inRoot := false
	if ins, ok := cond.(ssa.Instruction); ok && ins.Parent() != nil {
		fn := ins.Parent()
		inRoot = fn == ib.processCmd
		if !inRoot {
			cs := ib.p.Callers(fn)
			inRoot = len(cs) > 0
			for _, site := range cs {
				if site.Parent() != ib.processCmd {
					inRoot = false
				}
			}
		}
	}
	c, pol := normCond(cond, true)
	if bo, ok := c.(*ssa.BinOp); ok && inRoot {
		// len(datagram.Payload.Cmd) == 0
		if call, ok := bo.X.(*ssa.Call); ok && builtinName(&call.Call) == "len" && strings.HasSuffix(Path(call.Call.Args[0]), ".Payload.Cmd") {
			if k, ok := constInt(bo.Y); ok && k == 0 && (bo.Op == token.EQL || bo.Op == token.NEQ) {
				return "emptyPayload", (bo.Op == token.EQL) == pol
			}
		}
		if val, trueMeansNil, ok := nilTest(bo); ok {
			pth := Path(val)
			name := ""
			switch {
			case strings.HasSuffix(pth, ".Header.AddressSource"), strings.HasSuffix(pth, ".Header.AddressDestination"):
				name = "headerAddressMissing"
			case strings.HasSuffix(pth, ".Header.CmdClassifier"):
				name = "classifierMissing"
			}
			if call, ok := unwrapIface(val).(*ssa.Call); ok {
				if call.Call.IsInvoke() && call.Call.Method.Name() == "FeatureByAddress" {
					if isNamed(call.Call.Value.Type(), "api", "DeviceRemoteInterface") {
						name = "sourceFeatureUnknown"
					} else {
						name = "destinationUnknown"
					}
				} else if f := call.Call.StaticCallee(); f != nil && f.Name() == "FeatureByAddress" && f.Signature.Recv() != nil {
					if implementsIface(f.Signature.Recv().Type(), ib.devLocal) {
						name = "destinationUnknown"
					} else {
						name = "sourceFeatureUnknown"
					}
				}
			}
			if name != "" {
				return name, trueMeansNil == pol
			}
		}
	}
	if call, ok := c.(*ssa.Call); ok {
		switch {
		case calleeIsIfaceMethod(&call.Call, ib.bindMgr, "HasLocalFeatureRemoteBinding"):
			return "hasBinding", pol
		case calleeIsIfaceMethod(&call.Call, ib.ops, "Write"):
			return "opWrite", pol
		case calleeIsIfaceMethod(&call.Call, ib.ops, "Read"):
			return "opRead", pol
		}
	}
	// comma-ok of the operations map look-up / of the pending approval look-up
	if ex, ok := c.(*ssa.Extract); ok && ex.Index == 1 {
		if lk, ok := ex.Tuple.(*ssa.Lookup); ok && lk.CommaOk {
			if strings.HasSuffix(Path(lk.X), ".Operations()") {
				return "opKnown", pol
			}
			if strings.Contains(Path(lk.X), "."+FN("FeatureLocal.pendingWriteApprovals")+"[]") {
				return "pendingClaimed", pol
			}
		}
	}
	return "", true
}

// effect classifies call sites of the inbound tree.
func (ib *inbound) effect(site ssa.CallInstruction, f *pathFacts) string {
	c := site.Common()
	switch {
	case calleeIsIfaceMethod(c, ib.sender, "ResultError"):
		return "resErr"
	case calleeIsIfaceMethod(c, ib.sender, "ResultSuccess"):
		return "resOk"
	case calleeIsIfaceMethod(c, ib.sender, "Reply"):
		return "reply"
	case calleeIsIfaceMethod(c, ib.devLocal, "NotifySubscribers"):
		return "notify"
	case calleeIsIfaceMethod(c, ib.featRemote, "UpdateData"):
		return "remoteStore"
	case calleeIsIfaceMethod(c, ib.fdIface, "UpdateDataAny"):
		args := callArgs(c)
		k, ok := constBool(args[0])
		if !ok && f != nil {
			k, ok = f.boolv[args[0]]
		}
		if ok {
			if k {
				return "storeRemoteWrite"
			}
			return "storeLocal"
		}
		return "storeParam"
	}
	if f := c.StaticCallee(); f != nil {
		if staticCallee(c, repoMod+"/spine", "events", "Publish") {
			return "publish"
		}
		if _, isGo := site.(*ssa.Go); isGo {
			return ""
		}
	}
	if _, isGo := site.(*ssa.Go); isGo {
		// asynchronous start of a callback kept in a field of the local feature
		src := Path(c.Value)
		switch {
		case strings.Contains(src, "."+FN("FeatureLocal.writeApprovalCallbacks")):
			return "startApprovalCallback"
		case strings.Contains(src, "."+FN("FeatureLocal.responseMsgCallback")):
			return "startResponseCallback"
		case strings.Contains(src, "."+FN("FeatureLocal.resultCallbacks")):
			return "startResultCallback"
		}
	}
	return ""
}

// opaque: the sender and everything below it is not descended into; neither is the event bus.
func (ib *inbound) opaque(fn *ssa.Function) bool {
	if fn.Signature.Recv() != nil {
		if implementsIface(fn.Signature.Recv().Type(), ib.sender) {
			return true
		}
		if n := namedOf(fn.Signature.Recv().Type()); n != nil && n.Obj().Name() == "events" {
			return true
		}
	}
	return false
}

// engine returns one engine per inbound abstraction: effects, gates and opacity do not
// depend on the valuation (which is part of the memo key), so the set of relevant
// functions and the summaries are shared by all valuations.
func (ib *inbound) engine() *PathEngine {
	if ib.eng != nil {
		ib.eng.Incomplete = nil
		return ib.eng
	}
	e := ib.newEngine()
	ib.eng = e
	return e
}

func (ib *inbound) newEngine() *PathEngine {
	e := NewPathEngine(ib.p)
	e.Effect = ib.effect
	e.Decide = ib.decide
	e.Gate = ib.gate
	e.Opaque = ib.opaque
	e.Forks = map[string]bool{"reply": true, "remoteStore": true, "storeRemoteWrite": true, "storeLocal": true, "storeParam": true}
	e.NonNil = func(v ssa.Value) bool {
		// Message.RequestHeader is &datagram.Header by construction
		if strings.HasSuffix(Path(v), ".RequestHeader") {
			return true
		}
		return false
	}
	return e
}

func allInboundVals() []inboundVal {
	var res []inboundVal
	for _, cls := range []string{"read", "reply", "notify", "write", "call", "result", "other"} {
		for _, ack := range []string{"nil", "false", "true"} {
			for _, appr := range []bool{false, true} {
				for _, rp := range []bool{false, true} {
					if appr && cls != "write" {
						continue
					}
					res = append(res, inboundVal{Cls: cls, Ack: ack, Approval: appr, Result: rp})
				}
			}
		}
	}
	return res
}

// isApprovalCallbackCount: len(<feature>.writeApprovalCallbacks), directly or through
// an accessor that returns it (possibly read into a local under the lock first).
func isApprovalCallbackCount(v ssa.Value, depth int) bool {
	return lenOfField(v, "."+FN("FeatureLocal.writeApprovalCallbacks"), depth) != nil
}

// lenOfField: v is len(<object>.<field>) — directly, read into a local first, or as
// the result of a repository helper all of whose returns are that length. Returns
// the len call (nil if v is something else).
func lenOfField(v ssa.Value, suffix string, depth int) *ssa.Call {
	if depth > 3 {
		return nil
	}
	c, ok := v.(*ssa.Call)
	if !ok {
		if u, isU := v.(*ssa.UnOp); isU {
			if al, isA := u.X.(*ssa.Alloc); isA {
				if sv := singleStore(al); sv != nil {
					return lenOfField(sv, suffix, depth+1)
				}
			}
		}
		if ex, isEx := v.(*ssa.Extract); isEx {
			// one result of a helper returning several values
			if hc, isC := ex.Tuple.(*ssa.Call); isC {
				return lenOfHelperResult(hc, ex.Index, suffix, depth)
			}
		}
		return nil
	}
	if builtinName(&c.Call) == "len" {
		if strings.HasSuffix(Path(c.Call.Args[0]), suffix) {
			return c
		}
		return nil
	}
	return lenOfHelperResult(c, 0, suffix, depth)
}

func lenOfHelperResult(c *ssa.Call, idx int, suffix string, depth int) *ssa.Call {
	h := c.Call.StaticCallee()
	if h == nil || h.Blocks == nil || !strings.HasPrefix(fnPkgPath(h), repoMod) {
		return nil
	}
	var found *ssa.Call
	for _, b := range h.Blocks {
		ret, isRet := b.Instrs[len(b.Instrs)-1].(*ssa.Return)
		if !isRet {
			continue
		}
		if idx >= len(ret.Results) {
			return nil
		}
		lc := lenOfField(ret.Results[idx], suffix, depth+1)
		if lc == nil {
			return nil
		}
		found = lc
	}
	return found
}
