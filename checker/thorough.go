package main

// thoroughExtras and the self-test catalogue are filled in by selftest.go.
