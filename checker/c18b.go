package main

import (
	"fmt"
	"go/ast"
	"go/constant"
	"go/token"
	"go/types"
	"strings"

	"golang.org/x/tools/go/ssa"
)

// c18Builders: the command builders take function, payload field and filters
// from the same function-data object, and wire selector/elements and
// delete/partial data to the filter of the matching kind.
func c18Builders(p *Prog, r *Report) {
	r.Rule("R6f", "every SetDataForFunction call of the command builders receives its function argument from the function-data object's own functionType field")
	r.Rule("R6t", "a filter field is filled with tag type selector only from API parameters named *Selector, with elements only from *Elements/elements parameters")
	r.Rule("R6c", "a filter whose CmdControl is Delete only receives data from API parameters named delete*, a Partial filter never does")

	cmdIface := p.LookupIface("api", "FunctionDataCmdInterface")
	if cmdIface == nil {
		r.Undecided("R6f", "anchor:api.FunctionDataCmdInterface", "", "interface not found")
		return
	}
	isAPI := func(fn *ssa.Function) bool {
		if fn.Signature.Recv() == nil {
			return false
		}
		if !implementsIface(fn.Signature.Recv().Type(), cmdIface) {
			return false
		}
		switch originName(fn) {
		case "ReadCmdType", "ReplyCmdType", "NotifyOrWriteCmdType":
			return true
		}
		return false
	}
	nCmd, nFlt := 0, 0
	for _, fn := range p.RepoFns("spine") {
		forEachCall(fn, func(site ssa.CallInstruction) {
			c := site.Common()
			isCmd := staticCallee(c, repoMod+"/model", "CmdType", "SetDataForFunction")
			isFlt := staticCallee(c, repoMod+"/model", "FilterType", "SetDataForFunction")
			if !isCmd && !isFlt {
				return
			}
			args := callArgs(c)
			origin := fn
			if o := fn.Origin(); o != nil {
				origin = o
			}
			base := FnName(origin)
			pos := p.InstrPos(site)
			var fctArg ssa.Value
			if isCmd {
				nCmd++
				fctArg = args[0]
			} else {
				nFlt++
				fctArg = args[1]
			}
			// R6f: function provenance
			src := p.SourcesOpt(fctArg, true, isAPI, false)
			ok := len(src) > 0
			for _, s := range src {
				if !(s.Kind == "field" && s.Desc == "FunctionData.functionType") {
					ok = false
				}
			}
			kind := "cmd"
			if isFlt {
				kind = "filter"
			}
			r.Check("R6f", fmt.Sprintf("%s|%s", base, kind), ok, pos, "function argument comes from: "+sourcesString(src))
			if !isFlt {
				return
			}
			// R6t/R6c are evaluated once per calling context (depth 1) of the function containing the call
			var ctxs []map[*ssa.Function]ssa.CallInstruction
			if !isAPI(fn) {
				for _, site := range p.Callers(fn) {
					ctxs = append(ctxs, map[*ssa.Function]ssa.CallInstruction{fn: site})
				}
			}
			if len(ctxs) == 0 {
				ctxs = append(ctxs, nil)
			}
			for _, ctx := range ctxs {
				tsrc := p.SourcesCtx(args[0], true, isAPI, false, ctx)
				tag := ""
				for _, s := range tsrc {
					if s.Kind == "const" {
						if k, ok := s.Val.(*ssa.Const); ok && k.Value != nil && k.Value.Kind() == constant.String {
							tag += constant.StringVal(k.Value)
						}
					} else {
						tag += "?"
					}
				}
				dsrc := p.SourcesCtx(args[2], true, isAPI, false, ctx)
				nameSet := map[string]bool{}
				okT := tag == "selector" || tag == "elements"
				for _, s := range dsrc {
					switch s.Kind {
					case "const":
						// nil literals carry no data
					case "param":
						n := s.Desc[strings.LastIndex(s.Desc, ".")+1:]
						nameSet[n] = true
						ln := strings.ToLower(n)
						if tag == "selector" && !strings.Contains(ln, "selector") {
							okT = false
						}
						if tag == "elements" && !strings.Contains(ln, "element") {
							okT = false
						}
					default:
						okT = false
						nameSet[s.String()] = true
					}
				}
				names := sortedKeys(nameSet)
				if len(names) == 0 {
					okT = false
				}
				r.Check("R6t", fmt.Sprintf("%s|%s|%s", base, tag, strings.Join(names, "+")), okT, pos, fmt.Sprintf("tag type %q filled from API parameters %v", tag, names))

				// R6c: control kind of the filter being filled vs API parameter names
				recv := callRecv(c)
				fsrc := p.SourcesCtx(recv, true, isAPI, true, ctx)
				ctrl := map[string]bool{}
				for _, s := range fsrc {
					if a, ok := s.Val.(*ssa.Alloc); ok {
						for k := range controlKinds(a) {
							ctrl[k] = true
						}
					}
				}
				okC := len(ctrl) == 1
				for _, n := range names {
					isDel := strings.HasPrefix(strings.ToLower(n), "delete")
					if ctrl["Delete"] && !isDel {
						okC = false
					}
					if ctrl["Partial"] && isDel {
						okC = false
					}
				}
				r.Check("R6c", fmt.Sprintf("%s|%s|%s", base, tag, strings.Join(names, "+")), okC, pos, fmt.Sprintf("filter with CmdControl %v filled from API parameters %v", sortedKeys(ctrl), names))
			}
		})
	}
	c18PointerToInterface(p, r)
	c18CustomJSONGuards(p, r, "T5g")
	customDecoderFresh(p, r, "T5d")
	r.Floor("R6f", "CmdType.SetDataForFunction call sites in the builders", nCmd, 1)
	r.Floor("R6f", "FilterType.SetDataForFunction call sites in the builders", nFlt, 2)
}

// controlKinds inspects a FilterType allocation: which fields of the
// CmdControlType stored into its CmdControl field are set.
func controlKinds(a *ssa.Alloc) map[string]bool {
	res := map[string]bool{}
	n := namedOf(a.Type())
	if n == nil || n.Obj().Name() != "FilterType" {
		return res
	}
	for _, ref := range *a.Referrers() {
		fa, ok := ref.(*ssa.FieldAddr)
		if !ok {
			continue
		}
		if f := fieldOfAddr(fa); f == nil || f.Name() != "CmdControl" {
			continue
		}
		for _, r2 := range *fa.Referrers() {
			st, ok := r2.(*ssa.Store)
			if !ok || st.Addr != fa {
				continue
			}
			cc, ok := st.Val.(*ssa.Alloc)
			if !ok {
				res["?"] = true
				continue
			}
			for _, r3 := range *cc.Referrers() {
				if fa2, ok := r3.(*ssa.FieldAddr); ok {
					for _, r4 := range *fa2.Referrers() {
						if st2, ok := r4.(*ssa.Store); ok && st2.Addr == fa2 {
							if k, isC := st2.Val.(*ssa.Const); isC && k.IsNil() {
								continue
							}
							res[fieldOfAddr(fa2).Name()] = true
						}
					}
				}
			}
		}
	}
	return res
}

// c18TagLookups: the reflective setters and getters of CmdType/FilterType
// select the field by the tags the tables above were checked for.
func c18TagLookups(p *Prog, r *Report) {
	r.Rule("R7g", "in CmdType/FilterType.SetDataForFunction every reflective Set is reached only after the function parameter was compared equal to the field's fct tag (and, for filters, the tag type parameter to the field's typ tag)")
	r.Rule("R7d", "in FilterType.Data the value returned as Selector is only assigned under typ == selector, the one returned as Elements only under typ == elements; in CmdType.Data the function is taken from the fct tag of the field whose value is returned")

	for _, typ := range []string{"CmdType", "FilterType"} {
		fn := p.Method("model", typ, "SetDataForFunction")
		if fn == nil {
			r.Undecided("R7g", "anchor:model."+typ+".SetDataForFunction", "", "method not found")
			continue
		}
		nSet := 0
		p.InScope(fn, func() {
			forEachCall(fn, func(site ssa.CallInstruction) {
				c := site.Common()
				f := c.StaticCallee()
				if f == nil || fnPkgPath(f) != "reflect" || f.Name() != "Set" {
					return
				}
				nSet++
				needs := map[string]string{"fct": "param:fct"}
				if typ == "FilterType" {
					needs["typ"] = "param:tagType"
				}
				got := map[string]bool{}
				for _, g := range Guards(site.Block()) {
					b, ok := g.Cond.(*ssa.BinOp)
					if !ok || (b.Op != token.EQL && b.Op != token.NEQ) {
						continue
					}
					eq := (b.Op == token.EQL) == g.Val
					if !eq {
						continue
					}
					for tag, param := range needs {
						if (tagLookupOf(b.X) == tag && strings.HasPrefix(Path(b.Y), "param:") && paramMatches(b.Y, param)) ||
							(tagLookupOf(b.Y) == tag && strings.HasPrefix(Path(b.X), "param:") && paramMatches(b.X, param)) {
							got[tag] = true
						}
					}
				}
				ok := true
				var missing []string
				for tag := range needs {
					if !got[tag] {
						ok = false
						missing = append(missing, tag)
					}
				}
				r.Check("R7g", fmt.Sprintf("model.%s.SetDataForFunction|Set#%d", typ, nSet), ok, p.InstrPos(site), fmt.Sprintf("missing equality guards on tags %v", missing))
			})
		})
		r.Floor("R7g", typ+" reflective Set sites", nSet, 2)
	}
	c18DataSwitch(p, r)
	r.Rule("R7e", "the decoding accessors CmdType.Data / FilterType.Data decide whether an element is present from the field itself (kind, nil, tag, name), never from the content of what it points to: a selector or elements value that is present but empty is still reported")
	c18AccessorSkips(p, r, "R7e")
	r.Rule("R8", "a period whose end lies in the past keeps its end across an encode/decode hop: the remaining duration the encoder emits is the computed difference itself, never replaced by a constant (no clamp at zero)")
	noClampRule(p, r, "R8")
}

// paramMatches: the value is (a conversion of) the parameter at the expected
// position: fct is the parameter of type model.FunctionType, tagType the one of
// type model.EEBusTagTypeType (names are not relied upon).
func paramMatches(v ssa.Value, want string) bool {
	for {
		switch x := v.(type) {
		case *ssa.ChangeType:
			v = x.X
			continue
		case *ssa.Convert:
			v = x.X
			continue
		case *ssa.Parameter:
			n := namedOf(x.Type())
			if n == nil {
				return false
			}
			if want == "param:fct" {
				return n.Obj().Name() == "FunctionType"
			}
			return n.Obj().Name() == "EEBusTagTypeType"
		}
		return false
	}
}

// tagLookupOf: if v derives (through conversions/extract) from a map look-up
// with a constant key on the result of model.EEBusTags, return that key.
func tagLookupOf(v ssa.Value) string {
	for i := 0; i < 10; i++ {
		switch x := v.(type) {
		case *ssa.ChangeType:
			v = x.X
		case *ssa.Convert:
			v = x.X
		case *ssa.Extract:
			// one result of a repository helper that returns the tag value (possibly next to an ok flag)
			if hc, isCall := x.Tuple.(*ssa.Call); isCall {
				if rv := helperResult(hc, x.Index); rv != nil {
					v = rv
					continue
				}
			}
			v = x.Tuple
		case *ssa.Call:
			if rv := helperResult(x, 0); rv != nil {
				v = rv
				continue
			}
			return ""
		case *ssa.Phi:
			// "" on the paths that found nothing, the tag otherwise
			var alt ssa.Value
			for _, e := range x.Edges {
				if s, isS := constString(e); isS && s == "" {
					continue
				}
				if alt != nil && alt != e {
					return ""
				}
				alt = e
			}
			if alt == nil {
				return ""
			}
			v = alt
		case *ssa.Lookup:
			if call, ok := x.X.(*ssa.Call); ok && staticCallee(&call.Call, repoMod+"/model", "", "EEBusTags") {
				if s, ok := constString(x.Index); ok {
					return s
				}
			}
			return ""
		default:
			return ""
		}
	}
	return ""
}

// c18DataSwitch works on the AST of FilterType.Data and CmdType.Data.
func c18DataSwitch(p *Prog, r *Report) {
	fd, pk := p.FuncDecl("model", "FilterType", "Data")
	if fd == nil || fd.Body == nil {
		r.Undecided("R7d", "anchor:model.FilterType.Data", "", "method not found")
	} else {
		info := pk.TypesInfo
		// the composite literal FilterData{Elements: X, Selector: Y}
		roleVar := map[types.Object]string{}
		ast.Inspect(fd.Body, func(n ast.Node) bool {
			cl, ok := n.(*ast.CompositeLit)
			if !ok {
				return true
			}
			nt := namedOf(info.TypeOf(cl))
			if nt == nil || nt.Obj().Name() != "FilterData" {
				return true
			}
			for _, el := range cl.Elts {
				kv, ok := el.(*ast.KeyValueExpr)
				if !ok {
					continue
				}
				k, _ := kv.Key.(*ast.Ident)
				v, _ := kv.Value.(*ast.Ident)
				if k == nil || v == nil {
					continue
				}
				switch k.Name {
				case "Selector":
					roleVar[info.Uses[v]] = "selector"
				case "Elements":
					roleVar[info.Uses[v]] = "elements"
				}
			}
			return true
		})
		if len(roleVar) != 2 {
			// the result may be filled field by field: result.Selector = … / result.Elements = …
			nAssign := 0
			var stack []ast.Node
			ast.Inspect(fd.Body, func(n ast.Node) bool {
				if n == nil {
					stack = stack[:len(stack)-1]
					return true
				}
				stack = append(stack, n)
				as, ok := n.(*ast.AssignStmt)
				if !ok {
					return true
				}
				for _, lhs := range as.Lhs {
					se, ok := lhs.(*ast.SelectorExpr)
					if !ok {
						continue
					}
					nt := namedOf(info.TypeOf(se.X))
					if nt == nil || nt.Obj().Name() != "FilterData" {
						continue
					}
					role := ""
					switch se.Sel.Name {
					case "Selector":
						role = "selector"
					case "Elements":
						role = "elements"
					default:
						continue
					}
					nAssign++
					cond := enclosingConstCond(info, stack)
					r.Check("R7d", "model.FilterType.Data|assign:"+role, cond == role, p.Pos(as.Pos()), fmt.Sprintf("field %s of the result is assigned under condition constant %q", se.Sel.Name, cond))
				}
				return true
			})
			if nAssign < 2 {
				r.Undecided("R7d", "model.FilterType.Data|literal", p.Pos(fd.Pos()), "neither a FilterData literal with Selector and Elements taken from local variables nor assignments to both fields of a FilterData result found")
			}
		} else {
			// every assignment to a role variable (other than its declaration) sits in a case/if comparing with the matching constant
			nAssign := 0
			var stack []ast.Node
			ast.Inspect(fd.Body, func(n ast.Node) bool {
				if n == nil {
					stack = stack[:len(stack)-1]
					return true
				}
				stack = append(stack, n)
				as, ok := n.(*ast.AssignStmt)
				if !ok || as.Tok != token.ASSIGN {
					return true
				}
				for _, lhs := range as.Lhs {
					id, ok := lhs.(*ast.Ident)
					if !ok {
						continue
					}
					role, ok := roleVar[info.Uses[id]]
					if !ok {
						continue
					}
					nAssign++
					cond := enclosingConstCond(info, stack)
					r.Check("R7d", "model.FilterType.Data|assign:"+role, cond == role, p.Pos(as.Pos()), fmt.Sprintf("variable returned as %s is assigned under condition constant %q", role, cond))
				}
				return true
			})
			r.Floor("R7d", "FilterType.Data role assignments", nAssign, 2)
		}
	}

	cmdDataSameField(p, r, "R7d")
}

// cmdDataSameField: in CmdType.Data the Function and the Value of the returned CmdData come from the same struct
// field — the function from its fct tag, never from the command's own function element (shared: C18-R7d, C05-R4:
// the store asserts the payload type registered for the *function*, so a function that does not belong to the value
// makes that unchecked assertion panic).
func cmdDataSameField(p *Prog, r *Report, rule string) {
	// CmdType.Data: SSA — the Function and Value of the returned CmdData come from the same field index
	fn := p.Method("model", "CmdType", "Data")
	if fn == nil {
		r.Undecided(rule, "anchor:model.CmdType.Data", "", "method not found")
		return
	}
	found := false
	for _, b := range fn.Blocks {
		for _, ins := range b.Instrs {
			a, ok := ins.(*ssa.Alloc)
			if !ok {
				continue
			}
			n := namedOf(a.Type())
			if n == nil || n.Obj().Name() != "CmdData" {
				continue
			}
			found = true
			var fctIdx, valIdx ssa.Value
			fctFromTag := false
			for _, ref := range *a.Referrers() {
				fa, ok := ref.(*ssa.FieldAddr)
				if !ok {
					continue
				}
				for _, r2 := range *fa.Referrers() {
					st, ok := r2.(*ssa.Store)
					if !ok || st.Addr != fa {
						continue
					}
					switch fieldOfAddr(fa).Name() {
					case "Function":
						// phi(nil, util.Ptr(FunctionType(function)))
						fctIdx, fctFromTag = fieldIndexOfTag(st.Val)
						// every alternative (the value may be assigned on several branches) comes from the tag, none from
						// the command's own function element — builders deliberately set that element to "" for partial commands
						var alts func(v ssa.Value, d int)
						alts = func(v ssa.Value, d int) {
							if ph, isPhi := v.(*ssa.Phi); isPhi && d < 4 {
								for _, e := range ph.Edges {
									alts(e, d+1)
								}
								return
							}
							if isNilConst(v) {
								return
							}
							if _, fromTag := fieldIndexOfTag(v); !fromTag {
								fctFromTag = false
							}
						}
						alts(st.Val, 0)
					case "Value":
						valIdx = fieldIndexOfValue(st.Val)
					}
				}
			}
			ok = fctFromTag && fctIdx != nil && fctIdx == valIdx
			r.Check(rule, "model.CmdType.Data|same-field", ok, p.InstrPos(a), "CmdData.Function is derived from the fct tag of the same struct field (same index value) whose value is returned")
		}
	}
	if !found {
		r.Undecided(rule, "model.CmdType.Data|literal", p.Pos(fn.Pos()), "CmdData literal not found")
	}
}

// enclosingConstCond finds, innermost first, a case clause or if statement
// comparing against a string constant, and returns that constant.
func enclosingConstCond(info *types.Info, stack []ast.Node) string {
	for i := len(stack) - 1; i >= 0; i-- {
		switch x := stack[i].(type) {
		case *ast.CaseClause:
			for _, e := range x.List {
				if tv, ok := info.Types[e]; ok && tv.Value != nil && tv.Value.Kind() == constant.String {
					return constant.StringVal(tv.Value)
				}
			}
		case *ast.IfStmt:
			// only when we are inside the body, not the else branch
			if i+1 < len(stack) && stack[i+1] == ast.Node(x.Body) {
				if be, ok := x.Cond.(*ast.BinaryExpr); ok && be.Op == token.EQL {
					for _, e := range []ast.Expr{be.X, be.Y} {
						if tv, ok := info.Types[e]; ok && tv.Value != nil && tv.Value.Kind() == constant.String {
							return constant.StringVal(tv.Value)
						}
					}
				}
			}
		}
	}
	return ""
}

// fieldIndexOfTag: v is (a phi of nil and) a pointer to FunctionType(function)
// where function is the fct tag of v.Type().Field(i); returns i.
func fieldIndexOfTag(v ssa.Value) (ssa.Value, bool) {
	seen := map[ssa.Value]bool{}
	var idx ssa.Value
	ok := false
	var walk func(v ssa.Value, d int)
	walk = func(v ssa.Value, d int) {
		if v == nil || seen[v] || d > 20 {
			return
		}
		seen[v] = true
		switch x := v.(type) {
		case *ssa.Phi:
			for _, e := range x.Edges {
				walk(e, d+1)
			}
		case *ssa.Call:
			// util.Ptr(x) or EEBusTags(sf)
			if staticCallee(&x.Call, repoMod+"/model", "", "EEBusTags") {
				walk(x.Call.Args[0], d+1)
				return
			}
			for _, a := range x.Call.Args {
				walk(a, d+1)
			}
			// a repository helper returning the tag: what it returns derives from its own look-up
			if h := x.Call.StaticCallee(); h != nil && h.Blocks != nil && strings.HasPrefix(fnPkgPath(h), repoMod) && !isExportedFn(originOf(h)) {
				for _, b := range h.Blocks {
					if ret, isRet := b.Instrs[len(b.Instrs)-1].(*ssa.Return); isRet {
						for _, rv := range ret.Results {
							walk(rv, d+1)
						}
					}
				}
			}
		case *ssa.ChangeType:
			walk(x.X, d+1)
		case *ssa.Convert:
			walk(x.X, d+1)
		case *ssa.Extract:
			walk(x.Tuple, d+1)
		case *ssa.Lookup:
			if s, isS := constString(x.Index); isS && s == "fct" {
				ok = true
			}
			walk(x.X, d+1)
		case *ssa.UnOp:
			walk(x.X, d+1)
		case *ssa.Alloc:
			for _, ref := range *x.Referrers() {
				if st, isSt := ref.(*ssa.Store); isSt && st.Addr == x {
					walk(st.Val, d+1)
				}
			}
		default:
			if c, isC := v.(*ssa.Call); isC {
				_ = c
			}
		}
		// reflect.Type.Field(i) invoke: remember i
		if c, isC := v.(*ssa.Call); isC && c.Call.IsInvoke() && c.Call.Method.Name() == "Field" && len(c.Call.Args) == 1 {
			idx = c.Call.Args[0]
		}
	}
	walk(v, 0)
	return idx, ok
}

// fieldIndexOfValue: v is reflect.Value.Field(i).Interface(); returns i.
func fieldIndexOfValue(v ssa.Value) ssa.Value {
	for d := 0; d < 10; d++ {
		switch x := v.(type) {
		case *ssa.Call:
			f := x.Call.StaticCallee()
			if f != nil && fnPkgPath(f) == "reflect" && f.Name() == "Field" && len(x.Call.Args) == 2 {
				return x.Call.Args[1]
			}
			if f != nil && fnPkgPath(f) == "reflect" && len(x.Call.Args) >= 1 {
				v = x.Call.Args[0]
				continue
			}
			return nil
		case *ssa.UnOp:
			if a, ok := x.X.(*ssa.Alloc); ok {
				if s := singleStore(a); s != nil {
					v = s
					continue
				}
			}
			v = x.X
		case *ssa.MakeInterface:
			v = x.X
		default:
			return nil
		}
	}
	return nil
}

// c18PointerToInterface: the reflective setters convert the dynamic value of
// their data argument to the type of the tagged field. A value boxed from a
// pointer to an interface variable (&x with x of type any) can never be
// converted: reflect.Value.Convert panics. The rule follows the data argument
// through the wrappers that pass a parameter on.
func c18PointerToInterface(p *Prog, r *Report) {
	r.Rule("R6p", "no value handed (directly or through a forwarding wrapper) to the data parameter of a reflective SetDataForFunction is boxed from a pointer to an interface variable")
	type slot struct {
		fn  *ssa.Function
		idx int // index into fn.Params
	}
	sinks := map[slot]bool{}
	for _, typ := range []string{"CmdType", "FilterType"} {
		if m := p.Method("model", typ, "SetDataForFunction"); m != nil {
			sinks[slot{m, len(m.Params) - 1}] = true
		}
	}
	if len(sinks) == 0 {
		r.Undecided("R6p", "anchor:model.SetDataForFunction", "", "setters not found")
		return
	}
	n := 0
	seenSite := map[string]bool{}
	for round := 0; round < 3; round++ {
		added := false
		for _, fn := range p.RepoFns("spine", "model") {
			forEachCall(fn, func(site ssa.CallInstruction) {
				callee := site.Common().StaticCallee()
				if callee == nil {
					return
				}
				for sl := range sinks {
					if sl.fn != callee && (callee.Origin() == nil || sl.fn != callee.Origin()) {
						continue
					}
					if sl.idx >= len(site.Common().Args) {
						continue
					}
					arg := site.Common().Args[sl.idx]
					if par, ok := arg.(*ssa.Parameter); ok {
						for i, q := range fn.Params {
							if q == par && !sinks[slot{fn, i}] {
								sinks[slot{fn, i}] = true
								added = true
							}
						}
						continue
					}
					ofn := fn
					if o := fn.Origin(); o != nil {
						ofn = o
					}
					key := FnName(ofn) + "|" + originName(callee) + "|" + Path(arg)
					if seenSite[key] {
						continue
					}
					seenSite[key] = true
					n++
					bad := false
					if mi, ok := arg.(*ssa.MakeInterface); ok {
						if pt, ok := mi.X.Type().Underlying().(*types.Pointer); ok && types.IsInterface(pt.Elem()) {
							bad = true
						}
					}
					r.Check("R6p", key, !bad, p.InstrPos(site), "the data argument is the address of an interface variable: reflect cannot convert *interface{} to the field type and panics (pass the value itself)")
				}
			})
		}
		if !added {
			break
		}
	}
	r.Floor("R6p", "data arguments of the reflective setters", n, 2)
}

// c18CustomJSONGuards: where a type rewrites one of its fields while encoding
// and while decoding (TimePeriodType: absolute end time <-> remaining duration),
// both rewrites must apply to the same values: the nil tests on the value's own
// fields under which the encoder rewrites field F equal those under which the
// decoder rewrites F. A one-sided condition turns the value into a different
// one on the way (a fixed window becomes a relative one).
func c18CustomJSONGuards(p *Prog, r *Report, rule string) {
	r.Rule(rule, "a field rewritten by both MarshalJSON and UnmarshalJSON of a type is rewritten under the same presence conditions on the value's fields on both sides")
	n := 0
	for _, fn := range p.RepoFns("model") {
		if fn.Name() != "MarshalJSON" || fn.Signature.Recv() == nil {
			continue
		}
		nt := namedOf(fn.Signature.Recv().Type())
		if nt == nil {
			continue
		}
		un := p.Method("model", nt.Obj().Name(), "UnmarshalJSON")
		if un == nil {
			continue
		}
		st, ok := nt.Underlying().(*types.Struct)
		if !ok {
			continue
		}
		enc := jsonRewriteGuards(p, fn, st)
		dec := jsonRewriteGuards(p, un, st)
		for _, f := range sortedKeys(enc) {
			d, both := dec[f]
			if !both {
				continue
			}
			n++
			e := enc[f]
			r.Check(rule, fmt.Sprintf("type:model.%s|field:%s", nt.Obj().Name(), f), e == d, p.Pos(fn.Pos()), fmt.Sprintf("encoder rewrites %s under {%s}; decoder rewrites it under {%s}", f, e, d))
		}
	}
	r.Floor(rule, "fields rewritten on both sides", n, 1)
}

// jsonRewriteGuards: field name -> canonical presence condition ("EndTime!=nil,StartTime==nil")
// under which fn (or a repository callee, depth 2) stores into that field of a value of struct type st.
func jsonRewriteGuards(p *Prog, fn *ssa.Function, st *types.Struct) map[string]string {
	res := map[string]string{}
	var scan func(f *ssa.Function, depth int, inherited map[string]string)
	merge := func(field string, facts map[string]string) {
		var parts []string
		for _, k := range sortedKeys(facts) {
			parts = append(parts, k+facts[k])
		}
		s := strings.Join(parts, ",")
		if old, ok := res[field]; ok && old != s {
			s = old + " | " + s
		}
		res[field] = s
	}
	factsOf := func(f *ssa.Function, b *ssa.BasicBlock) map[string]string {
		facts := map[string]string{}
		for _, g := range Guards(b) {
			if x, trueNil, ok := nilTest(g.Cond); ok {
				if name := ownFieldName(x, st); name != "" {
					if trueNil == g.Val {
						facts[name] = "==nil"
					} else {
						facts[name] = "!=nil"
					}
				}
				// err == nil of a repository callee: the callee's success conditions
				if ex, isEx := x.(*ssa.Extract); isEx && trueNil == g.Val {
					if c, isC := ex.Tuple.(*ssa.Call); isC {
						if callee := c.Call.StaticCallee(); callee != nil && p.IsRepoFn(callee) && errLike(ex.Type()) {
							for k, v := range successFacts(callee, st) {
								facts[k] = v
							}
						}
					}
				}
			}
		}
		return facts
	}
	scan = func(f *ssa.Function, depth int, inherited map[string]string) {
		for _, b := range f.Blocks {
			for _, ins := range b.Instrs {
				switch x := ins.(type) {
				case *ssa.Store:
					fa, ok := x.Addr.(*ssa.FieldAddr)
					if !ok {
						continue
					}
					bs, ok := derefType(fa.X.Type()).Underlying().(*types.Struct)
					if !ok || !types.Identical(bs, st) {
						continue
					}
					// initialisation of the whole temp value (*t = T(temp)) is not a rewrite: only stores of call results
					if _, isCall := x.Val.(*ssa.Call); !isCall {
						continue
					}
					facts := factsOf(f, b)
					for k, v := range inherited {
						if _, ok := facts[k]; !ok {
							facts[k] = v
						}
					}
					merge(fieldOfAddr(fa).Name(), facts)
				case *ssa.Call:
					if depth >= 2 {
						continue
					}
					callee := x.Call.StaticCallee()
					if callee == nil || !p.IsRepoFn(callee) || callee.Blocks == nil {
						continue
					}
					// only helpers that receive the value
					takes := false
					for _, a := range x.Call.Args {
						if bs, ok := derefType(a.Type()).Underlying().(*types.Struct); ok && types.Identical(bs, st) {
							takes = true
						}
					}
					if takes {
						inh := factsOf(f, b)
						for k, v := range inherited {
							if _, ok := inh[k]; !ok {
								inh[k] = v
							}
						}
						scan(callee, depth+1, inh)
					}
				}
			}
		}
	}
	scan(fn, 0, map[string]string{})
	return res
}

func derefType(t types.Type) types.Type {
	if pt, ok := t.Underlying().(*types.Pointer); ok {
		return pt.Elem()
	}
	return t
}

// ownFieldName: x is a load of a field of a value whose struct type is st.
func ownFieldName(x ssa.Value, st *types.Struct) string {
	for d := 0; d < 4; d++ {
		switch y := x.(type) {
		case *ssa.UnOp:
			x = y.X
			continue
		case *ssa.FieldAddr:
			if bs, ok := derefType(y.X.Type()).Underlying().(*types.Struct); ok && types.Identical(bs, st) {
				return fieldOfAddr(y).Name()
			}
			return ""
		case *ssa.Field:
			if bs, ok := y.X.Type().Underlying().(*types.Struct); ok && types.Identical(bs, st) {
				return fieldOfVal(y).Name()
			}
			return ""
		}
		break
	}
	return ""
}

// successFacts: presence conditions on the fields of st that hold at every
// return of callee whose error result is the constant nil.
func successFacts(callee *ssa.Function, st *types.Struct) map[string]string {
	var res map[string]string
	for _, b := range callee.Blocks {
		ret, ok := b.Instrs[len(b.Instrs)-1].(*ssa.Return)
		if !ok || len(ret.Results) == 0 {
			continue
		}
		last := ret.Results[len(ret.Results)-1]
		if c, isC := last.(*ssa.Const); !isC || !c.IsNil() {
			// a forwarded error may be nil as well: such returns also count as possible successes;
			// a freshly made error, or one tested to be non-nil, is a failure
			if _, isConstErr := last.(*ssa.MakeInterface); isConstErr {
				continue
			}
			if c, isCall := last.(*ssa.Call); isCall {
				if callee := c.Call.StaticCallee(); callee != nil && (fnPkgPath(callee) == "errors" || fnPkgPath(callee) == "fmt") {
					continue
				}
			}
			definitelyErr := false
			for _, g := range Guards(b) {
				if x, trueNil, ok := nilTest(g.Cond); ok && x == last && trueNil != g.Val {
					definitelyErr = true
				}
			}
			if definitelyErr {
				continue
			}
		}
		facts := map[string]string{}
		for _, g := range Guards(b) {
			if x, trueNil, ok := nilTest(g.Cond); ok {
				if name := ownFieldName(x, st); name != "" {
					if trueNil == g.Val {
						facts[name] = "==nil"
					} else {
						facts[name] = "!=nil"
					}
				}
			}
		}
		if res == nil {
			res = facts
		} else {
			for k, v := range res {
				if facts[k] != v {
					delete(res, k)
				}
			}
		}
	}
	if res == nil {
		res = map[string]string{}
	}
	return res
}

// c18AccessorSkips: the decoding accessors CmdType.Data / FilterType.Data decide
// whether an element is present from the field itself (kind, nil, tag, name) and
// never from the content of what it points to: an element that is present but
// empty (an empty selector = "all") is still reported.
func c18AccessorSkips(p *Prog, r *Report, rule string) {
	n := 0
	for _, typ := range []string{"CmdType", "FilterType"} {
		fn := p.Method("model", typ, "Data")
		if fn == nil {
			r.Undecided(rule, "anchor:model."+typ+".Data", "", "method not found")
			continue
		}
		conds := map[ssa.Value]bool{}
		for _, b := range fn.Blocks {
			if ifi, ok := b.Instrs[len(b.Instrs)-1].(*ssa.If); ok {
				conds[ifi.Cond] = true
			}
		}
		bad := ""
		nPred := 0
		p.InScope(fn, func() {
			forEachCall(fn, func(site ssa.CallInstruction) {
				c, ok := site.(*ssa.Call)
				if !ok {
					return
				}
				callee := c.Call.StaticCallee()
				if callee == nil || fnPkgPath(callee) != "reflect" || callee.Signature.Recv() == nil || len(c.Call.Args) == 0 {
					return
				}
				// does the result decide a branch?
				decides := false
				for v := range forwardTaint(c) {
					if conds[v] {
						decides = true
					}
				}
				if !decides {
					return
				}
				nPred++
				// receiver derived from Elem()/Indirect of a field value
				through := false
				var walk func(v ssa.Value, d int)
				walk = func(v ssa.Value, d int) {
					if d > 6 || through {
						return
					}
					switch x := v.(type) {
					case *ssa.Call:
						if f := x.Call.StaticCallee(); f != nil && fnPkgPath(f) == "reflect" && (f.Name() == "Elem" || f.Name() == "Indirect") {
							through = true
							return
						}
					case *ssa.UnOp:
						walk(x.X, d+1)
					case *ssa.Alloc:
						if sv := singleStore(x); sv != nil {
							walk(sv, d+1)
						}
					}
				}
				walk(c.Call.Args[0], 0)
				if through {
					bad = fmt.Sprintf("reflect.%s on the pointee of a field decides a branch (%s)", callee.Name(), p.InstrPos(c))
				}
			})
		})
		n += nPred
		r.Check(rule, "model."+typ+".Data|presence-from-field", bad == "", p.Pos(fn.Pos()), fmt.Sprintf("%d reflective predicates decide branches; %s", nPred, bad))
	}
	r.Floor(rule, "reflective predicates deciding branches in the accessors", n, 3)
}

// helperResult: the value an unexported repository helper returns as result idx,
// if all its returns that do not yield the zero string agree on one value
// (the helper's parameters are not substituted: used for tag look-ups, which
// depend on the struct field handed in only through model.EEBusTags).
func helperResult(c *ssa.Call, idx int) ssa.Value {
	h := c.Call.StaticCallee()
	if h == nil || h.Blocks == nil || !strings.HasPrefix(fnPkgPath(h), repoMod) || isExportedFn(originOf(h)) {
		return nil
	}
	var res ssa.Value
	for _, b := range h.Blocks {
		ret, isRet := b.Instrs[len(b.Instrs)-1].(*ssa.Return)
		if !isRet {
			continue
		}
		if idx >= len(ret.Results) {
			return nil
		}
		rv := ret.Results[idx]
		if s, isS := constString(rv); isS && s == "" {
			continue
		}
		if res != nil && res != rv {
			return nil
		}
		res = rv
	}
	return res
}

// c18ByNameLookups: the reflective accessors of CmdType/FilterType find "the field of function F" through the fct
// tags. A look-up by Go field *name* computed from the function (FieldByName(upperFirst(F))) is only equivalent if
// every tagged field is named after its function — an exhaustive table condition that is checked whenever such a
// look-up exists (it does not hold for every field of the data model: field names follow the XSD element names,
// function constants have their own spelling).
func c18ByNameLookups(p *Prog, t *Tables, r *Report) {
	r.Rule("T6", "wherever a reflective accessor of CmdType/FilterType looks a field up by a name computed from the function (not by a name read from the struct's own field list), every fct-tagged field is named exactly like its function with the first letter upper-cased")
	n := 0
	for _, fn := range p.RepoFns("model") {
		if fn.Signature.Recv() == nil || fn.Blocks == nil {
			continue
		}
		owner := ""
		switch {
		case isNamed(fn.Signature.Recv().Type(), "model", "CmdType"):
			owner = "CmdType"
		case isNamed(fn.Signature.Recv().Type(), "model", "FilterType"):
			owner = "FilterType"
		default:
			continue
		}
		forEachCall(fn, func(site ssa.CallInstruction) {
			c := site.Common()
			callee := c.StaticCallee()
			isByName := callee != nil && fnPkgPath(callee) == "reflect" && callee.Name() == "FieldByName"
			if c.IsInvoke() && c.Method.Name() == "FieldByName" && c.Method.Pkg() != nil && c.Method.Pkg().Path() == "reflect" {
				isByName = true // reflect.Type is an interface
			}
			if c.IsInvoke() && c.Method.Name() == "FieldByName" && isNamed(c.Value.Type(), "reflect", "Type") {
				isByName = true
			}
			if !isByName {
				return
			}
			args := callArgs(c)
			if len(args) != 1 {
				return
			}
			n++
			// the name is read from a reflect.StructField of the struct itself: fine
			fromFieldList := false
			for _, s := range p.SourcesOpt(args[0], false, nil, true) {
				if strings.Contains(s.Desc, "StructField") || strings.HasSuffix(Path(s.Val), ".Name") {
					fromFieldList = true
				}
			}
			if pth := Path(args[0]); strings.HasSuffix(pth, ".Name") {
				fromFieldList = true
			}
			key := fmt.Sprintf("model.%s.%s|FieldByName", owner, originName(fn))
			if fromFieldList {
				r.Pass("T6", key, p.InstrPos(site), "the name comes from the struct's own field list ("+Path(args[0])+")")
				return
			}
			fields := t.CmdFields
			if owner == "FilterType" {
				fields = t.FilterFields
			}
			var bad []string
			for _, f := range fields {
				fct := f.Tags["fct"]
				if fct == "" {
					continue
				}
				want := strings.ToUpper(fct[:1]) + fct[1:]
				if owner == "FilterType" {
					continue // filter fields carry a Selectors/Elements suffix: a by-name look-up cannot be exact there
				}
				if f.Var.Name() != want {
					bad = append(bad, fmt.Sprintf("%s (function %s)", f.Var.Name(), fct))
				}
			}
			r.Check("T6", key, len(bad) == 0 && owner == "CmdType", p.InstrPos(site), fmt.Sprintf("the field is looked up by a name computed from %s; fields not named after their function: %v — commands for these functions are built without payload", Path(args[0]), bad))
		})
	}
	r.Stat("T6.reflective look-ups by field name", n)
}

// c18FilterValuesUsed: filters are built as values (filter = addSelectorToFilter(filter, …)); a value computed after
// the filter was already appended to the list is dead — the command goes out without that selector or those elements.
// Every call in package spine that returns a model.FilterType value reaches an append to a filter list or a return.
func c18FilterValuesUsed(p *Prog, r *Report, rule string) {
	r.Rule(rule, "every filter value a builder computes ends up in the filter list: the result of each call returning a model.FilterType flows into an append to a []model.FilterType or into the function's result (a filter appended before its selector or elements are added goes out without them)")
	n := 0
	for _, fn := range p.RepoFns("spine") {
		if fn.Blocks == nil {
			continue
		}
		idx := 0
		forEachCallOwn(fn, func(site ssa.CallInstruction) {
			c, ok := site.(*ssa.Call)
			if !ok || !isNamed(c.Type(), "model", "FilterType") {
				return
			}
			if _, isPtr := c.Type().Underlying().(*types.Pointer); isPtr {
				return
			}
			idx++
			n++
			// the value may live in a local cell (a struct built by a composite literal is not lifted to a register):
			// only reads of the cell that come after the assignment carry this value
			var seeds []ssa.Value
			direct := true
			if c.Referrers() != nil {
				for _, ref := range *c.Referrers() {
					st, isSt := ref.(*ssa.Store)
					if !isSt || st.Val != ssa.Value(c) {
						continue
					}
					al, isAl := st.Addr.(*ssa.Alloc)
					if !isAl || al.Referrers() == nil {
						continue
					}
					direct = false
					for _, r2 := range *al.Referrers() {
						ld, isLd := r2.(*ssa.UnOp)
						if !isLd || ld.Op != token.MUL {
							continue
						}
						after := false
						if ld.Block() == st.Block() {
							after = instrIndex(ld) > instrIndex(st)
						} else {
							after = blockReaches(st.Block(), ld.Block())
						}
						if after {
							seeds = append(seeds, ld)
						}
					}
				}
			}
			if direct {
				seeds = []ssa.Value{c}
			}
			t := forwardTaint(seeds...)
			used := false
			for v := range t {
				switch x := v.(type) {
				case *ssa.Call:
					if builtinName(&x.Call) == "append" {
						used = true
					}
				}
			}
			for _, b := range fn.Blocks {
				if ret, isRet := b.Instrs[len(b.Instrs)-1].(*ssa.Return); isRet {
					for _, res := range ret.Results {
						if t[res] {
							used = true
						}
					}
				}
			}
			r.Check(rule, fmt.Sprintf("%s|filter-value#%d", FnName(fn), idx), used, p.InstrPos(c), "the filter value computed by "+Path(c)+" reaches the filter list or the result")
		})
	}
	r.Stat(rule+".calls returning a filter value", n)
	if n == 0 {
		r.Pass(rule, "spine|filter-values", "", "no builder returns filter values (filters are filled through pointers): nothing to lose")
	}
}
