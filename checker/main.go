package main

import (
	"encoding/json"
	"flag"
	"fmt"
	"os"
	"runtime/debug"
	"sort"
	"strconv"
	"strings"
)

type propCheck struct {
	NeedSSA     bool
	Run         func(p *Prog, r *Report)
	Explanation string
}

var registry = map[string]*propCheck{}

func register(id string, needSSA bool, explanation string, run func(p *Prog, r *Report)) {
	registry[id] = &propCheck{NeedSSA: needSSA, Run: run, Explanation: explanation}
}

func main() {
	prop := flag.String("prop", "", "property id (C01..C20)")
	tier := flag.String("tier", "quick", "quick|thorough")
	repo := flag.String("repo", "/repo", "repository directory")
	verif := flag.String("verif", "/verif", "verif directory (evidence, known findings)")
	replay := flag.String("replay", "", "violation file to re-evaluate")
	list := flag.Bool("list", false, "list properties")
	selftest := flag.String("selftest", "", "run the self-test catalogue for a property (or 'all')")
	props := flag.String("props", "", "comma-separated property ids (or 'all'): analyse several properties over one loaded program (used by the self tests; the registered commands use -prop)")
	flag.Parse()

	if *list {
		var ids []string
		for id := range registry {
			ids = append(ids, id)
		}
		sort.Strings(ids)
		for _, id := range ids {
			fmt.Println(id)
		}
		return
	}
	seed := 0
	if s := os.Getenv("VERIF_SEED"); s != "" {
		seed, _ = strconv.Atoi(s)
	}
	if t := os.Getenv("VERIF_TIER"); t != "" && !flagSet("tier") {
		*tier = t
	}
	if *tier != "quick" && *tier != "thorough" {
		fmt.Fprintln(os.Stderr, "tier must be quick or thorough")
		os.Exit(2)
	}
	code := 2
	func() {
		defer func() {
			if e := recover(); e != nil {
				if ee, ok := e.(envError); ok {
					fmt.Fprintf(os.Stderr, "environment failure: %s\n", ee.msg)
				} else {
					fmt.Fprintf(os.Stderr, "analysis panic: %v\n%s\n", e, debug.Stack())
				}
				code = 2
			}
		}()
		if *selftest != "" {
			code = runSelftest(*selftest, *repo, *verif)
			return
		}
		if *props != "" {
			code = runProps(*props, *repo, *verif, *tier, seed)
			return
		}
		pc := registry[*prop]
		if pc == nil {
			fmt.Fprintf(os.Stderr, "unknown property %q\n", *prop)
			code = 2
			return
		}
		if *replay != "" {
			code = runReplay(*prop, pc, *replay, *repo, *verif, *tier, seed)
			return
		}
		code = runProp(*prop, pc, *repo, *verif, *tier, seed)
	}()
	os.Exit(code)
}

func flagSet(name string) bool {
	found := false
	flag.Visit(func(f *flag.Flag) {
		if f.Name == name {
			found = true
		}
	})
	return found
}

func runProp(id string, pc *propCheck, repo, verif, tier string, seed int) int {
	p := Load(LoadOpts{RepoDir: repo, NeedSSA: pc.NeedSSA})
	r := NewReport(id, tier, seed)
	pc.Run(p, r)
	extra := map[string]any{}
	if tier == "thorough" {
		thoroughExtras(id, pc, repo, verif, r, extra)
	}
	return r.Finish(verif, p, pc.Explanation, extra)
}

// runProps analyses several properties over one loaded program.
func runProps(list, repo, verif, tier string, seed int) int {
	var ids []string
	if list == "all" {
		for id := range registry {
			ids = append(ids, id)
		}
	} else {
		ids = strings.Split(list, ",")
	}
	sort.Strings(ids)
	p := Load(LoadOpts{RepoDir: repo, NeedSSA: true})
	worst := 0
	for _, id := range ids {
		pc := registry[id]
		if pc == nil {
			fmt.Fprintf(os.Stderr, "unknown property %q\n", id)
			return 2
		}
		code := 2
		func() {
			defer func() {
				if e := recover(); e != nil {
					fmt.Fprintf(os.Stderr, "analysis panic in %s: %v\n%s\n", id, e, debug.Stack())
				}
			}()
			r := NewReport(id, tier, seed)
			pc.Run(p, r)
			code = r.Finish(verif, p, pc.Explanation, map[string]any{})
		}()
		if code > worst {
			worst = code
		}
	}
	return worst
}

// runReplay re-evaluates the property and reports whether the recorded
// obligation is still violated on the current tree.
func runReplay(id string, pc *propCheck, file, repo, verif, tier string, seed int) int {
	b, err := os.ReadFile(file)
	if err != nil {
		fmt.Fprintf(os.Stderr, "cannot read %s: %v\n", file, err)
		return 2
	}
	var vf violationFile
	if err := json.Unmarshal(b, &vf); err != nil {
		fmt.Fprintf(os.Stderr, "cannot parse %s: %v\n", file, err)
		return 2
	}
	p := Load(LoadOpts{RepoDir: repo, NeedSSA: pc.NeedSSA})
	r := NewReport(id, tier, seed)
	pc.Run(p, r)
	for _, o := range r.Obs {
		if o.Rule == vf.Rule && o.Key == vf.Key {
			if o.OK {
				fmt.Printf("replay: obligation rule=%s construct=%s now HOLDS at %s\n", o.Rule, o.Key, o.Pos)
				return 0
			}
			fmt.Printf("replay: obligation rule=%s (%s) construct=%s still VIOLATED at %s: %s\n", o.Rule, r.Rules[o.Rule], o.Key, o.Pos, o.Detail)
			fmt.Printf("VIOLATION property=%s replay=%s\n", id, file)
			return 1
		}
	}
	fmt.Printf("replay: obligation rule=%s construct=%s no longer exists on this tree (construct removed or renamed)\n", vf.Rule, vf.Key)
	return 0
}
