package main

// C02-R11 / C04-R10 — truth table of model.Merge.
//
// Merge has two loops. Per existing item (loop over s1) the body is simulated
// under every assignment of its three conditions {the update mentions the key,
// the item is changeable, remote write}; per new item (loop over s2) under
// {key among the existing ones, remote write}. For every assignment the rule
// decides, along the one feasible path of the iteration, how many items are
// appended to the result, which one (the existing item, the updated item that
// carries over the existing item's other fields, the new item), and whether the
// success flag is cleared.

import (
	"fmt"
	"go/token"
	"go/types"
	"sort"
	"strings"

	"golang.org/x/tools/go/ssa"
)

type iterOutcome struct {
	Appends []string // class of each appended element, in order
	Cleared bool     // the success accumulator is set to false
	Carry   bool     // a call that receives the existing item and the address of the update item ran
	Undet   string
}

func (o iterOutcome) String() string {
	s := fmt.Sprintf("appends %v", o.Appends)
	if o.Carry {
		s += ", existing fields carried into the update"
	}
	if o.Cleared {
		s += ", success cleared"
	}
	if o.Undet != "" {
		s += ", undetermined: " + o.Undet
	}
	return s
}

type mergeLoop struct {
	Header  *ssa.BasicBlock
	Blocks  map[*ssa.BasicBlock]bool
	Ranged  *ssa.Parameter
	ElemLd  ssa.Value   // load of the ranged element
	Lookup  *ssa.Lookup // comma-ok look-up in the body
	Atoms   []ssa.Value
	AtomDes []string
	ResPhi  *ssa.Phi    // slice accumulator at the header
	OkPhi   *ssa.Phi    // bool accumulator at the header
	Negated []ssa.Value // atoms whose condition value is the negation of the named atom
}

func findMergeLoops(fn *ssa.Function, wcf map[*ssa.Function]bool) ([]*mergeLoop, string) {
	return findAccLoops(fn, func(c ssa.Value) string {
		switch x := c.(type) {
		case *ssa.Extract:
			if lk, ok := x.Tuple.(*ssa.Lookup); ok && lk.CommaOk && x.Index == 1 {
				return "found"
			}
		case *ssa.Call:
			if callee := x.Call.StaticCallee(); callee != nil && (wcf[callee] || wcf[originOf(callee)]) {
				return "changeable"
			}
		case *ssa.Parameter:
			if isBoolType(x.Type()) {
				return "remote"
			}
		}
		return ""
	})
}

// findAccLoops finds the loops of fn with their accumulators and classifies the
// branch conditions inside them with the given function ("" = unknown).
func findAccLoops(fn *ssa.Function, classify func(c ssa.Value) string) ([]*mergeLoop, string) {
	var loops []*mergeLoop
	for _, h := range fn.Blocks {
		isHeader := false
		for _, pr := range h.Preds {
			if h.Dominates(pr) {
				isHeader = true
			}
		}
		if !isHeader {
			continue
		}
		ml := &mergeLoop{Header: h, Blocks: map[*ssa.BasicBlock]bool{}}
		for _, b := range fn.Blocks {
			if h.Dominates(b) && (b == h || blockReaches(b, h)) {
				ml.Blocks[b] = true
			}
		}
		for _, ins := range h.Instrs {
			phi, ok := ins.(*ssa.Phi)
			if !ok {
				break
			}
			if _, isSl := phi.Type().Underlying().(*types.Slice); isSl {
				ml.ResPhi = phi
			}
			if isBoolType(phi.Type()) {
				ml.OkPhi = phi
			}
		}
		for b := range ml.Blocks {
			for _, ins := range b.Instrs {
				switch x := ins.(type) {
				case *ssa.IndexAddr:
					if par, ok := x.X.(*ssa.Parameter); ok && ml.Ranged == nil {
						ml.Ranged = par
						if x.Referrers() != nil {
							for _, ref := range *x.Referrers() {
								if ld, ok := ref.(*ssa.UnOp); ok {
									ml.ElemLd = ld
								}
							}
						}
					}
				case *ssa.Lookup:
					if x.CommaOk {
						ml.Lookup = x
					}
				}
			}
		}
		seen := map[ssa.Value]bool{}
		var blocks []*ssa.BasicBlock
		for b := range ml.Blocks {
			blocks = append(blocks, b)
		}
		sort.Slice(blocks, func(i, j int) bool { return blocks[i].Index < blocks[j].Index })
		for _, b := range blocks {
			if b == h {
				continue
			}
			ifi, ok := b.Instrs[len(b.Instrs)-1].(*ssa.If)
			if !ok {
				continue
			}
			c0, _ := normCond(ifi.Cond, true)
			// a condition computed by && / || is evaluated from its edges during the simulation; its leaves are atoms
			var leaves []ssa.Value
			var collect func(v ssa.Value, d int)
			collect = func(v ssa.Value, d int) {
				v, _ = normCond(v, true)
				if seen[v] || d > 6 {
					return
				}
				seen[v] = true
				if ph, isPhi := v.(*ssa.Phi); isPhi {
					for _, e := range ph.Edges {
						collect(e, d+1)
					}
					return
				}
				if _, isK := constBool(v); isK {
					return
				}
				if call, isCall := v.(*ssa.Call); isCall && classify(v) == "" && predicateCallee(call) != nil {
					// a boolean helper: its leaves (in the caller's terms) are the atoms
					for _, l := range predicateLeaves(call, func(w ssa.Value) bool { return classify(w) != "" }, 0) {
						collect(l, d+1)
					}
					return
				}
				leaves = append(leaves, v)
			}
			collect(c0, 0)
			for _, c := range leaves {
				des := classify(c)
				if des == "" {
					return nil, fmt.Sprintf("condition %s in block %d of the loop is not one of the conditions the rule knows", c.Name(), b.Index)
				}
				if strings.HasPrefix(des, "!") {
					// negated form of an atom: register the atom under its positive name with a NOT wrapper handled by sigma below
					des = des[1:]
					ml.Negated = append(ml.Negated, c)
				}
				ml.Atoms = append(ml.Atoms, c)
				ml.AtomDes = append(ml.AtomDes, des)
			}
		}
		loops = append(loops, ml)
	}
	return loops, ""
}

// simulateIteration follows the one feasible path of a loop iteration under sigma.
func (ml *mergeLoop) simulateIteration(sigma map[ssa.Value]bool) iterOutcome {
	var out iterOutcome
	choice := map[*ssa.Phi]ssa.Value{}
	var calls []*ssa.Call
	// entry: the body successor of the header
	var cur, prev *ssa.BasicBlock
	prev = ml.Header
	for _, s := range ml.Header.Succs {
		if ml.Blocks[s] && s != ml.Header {
			cur = s
		}
	}
	if cur == nil {
		out.Undet = "no loop body"
		return out
	}
	for steps := 0; steps < 200; steps++ {
		// phis
		idx := -1
		for i, pb := range cur.Preds {
			if pb == prev {
				idx = i
			}
		}
		if cur == ml.Header {
			// back edge: read the accumulators
			resolve := func(v ssa.Value) ssa.Value {
				for d := 0; d < 50; d++ {
					if ph, ok := v.(*ssa.Phi); ok {
						if c, ok := choice[ph]; ok {
							v = c
							continue
						}
					}
					break
				}
				return v
			}
			if ml.ResPhi != nil && idx >= 0 {
				v := resolve(ml.ResPhi.Edges[idx])
				for d := 0; d < 8; d++ {
					if v == ssa.Value(ml.ResPhi) {
						break
					}
					c, ok := v.(*ssa.Call)
					if !ok || builtinName(&c.Call) != "append" {
						out.Undet = "the result accumulator receives " + v.Name()
						break
					}
					out.Appends = append([]string{ml.classify(c)}, out.Appends...)
					v = resolve(c.Call.Args[0])
				}
			}
			if ml.OkPhi != nil && idx >= 0 {
				v := resolve(ml.OkPhi.Edges[idx])
				if b, ok := constBool(v); ok {
					if !b {
						out.Cleared = true
					} else {
						out.Undet = "success set to true inside the loop"
					}
				} else if v != ssa.Value(ml.OkPhi) {
					out.Undet = "success accumulator receives " + v.Name()
				}
			}
			for _, c := range calls {
				if ml.carries(c) {
					out.Carry = true
				}
			}
			return out
		}
		for _, ins := range cur.Instrs {
			ph, ok := ins.(*ssa.Phi)
			if !ok {
				break
			}
			if idx >= 0 && idx < len(ph.Edges) {
				choice[ph] = ph.Edges[idx]
			}
		}
		for _, ins := range cur.Instrs {
			if c, ok := ins.(*ssa.Call); ok {
				calls = append(calls, c)
			}
		}
		var next *ssa.BasicBlock
		switch last := cur.Instrs[len(cur.Instrs)-1].(type) {
		case *ssa.If:
			c, pol := normCond(last.Cond, true)
			var evalC func(v ssa.Value, d int) (bool, bool)
			evalC = func(v ssa.Value, d int) (bool, bool) {
				if d > 20 {
					return false, false
				}
				if val, ok := sigma[v]; ok {
					return val, true
				}
				if b, ok := constBool(v); ok {
					return b, true
				}
				switch x := v.(type) {
				case *ssa.Phi:
					if e, ok := choice[x]; ok {
						return evalC(e, d+1)
					}
				case *ssa.UnOp:
					if x.Op == token.NOT {
						if b, ok := evalC(x.X, d+1); ok {
							return !b, true
						}
					}
				case *ssa.Call:
					switch predicate3(x, func(w ssa.Value) bool3 {
						if b, ok := evalC(w, d+1); ok {
							return b3(b)
						}
						return bUnknown
					}, 0) {
					case bTrue:
						return true, true
					case bFalse:
						return false, true
					}
				}
				return false, false
			}
			val, known := evalC(c, 0)
			if !known {
				out.Undet = "undecided condition " + c.Name()
				return out
			}
			if val == pol {
				next = cur.Succs[0]
			} else {
				next = cur.Succs[1]
			}
		case *ssa.Jump:
			next = cur.Succs[0]
		default:
			out.Undet = fmt.Sprintf("the iteration leaves the loop in block %d", cur.Index)
			return out
		}
		if !ml.Blocks[next] {
			out.Undet = fmt.Sprintf("the iteration leaves the loop from block %d", cur.Index)
			return out
		}
		prev, cur = cur, next
	}
	out.Undet = "path too long"
	return out
}

// classify: what an append adds — "existing" (derives from the ranged element only),
// "update" (derives from the looked-up value), "both", or "other".
func (ml *mergeLoop) classify(app *ssa.Call) string {
	if len(app.Call.Args) != 2 {
		return "other"
	}
	var elems []ssa.Value
	if sl, ok := app.Call.Args[1].(*ssa.Slice); ok {
		if al, ok := sl.X.(*ssa.Alloc); ok && al.Referrers() != nil {
			for _, ref := range *al.Referrers() {
				if ia, ok := ref.(*ssa.IndexAddr); ok && ia.Referrers() != nil {
					for _, r2 := range *ia.Referrers() {
						if st, ok := r2.(*ssa.Store); ok && st.Addr == ssa.Value(ia) {
							elems = append(elems, st.Val)
						}
					}
				}
			}
		}
	}
	if len(elems) != 1 {
		return "other"
	}
	v := elems[0]
	fromElem := ml.ElemLd != nil && (v == ml.ElemLd || forwardTaint(ml.ElemLd)[v])
	fromLookup := false
	if ml.Lookup != nil {
		fromLookup = forwardTaint(ml.Lookup)[v]
	}
	switch {
	case fromLookup:
		// the look-up key is computed from the ranged element, so the looked-up value always "derives" from it too
		return "update"
	case fromElem:
		return "element"
	}
	return "other"
}

// carries: the call receives the ranged element and the address of a cell holding the looked-up value.
func (ml *mergeLoop) carries(c *ssa.Call) bool {
	if ml.ElemLd == nil || ml.Lookup == nil || builtinName(&c.Call) != "" {
		return false
	}
	hasElem, hasCell := false, false
	lt := forwardTaint(ml.Lookup)
	for _, a := range c.Call.Args {
		if a == ml.ElemLd {
			hasElem = true
		}
		if al, ok := a.(*ssa.Alloc); ok && lt[al] {
			hasCell = true
		}
	}
	return hasElem && hasCell
}

func mergeTruthTable(p *Prog, r *Report, rule string) {
	r.Rule(rule, "truth table of model.Merge: per existing item exactly one item is appended — the update (with the existing item's other fields carried over) iff the update mentions its key and (local update or the item is changeable), else the existing item; success is cleared iff a remote write mentions an unchangeable item. Per new item: appended iff its key is not among the existing ones and the update is local; a remote write naming an unknown item clears success")
	wcf := writeCheckFns(p)
	var fn *ssa.Function
	for _, f := range p.RepoFns("model") {
		if originName(f) == "Merge" && f.Signature.Recv() == nil && f.Signature.Params().Len() == 3 {
			if fn == nil || f.String() < fn.String() {
				fn = f
			}
		}
	}
	if fn == nil {
		r.Undecided(rule, "anchor:model.Merge", "", "no instantiation of the generic Merge found")
		return
	}
	loops, why := findMergeLoops(fn, wcf)
	if why != "" {
		r.Undecided(rule, "model.Merge|shape", p.Pos(fn.Pos()), why)
		return
	}
	var la, lb *mergeLoop
	for _, l := range loops {
		if l.Ranged == nil {
			continue
		}
		switch l.Ranged {
		case fn.Params[1]:
			la = l
		case fn.Params[2]:
			lb = l
		}
	}
	if la == nil || lb == nil || la.ResPhi == nil || lb.ResPhi == nil || la.OkPhi == nil || lb.OkPhi == nil || la.Lookup == nil || lb.Lookup == nil {
		r.Undecided(rule, "model.Merge|shape", p.Pos(fn.Pos()), "expected one loop over the existing list and one over the new list, each with a keyed look-up, a result accumulator and a success accumulator")
		return
	}
	// the look-ups: loop A in a map derived from s2, loop B in a map filled with the existing items
	okMaps := forwardTaint(fn.Params[2])[la.Lookup.X]
	filled := false
	for b := range la.Blocks {
		for _, ins := range b.Instrs {
			if mu, ok := ins.(*ssa.MapUpdate); ok && mu.Map == lb.Lookup.X && (mu.Value == la.ElemLd || forwardTaint(la.ElemLd)[mu.Value]) {
				filled = true
			}
		}
	}
	r.Check(rule, "model.Merge|look-ups", okMaps && filled, p.InstrPos(la.Lookup), fmt.Sprintf("existing items are looked up among the new items: %v; new items are looked up in a map filled with every existing item: %v", okMaps, filled))
	// keys: both look-ups use the key function applied to the ranged element
	keyFrom := func(l *mergeLoop) bool {
		c, ok := l.Lookup.Index.(*ssa.Call)
		if !ok {
			return false
		}
		for _, a := range c.Call.Args {
			if l.ElemLd != nil && (a == l.ElemLd || forwardTaint(l.ElemLd)[a]) {
				return true
			}
		}
		return false
	}
	sameKeyFn := false
	if ca, ok := la.Lookup.Index.(*ssa.Call); ok {
		if cb, ok := lb.Lookup.Index.(*ssa.Call); ok {
			sameKeyFn = ca.Call.StaticCallee() != nil && ca.Call.StaticCallee() == cb.Call.StaticCallee()
		}
	}
	r.Check(rule, "model.Merge|keys", keyFrom(la) && keyFrom(lb) && sameKeyFn, p.InstrPos(la.Lookup), "both look-ups use the same key function applied to the item of their own loop")

	run := func(l *mergeLoop, name string, want func(as map[string]bool) iterOutcome) {
		n := len(l.Atoms)
		for m := 0; m < 1<<uint(n); m++ {
			sigma := map[ssa.Value]bool{}
			as := map[string]bool{}
			var parts []string
			for i, a := range l.Atoms {
				v := m&(1<<uint(i)) != 0
				sigma[a] = v
				as[l.AtomDes[i]] = v
				parts = append(parts, fmt.Sprintf("%s=%v", l.AtomDes[i], v))
			}
			sort.Strings(parts)
			got := l.simulateIteration(sigma)
			w := want(as)
			ok := got.Undet == "" && fmt.Sprint(got.Appends) == fmt.Sprint(w.Appends) && got.Cleared == w.Cleared && (!w.Carry || got.Carry)
			r.Check(rule, fmt.Sprintf("model.Merge|%s|%s", name, strings.Join(parts, ",")), ok, p.InstrPos(l.Lookup), fmt.Sprintf("does: %s; the update rules need: %s", got, w))
		}
	}
	run(la, "per-existing-item", func(as map[string]bool) iterOutcome {
		replaced := as["found"] && (!as["remote"] || as["changeable"])
		o := iterOutcome{Appends: []string{"element"}}
		if replaced {
			o = iterOutcome{Appends: []string{"update"}, Carry: true}
		}
		o.Cleared = as["found"] && !as["changeable"] && as["remote"]
		return o
	})
	run(lb, "per-new-item", func(as map[string]bool) iterOutcome {
		o := iterOutcome{}
		if !as["found"] && !as["remote"] {
			o.Appends = []string{"element"}
		}
		o.Cleared = !as["found"] && as["remote"]
		return o
	})
	// the result returned is the accumulator of the second loop, seeded with that of the first
	okRet := false
	for _, b := range fn.Blocks {
		if ret, ok := b.Instrs[len(b.Instrs)-1].(*ssa.Return); ok && len(ret.Results) == 2 {
			okRet = ret.Results[0] == ssa.Value(lb.ResPhi) && ret.Results[1] == ssa.Value(lb.OkPhi)
		}
	}
	seeded := false
	for _, e := range lb.ResPhi.Edges {
		if e == ssa.Value(la.ResPhi) {
			seeded = true
		}
	}
	r.Check(rule, "model.Merge|result", okRet && seeded, p.Pos(fn.Pos()), fmt.Sprintf("returns the accumulators of the second loop: %v; the second loop continues the list of the first: %v", okRet, seeded))
}

// selectorTruthTable: FilterData.SelectorMatch, per selector field. Conditions
// are calls of reflect.Value methods; those whose receiver derives from the
// item's FieldByName are item-side, the others selector-side.
func selectorTruthTable(p *Prog, r *Report, rule string) {
	r.Rule(rule, "truth table of FilterData.SelectorMatch per selector field: an unset selector field or one the item type does not have is skipped; an item whose field is unset (or not a pointer) does not match; a different value does not match; an equal value moves on to the next field; only the end of the loop returns true")
	fn := p.Method("model", "FilterData", "SelectorMatch")
	if fn == nil {
		r.Undecided(rule, "anchor:model.FilterData.SelectorMatch", "", "method not found")
		return
	}
	// item side: values derived from FieldByName calls
	itemSide := map[ssa.Value]bool{}
	var fieldByName *ssa.Call
	forEachCall(fn, func(site ssa.CallInstruction) {
		if c, ok := site.(*ssa.Call); ok {
			if callee := c.Call.StaticCallee(); callee != nil && fnPkgPath(callee) == "reflect" && callee.Name() == "FieldByName" {
				fieldByName = c
				for v := range forwardTaint(c) {
					itemSide[v] = true
				}
			}
		}
	})
	if fieldByName == nil {
		r.Undecided(rule, "model.FilterData.SelectorMatch|shape", p.Pos(fn.Pos()), "no FieldByName look-up of the item's field found")
		return
	}
	header := innermostLoopHeader(fieldByName.Block())
	if header == nil {
		r.Undecided(rule, "model.FilterData.SelectorMatch|shape", p.Pos(fn.Pos()), "the item field look-up is not inside a loop over the selector fields")
		return
	}
	start := loopBodyStart(header)
	if start == nil {
		r.Undecided(rule, "model.FilterData.SelectorMatch|shape", p.Pos(fn.Pos()), "loop body not found")
		return
	}
	// classify conditions
	name := func(c ssa.Value) string {
		switch x := c.(type) {
		case *ssa.Call:
			callee := x.Call.StaticCallee()
			if callee == nil || fnPkgPath(callee) != "reflect" {
				return ""
			}
			side := "sel"
			if len(x.Call.Args) > 0 && itemSide[x.Call.Args[0]] {
				side = "item"
			}
			switch callee.Name() {
			case "IsNil":
				return side + ".nil"
			case "IsValid":
				return side + ".valid"
			}
		case *ssa.BinOp:
			// Kind() == / != reflect.Ptr ; itemValue != value
			if k, ok := constInt(x.Y); ok && k == 22 { // reflect.Ptr
				if kc, ok := x.X.(*ssa.Call); ok {
					if callee := kc.Call.StaticCallee(); callee != nil && callee.Name() == "Kind" {
						side := "sel"
						if len(kc.Call.Args) > 0 && itemSide[kc.Call.Args[0]] {
							side = "item"
						}
						if x.Op == token.EQL {
							return side + ".ptr"
						}
						return "!" + side + ".ptr"
					}
				}
			}
			if (x.Op == token.NEQ || x.Op == token.EQL) && types.IsInterface(x.X.Type()) && types.IsInterface(x.Y.Type()) {
				if itemSide[x.X] != itemSide[x.Y] {
					if x.Op == token.NEQ {
						return "differ"
					}
					return "!differ"
				}
			}
		}
		return ""
	}
	atoms := []string{"sel.ptr", "sel.nil", "item.valid", "item.ptr", "item.nil", "differ"}
	want := func(as map[string]bool) string {
		switch {
		case !as["sel.ptr"], as["sel.nil"], !as["item.valid"]:
			return "continue"
		case !as["item.ptr"], as["item.nil"], as["differ"]:
			return "return false"
		}
		return "continue"
	}
	unknown := map[string]bool{}
	n := 0
	for m := 0; m < 1<<uint(len(atoms)); m++ {
		as := map[string]bool{}
		for i, a := range atoms {
			as[a] = m&(1<<uint(i)) != 0
		}
		got := iterationOutcomes(start, func(c ssa.Value) (bool, bool) {
			nm := name(c)
			if nm == "" {
				unknown[c.Name()] = true
				return false, false
			}
			if strings.HasPrefix(nm, "!") {
				return true, !as[nm[1:]]
			}
			return true, as[nm]
		})
		g := strings.Join(sortedKeys(got), "|")
		w := want(as)
		if g == w {
			n++
			continue
		}
		var parts []string
		for _, a := range atoms {
			parts = append(parts, fmt.Sprintf("%s=%v", a, as[a]))
		}
		r.Fail(rule, "model.FilterData.SelectorMatch|"+strings.Join(parts, ","), p.InstrPos(fieldByName), fmt.Sprintf("does: %s; the selector rules need: %s", g, w))
	}
	if len(unknown) > 0 {
		r.Undecided(rule, "model.FilterData.SelectorMatch|conditions", p.Pos(fn.Pos()), fmt.Sprintf("conditions %v are none of the selector/item presence and equality tests", sortedKeys(unknown)))
	}
	r.Check(rule, "model.FilterData.SelectorMatch|table", n > 0, p.InstrPos(fieldByName), fmt.Sprintf("%d of %d assignments of {selector field set, item has the field, item field set, values differ} behave as the selector rules need", n, 1<<uint(len(atoms))))
	// true only after the loop: every "return true" is outside the loop body
	okTrue := true
	for _, b := range fn.Blocks {
		if ret, ok := b.Instrs[len(b.Instrs)-1].(*ssa.Return); ok && len(ret.Results) == 1 {
			if v, isC := constBool(ret.Results[0]); isC && v {
				if start.Dominates(b) {
					okTrue = false
				}
			}
		}
	}
	r.Check(rule, "model.FilterData.SelectorMatch|true-after-all-fields", okTrue, p.Pos(fn.Pos()), "a match is reported only after every selector field was examined")
}

// variadicElems returns the values stored into the implicit slice of a variadic call argument.
func variadicElems(v ssa.Value) []ssa.Value {
	sl, ok := v.(*ssa.Slice)
	if !ok {
		return nil
	}
	al, ok := sl.X.(*ssa.Alloc)
	if !ok || al.Referrers() == nil {
		return nil
	}
	type ie struct {
		idx int64
		val ssa.Value
	}
	var es []ie
	for _, ref := range *al.Referrers() {
		ia, ok := ref.(*ssa.IndexAddr)
		if !ok || ia.Referrers() == nil {
			continue
		}
		k, _ := constInt(ia.Index)
		for _, r2 := range *ia.Referrers() {
			if st, ok := r2.(*ssa.Store); ok && st.Addr == ssa.Value(ia) {
				es = append(es, ie{k, st.Val})
			}
		}
	}
	sort.Slice(es, func(i, j int) bool { return es[i].idx < es[j].idx })
	var res []ssa.Value
	for _, e := range es {
		res = append(res, e.val)
	}
	return res
}

// hashKeyRule: the identity string Merge keys its items by is built so that
// different key tuples give different strings: whenever a key part is appended
// to a non-empty accumulator a separator is appended first.
func hashKeyRule(p *Prog, r *Report, rule string) {
	r.Rule(rule, "the identity string of an item separates its key parts: every append of a key part to the accumulator takes an accumulator to which, if it was non-empty, the separator literal was appended first (otherwise (1,12) and (11,2) collide and Merge replaces the wrong item)")
	// the key function: callee of the look-up index in Merge
	var keyFn *ssa.Function
	for _, f := range p.RepoFns("model") {
		if originName(f) != "Merge" || f.Signature.Recv() != nil {
			continue
		}
		for _, b := range f.Blocks {
			for _, ins := range b.Instrs {
				if lk, ok := ins.(*ssa.Lookup); ok && lk.CommaOk {
					if c, ok := lk.Index.(*ssa.Call); ok && c.Call.StaticCallee() != nil {
						keyFn = c.Call.StaticCallee()
					}
				}
			}
		}
	}
	if keyFn == nil || keyFn.Blocks == nil {
		r.Undecided(rule, "anchor:key function of model.Merge", "", "the function computing the look-up key in Merge was not found")
		return
	}
	name := p.StableName(keyFn)
	var acc *ssa.Phi
	for _, b := range keyFn.Blocks {
		isHeader := false
		for _, pr := range b.Preds {
			if b.Dominates(pr) {
				isHeader = true
			}
		}
		if !isHeader {
			continue
		}
		for _, ins := range b.Instrs {
			if ph, ok := ins.(*ssa.Phi); ok {
				if bt, ok := ph.Type().Underlying().(*types.Basic); ok && bt.Kind() == types.String {
					acc = ph
				}
			}
		}
	}
	if acc == nil {
		r.Undecided(rule, name+"|shape", p.Pos(keyFn.Pos()), "no string accumulator in a loop over the key fields")
		return
	}
	isSprintf := func(c *ssa.Call) bool {
		callee := c.Call.StaticCallee()
		return callee != nil && fnPkgPath(callee) == "fmt" && callee.Name() == "Sprintf" && len(c.Call.Args) == 2
	}
	unbox := func(v ssa.Value) ssa.Value {
		if mi, ok := v.(*ssa.MakeInterface); ok {
			return mi.X
		}
		return v
	}
	literal := func(format string) string {
		s := format
		for _, verb := range []string{"%s", "%d", "%v"} {
			s = strings.ReplaceAll(s, verb, "")
		}
		return s
	}
	isSeparatorAppend := func(v ssa.Value) (string, bool) {
		c, ok := v.(*ssa.Call)
		if !ok || !isSprintf(c) {
			return "", false
		}
		format, ok := constString(c.Call.Args[0])
		if !ok || literal(format) == "" {
			return "", false
		}
		el := variadicElems(c.Call.Args[1])
		if len(el) != 1 || unbox(el[0]) != ssa.Value(acc) {
			return "", false
		}
		guarded := false
		for _, g := range Guards(c.Block()) {
			if bo, ok := g.Cond.(*ssa.BinOp); ok && g.Val && bo.Op == token.GTR {
				if lc, ok := bo.X.(*ssa.Call); ok && builtinName(&lc.Call) == "len" && lc.Call.Args[0] == ssa.Value(acc) {
					if k, ok := constInt(bo.Y); ok && k == 0 {
						guarded = true
					}
				}
			}
		}
		return literal(format), guarded
	}
	n := 0
	seps := map[string]bool{}
	forEachCall(keyFn, func(site ssa.CallInstruction) {
		c, ok := site.(*ssa.Call)
		if !ok || !isSprintf(c) {
			return
		}
		el := variadicElems(c.Call.Args[1])
		if len(el) < 2 {
			return
		}
		first := unbox(el[0])
		// a key-part append: the first operand is the accumulator (possibly after the separator)
		var sepOK bool
		switch x := first.(type) {
		case *ssa.Phi:
			if x == acc {
				sepOK = false
				break
			}
			hasAcc, hasSep := false, false
			for _, e := range x.Edges {
				if e == ssa.Value(acc) {
					hasAcc = true
				} else if lit, guarded := isSeparatorAppend(e); guarded {
					hasSep = true
					seps[lit] = true
				}
			}
			if !hasAcc && !hasSep {
				return // not an accumulator append
			}
			sepOK = hasAcc && hasSep && len(x.Edges) == 2
		default:
			if lit, _ := isSeparatorAppend(first); lit != "" {
				// separator appended unconditionally: still separates (a leading separator is harmless)
				seps[lit] = true
				sepOK = true
			} else {
				return
			}
		}
		n++
		format, _ := constString(c.Call.Args[0])
		r.Check(rule, fmt.Sprintf("%s|key-part#%d", name, n), sepOK && literal(format) == "", p.InstrPos(c), fmt.Sprintf("key part appended with format %q; the accumulator it extends has the separator appended first whenever it was non-empty: %v", format, sepOK))
	})
	r.Check(rule, name+"|one-separator", len(seps) == 1, p.Pos(keyFn.Pos()), fmt.Sprintf("separator literals used: %v", sortedKeys(seps)))
	r.Floor(rule, "key-part appends in the key function", n, 2)
}

// sigmaFor builds the condition valuation of a loop from named atom values
// (several conditions may carry the same name, e.g. two loads of one nil test).
func (ml *mergeLoop) sigmaFor(as map[string]bool) map[ssa.Value]bool {
	neg := map[ssa.Value]bool{}
	for _, v := range ml.Negated {
		neg[v] = true
	}
	sigma := map[ssa.Value]bool{}
	for i, a := range ml.Atoms {
		v := as[ml.AtomDes[i]]
		if neg[a] {
			v = !v
		}
		sigma[a] = v
	}
	return sigma
}

func (ml *mergeLoop) atomNames() []string {
	seen := map[string]bool{}
	var res []string
	for _, d := range ml.AtomDes {
		if !seen[d] {
			seen[d] = true
			res = append(res, d)
		}
	}
	sort.Strings(res)
	return res
}

// deleteStageTable: the delete stage of the update engine, per existing item.
func deleteStageTable(p *Prog, r *Report, rule string) {
	r.Rule(rule, "truth table of the delete stage per existing item over {item changeable, remote write, selector present, elements present, selector matches}: an item is appended at most once; it is left out of the result only if it is the addressed item of a selector-only delete that may be written, or the stage reports failure (no item disappears silently); the addressed, writable item of a selector-only delete is left out; failure is reported only for an unchangeable item on a remote write")
	wcf := writeCheckFns(p)
	// the delete stage: the unexported callee of model.UpdateList that receives the data of filterDelete
	var stage *ssa.Function
	for _, withData := range []bool{true, false} {
		for _, f := range p.RepoFns("model") {
			if originName(f) != "UpdateList" || f.Signature.Recv() != nil || stage != nil && withData == false {
				continue
			}
			p.InScope(f, func() {
				forEachCall(f, func(site ssa.CallInstruction) {
					c, ok := site.(*ssa.Call)
					if !ok || c.Call.StaticCallee() == nil || isExportedFn(originOf(c.Call.StaticCallee())) {
						return
					}
					for _, a := range c.Call.Args {
						pa := Path(a)
						if withData && strings.Contains(pa, "filterDelete.Data()") || !withData && strings.Contains(pa, "param:filterDelete") {
							if stage == nil || c.Call.StaticCallee().String() < stage.String() {
								stage = c.Call.StaticCallee()
							}
						}
					}
				})
			})
		}
	}
	if stage == nil || stage.Blocks == nil {
		r.Undecided(rule, "anchor:delete stage", "", "the stage of model.UpdateList that receives the delete filter's data was not found")
		return
	}
	name := p.StableName(stage)
	fdType := func(v ssa.Value, field string) bool {
		// load of <FilterData>.field
		if u, ok := v.(*ssa.UnOp); ok {
			if fa, ok := u.X.(*ssa.FieldAddr); ok && fieldOfAddr(fa) != nil && fieldOfAddr(fa).Name() == field && isNamed(derefType(fa.X.Type()), "model", "FilterData") {
				return true
			}
		}
		return false
	}
	loops, why := findAccLoops(stage, func(c ssa.Value) string {
		switch x := c.(type) {
		case *ssa.Call:
			if callee := x.Call.StaticCallee(); callee != nil {
				if wcf[callee] || wcf[originOf(callee)] {
					return "changeable"
				}
				if originName(callee) == "SelectorMatch" {
					return "matches"
				}
			}
		case *ssa.Parameter:
			if isBoolType(x.Type()) {
				return "remote"
			}
		case *ssa.BinOp:
			if v, trueNil, ok := nilTest(x); ok {
				for _, f := range []string{"Selector", "Elements"} {
					if fdType(v, f) {
						if trueNil {
							return "!has" + f
						}
						return "has" + f
					}
				}
			}
		}
		return ""
	})
	if why != "" {
		r.Undecided(rule, name+"|shape", p.Pos(stage.Pos()), why)
		return
	}
	var l *mergeLoop
	for _, x := range loops {
		if x.ResPhi != nil && x.OkPhi != nil {
			l = x
		}
	}
	if l == nil {
		r.Undecided(rule, name+"|shape", p.Pos(stage.Pos()), "no loop with a result accumulator and a success accumulator")
		return
	}
	names := l.atomNames()
	nOK := 0
	for m := 0; m < 1<<uint(len(names)); m++ {
		as := map[string]bool{}
		var parts []string
		for i, a := range names {
			as[a] = m&(1<<uint(i)) != 0
			parts = append(parts, fmt.Sprintf("%s=%v", a, as[a]))
		}
		if !as["hasSelector"] && !as["hasElements"] {
			continue // handled before the loop
		}
		got := l.simulateIteration(l.sigmaFor(as))
		mayWrite := as["changeable"] || !as["remote"]
		addressedDelete := as["hasSelector"] && !as["hasElements"] && as["matches"] && mayWrite
		var bad []string
		if got.Undet != "" {
			bad = append(bad, got.Undet)
		}
		if len(got.Appends) > 1 {
			bad = append(bad, "the item is appended more than once")
		}
		if len(got.Appends) == 0 && !got.Cleared && !addressedDelete {
			bad = append(bad, "the item disappears from the result although it is not the addressed item of a permitted delete and no failure is reported")
		}
		if addressedDelete && len(got.Appends) != 0 {
			bad = append(bad, "the addressed item is kept")
		}
		if got.Cleared && (as["changeable"] || !as["remote"]) {
			bad = append(bad, "failure is reported for an item that may be written")
		}
		key := fmt.Sprintf("%s|per-item|%s", name, strings.Join(parts, ","))
		if len(bad) > 0 {
			r.Fail(rule, key, p.Pos(stage.Pos()), fmt.Sprintf("does: %s — %s", got, strings.Join(bad, "; ")))
		} else {
			nOK++
		}
	}
	r.Check(rule, name+"|table", nOK > 0, p.Pos(stage.Pos()), fmt.Sprintf("%d assignments of %v behave as required", nOK, names))
}

// loopBodyStart: the first block of an iteration. In the usual shape the header
// tests the loop condition and one of its successors leaves the loop: the
// iteration starts at the other one. In a rotated loop (range over an integer:
// the condition is tested at the bottom) the header is itself the first block of
// the body.
func loopBodyStart(header *ssa.BasicBlock) *ssa.BasicBlock {
	leaves := false
	var in *ssa.BasicBlock
	for _, s := range header.Succs {
		if s == header {
			continue
		}
		if header.Dominates(s) && blockReaches(s, header) {
			in = s
		} else {
			leaves = true
		}
	}
	if leaves {
		return in
	}
	if len(header.Succs) > 0 {
		return header
	}
	return nil
}
