package main

import (
	"fmt"
	"go/token"
	"go/types"
	"strings"

	"golang.org/x/tools/go/ssa"
)

func init() {
	register("C19", true,
		"Writer/reader table rule for the textual time forms (every constant layout a constructor formats with is an element of the layout table of the parser of the same type, and both sides use UTC), a violation-pattern rule for the scaled-number constructor (a float product with a power of ten must not be converted to an integer through truncation or without rounding), provenance rules that scale and exponent derive from the same decimal count and that GetValue multiplies the number by ten to the stored scale, and pairing rules for the duration library calls and the second-rounding of relative end times. Decided: that writer and reader agree on the forms and that the one known inexact step rounds. NOT decided — and this is most of the property: exactness of the numeric round trips themselves (binary floating point), duration and instant round trips inside the period/time libraries.",
		checkC19)
}

func layoutConsts(fn *ssa.Function) map[string]bool {
	res := map[string]bool{}
	isLayout := func(s string) bool { return strings.Contains(s, "2006") || strings.Contains(s, "15:04") }
	globals := map[*ssa.Global]bool{}
	for _, b := range fn.Blocks {
		for _, ins := range b.Instrs {
			var ops []*ssa.Value
			for _, op := range ins.Operands(ops) {
				if s, ok := constString(*op); ok && isLayout(s) {
					res[s] = true
				}
				if g, ok := (*op).(*ssa.Global); ok {
					globals[g] = true
				}
			}
		}
	}
	// a table kept in a package-level variable: the strings its initialiser stores into it
	if len(globals) > 0 && fn.Pkg != nil {
		if init := fn.Pkg.Func("init"); init != nil {
			for _, b := range init.Blocks {
				for _, ins := range b.Instrs {
					st, ok := ins.(*ssa.Store)
					if !ok {
						continue
					}
					s, isS := constString(st.Val)
					if !isS || !isLayout(s) {
						continue
					}
					base := st.Addr
					for d := 0; d < 4; d++ {
						switch x := base.(type) {
						case *ssa.IndexAddr:
							base = x.X
							continue
						case *ssa.FieldAddr:
							base = x.X
							continue
						}
						break
					}
					if g, isG := base.(*ssa.Global); isG && globals[g] {
						res[s] = true
					}
					// a slice variable initialised from an array literal: the array is a fresh allocation stored into the global
					if al, isAl := base.(*ssa.Alloc); isAl && al.Referrers() != nil {
						for _, ref := range *al.Referrers() {
							if sl, isSl := ref.(*ssa.Slice); isSl && sl.Referrers() != nil {
								for _, r2 := range *sl.Referrers() {
									if st2, isSt := r2.(*ssa.Store); isSt {
										if g, isG := st2.Addr.(*ssa.Global); isG && globals[g] {
											res[s] = true
										}
									}
								}
							}
						}
					}
				}
			}
		}
	}
	return res
}

func checkC19(p *Prog, r *Report) {
	timestampLayoutRule(p, r, "R1")

	r.Rule("R2", "no float→integer conversion of a product with math.Pow(10, d) goes through math.Trunc/math.Floor or happens without rounding")
	r.Rule("R3", "the scale stored is the negated decimal count used as exponent; GetValue multiplies the stored number by ten to the stored scale")
	nConv := 0
	for _, fn := range p.RepoFns("model") {
		for _, b := range fn.Blocks {
			for _, ins := range b.Instrs {
				cv, ok := ins.(*ssa.Convert)
				if !ok {
					continue
				}
				fb, ok1 := cv.X.Type().Underlying().(*types.Basic)
				tb, ok2 := cv.Type().Underlying().(*types.Basic)
				if !ok1 || !ok2 || fb.Info()&types.IsFloat == 0 || tb.Info()&types.IsInteger == 0 {
					continue
				}
				// operand: [rounding call](product with Pow(10, ..))
				rounding := ""
				operand := cv.X
				if c, ok := operand.(*ssa.Call); ok {
					if callee := c.Call.StaticCallee(); callee != nil && fnPkgPath(callee) == "math" {
						rounding = callee.Name()
						operand = c.Call.Args[0]
					}
				}
				// any other conversion of a fractional quantity (a parsed number of seconds, a quotient) to an integer type
				// truncates toward zero unless it is rounded first: 1.5 s become 1 s
				if rounding == "" {
					fractional := false
					for _, src := range []ssa.Value{operand} {
						switch y := src.(type) {
						case *ssa.Extract:
							if c, isC := y.Tuple.(*ssa.Call); isC {
								if cal := c.Call.StaticCallee(); cal != nil && fnPkgPath(cal) == "strconv" && cal.Name() == "ParseFloat" {
									fractional = true
								}
							}
						case *ssa.BinOp:
							if y.Op == token.QUO {
								fractional = true
							}
						}
					}
					if fractional {
						nConv++
						r.Fail("R2", FnName(fn)+"|fraction-truncated", p.InstrPos(cv), "a parsed or divided floating-point quantity is converted to an integer type without rounding: the fraction is cut off (1.5 becomes 1)")
						continue
					}
				}
				mul, ok := operand.(*ssa.BinOp)
				if !ok || mul.Op != token.MUL {
					continue
				}
				var pow *ssa.Call
				for _, side := range []ssa.Value{mul.X, mul.Y} {
					if c, ok := side.(*ssa.Call); ok {
						if callee := c.Call.StaticCallee(); callee != nil && fnPkgPath(callee) == "math" && callee.Name() == "Pow" {
							pow = c
						}
					}
				}
				if pow == nil {
					continue
				}
				nConv++
				base := FnName(fn)
				okRound := rounding == "Round" || rounding == "RoundToEven"
				r.Check("R2", base+"|scaled-conversion", okRound, p.InstrPos(cv), fmt.Sprintf("the scaled product is converted to an integer through %q (Trunc, Floor or no rounding loses one unit for inexact products such as 0.29*100)", rounding))
				// R3: exponent and scale from the same decimal count
				exp := stripConv(pow.Call.Args[1])
				okScale := false
				for _, b2 := range fn.Blocks {
					for _, i2 := range b2.Instrs {
						st, ok := i2.(*ssa.Store)
						if !ok {
							continue
						}
						for _, s := range p.Sources(st.Val, false) {
							_ = s
						}
						if cv2, ok := st.Val.(*ssa.Convert); ok && isNamed(cv2.Type(), "model", "ScaleType") {
							if neg, ok := cv2.X.(*ssa.UnOp); ok && neg.Op == token.SUB && stripConv(neg.X) == exp {
								okScale = true
							}
						}
					}
				}
				base10, _ := constFloat(pow.Call.Args[0])
				r.Check("R3", base+"|scale-exponent", okScale && base10 == 10, p.InstrPos(pow), "the stored scale is the negation of the exponent's decimal count, base 10")
			}
		}
	}
	r.Floor("R2", "scaled float→integer conversions", nConv, 1)
	// GetValue
	if gv := p.Method("model", "ScaledNumberType", "GetValue"); gv != nil {
		ok := false
		forEachCall(gv, func(site ssa.CallInstruction) {
			c, isCall := site.(*ssa.Call)
			if !isCall {
				return
			}
			callee := c.Call.StaticCallee()
			if callee == nil || fnPkgPath(callee) != "math" || callee.Name() != "Pow" {
				return
			}
			b10, _ := constFloat(c.Call.Args[0])
			expFromScale := false
			for _, s := range p.Sources(c.Call.Args[1], false) {
				if s.Kind == "field" && s.Desc == "ScaledNumberType.Scale" {
					expFromScale = true
				}
			}
			// multiplied with the number
			mulOK := false
			if c.Referrers() != nil {
				for _, ref := range *c.Referrers() {
					if bo, isB := ref.(*ssa.BinOp); isB && bo.Op == token.MUL {
						other := bo.X
						if other == ssa.Value(c) {
							other = bo.Y
						}
						for _, s := range p.Sources(other, false) {
							if s.Kind == "field" && s.Desc == "ScaledNumberType.Number" {
								mulOK = true
							}
						}
					}
				}
			}
			ok = b10 == 10 && expFromScale && mulOK
		})
		r.Check("R3", FnName(gv), ok, p.Pos(gv.Pos()), "GetValue = Number * 10^Scale")
	} else {
		r.Undecided("R3", "anchor:model.ScaledNumberType.GetValue", "", "method not found")
	}

	r.Rule("R4", "durations are written with the period library and read with the same library; a relative end time is computed to the second")
	var newOf, parse bool
	var roundSec bool
	for _, fn := range p.RepoFns("model") {
		forEachCall(fn, func(site ssa.CallInstruction) {
			callee := site.Common().StaticCallee()
			if callee == nil {
				return
			}
			if strings.HasSuffix(fnPkgPath(callee), "/period") {
				switch callee.Name() {
				case "NewOf":
					newOf = true
				case "Parse":
					parse = true
				}
			}
			if fnPkgPath(callee) == "time" && callee.Name() == "Round" && originName(fn) == "getTimePeriodTypeDuration" {
				if k, ok := constInt(site.Common().Args[1]); ok && k == 1000000000 {
					roundSec = true
				}
			}
		})
	}
	r.Check("R4", "duration-library-pair", newOf && parse, "", fmt.Sprintf("period.NewOf used by the writer: %v; period.Parse used by the reader: %v", newOf, parse))
	// the relative end time rounding: any function of package model subtracting now from the end time rounds to a second
	okRel := false
	for _, fn := range p.RepoFns("model") {
		var sub, round *ssa.Call
		forEachCall(fn, func(site ssa.CallInstruction) {
			c, isCall := site.(*ssa.Call)
			if !isCall {
				return
			}
			callee := c.Call.StaticCallee()
			if callee == nil || fnPkgPath(callee) != "time" {
				return
			}
			if callee.Name() == "Sub" {
				sub = c
			}
			if callee.Name() == "Round" && len(c.Call.Args) == 2 {
				if k, ok := constInt(c.Call.Args[1]); ok && k == 1000000000 {
					round = c
				}
			}
		})
		if sub != nil && round != nil && valueDerivesFrom(round.Call.Args[0], sub) {
			okRel = true
		}
	}
	_ = roundSec
	r.Check("R4", "relative-end-time-seconds", okRel, "", "the remaining duration (end time minus now) is rounded to a second")
	c18CustomJSONGuards(p, r, "R5")
	c19Extra(p, r)
	c19Round3(p, r)
	r.Rule("R6", "the decimal count of a scaled number is read off the shortest exact decimal rendering of the value: strconv.FormatFloat with format 'f', precision -1 and the bit size of the value's own type (64 for a float64 that was not widened from float32)")
	nFmt := 0
	for _, fn := range p.RepoFns("model", "spine", "util") {
		idx := 0
		// only the constructors of scaled numbers: other renderings of floats are free to choose their format
		if fn.Signature.Results().Len() != 1 || !isNamed(derefType(fn.Signature.Results().At(0).Type()), "model", "ScaledNumberType") {
			continue
		}
		fn := fn
		p.InScope(fn, func() {
			c19FormatFloat(p, r, fn, &idx, &nFmt)
		})
	}
	r.Floor("R6", "FormatFloat calls", nFmt, 1)
	r.Assumes("time.Format/ParseInLocation and the period library are inverse for the layouts and values in range — this is the undecided bulk of the property")
}

// c19FormatFloat: the FormatFloat calls of a scaled-number constructor and of its extracted helpers.
func c19FormatFloat(p *Prog, r *Report, fn *ssa.Function, pidx, pnFmt *int) {
	{
		forEachCall(fn, func(site ssa.CallInstruction) {
			callee := site.Common().StaticCallee()
			if callee == nil || fnPkgPath(callee) != "strconv" || callee.Name() != "FormatFloat" {
				return
			}
			*pidx++
			*pnFmt++
			idx := *pidx
			args := site.Common().Args
			want := int64(64)
			if cv, ok := args[0].(*ssa.Convert); ok {
				if b, ok := cv.X.Type().Underlying().(*types.Basic); ok && b.Kind() == types.Float32 {
					want = 32
				}
			}
			fmtc, okF := constInt(args[1])
			prec, okP := constInt(args[2])
			bits, okB := constInt(args[3])
			ok := okF && okP && okB && fmtc == 'f' && prec == -1 && bits == want
			r.Check("R6", fmt.Sprintf("%s|FormatFloat#%d", FnName(fn), idx), ok, p.InstrPos(site), fmt.Sprintf("format %q precision %d bitSize %d (value is a %d-bit float): a smaller bit size renders the nearest float32, which has fewer decimals than the value", rune(fmtc), prec, bits, want))
		})
	}
}

func stripConv(v ssa.Value) ssa.Value {
	for {
		switch x := v.(type) {
		case *ssa.Convert:
			v = x.X
		case *ssa.ChangeType:
			v = x.X
		default:
			return v
		}
	}
}

func constFloat(v ssa.Value) (float64, bool) {
	c, ok := v.(*ssa.Const)
	if !ok || c.Value == nil {
		return 0, false
	}
	f := c.Float64()
	return f, true
}

// c19Extra: two violation patterns of the temporal conversions.
func c19Extra(p *Prog, r *Report) {
	r.Rule("R7", "a duration is rendered exactly as the period library built it: no imprecise normalisation (Normalise(false) folds days into months of 30.44 days) between period.NewOf and String()")
	nP := 0
	for _, fn := range p.RepoFns("model") {
		idx := 0
		forEachCall(fn, func(site ssa.CallInstruction) {
			callee := site.Common().StaticCallee()
			if callee == nil || !strings.HasSuffix(fnPkgPath(callee), "/period") {
				return
			}
			nP++
			if callee.Name() == "Normalise" || callee.Name() == "Simplify" {
				idx++
				precise := false
				if callee.Name() == "Normalise" {
					args := callArgs(site.Common())
					if len(args) == 1 {
						if b, ok := constBool(args[0]); ok && b {
							precise = true
						}
					}
				}
				r.Check("R7", fmt.Sprintf("%s|%s#%d", FnName(fn), callee.Name(), idx), precise, p.InstrPos(site), "the period is rewritten by "+callee.Name()+" before it is rendered or evaluated: an imprecise rewrite loses part of the duration on the way back")
			}
		})
	}
	if nP > 0 {
		r.Pass("R7", "period library calls", "", fmt.Sprintf("%d calls into the period library examined", nP))
	}
	r.Floor("R7", "calls into the period library", nP, 2)
	customDecoderFresh(p, r, "R8")
	customDecoderRejectsOnlySyntax(p, r, "R12")
	c19Round6(p, r, "R13", "R14", "R15")
}

// customDecoderFresh: a custom UnmarshalJSON decodes into a fresh local value and
// assigns the receiver afterwards. Decoding into the receiver (or an alias of it)
// keeps fields of the previous value the text does not mention and writes through
// pointers shared with copies taken earlier.
func customDecoderFresh(p *Prog, r *Report, rule string) {
	r.Rule(rule, "every custom UnmarshalJSON hands encoding/json a fresh local value and assigns the receiver afterwards (decoding into the receiver itself keeps stale fields and writes through pointers shared with earlier copies)")
	n := 0
	for _, fn := range p.RepoFns("model", "spine") {
		if fn.Name() != "UnmarshalJSON" || fn.Signature.Recv() == nil {
			continue
		}
		forEachCall(fn, func(site ssa.CallInstruction) {
			callee := site.Common().StaticCallee()
			if callee == nil || fnPkgPath(callee) != "encoding/json" || callee.Name() != "Unmarshal" || len(site.Common().Args) < 2 {
				return
			}
			n++
			v := site.Common().Args[1]
			if mi, ok := v.(*ssa.MakeInterface); ok {
				v = mi.X
			}
			_, fresh := v.(*ssa.Alloc)
			fromRecv := forwardTaint(fn.Params[0])[v]
			r.Check(rule, FnName(fn)+"|target", fresh && !fromRecv, p.InstrPos(site), fmt.Sprintf("decodes into %s (fresh local: %v, derived from the receiver: %v)", Path(v), fresh, fromRecv))
		})
	}
	r.Floor(rule, "custom decoders", n, 1)
}

// c19Round3: rules added after the third round of seeded changes.
func c19Round3(p *Prog, r *Report) {
	r.Rule("R9", "the duration reader accepts whatever the period parser accepts: in the function that calls period.Parse every error return is reached only on the non-nil edge of the parser's error (no second, stricter acceptance test between parsing and conversion)")
	nReaders := 0
	for _, fn := range p.RepoFns("model") {
		var parse *ssa.Call
		forEachCallOwn(fn, func(site ssa.CallInstruction) {
			if c, ok := site.(*ssa.Call); ok {
				if callee := c.Call.StaticCallee(); callee != nil && strings.HasSuffix(fnPkgPath(callee), "/period") && callee.Name() == "Parse" {
					parse = c
				}
			}
		})
		if parse == nil {
			continue
		}
		nReaders++
		nErr, nOK := 0, 0
		okAll := true
		detail := ""
		for _, b := range fn.Blocks {
			ret, isRet := b.Instrs[len(b.Instrs)-1].(*ssa.Return)
			if !isRet || len(ret.Results) == 0 {
				continue
			}
			last := ret.Results[len(ret.Results)-1]
			if !errLike(last.Type()) {
				continue
			}
			if isNilConst(last) {
				nOK++
				continue
			}
			nErr++
			for _, g := range Guards(b) {
				x, trueNil, isNil := nilTest(g.Cond)
				fromParse := false
				if isNil {
					if ex, isEx := x.(*ssa.Extract); isEx && ex.Tuple == ssa.Value(parse) {
						fromParse = true
					}
				}
				if !fromParse || trueNil == g.Val {
					okAll = false
					detail = "an error is returned under " + guardDesc([]Guard{g})
				}
			}
		}
		r.Check("R9", FnName(fn)+"|rejects-only-parse-errors", okAll && nOK > 0, p.Pos(fn.Pos()), fmt.Sprintf("%d error returns, %d successful returns; %s", nErr, nOK, detail))
	}
	r.Floor("R9", "functions reading a duration with period.Parse", nReaders, 1)

	sharedGlobalCells(p, r, "R10")

	r.Rule("R11", "a custom JSON encoder is used however the value is encoded: MarshalJSON of a data-model type has a value receiver (with a pointer receiver encoding/json skips it for every value that is not addressable — a struct field of a value, an interface, a map element — and emits the internal representation instead)")
	nEnc := 0
	for _, pk := range p.Pkgs {
		if pk.Types == nil || pk.Types.Path() != repoMod+"/model" {
			continue
		}
		scope := pk.Types.Scope()
		for _, name := range scope.Names() {
			tn, ok := scope.Lookup(name).(*types.TypeName)
			if !ok {
				continue
			}
			named, ok := tn.Type().(*types.Named)
			if !ok {
				continue
			}
			for i := 0; i < named.NumMethods(); i++ {
				m := named.Method(i)
				if m.Name() != "MarshalJSON" {
					continue
				}
				nEnc++
				sig := m.Type().(*types.Signature)
				_, ptrRecv := sig.Recv().Type().(*types.Pointer)
				pos := ""
				if p.Fset != nil {
					pos = p.Pos(m.Pos())
				}
				r.Check("R11", "type:model."+name+"|MarshalJSON-receiver", !ptrRecv, pos, fmt.Sprintf("MarshalJSON of %s has a pointer receiver: %v", name, ptrRecv))
			}
		}
	}
	r.Floor("R11", "custom JSON encoders in package model", nEnc, 1)
}

// noClampRule: the remaining duration of a period (end time minus now) is
// emitted as computed: in the function of package model that subtracts two times
// and returns a duration, no successful return yields a constant in place of the
// computed value (a clamp turns an elapsed period into one that ends now, and
// again at every later hop).
func noClampRule(p *Prog, r *Report, rule string) {
	n := 0
	for _, fn := range p.RepoFns("model") {
		res := fn.Signature.Results()
		if res.Len() == 0 || res.Len() > 2 || res.At(0).Type().String() != "time.Duration" || (res.Len() == 2 && !errLike(res.At(1).Type())) {
			continue
		}
		hasSub := false
		forEachCallOwn(fn, func(site ssa.CallInstruction) {
			if c := site.Common().StaticCallee(); c != nil && fnPkgPath(c) == "time" && c.Name() == "Sub" {
				hasSub = true
			}
		})
		if !hasSub {
			continue
		}
		n++
		bad := ""
		nRet := 0
		for _, b := range fn.Blocks {
			ret, isRet := b.Instrs[len(b.Instrs)-1].(*ssa.Return)
			if !isRet || len(ret.Results) == 0 || (len(ret.Results) == 2 && !isNilConst(ret.Results[1])) {
				continue
			}
			nRet++
			var alts func(v ssa.Value, d int)
			alts = func(v ssa.Value, d int) {
				if ph, isPhi := v.(*ssa.Phi); isPhi && d < 4 {
					for _, e := range ph.Edges {
						alts(e, d+1)
					}
					return
				}
				if k, isK := v.(*ssa.Const); isK {
					bad = fmt.Sprintf("a successful return yields the constant %s instead of the computed duration", k.Value)
				}
			}
			alts(ret.Results[0], 0)
		}
		r.Check(rule, FnName(fn)+"|computed-duration-unmodified", bad == "" && nRet > 0, p.Pos(fn.Pos()), fmt.Sprintf("%d successful returns; %s", nRet, bad))
	}
	r.Floor(rule, "functions computing a remaining duration", n, 1)
}

// customDecoderRejectsOnlySyntax: a custom UnmarshalJSON of the data model fails only when encoding/json itself
// fails. A decoder that adds its own rejection (a value it cannot interpret) makes json.Unmarshal of the *whole*
// datagram fail: a schema-legal message is dropped before its header is looked at — its msgCounterReference is never
// processed, nothing is answered.
func customDecoderRejectsOnlySyntax(p *Prog, r *Report, rule string) {
	r.Rule(rule, "a custom JSON decoder of the data model returns an error only if encoding/json reported one: every non-nil error it returns is the result of a json.Unmarshal call (a decoder rejecting values it cannot interpret makes the whole datagram undecodable — the message is dropped, its reference never processed)")
	n := 0
	for _, fn := range p.RepoFns("model", "spine") {
		if (fn.Name() != "UnmarshalJSON" && fn.Name() != "UnmarshalText") || fn.Signature.Recv() == nil || fn.Blocks == nil {
			continue
		}
		n++
		t := map[ssa.Value]bool{}
		forEachCall(fn, func(site ssa.CallInstruction) {
			callee := site.Common().StaticCallee()
			if callee != nil && fnPkgPath(callee) == "encoding/json" {
				if v, ok := site.(ssa.Value); ok {
					for k := range forwardTaint(v) {
						t[k] = true
					}
				}
			}
		})
		var bad []string
		nres := fn.Signature.Results().Len()
		for _, as := range resultAssignments(fn, nres-1) {
			if c, isC := as.Val.(*ssa.Const); isC && c.IsNil() {
				continue
			}
			if !t[as.Val] {
				bad = append(bad, fmt.Sprintf("%s at %s", Path(as.Val), p.Pos(as.Pos)))
			}
		}
		r.Check(rule, FnName(fn)+"|errors-from-json-only", len(bad) == 0, p.Pos(fn.Pos()), fmt.Sprintf("errors returned that do not come from encoding/json: %v", bad))
	}
	r.Floor(rule, "custom decoders", n, 1)
}

// c19Round6: the duration reader and the producers of textual time forms.
func c19Round6(p *Prog, r *Report, ruleParse, ruleRound, ruleCtor string) {
	if ruleParse != "" {
		r.Rule(ruleParse, "the duration reader lets the period parser normalise: period.Parse is called without 'normalise=false' (unnormalised, hour counts beyond the library's 16-bit fields overflow and the value is rejected)")
	}
	if ruleRound != "" {
		r.Rule(ruleRound, "the duration reader returns what the parser computed: the function that calls period.Parse does not round or truncate the duration it returns (a 1.5 s timeout read back as 2 s exceeds the announced value)")
	}
	if ruleCtor != "" {
		r.Rule(ruleCtor, "textual time forms are produced by the data model's constructors only: outside package model no computed string is converted into DurationType, DateTimeType, DateType, TimeType or AbsoluteOrRelativeTimeType (a hand-written \"PT%dS\" truncates what NewDurationType renders exactly)")
	}
	nParse, nConv := 0, 0
	for _, fn := range p.RepoFns("model", "spine", "util") {
		if fn.Blocks == nil {
			continue
		}
		callsParse := false
		forEachCallOwn(fn, func(site ssa.CallInstruction) {
			callee := site.Common().StaticCallee()
			if callee == nil || !strings.HasSuffix(fnPkgPath(callee), "/period") || callee.Name() != "Parse" {
				return
			}
			callsParse = true
			nParse++
			if ruleParse == "" {
				return
			}
			args := site.Common().Args
			okNorm := true
			if len(args) >= 2 {
				// variadic normalise ...bool: a slice literal holding the constant false
				for _, e := range variadicElems(args[1]) {
					if b, isB := constBool(e); isB && !b {
						okNorm = false
					}
				}
			}
			r.Check(ruleParse, FnName(fn)+"|normalising-parse", okNorm, p.InstrPos(site.(ssa.Instruction)), "period.Parse is called with normalisation switched off: "+fmt.Sprint(!okNorm))
		})
		if callsParse && ruleRound != "" {
			var bad []string
			forEachCallOwn(fn, func(site ssa.CallInstruction) {
				callee := site.Common().StaticCallee()
				if callee == nil || fnPkgPath(callee) != "time" || callee.Signature.Recv() == nil {
					return
				}
				if callee.Name() == "Round" || callee.Name() == "Truncate" {
					bad = append(bad, callee.Name()+" at "+p.InstrPos(site.(ssa.Instruction)))
				}
			})
			r.Check(ruleRound, FnName(fn)+"|value-unmodified", len(bad) == 0, p.Pos(fn.Pos()), fmt.Sprintf("the parsed duration is rounded or truncated before it is returned: %v", bad))
		}
		if ruleCtor != "" && fn.Pkg != nil && !strings.HasSuffix(fn.Pkg.Pkg.Path(), "/model") {
			for _, b := range fn.Blocks {
				for _, ins := range b.Instrs {
					var x ssa.Value
					var to types.Type
					switch v := ins.(type) {
					case *ssa.ChangeType:
						x, to = v.X, v.Type()
					case *ssa.Convert:
						x, to = v.X, v.Type()
					}
					if x == nil {
						continue
					}
					tn := namedOf(to)
					if tn == nil || tn.Obj().Pkg() == nil || !strings.HasSuffix(tn.Obj().Pkg().Path(), "/model") {
						continue
					}
					switch tn.Obj().Name() {
					case "DurationType", "DateTimeType", "DateType", "TimeType", "AbsoluteOrRelativeTimeType":
					default:
						continue
					}
					if bt, isB := x.Type().Underlying().(*types.Basic); !isB || bt.Info()&types.IsString == 0 {
						continue
					}
					nConv++
					_, isConst := x.(*ssa.Const)
					r.Check(ruleCtor, fmt.Sprintf("%s|%s-from-text", FnName(fn), tn.Obj().Name()), isConst, p.InstrPos(ins), "a string computed outside the data model ("+Path(x)+") is taken as "+tn.Obj().Name())
				}
			}
		}
	}
	if ruleParse != "" {
		r.Floor(ruleParse, "calls of period.Parse", nParse, 1)
	}
	if ruleCtor != "" {
		r.Stat(ruleCtor+".conversions of text into temporal types outside package model", nConv)
		if nConv == 0 {
			r.Pass(ruleCtor, "spine|temporal-text", "", "no conversion of a string into a temporal type outside package model")
		}
	}
}

// sharedGlobalCells (C19-R10, shared with C11 and C20): every value built by the data model owns its parts — the
// address of a package-level variable is never stored into an object or returned, directly or as one alternative of
// a choice (available := &no; if x { available = &yes }).
func sharedGlobalCells(p *Prog, r *Report, rule string) {
	r.Rule(rule, "every value built by a constructor of the data model owns its parts: the address of a package-level variable is never stored into an object or returned, not even as one alternative of a choice (two values sharing one scale, number, flag or timestamp cell change together)")
	var globalsOf func(v ssa.Value, d int) []*ssa.Global
	globalsOf = func(v ssa.Value, d int) []*ssa.Global {
		if d > 4 {
			return nil
		}
		switch x := v.(type) {
		case *ssa.Global:
			if x.Pkg != nil && strings.HasPrefix(x.Pkg.Pkg.Path(), repoMod) {
				return []*ssa.Global{x}
			}
		case *ssa.Phi:
			var res []*ssa.Global
			for _, e := range x.Edges {
				res = append(res, globalsOf(e, d+1)...)
			}
			return res
		case *ssa.UnOp:
			if al, ok := x.X.(*ssa.Alloc); ok && x.Op == token.MUL && al.Referrers() != nil {
				var res []*ssa.Global
				for _, ref := range *al.Referrers() {
					if st, ok := ref.(*ssa.Store); ok && st.Addr == ssa.Value(al) {
						res = append(res, globalsOf(st.Val, d+1)...)
					}
				}
				return res
			}
		}
		return nil
	}
	nStores, nBad := 0, 0
	seen := map[string]bool{}
	for _, fn := range p.RepoFns("model") { // the data model's constructors; spine shares one read-only version string between datagram headers by design
		if isWrapper(fn) || fn.Name() == "init" {
			continue
		}
		for _, b := range fn.Blocks {
			for _, ins := range b.Instrs {
				switch x := ins.(type) {
				case *ssa.Store:
					if _, isField := x.Addr.(*ssa.FieldAddr); !isField {
						continue
					}
					if _, isPtr := x.Val.Type().Underlying().(*types.Pointer); !isPtr {
						continue
					}
					nStores++
					for _, g := range globalsOf(x.Val, 0) {
						key := fmt.Sprintf("fn:%s|global:%s", FnName(originOf(fn)), g.Name())
						if seen[key] {
							continue
						}
						seen[key] = true
						nBad++
						r.Fail(rule, key, p.InstrPos(x), fmt.Sprintf("the address of package-level variable %s is stored into %s: every value built this way shares that one cell", g.Name(), Path(x.Addr)))
					}
				case *ssa.Return:
					for _, res := range x.Results {
						if _, isPtr := res.Type().Underlying().(*types.Pointer); !isPtr {
							continue
						}
						for _, g := range globalsOf(res, 0) {
							if fnPkgPath(fn) != repoMod+"/model" {
								continue
							}
							key := fmt.Sprintf("fn:%s|global:%s|returned", FnName(originOf(fn)), g.Name())
							if seen[key] {
								continue
							}
							seen[key] = true
							nBad++
							r.Fail(rule, key, p.InstrPos(x), "the address of a package-level variable is returned as a value of the data model")
						}
					}
				}
			}
		}
	}
	if nBad == 0 {
		r.Pass(rule, "pointer-stores", "", fmt.Sprintf("%d stores of a pointer into a field: none stores the address of a package-level variable", nStores))
	}
	r.Floor(rule, "stores of a pointer into a field", nStores, 8)
}

// timestampLayoutRule: writer layout within the parser's table, UTC on both sides. Shared: C19-R1, C16-R14 (the
// heartbeat carries a current timestamp: local time labelled Z is off by the zone offset).
func timestampLayoutRule(p *Prog, r *Report, rule string) {
	r.Rule(rule, "every layout a textual-form constructor formats with is in the layout table of the parser of the type it produces; the constructor converts to UTC and the parser parses in UTC")
	nW := 0
	for _, fn := range p.RepoFns("model") {
		var format *ssa.Call
		forEachCall(fn, func(site ssa.CallInstruction) {
			if c, ok := site.(*ssa.Call); ok {
				if callee := c.Call.StaticCallee(); callee != nil && fnPkgPath(callee) == "time" && callee.Name() == "Format" {
					format = c
				}
			}
		})
		if format == nil {
			continue
		}
		layout, isConst := constString(format.Call.Args[1])
		if !isConst {
			continue
		}
		nW++
		base := FnName(fn)
		// result type of the constructor
		var parser *ssa.Function
		parserOf := func(f *ssa.Function) *ssa.Function {
			if f.Signature.Results().Len() == 1 {
				if nt := namedOf(f.Signature.Results().At(0).Type()); nt != nil {
					return p.Method("model", nt.Obj().Name(), "GetTime")
				}
			}
			return nil
		}
		parser = parserOf(fn)
		if parser == nil {
			// the formatting sits in a helper returning the text: the constructors calling it say which type is produced
			// (a type whose parser only delegates to another type's parser has no table of its own and is passed over)
			for _, site := range p.Callers(fn) {
				if pf := parserOf(site.Parent()); pf != nil && len(layoutConsts(pf)) > 0 && (parser == nil || pf.String() < parser.String()) {
					parser = pf
				}
			}
		}
		if parser == nil {
			r.Undecided(rule, base+"|parser", p.Pos(fn.Pos()), "no GetTime parser on the produced type")
			continue
		}
		table := layoutConsts(parser)
		r.Check(rule, base+"|layout", table[layout], p.InstrPos(format), fmt.Sprintf("writer layout %q; parser table %v", layout, sortedKeys(table)))
		// UTC on both sides
		wUTC := false
		if rc, ok := format.Call.Args[0].(*ssa.Call); ok {
			if callee := rc.Call.StaticCallee(); callee != nil && fnPkgPath(callee) == "time" && callee.Name() == "UTC" {
				wUTC = true
			}
		}
		pUTC := false
		p.InScope(parser, func() {
			forEachCall(parser, func(site ssa.CallInstruction) {
				if callee := site.Common().StaticCallee(); callee != nil && fnPkgPath(callee) == "time" && callee.Name() == "ParseInLocation" {
					if Path(site.Common().Args[2]) == "global:UTC" {
						pUTC = true
					}
				}
			})
		})
		r.Check(rule, base+"|utc", wUTC && pUTC, p.InstrPos(format), fmt.Sprintf("writer converts to UTC: %v; parser parses in UTC: %v", wUTC, pUTC))
		// a layout ending in Z must be written from a UTC time (else the zone letter lies)
		if strings.HasSuffix(layout, "Z") && !wUTC {
			r.Fail(rule, base+"|zone", p.InstrPos(format), "literal Z in the layout without conversion to UTC")
		}
	}
	r.Floor(rule, "textual-form constructors", nW, 1)

}
