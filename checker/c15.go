package main

import (
	"fmt"
	"go/constant"
	"go/token"
	"go/types"
	"strings"

	"golang.org/x/tools/go/ssa"
)

func init() {
	register("C15", true,
		"Lockset rules on the event bus (handler list only under its lock; no handler is invoked while that lock is held; subscribe's duplicate scan and append are one critical section), dominance rules in Publish (under the core-level test the handler is invoked by a call, otherwise by a go statement; the level sequence starts with the core level; the loop iterates a copy made under the lock), retain-predicate truth table of unsubscribe, and a call-graph rule that no type subscribed at core level can synchronously reach Publish again (the handle lock is held during core handlers). Decided: the structure that gives core-first, asynchronous-application delivery without self-deadlock. Not decided: exactly-once delivery under concurrent publication and (un)subscription (schedules).",
		checkC15)
}

func coreLevelConst(p *Prog) (int64, bool) {
	o := p.TypesPkg("api").Scope().Lookup("EventHandlerLevelCore")
	c, ok := o.(*types.Const)
	if !ok {
		return 0, false
	}
	v, ok := constant.Int64Val(c.Val())
	return v, ok
}

func checkC15(p *Prog, r *Report) {
	ls := BuildLockset(p, "spine", "model")
	ehi := p.LookupIface("api", "EventHandlerInterface")
	core, okCore := coreLevelConst(p)
	if ehi == nil || !okCore {
		r.Undecided("R0", "anchor:api.EventHandlerInterface/EventHandlerLevelCore", "", "anchor not found")
		return
	}
	publish := p.Method("spine", "events", "Publish")
	if publish == nil {
		r.Undecided("R0", "anchor:spine.events.Publish", "", "method not found")
		return
	}
	r.Rule("R1", "the handler list is accessed only under the bus lock")
	for _, v := range guardTable(ls) {
		if v.Key == F("events.handlers") {
			r.Check("R1", "field:events.handlers", v.Guard != "" && len(v.Deviants) == 0 && v.NAcc >= 5, "", fmt.Sprintf("guard %s, %d accesses, %d deviating", v.Guard, v.NAcc, len(v.Deviants)))
			for _, a := range v.Deviants {
				r.Fail("R1", fmt.Sprintf("field:events.handlers|fn:%s|%s", FnName(a.Fn), a.Kind), p.InstrPos(a.Ins), "access without the bus lock")
			}
		}
	}
	r.Rule("R2", "no handler is invoked while the bus lock guarding the handler list is held (handlers may subscribe and unsubscribe)")
	r.Rule("R3", "in Publish a handler of the core level is invoked by a call (finished before Publish returns), any other by a go statement; the level sequence iterated starts with the core level and the loop over the levels encloses the loop over the handlers (every core handler has run before the first application handler is started)")
	r.Rule("R4", "Publish iterates a snapshot of the handler list copied under the bus lock")
	guardLock := ""
	for _, v := range guardTable(ls) {
		if v.Key == F("events.handlers") {
			guardLock = v.Guard
		}
	}
	nCall, nGo := 0, 0
	var levelVars []ssa.Value
	var itemBlocks []*ssa.BasicBlock
	var itemSites []ssa.Instruction
	var goSites, callSites []ssa.Instruction
	scopeFns := p.RepoFns("spine")
	p.InScope(publish, func() {
		for _, fn0 := range scopeFns {
			if belowScopeRoot(fn0) {
				continue // an extracted helper of Publish: visited as part of Publish
			}
			fn0 := fn0
			forEachCall(fn0, func(site ssa.CallInstruction) {
				c := site.Common()
				if !calleeIsIfaceMethod(c, ehi, "HandleEvent") {
					return
				}
				fn := fn0 // invocations inside an extracted helper of Publish count as Publish's
				key := FnName(fn)
				_, isGo := site.(*ssa.Go)
				if isGo {
					nGo++
					key += "|go"
				} else {
					nCall++
					key += "|call"
				}
				held := false
				for lp := range ls.AtLifted(site.(ssa.Instruction)) {
					if lastComp(lp) == guardLock {
						held = true
					}
				}
				r.Check("R2", key, !held && guardLock != "", p.InstrPos(site), fmt.Sprintf("locks held at the invocation: %s", ls.At(site.(ssa.Instruction))))
				if fn != publish {
					r.Fail("R3", key+"|outside-publish", p.InstrPos(site), "handlers are invoked outside Publish")
					return
				}
				// level test
				isCore, known, direct := false, false, false
				var levelVar ssa.Value
				for _, g := range Guards(site.Block()) {
					bo, ok := g.Cond.(*ssa.BinOp)
					if !ok || (bo.Op != token.EQL && bo.Op != token.NEQ) {
						continue
					}
					k, isK := constInt(bo.Y)
					if !isK || !isNamed(bo.X.Type(), "api", "EventHandlerLevel") {
						continue
					}
					// the test of the loop's level variable against the core constant ...
					if k == core && !strings.Contains(Path(bo.X), ".Level") {
						levelVar = substParam(bo.X)
						known = true
						isCore = (bo.Op == token.EQL) == g.Val
					}
					// ... or, where the levels are not iterated as a sequence, the test of the item's own level against a constant
					if strings.HasSuffix(Path(bo.X), ".Level") && !known {
						eq := (bo.Op == token.EQL) == g.Val
						switch {
						case eq:
							known, isCore, direct = true, k == core, true
						case k == core:
							known, isCore, direct = true, false, true
						}
					}
				}
				if levelVar != nil {
					levelVars = append(levelVars, levelVar)
				}
				itemBlocks = append(itemBlocks, elementLoadBlock(c.Value))
				itemSites = append(itemSites, site.(ssa.Instruction))
				want := "call"
				if !isCore {
					want = "go"
				}
				got := "call"
				if isGo {
					got = "go"
				}
				r.Check("R3", key+"|mode", known && want == got, p.InstrPos(site), fmt.Sprintf("level is core: %v (decided by a dominating test: %v); invoked by %s", isCore, known, got))
				// item level matches the loop level: guarded by item.Level == level
				okItem := false
				for _, g := range Guards(site.Block()) {
					bo, ok := g.Cond.(*ssa.BinOp)
					if !ok {
						continue
					}
					if bo.Op != token.EQL && bo.Op != token.NEQ {
						continue // an ordering test (item.Level <= level) lets handlers of an earlier level run again
					}
					eq := (bo.Op == token.EQL) == g.Val
					if eq && (strings.HasSuffix(Path(bo.X), ".Level") || strings.HasSuffix(Path(bo.Y), ".Level")) {
						okItem = true
					}
				}
				if direct {
					okItem = true // the item's own level was tested directly
					if isGo {
						goSites = append(goSites, site.(ssa.Instruction))
					} else {
						callSites = append(callSites, site.(ssa.Instruction))
					}
				}
				r.Check("R3", key+"|level-filter", okItem, p.InstrPos(site), "only handlers subscribed at the level being processed are invoked")
				// R4 snapshot
				recv := Path(c.Value)
				live := "." + FN("events.handlers") + "["
				r.Check("R4", key+"|snapshot", !strings.Contains(recv, "recv"+live) && !strings.Contains(recv, "Events"+live), p.InstrPos(site), "handler taken from "+recv)
			})
		}
	})
	if nCall != 1 || nGo != 1 {
		r.Undecided("R3", "floor:invocations", "", fmt.Sprintf("%d synchronous and %d asynchronous handler invocations found, one each expected", nCall, nGo))
	}
	// core first: the loop over the levels encloses the loop over the handlers (all handlers of one level are
	// processed before the next level starts)
	okNest := len(levelVars) > 0 && len(itemBlocks) > 0
	nestDetail := ""
	lift := func(ins ssa.Instruction) ssa.Instruction {
		var res ssa.Instruction
		p.InScope(publish, func() {
			res = ins
			for d := 0; d < 3 && res.Parent() != publish; d++ {
				if s := p.HelperSite(res.Parent()); s != nil {
					res = s
				} else {
					break
				}
			}
		})
		return res
	}
	sequential := false
	if len(levelVars) == 0 && len(goSites) > 0 && len(callSites) > 0 {
		// sequential shape: one pass for the core handlers, then one for the others — no core handler can be
		// reached once an asynchronous start has happened
		okNest = true
		sequential = true
		for _, g := range goSites {
			for _, c := range callSites {
				lg, lc := lift(g), lift(c)
				if lg.Parent() != lc.Parent() || blockReaches(lg.Block(), lc.Block()) {
					okNest = false
					nestDetail = "a synchronous (core) invocation is reachable after an asynchronous start"
				}
			}
		}
	}
	for _, lv := range levelVars {
		lb := elementLoadBlock(lv)
		if lb == nil {
			okNest = false
			nestDetail = "the level tested is not an element of a sequence being iterated"
			continue
		}
		hl := innermostLoopHeader(lb)
		for i, ib := range itemBlocks {
			if ib == nil {
				okNest = false
				nestDetail = "the handler invoked is not an element of a list being iterated"
				continue
			}
			hi := innermostLoopHeader(ib)
			if hi != nil && hl != nil && hi.Parent() != hl.Parent() {
				// the handler loop sits in an extracted helper: its call site must lie inside the level loop
				if i < len(itemSites) {
					ls2 := lift(itemSites[i])
					if ls2.Parent() == hl.Parent() && hl.Dominates(ls2.Block()) && blockReaches(ls2.Block(), hl) {
						continue
					}
				}
			}
			if hl == nil || hi == nil || hl == hi || !hl.Dominates(hi) || !blockReaches(hi, hl) {
				okNest = false
				nestDetail = "the loop over the handler list is not nested inside the loop over the levels: a handler of a later level can be started before a core handler further down the list has run"
			}
		}
	}
	r.Check("R3", FnName(publish)+"|levels-outermost", okNest, p.Pos(publish.Pos()), "the level loop encloses the handler loop. "+nestDetail)
	// level sequence starts with core
	first := int64(-1)
	var levelBlocks []*ssa.BasicBlock
	for _, sf := range p.ScopeFns(publish) { // the level sequence may sit in an extracted dispatch helper
		levelBlocks = append(levelBlocks, sf.Blocks...)
	}
	for _, b := range levelBlocks {
		for _, ins := range b.Instrs {
			ia, ok := ins.(*ssa.IndexAddr)
			if !ok {
				continue
			}
			if al, ok := ia.X.(*ssa.Alloc); !ok || !strings.Contains(al.Type().String(), "EventHandlerLevel") {
				continue
			}
			idx, isK := constInt(ia.Index)
			if !isK || idx != 0 {
				continue
			}
			for _, ref := range *ia.Referrers() {
				if st, ok := ref.(*ssa.Store); ok {
					if k, ok := constInt(st.Val); ok {
						first = k
					}
				}
			}
		}
	}
	if sequential {
		// no level sequence: the order is the order of the passes, decided above
		r.Check("R3", FnName(publish)+"|core-first", okNest, p.Pos(publish.Pos()), "the pass invoking the core handlers synchronously comes before any asynchronous start")
	} else {
		r.Check("R3", FnName(publish)+"|core-first", first == core, p.Pos(publish.Pos()), fmt.Sprintf("first level processed has value %d, core is %d", first, core))
	}
	// the snapshot copy happens under the lock
	okCopy := false
	p.InScope(publish, func() {
		forEachCall(publish, func(site ssa.CallInstruction) {
			isCopy := builtinName(site.Common()) == "copy" && strings.HasSuffix(Path(site.Common().Args[1]), "."+FN("events.handlers"))
			if callee := site.Common().StaticCallee(); callee != nil && fnPkgPath(callee) == "slices" && originName(callee) == "Clone" && len(site.Common().Args) == 1 && strings.HasSuffix(Path(site.Common().Args[0]), "."+FN("events.handlers")) {
				isCopy = true // slices.Clone allocates a new backing array
			}
			if isCopy {
				for lp := range ls.At(site.(ssa.Instruction)) {
					if lastComp(lp) == guardLock {
						okCopy = true
					}
				}
			}
		})
	})
	r.Check("R4", FnName(publish)+"|copy-under-lock", okCopy, p.Pos(publish.Pos()), "the handler list is copied while the bus lock is held")

	// R7: handlers run under the handling lock and may subscribe/unsubscribe (which takes the list lock), so the
	// list lock must never be held while the handling lock is being acquired (otherwise: publisher 2 holds the list
	// lock and waits for the handling lock; the handler running under publisher 1 waits for the list lock)
	r.Rule("R7", "the lock guarding the handler list is not held at any acquisition of a lock that is held while handlers are invoked (handlers may subscribe and unsubscribe; a waiting publisher holding the list lock would deadlock with them)")
	handling := map[string]bool{}
	p.InScope(publish, func() {
		forEachCall(publish, func(site ssa.CallInstruction) {
			if calleeIsIfaceMethod(site.Common(), ehi, "HandleEvent") {
				for lp := range ls.AtLifted(site.(ssa.Instruction)) {
					handling[lastComp(lp)] = true
				}
			}
		})
	})
	nAcq := 0
	for _, fn := range p.RepoFns("spine") {
		if fn.Signature.Recv() == nil || namedOf(fn.Signature.Recv().Type()) == nil || namedOf(fn.Signature.Recv().Type()) != namedOf(publish.Signature.Recv().Type()) {
			continue
		}
		forEachCall(fn, func(site ssa.CallInstruction) {
			op, mu := lockCall(site.Common())
			if op != "Lock" && op != "RLock" {
				return
			}
			name := lastComp(Path(mu))
			if !handling[name] {
				return
			}
			nAcq++
			held := false
			for lp := range ls.At(site.(ssa.Instruction)) {
				if lastComp(lp) == guardLock {
					held = true
				}
			}
			r.Check("R7", fmt.Sprintf("%s|acquire:%s#%d", FnName(fn), name, nAcq), !held && guardLock != "", p.InstrPos(site), fmt.Sprintf("locks held when %s is acquired: %s", name, ls.At(site.(ssa.Instruction))))
		})
	}
	if nAcq == 0 {
		r.Undecided("R7", "floor:acquisitions of the handling lock", "", fmt.Sprintf("no acquisition of a lock held during handler invocation found (handling locks: %v)", sortedKeys(handling)))
	}
	r.Rule("R5", "no handler type subscribed at core level can synchronously reach Publish (the handle lock is held while core handlers run)")
	nCoreSubs := 0
	for _, fn := range p.RepoFns("spine") {
		forEachCall(fn, func(site ssa.CallInstruction) {
			c := site.Common()
			callee := c.StaticCallee()
			if callee == nil || callee.Signature.Recv() == nil || !isNamed(callee.Signature.Recv().Type(), "spine", "events") {
				return
			}
			args := callArgs(c)
			if len(args) != 2 || !isNamed(args[0].Type(), "api", "EventHandlerLevel") {
				return
			}
			k, isK := constInt(args[0])
			if !isK || k != core || originName(callee) == "unsubscribe" || strings.HasPrefix(strings.ToLower(originName(callee)), "unsub") {
				return
			}
			nCoreSubs++
			// handler type
			ht := unwrapIface(args[1]).Type()
			var he *ssa.Function
			if sel := p.SSA.MethodSets.MethodSet(ht).Lookup(nil, "HandleEvent"); sel != nil {
				he = p.SSA.MethodValue(sel)
			}
			if he == nil {
				r.Undecided("R5", "handler:"+shortType(ht), p.InstrPos(site), "HandleEvent of the core handler not found")
				return
			}
			path := syncPathTo(p, he, publish)
			r.Check("R5", "handler:"+shortType(ht), path == nil, p.InstrPos(site), "synchronous path back to Publish: "+strings.Join(path, " -> "))
			// R9: "core handlers have finished before Publish returns" needs the handler to do its work itself
			var spawned []string
			p.InScope(he, func() {
				for _, body := range p.ScopeFns(he) {
					for _, fb := range withAnon(body) {
						for _, b := range fb.Blocks {
							for _, ins := range b.Instrs {
								if g, isGo := ins.(*ssa.Go); isGo {
									spawned = append(spawned, p.InstrPos(g))
								}
							}
						}
					}
				}
			})
			r.Check("R9", "handler:"+shortType(ht)+"|synchronous", len(spawned) == 0, p.Pos(he.Pos()), fmt.Sprintf("the core handler does its work before it returns (no go statement in HandleEvent or its helpers): %v", spawned))
			// R10: the registration itself does not depend on how many peers are known
			var conds []string
			for _, g := range Guards(site.Block()) {
				conds = append(conds, Path(g.Cond))
			}
			r.Check("R10", "handler:"+shortType(ht)+"|registered-unconditionally", len(conds) == 0, p.InstrPos(site), fmt.Sprintf("the core-level subscription is reached on every path of %s (subscribe is idempotent): conditions %v", FnName(fn), conds))
		})
	}
	r.Floor("R5", "core-level subscriptions", nCoreSubs, 1)
	r.Rule("R9", "a handler subscribed at core level does its work before HandleEvent returns: no go statement in it or its helpers (otherwise 'core handlers have finished before Publish returns and before application handlers run' is void)")
	r.Rule("R10", "the stack subscribes its core handler on every path of the function that sets up a peer: the subscription is not conditional (two peers set up concurrently, or a peer registered through the public API, would otherwise leave the stack without its core handler)")

	r.Rule("R11", "no cycle of the held->acquired relation over all mutexes (along synchronous calls) passes through a lock of the event bus: a publisher that holds a lock a core handler needs (a feature's data lock while publishing the data change) blocks Publish for good, and every later publication with it")
	lockOrderOn(p, r, "R11", "events.", "locks of the event bus")
	r.Rule("R8", "the stack's own core handler stays subscribed while any peer is connected: RemoveRemoteDevice unsubscribes it only under 'the remote-device map is empty', the size being read after the removal in the same critical section")
	coreUnsubscribeRule(p, ls, r, "R8")
	r.Rule("R6", "unsubscribe keeps a handler ⇔ ¬(level ∧ handler equal); subscribe appends only after a miss of the same pair inside one critical section; every read-modify-write of the handler list reads and stores inside one critical section")
	rebuildAtomic(p, ls, r, "R6", F("events.handlers"), 2)
	applyRetain(p, r, "R6", "spine", "events", "unsubscribe", retainSpec{Field: F("events.handlers"), Required: map[string]string{"level": "=Level", "handler": "=Handler"}})
	absenceThenInsert(p, ls, r, "R6", F("events.handlers"), true, 1)
	c15ScanContent(p, ls, r)
	r.Assumes("application handlers are external code; core handlers are the in-repository implementations of EventHandlerInterface")
}

// syncPathTo finds a chain of synchronous calls from a to b (nil if none).
func syncPathTo(p *Prog, a, b *ssa.Function) []string {
	type item struct {
		fn   *ssa.Function
		path []string
	}
	seen := map[*ssa.Function]bool{a: true}
	work := []item{{a, []string{FnName(a)}}}
	for len(work) > 0 {
		it := work[0]
		work = work[1:]
		if it.fn == b {
			return it.path
		}
		if it.fn.Blocks == nil {
			continue
		}
		for _, blk := range it.fn.Blocks {
			for _, ins := range blk.Instrs {
				c, ok := ins.(*ssa.Call)
				if !ok {
					continue
				}
				for _, callee := range p.Callees(c) {
					if !seen[callee] && p.IsRepoFn(callee) {
						seen[callee] = true
						work = append(work, item{callee, append(append([]string{}, it.path...), FnName(callee))})
					}
				}
			}
		}
	}
	return nil
}

// c15ScanContent: subscribe's deciding conditions compare Level and Handler.
func c15ScanContent(p *Prog, ls *Lockset, r *Report) {
	ff := ls.Facts(F("events.handlers"))
	for _, a := range ff.insAcc {
		fn := a.Fn
		fields := map[string]bool{}
		for _, rp := range ff.readPoints(fn) {
			if rp.Val == nil {
				continue
			}
			t := forwardTaint(rp.Val)
			if len(divertingIfs(fn, t, a.Ins)) == 0 {
				continue
			}
			for _, b := range fn.Blocks {
				if ifi, ok := b.Instrs[len(b.Instrs)-1].(*ssa.If); ok && t[ifi.Cond] && blockReaches(b, a.Ins.Block()) {
					if bo, ok := ifi.Cond.(*ssa.BinOp); ok {
						for _, side := range []ssa.Value{bo.X, bo.Y} {
							pth := Path(side)
							if i := strings.LastIndex(pth, "."); i >= 0 {
								fields[pth[i+1:]] = true
							}
						}
					}
				}
			}
		}
		// the scan may sit in an extracted look-up helper or in the predicate handed to a library search
		var allCmpD func(g *ssa.Function, d int)
		allCmpD = func(g *ssa.Function, d int) {
			if g == nil || g.Blocks == nil || d > 2 {
				return
			}
			for _, gb := range g.Blocks {
				for _, ins := range gb.Instrs {
					if bo, ok := ins.(*ssa.BinOp); ok && (bo.Op == token.EQL || bo.Op == token.NEQ) {
						for _, side := range []ssa.Value{bo.X, bo.Y} {
							pth := Path(side)
							if i := strings.LastIndex(pth, "."); i >= 0 {
								fields[pth[i+1:]] = true
							}
						}
					}
					// a predicate method of the item type ("item.matches(level, handler)")
					if hc, ok := ins.(*ssa.Call); ok {
						if h := hc.Call.StaticCallee(); h != nil && h.Blocks != nil && strings.HasPrefix(fnPkgPath(h), repoMod) && !isExportedFn(originOf(h)) {
							allCmpD(h, d+1)
						}
					}
				}
			}
		}
		allCmp := func(g *ssa.Function) { allCmpD(g, 0) }
		forEachCallOwn(fn, func(site ssa.CallInstruction) {
			c, ok := site.(*ssa.Call)
			if !ok {
				return
			}
			usesList := false
			for _, arg := range c.Call.Args {
				if loadsField(arg, a.Field) {
					usesList = true
				}
			}
			callee := c.Call.StaticCallee()
			if callee == nil {
				return
			}
			switch {
			case p.helperCandidate(callee) && len(ls.accessesIn(F("events.handlers"), callee)) > 0:
				allCmp(callee)
			case usesList && fnPkgPath(callee) == "slices" && (originName(callee) == "ContainsFunc" || originName(callee) == "IndexFunc"):
				for _, pf := range predicateFunctions(c.Call.Args[len(c.Call.Args)-1], 0) {
					allCmp(pf)
				}
			default:
				// a predicate applied to an element of the list inside the scan loop
				onElem := false
				for _, arg := range argsWithRecv(&c.Call) {
					if strings.Contains(Path(arg), "."+FN("events.handlers")+"[]") {
						onElem = true
					}
				}
				if onElem && callee.Blocks != nil && strings.HasPrefix(fnPkgPath(callee), repoMod) && !isExportedFn(originOf(callee)) {
					allCmp(callee)
				}
			}
		})
		r.Check("R6", fmt.Sprintf("field:events.handlers|fn:%s|scan-compares", FnName(fn)), fields["Level"] && fields["Handler"], p.InstrPos(a.Ins), fmt.Sprintf("the deciding conditions compare %v of the existing items", sortedKeys(fields)))
	}
}

// elementLoadBlock: v is (a field of) an element loaded from a slice or array
// by index; the block of that load.
func elementLoadBlock(v ssa.Value) *ssa.BasicBlock {
	for d := 0; d < 8 && v != nil; d++ {
		switch x := v.(type) {
		case *ssa.UnOp:
			if ia, ok := x.X.(*ssa.IndexAddr); ok {
				return ia.Block()
			}
			v = x.X
		case *ssa.FieldAddr:
			v = x.X
		case *ssa.Field:
			v = x.X
		case *ssa.Index:
			return x.Block()
		case *ssa.IndexAddr:
			return x.Block()
		case *ssa.MakeInterface:
			v = x.X
		case *ssa.ChangeInterface:
			v = x.X
		case *ssa.Alloc:
			if s := singleStore(x); s != nil {
				v = s
			} else {
				return nil
			}
		default:
			return nil
		}
	}
	return nil
}

// innermostLoopHeader: the closest dominator of b with a back edge from a block b reaches.
func innermostLoopHeader(b *ssa.BasicBlock) *ssa.BasicBlock {
	for d := b; d != nil; d = d.Idom() {
		for _, pr := range d.Preds {
			if d.Dominates(pr) && blockReachesOrSame(b, pr) {
				return d
			}
		}
	}
	return nil
}

// zeroTest: the guard holds exactly when x == 0 for a non-negative integer x.
func zeroTest(g Guard) (ssa.Value, bool) {
	bo, ok := g.Cond.(*ssa.BinOp)
	if !ok {
		return nil, false
	}
	k, isK := constInt(bo.Y)
	if !isK {
		return nil, false
	}
	switch {
	case bo.Op == token.EQL && k == 0 && g.Val,
		bo.Op == token.NEQ && k == 0 && !g.Val,
		bo.Op == token.GTR && k == 0 && !g.Val,
		bo.Op == token.LSS && k == 1 && g.Val,
		bo.Op == token.LEQ && k == 0 && g.Val,
		bo.Op == token.GEQ && k == 1 && !g.Val:
		return bo.X, true
	}
	return nil, false
}

// coreUnsubscribeRule: the stack's own core handler leaves the bus only when the
// last peer is gone — in RemoveRemoteDevice the unsubscription is guarded by
// "the number of entries of the remote-device map is zero", the size being taken
// after the removal inside its critical section.
func coreUnsubscribeRule(p *Prog, ls *Lockset, r *Report, rule string) {
	dli := p.LookupIface("api", "DeviceLocalInterface")
	if dli == nil {
		r.Undecided(rule, "anchor:api.DeviceLocalInterface", "", "interface not found")
		return
	}
	devKey := F("DeviceLocal.remoteDevices")
	fname := devKey[strings.Index(devKey, ".")+1:]
	n := 0
	for _, fn := range p.ImplsOf(dli, "RemoveRemoteDevice") {
		if isWrapper(fn) {
			continue
		}
		p.InScope(fn, func() {
			forEachCall(fn, func(site ssa.CallInstruction) {
				c, ok := site.(*ssa.Call)
				if !ok {
					return
				}
				callee := c.Call.StaticCallee()
				if callee == nil || callee.Signature.Recv() == nil || !isNamed(callee.Signature.Recv().Type(), "spine", "events") || !strings.HasPrefix(strings.ToLower(originName(callee)), "unsub") {
					return
				}
				n++
				gs := Guards(c.Block())
				var sizeOK, atomicOK bool
				desc := "no guard"
				nOther := 0
				for _, g := range gs {
					x, isZ := zeroTest(g)
					if !isZ {
						if _, _, isNil := nilTest(g.Cond); isNil {
							continue // the early return for an unknown peer
						}
						nOther++
						desc = "guarded by " + guardDesc([]Guard{g})
						continue
					}
					desc = "guarded by " + guardDesc([]Guard{g})
					if lc := lenOfField(x, "."+fname, 0); lc != nil {
						sizeOK = true
						// the size is read in the critical section of the delete (both may sit in an extracted helper)
						lf := lc.Parent()
						var del ssa.Instruction
						for _, a := range ls.accessesIn(devKey, lf) {
							if dc, isD := a.Ins.(*ssa.Call); isD && builtinName(&dc.Call) == "delete" {
								del = dc
							}
						}
						if del != nil {
							if ld, isLd := lc.Call.Args[0].(ssa.Instruction); isLd && len(ls.CommonSections(del, ld)) > 0 && instrDominates(del, lc) {
								atomicOK = true
							}
						}
					}
				}
				r.Check(rule, FnName(fn)+"|core-unsubscribe", sizeOK && atomicOK && nOther == 0, p.InstrPos(c), fmt.Sprintf("%s; required: exactly 'len(%s) == 0', the length read after the delete in its critical section (size test: %v, same critical section after the delete: %v, other conditions: %d)", desc, fname, sizeOK, atomicOK, nOther))
			})
		})
	}
	r.Floor(rule, "unsubscriptions of the core handler in RemoveRemoteDevice", n, 1)
}
