package main

func init() {
	register("C08", true,
		"Dominance guards of the subscription insertion by every grant condition and path check of the role/type checker; atomicity rule (duplicate scan and insertion in one critical section, scan present); retain-predicate truth tables of RemoveSubscription and the per-entity removal; structural fan-out rule on NotifySubscribers (one Notify per entry of the per-feature query, wired to the entry's client device, server and client address); path-sensitive effect counting of notifications in SetData, UpdateData and the write executor (exactly one on success, none on failure); provenance of ids; listing predicates. Not decided: value semantics of the equalities, 'nobody else' across peers, list contents over histories.",
		checkC08)
}

func checkC08(p *Prog, r *Report) {
	ls := BuildLockset(p, "spine", "model")
	r.Rule("R1", "the insertion of a subscription is dominated by: server feature found, requested type present, client feature found on the requesting device, both passed the role/type check, entry built from exactly these features")
	grantGuards(p, ls, r, "R1", subMgr)
	r.Rule("R2", "the duplicate scan that decides the insertion and the insertion share one critical section; the scan is present")
	absenceThenInsert(p, ls, r, "R2", F("SubscriptionManager.subscriptionEntries"), true, 1)
	r.Rule("R3", "RemoveSubscription keeps an entry ⇔ ¬(client device ∧ entity ∧ feature ∧ server feature equal); the per-entity removal keeps ⇔ ¬(client device ∧ client entity equal)")
	r.Rule("R9", "every read-modify-write of the subscription list (rebuild on removal, append on insertion) reads and stores inside one critical section")
	rebuildAtomic(p, ls, r, "R9", F("SubscriptionManager.subscriptionEntries"), 3)
	applyRetain(p, r, "R3", "spine", "SubscriptionManager", "RemoveSubscription", retainSpec{Field: F("SubscriptionManager.subscriptionEntries"),
		Required: map[string]string{"client.device": "ClientFeature.Address().Device", "client.entity": "ClientFeature.Address().Entity", "client.feature": "ClientFeature.Address().Feature", "server.feature": "=ServerFeature"}})
	applyRetain(p, r, "R3", "spine", "SubscriptionManager", "RemoveSubscriptionsForEntity", retainSpec{Field: F("SubscriptionManager.subscriptionEntries"),
		Required: map[string]string{"client.device": "ClientFeature.Device().Ski()|ClientFeature.Address().Device", "client.entity": "ClientFeature.Address().Entity"}})
	r.Rule("R4", "RemoveSubscription replaces the registry only if an entry was removed and reports an error otherwise")
	removeMissRule(p, ls, r, "R4", subMgr)
	r.Rule("R5", "NotifySubscribers sends exactly one Notify per entry of the per-feature query of its feature address, through the sender of the entry's client device, with (entry server address, entry client address, the given command); the fan-out loop is left only when the entries are exhausted (a failed send does not keep the remaining subscribers from being notified)")
	fanoutRule(p, r, "R5")
	r.Rule("R11", "the duplicate scan compares server and client feature of the existing entries with the features the new entry is built from")
	scanContentRule(p, r, "R11", subMgr, []string{"ServerFeature", "ClientFeature"})
	r.Rule("R10", "every hand-written element-wise comparison of two slices of one type compares their lengths for equality: entity addresses are never matched by prefix (shared lint, C20-R6)")
	sliceEqualityHelpers(p, r, "R10")
	r.Rule("R6", "SetData, UpdateData and the remote write executor notify subscribers exactly once when the store succeeded and never when it failed")
	notifyCountRule(p, r, "R6")
	r.Rule("R7", "subscription ids are results of an atomic increment of the manager's counter")
	idRule(p, r, "R7", subMgr)
	r.Rule("R13", "the id counter only grows: every modification is sync/atomic Add with a positive constant — an id handed back, reset or recomputed is handed out twice")
	monotoneCounterRule(p, ls, r, "R13", F("SubscriptionManager.subscriptionNum"))
	if eri := p.LookupIface("api", "EntityRemoteInterface"); eri != nil {
		// RemoveSubscription matches entries by the client's device address: a remote entity that never gets the
		// learned device address (the one known before discovery) owns subscriptions no delete call can address
		reannounceRules(p, r, eri, "", "R14")
	}
	r.Rule("R8", "the per-device listing filters on the peer identity (SKI of the client feature's device), the per-feature listing on the server feature address")
	listingRule(p, r, "R8", subMgr)
	r.Rule("R15", "the subscription list reported to a peer is rendered entry by entry from the registry: id from the entry's Id, server address from its server feature, client address from its client feature, all of the same entry")
	reportedListRule(p, r, "R15", subMgr, "SubscriptionManagementEntryDataType", "SubscriptionId")
	r.Rule("R16", "the outcome of AddSubscription/RemoveSubscription is the outcome of the node-management handler: a refused request (a delete of a pair that is not subscribed) is answered with an error")
	outcomeForwardedRule(p, r, "R16", subMgr)
	deepCopyRule(p, r, "R17", subMgr)
	featureTypeKept(p, r, "R18")
	r.Rule("R12", "the subscription list is never used as the backing array of another list (a query that filters into registry[:0] overwrites the registry)")
	noStrayCompaction(p, ls, r, "R12", map[string]bool{"SubscriptionManager": true})
	r.Assumes("reflect.DeepEqual and the address getters are not interpreted",
		"Sender.Notify transmits one datagram per call (C13)")
}
