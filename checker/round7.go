package main

import (
	"fmt"
	"go/token"
	"go/types"
	"strings"

	"golang.org/x/tools/go/ssa"
)

// Rules added after the seventh round of seeded changes (stale or left-over state across a lifecycle).

// capturedStateMapRule: deferred code (a timer callback, a goroutine, a stored closure) never works on a captured
// alias of a map that is part of an object's state: every map a closure looks up, updates or deletes from and that
// comes from a struct field is loaded from its owner inside the closure. An alias taken when the closure was created
// survives the owner unlinking the map (disconnect clean-up deletes the per-peer entry, the closure still finds its
// own entry in the unlinked inner map and acts on it).
func capturedStateMapRule(p *Prog, r *Report, rule string) {
	r.Rule(rule, "no closure works on a captured alias of a state map: a map that a closure looks up, updates or deletes from is either local to it, created by the enclosing call, or loaded from its owner's field inside the closure (an inner map captured when a timer was armed outlives the clean-up that unlinks it)")
	nClosures, nOps := 0, 0
	for _, fn := range p.RepoFns("spine", "model", "util") {
		if fn.Parent() == nil {
			continue
		}
		nClosures++
		idx := 0
		for _, b := range fn.Blocks {
			for _, ins := range b.Instrs {
				var m ssa.Value
				switch x := ins.(type) {
				case *ssa.Lookup:
					if _, ok := x.X.Type().Underlying().(*types.Map); ok {
						m = x.X
					}
				case *ssa.MapUpdate:
					m = x.Map
				case *ssa.Call:
					if builtinName(&x.Call) == "delete" && len(x.Call.Args) > 0 {
						m = x.Call.Args[0]
					}
				case *ssa.Range:
					if _, ok := x.X.Type().Underlying().(*types.Map); ok {
						m = x.X
					}
				}
				if m == nil {
					continue
				}
				nOps++
				u, ok := m.(*ssa.UnOp)
				if !ok || u.Op != token.MUL {
					continue
				}
				fv, ok := u.X.(*ssa.FreeVar)
				if !ok {
					continue
				}
				idx++
				var state []string
				for _, s := range p.Sources(m, false) {
					if s.Kind == "field" || s.Kind == "other" && (strings.HasPrefix(s.Desc, "lookup:") || strings.HasPrefix(s.Desc, "elem-of:")) {
						state = append(state, s.String())
					}
				}
				r.Check(rule, fmt.Sprintf("%s|captured:%s#%d", FnName(fn), fv.Name(), idx), len(state) == 0, p.InstrPos(ins), fmt.Sprintf("the closure works on the captured map %s, an alias of state taken when the closure was created (%s)", fv.Name(), strings.Join(state, ", ")))
			}
		}
	}
	r.Stat(rule+".closures", nClosures)
	r.Stat(rule+".map operations in closures", nOps)
	if nClosures < 5 {
		r.Undecided(rule, "floor:closures", "", fmt.Sprintf("%d closures analysed, at least 5 expected", nClosures))
	}
	r.Pass(rule, "closures", "", fmt.Sprintf("%d closures, %d map operations in them", nClosures, nOps))
}

func reachesFnStatic(from *ssa.Function, target *ssa.Function, depth int, seen map[*ssa.Function]bool) bool {
	if from == nil || seen[from] || depth > 3 {
		return false
	}
	seen[from] = true
	if originOf(from) == originOf(target) {
		return true
	}
	found := false
	forEachCallOwn(from, func(site ssa.CallInstruction) {
		if c := site.Common().StaticCallee(); c != nil && !found {
			if reachesFnStatic(c, target, depth+1, seen) {
				found = true
			}
		}
	})
	return found
}

// freshFeatureRule: what an announcement says about a feature replaces what was known: every feature put into an
// entity whose feature list was wiped for a re-announcement is the object built from the announcement.
func freshFeatureRule(p *Prog, r *Report, eri *types.Interface, rule string) {
	r.Rule(rule, "after the feature list of a re-announced entity was wiped, every feature added is the one object built from the announcement (the single result of the constructor path reaching NewFeatureRemote) — never a previously known object, which would keep the operations and response delay of the earlier announcement")
	ctor := p.Func("spine", "NewFeatureRemote")
	if ctor == nil {
		r.Undecided(rule, "anchor:spine.NewFeatureRemote", "", "constructor not found")
		return
	}
	n := 0
	for _, fn0 := range p.ScopeRoots("spine") {
		fn := fn0
		p.InScope(fn, func() {
			var wipes, adds []*ssa.Call
			forEachCall(fn, func(site ssa.CallInstruction) {
				if c, ok := site.(*ssa.Call); ok {
					switch {
					case calleeIsIfaceMethod(&c.Call, eri, "RemoveAllFeatures"):
						wipes = append(wipes, c)
					case calleeIsIfaceMethod(&c.Call, eri, "AddFeature"):
						adds = append(adds, c)
					}
				}
			})
			if len(wipes) == 0 {
				return
			}
			for i, a := range adds {
				args := callArgs(&a.Call)
				if len(args) == 0 {
					continue
				}
				n++
				srcs := p.Sources(substParam(args[0]), false)
				ok := len(srcs) == 1 && srcs[0].Kind == "call"
				if ok {
					c, isCall := srcs[0].Val.(*ssa.Call)
					ok = isCall && c.Call.StaticCallee() != nil && reachesFnStatic(c.Call.StaticCallee(), ctor, 0, map[*ssa.Function]bool{})
				}
				var ds []string
				for _, s := range srcs {
					ds = append(ds, s.String())
				}
				r.Check(rule, fmt.Sprintf("%s|AddFeature#%d", FnName(fn), i+1), ok, p.InstrPos(a), "the feature added comes from "+strings.Join(ds, ", "))
			}
		})
	}
	r.Floor(rule, "AddFeature after RemoveAllFeatures", n, 1)
}

// singleApplicationRule: an update is applied by one call of the per-type UpdateList: a second application stage
// that persists on its own cannot be undone when the other one is refused.
func singleApplicationRule(p *Prog, r *Report, rule string) {
	r.Rule(rule, "the function-data store applies an update by exactly one call of Updater.UpdateList, outside any loop (all-or-nothing: a delete applied and persisted by a call of its own stays when the partial part is refused afterwards)")
	upd := p.LookupIface("model", "Updater")
	if upd == nil {
		r.Undecided(rule, "anchor:model.Updater", "", "interface not found")
		return
	}
	nFn := 0
	seen := map[*ssa.Function]bool{}
	for _, fn0 := range p.RepoFns("spine") {
		fn := fn0
		if !isFunctionDataFn(fn) || originName(fn) != "UpdateData" || seen[originOf(fn)] {
			continue
		}
		seen[originOf(fn)] = true
		nFn++
		p.InScope(fn, func() {
			var calls []*ssa.Call
			forEachCall(fn, func(site ssa.CallInstruction) {
				if c, ok := site.(*ssa.Call); ok && calleeIsIfaceMethod(&c.Call, upd, "UpdateList") {
					calls = append(calls, c)
				}
			})
			pos := p.Pos(fn.Pos())
			if len(calls) > 1 {
				pos = p.InstrPos(calls[0])
			}
			r.Check(rule, "spine.FunctionData.UpdateData|one-call", len(calls) == 1, pos, fmt.Sprintf("%d call sites of Updater.UpdateList", len(calls)))
			if len(calls) == 1 {
				r.Check(rule, "spine.FunctionData.UpdateData|not-in-loop", !blockInLoop(calls[0].Block()), p.InstrPos(calls[0]), "the call is not repeated")
			}
		})
	}
	r.Floor(rule, "UpdateData bodies", nFn, 1)
}

// blockInLoop: b can reach itself.
func blockInLoop(b *ssa.BasicBlock) bool {
	seen := map[*ssa.BasicBlock]bool{}
	var walk func(x *ssa.BasicBlock) bool
	walk = func(x *ssa.BasicBlock) bool {
		for _, s := range x.Succs {
			if s == b {
				return true
			}
			if !seen[s] {
				seen[s] = true
				if walk(s) {
					return true
				}
			}
		}
		return false
	}
	return walk(b)
}
