package main

import (
	"fmt"
	"go/token"
	"go/types"
	"strings"

	"golang.org/x/tools/go/ssa"
)

func init() {
	register("C04", true,
		"Rules on the remote-write path of the update engine: dominance rule on the store (the wholesale replace path must not be open to remoteWrite), ownership analysis (no in-place write to existing items before success is known), control-dependence rule on every place where the failure flag is set (only for items the update addresses), reachability under a finite assignment of {writeAllowed(item), remoteWrite} (no mutator call or replacement is reachable with an unchangeable item on a remote write), tag-consultation rule for the reflective mutators (only a mutator that reads the writecheck tag can preserve the flag), exhaustive writecheck tag table, and the constant true of the inbound write route. Decided: the gating structure of every mutation. Not decided: element-level outcomes over all write shapes (values computed by reflection), the logic inside writeAllowed.",
		checkC04)
}

// writeCheckFn finds the function of package model that evaluates the writecheck tag of an item.
func writeCheckFns(p *Prog) map[*ssa.Function]bool {
	res := map[*ssa.Function]bool{}
	for _, fn := range p.RepoFns("model") {
		if fn.Signature.Results().Len() != 1 || fn.Signature.Params().Len() != 1 {
			continue
		}
		if b, ok := fn.Signature.Results().At(0).Type().Underlying().(*types.Basic); !ok || b.Kind() != types.Bool {
			continue
		}
		if usesWriteCheckTag(fn) {
			res[fn] = true
		}
	}
	return res
}

func usesWriteCheckTag(fn *ssa.Function) bool {
	found := false
	forEachCall(fn, func(site ssa.CallInstruction) {
		for _, a := range site.Common().Args {
			if s, ok := constString(a); ok && s == "writecheck" {
				found = true
			}
		}
	})
	return found
}

// remoteWriteParam: the first bool parameter of an engine function.
func remoteWriteParam(fn *ssa.Function) *ssa.Parameter {
	for _, prm := range fn.Params {
		if b, ok := prm.Type().Underlying().(*types.Basic); ok && b.Kind() == types.Bool {
			return prm
		}
	}
	return nil
}

// reachableUnder: can target be reached from the entry when the conditions
// identified by atom() are fixed and all others are free?
func reachableUnder(fn *ssa.Function, target ssa.Instruction, atom func(cond ssa.Value) (known bool, val bool)) bool {
	return reachableUnderPhi(fn, target, atom)
}

func checkC04(p *Prog, r *Report) {
	r.Rule("R1", "in the function-data store no store on the wholesale replace path (both filters nil) is reachable with remoteWrite true")
	r.Rule("R2", "the update engine never writes existing items in place (before success is known) — the ownership rule C11-O3 restricted to the engine")
	r.Rule("R3", "the failure flag of an engine stage is set only on a branch that is control-dependent on the item being addressed by the update (selector match, identifier look-up)")
	r.Rule("R4", "every reflective mutator that is applied to existing items on the remote-write path consults the writecheck tag (only then can it preserve the changeability flag)")
	r.Rule("R4b", "the mutator that consults the writecheck tag restores the flag: with remoteWrite, one writecheck field and the field being that one, the existing value is set into the replacement even if the update carries a value; a non-nil, non-flag field is never overwritten; without remoteWrite a non-nil field is never overwritten")
	r.Rule("R5", "a flagged item type has exactly one writecheck field, of type *bool")
	r.Rule("R7", "the inbound write route passes the constant true for remoteWrite (C03-R1)")
	r.Rule("R9", "failure is never lost: on every path through the generic update engine and through every function that forwards its outcome, if a stage that ran reported failure then the function itself reports failure")
	r.Rule("R8", "no reflective mutator call on an existing item and no replacement in the merge is reachable with writeAllowed(item) false on a remote write")

	// R1
	nStores := 0
	seenOrigin := map[*ssa.Function]bool{}
	for _, fn := range p.RepoFns("spine") {
		if !isFunctionDataFn(fn) || originName(fn) != "UpdateData" || seenOrigin[originOf(fn)] {
			continue
		}
		seenOrigin[originOf(fn)] = true
		rw := remoteWriteParam(fn)
		idx := 0
		p.InScope(fn, func() {
			for _, sf := range p.ScopeFns(fn) {
				for _, b := range sf.Blocks {
					for _, ins := range b.Instrs {
						st, ok := ins.(*ssa.Store)
						if !ok {
							continue
						}
						fa, ok := st.Addr.(*ssa.FieldAddr)
						if !ok || fieldOfAddr(fa) == nil || fieldOfAddr(fa).Name() != "data" {
							continue
						}
						nilGuards := map[string]bool{}
						for _, g := range Guards(b) {
							if x, trueNil, ok := nilTest(g.Cond); ok && trueNil == g.Val {
								nilGuards[Path(x)] = true
							}
						}
						if !(nilGuards["param:filterPartial"] && nilGuards["param:filterDelete"]) {
							continue // merge path: handled by the engine rules
						}
						nStores++
						idx++ // the replacing stores are numbered among themselves (stable when the merge path moves)
						// a store inside an extracted helper is reached through the helper's call in UpdateData
						open := rw == nil || reachableUnder(fn, liftInScope(st), func(c ssa.Value) (bool, bool) {
							if c == ssa.Value(rw) {
								return true, true
							}
							return false, false
						})
						r.Check("R1", fmt.Sprintf("spine.FunctionData.UpdateData|replace-store#%d", idx), !open, p.InstrPos(st), "the wholesale replacement of the stored data is reachable with remoteWrite=true: a full remote write replaces unchangeable elements and their flags")
					}
				}
			}
		})
	}
	r.Floor("R1", "replace-path stores", nStores, 1)

	// R2
	o := BuildOwnership(p, "model", "spine", "util")
	n2 := 0
	for k, w := range ownedWriteKeys(p, o.StoreOwnedWrites("")) {
		if fnPkgPath(w.Fn) != repoMod+"/model" || strings.Contains(k, "UseCase") {
			continue
		}
		n2++
		r.Fail("R2", k, p.InstrPos(w.Ins), fmt.Sprintf("existing items (%s) are written in place via %s before the outcome of the update is known: a rejected write is partially applied", w.Root, w.How))
	}
	if n2 == 0 {
		r.Pass("R2", "engine", "", "no in-place write to existing items")
	}

	// engine stage functions: package model, a bool parameter, results ([]T, bool)
	wcf := writeCheckFns(p)
	if len(wcf) == 0 {
		r.Undecided("R8", "anchor:writecheck evaluator", "", "no function of package model evaluating the writecheck tag to a bool found")
	}
	seenStage := map[*ssa.Function]bool{}
	nStages, nFlagSites, nMutSites := 0, 0, 0
	for _, fn := range p.RepoFns("model") {
		og := originOf(fn)
		if seenStage[og] || fn.Signature.Results().Len() != 2 {
			continue
		}
		if b, ok := fn.Signature.Results().At(1).Type().Underlying().(*types.Basic); !ok || b.Kind() != types.Bool {
			continue
		}
		rw := remoteWriteParam(fn)
		if rw == nil || fn.Signature.Recv() != nil {
			continue
		}
		seenStage[og] = true
		nStages++
		base := FnName(og)
		// does the stage have a notion of "addressed"?
		hasSelector, hasLookup := false, false
		forEachCall(fn, func(site ssa.CallInstruction) {
			if c := site.Common().StaticCallee(); c != nil && originName(c) == "SelectorMatch" {
				hasSelector = true
			}
		})
		for _, b := range fn.Blocks {
			for _, ins := range b.Instrs {
				if lk, ok := ins.(*ssa.Lookup); ok && lk.CommaOk {
					hasLookup = true
				}
			}
		}
		// R3: blocks that make the success result false
		failIdx := 0
		for _, b := range falseSuccessBlocks(fn) {
			if !(hasSelector || hasLookup) {
				continue
			}
			// only failures caused by the write check are of interest (guarded by the writecheck evaluator)
			byWriteCheck := false
			addressed := false
			for _, g := range Guards(b) {
				switch x := g.Cond.(type) {
				case *ssa.Call:
					if c := x.Call.StaticCallee(); c != nil {
						if wcf[c] || wcf[originOf(c)] {
							byWriteCheck = true
						}
						if originName(c) == "SelectorMatch" && g.Val {
							addressed = true
						}
					}
				case *ssa.Extract:
					if lk, ok := x.Tuple.(*ssa.Lookup); ok && lk.CommaOk && x.Index == 1 {
						addressed = true
					}
				}
				if x, trueNil, ok := nilTest(g.Cond); ok && trueNil == g.Val && strings.HasSuffix(Path(x), ".Selector") {
					addressed = true // no selector: every item is addressed
				}
			}
			// failures not caused by the write check but by the look-up itself (unknown item on a remote write) are addressed by definition
			if !byWriteCheck {
				for _, g := range Guards(b) {
					if ex, ok := g.Cond.(*ssa.Extract); ok {
						if lk, ok := ex.Tuple.(*ssa.Lookup); ok && lk.CommaOk {
							addressed = true
						}
					}
				}
				if !addressed {
					continue
				}
			}
			nFlagSites++
			failIdx++
			r.Check("R3", fmt.Sprintf("%s|failure#%d", p.StableName(fn), failIdx), addressed, p.InstrPos(b.Instrs[0]), fmt.Sprintf("failure is reported under the conditions: %s", guardDesc(Guards(b))))
		}
		// R8: mutator calls and replacements
		forEachCall(fn, func(site ssa.CallInstruction) {
			call, ok := site.(*ssa.Call)
			if !ok {
				return
			}
			callee := call.Call.StaticCallee()
			if callee == nil {
				return
			}
			cs := o.Summary(callee)
			isMut := false
			target := ""
			for i := range cs.Through {
				if i < len(call.Call.Args) {
					a := call.Call.Args[i]
					if elemAddrSlice(a) != nil {
						isMut = true
						target = Path(a)
					} else if _, isAlloc := a.(*ssa.Alloc); isAlloc && originName(callee) != "" && fnPkgPath(callee) == repoMod+"/model" && reflectiveWriter(o, callee) {
						isMut = true // replacement prepared in a local copy (merge)
						target = Path(a)
					}
				}
			}
			if !isMut || !reflectiveWriter(o, callee) {
				return
			}
			nMutSites++
			var waCalls []*ssa.Call
			forEachCall(fn, func(s2 ssa.CallInstruction) {
				if c2, ok := s2.(*ssa.Call); ok {
					if cc := c2.Call.StaticCallee(); cc != nil && (wcf[cc] || wcf[originOf(cc)]) {
						waCalls = append(waCalls, c2)
					}
				}
			})
			consulted := len(waCalls) > 0
			open := reachableUnder(fn, call, func(c ssa.Value) (bool, bool) {
				if c == ssa.Value(rw) {
					return true, true
				}
				// the write check, in the stage itself or inside a boolean helper the stage's condition calls
				if wc, isCall := c.(*ssa.Call); isCall {
					if cc := wc.Call.StaticCallee(); cc != nil && (wcf[cc] || wcf[originOf(cc)]) {
						consulted = true
						return true, false
					}
				}
				return false, false
			})
			r.Check("R8", fmt.Sprintf("%s|call:%s#%d", base, originName(callee), nMutSites), !open && consulted, p.InstrPos(call), fmt.Sprintf("mutator applied to %s; reachable with remoteWrite=true and writeAllowed=false: %v", target, open))
		})
	}
	r.Floor("R3", "engine stages", nStages, 3)
	r.Floor("R3", "failure sites caused by the write check", nFlagSites, 1)
	r.Floor("R8", "mutator call sites in the engine", nMutSites, 2)

	// R4: reflective mutators applied to existing items consult the tag
	seenMut := map[*ssa.Function]bool{}
	for _, fn := range p.RepoFns("model") {
		og := originOf(fn)
		if seenMut[og] || !reflectiveWriter(o, fn) {
			continue
		}
		// applied in an engine stage (a function with a remoteWrite parameter)?
		applied := false
		for _, site := range p.Callers(fn) {
			if rw := remoteWriteParam(site.Parent()); rw != nil && fnPkgPath(site.Parent()) == repoMod+"/model" {
				applied = true
			}
		}
		if !applied {
			continue
		}
		seenMut[og] = true
		r.Check("R4", "mutator:"+FnName(og), usesWriteCheckTag(fn), p.Pos(fn.Pos()), "the mutator copies or clears fields by reflection; it reads the writecheck tag: "+fmt.Sprint(usesWriteCheckTag(fn)))
	}
	r.Floor("R4", "reflective mutators applied by the engine", len(seenMut), 2)
	r.Rule("R14", "a reflective mutator replaces the pointer a field holds, it never writes the value the pointer points to: a pointee may be shared — by every item that got it from one identifier-less update, by the application's own data — so writing it changes elements the write does not address, unchangeable ones included")
	noWriteThroughPointee(p, r, "R14")
	c04FlagRetention(p, o, r)
	engineFailureRule(p, r, "R9")
	r.Rule("R15", "the engine hands on what its stages produced: the list returned by every stage call of the generic UpdateList (delete, copy-to-selected, copy-to-all, merge) flows into the next stage or into the result — a stage result that is dropped makes a write that was answered with success have no effect as soon as the stage works on a copy")
	engineStageResultsUsed(p, r, "R15")
	singleApplicationRule(p, r, "R17")
	r.Rule("R16", "a restricted write stays restricted: the dispatcher extracts the partial and delete filters of every reply, notify and write — not conditioned on the classifier or on the command's optional function element — and hands exactly that pair to the handler (shared with C02-R15); a filter that is lost turns a partial write or a delete into a wholesale replacement of the function data, write-protected elements included")
	c02FiltersExtracted(p, r, "R16")
	mergeTruthTable(p, r, "R10")
	deleteStageTable(p, r, "R11")
	lintSubset(p, r, "R12", "along the write route no partial filter, delete filter, remoteWrite or persist value is passed, stored or received under the name of another of them (cross-wiring lint C02-R2 restricted to the update roles)", func(key string) bool {
		k := strings.ToLower(key)
		return strings.Contains(k, "filter") || strings.Contains(k, "remotewrite") || strings.Contains(k, "persist")
	})
	r.Rule("R6", "every per-type UpdateList assigns the merged list to the stored object only under success && persist and returns the engine's outcome (sibling template C02-R1): a rejected remote write is never persisted")
	tb := BuildTables(p)
	for _, nt := range tb.Updaters {
		updateListTemplate(p, r, "R6", nt)
	}
	r.Floor("R6", "Updater implementations", len(tb.Updaters), 80)

	// R5
	t := BuildTables(p)
	nFlagged := 0
	for _, nt := range t.Updaters {
		_, el, item, ok := listItem(nt)
		if !ok {
			continue
		}
		var wc []*types.Var
		for i := 0; i < item.NumFields(); i++ {
			_, tags, _, _ := parseTag(item.Tag(i))
			if _, has := tags["writecheck"]; has {
				wc = append(wc, item.Field(i))
			}
		}
		if len(wc) == 0 {
			continue
		}
		nFlagged++
		okT := len(wc) == 1
		if okT {
			pt, isPtr := wc[0].Type().Underlying().(*types.Pointer)
			okT = isPtr
			if isPtr {
				b, isB := pt.Elem().Underlying().(*types.Basic)
				okT = isB && b.Kind() == types.Bool
			}
		}
		r.Check("R5", "item:"+shortType(el), okT, p.Pos(wc[0].Pos()), fmt.Sprintf("%d writecheck fields; type %s", len(wc), shortType(wc[0].Type())))
	}
	r.Floor("R5", "flagged item types", nFlagged, 3)

	// R7
	ib := newInbound(p)
	if len(ib.missing) == 0 {
		origins, _, _ := remoteWriteOrigins(p, ib)
		nTrue := 0
		where := ""
		for _, og := range origins {
			if og.Val {
				nTrue++
				where = FnName(og.Fn)
			}
		}
		r.Check("R7", "origin:true", nTrue == 1, "", fmt.Sprintf("%d origins of remoteWrite=true (%s)", nTrue, where))
	}
	r.Assumes("writeAllowed itself (reading the tagged *bool) is not interpreted", "reflection is summarised by the pattern ValueOf(param).Elem()…Set*")
}

// reflectiveWriter: the function writes through a parameter by reflection (directly).
func reflectiveWriter(o *Ownership, fn *ssa.Function) bool {
	if fn == nil || fn.Blocks == nil {
		return false
	}
	t := o.reflectTaint(fn)
	res := false
	forEachCall(fn, func(site ssa.CallInstruction) {
		c := site.Common()
		if callee := c.StaticCallee(); callee != nil && fnPkgPath(callee) == "reflect" && strings.HasPrefix(callee.Name(), "Set") && len(c.Args) > 0 {
			if _, ok := t[c.Args[0]]; ok {
				res = true
			}
		}
	})
	return res
}

// falseSuccessBlocks: blocks from which the bool result becomes false (a phi
// edge carrying the constant false, or a direct return of false).
func falseSuccessBlocks(fn *ssa.Function) []*ssa.BasicBlock {
	seen := map[*ssa.BasicBlock]bool{}
	var res []*ssa.BasicBlock
	visited := map[ssa.Value]bool{}
	var walk func(v ssa.Value, from *ssa.BasicBlock)
	walk = func(v ssa.Value, from *ssa.BasicBlock) {
		switch x := v.(type) {
		case *ssa.Const:
			if k, ok := constBool(x); ok && !k && from != nil && !seen[from] {
				seen[from] = true
				res = append(res, from)
			}
		case *ssa.Phi:
			if visited[x] {
				return
			}
			visited[x] = true
			for i, e := range x.Edges {
				walk(e, x.Block().Preds[i])
			}
		case *ssa.BinOp:
			// success && x : not used by the engine
		}
	}
	for _, b := range fn.Blocks {
		if ret, ok := b.Instrs[len(b.Instrs)-1].(*ssa.Return); ok && len(ret.Results) == 2 {
			walk(ret.Results[1], b)
		}
	}
	_ = token.ADD
	return res
}

// c04FlagRetention decides three reachability questions on the tag-aware mutator
// (the helper that fills a replacement item from the existing one).
func c04FlagRetention(p *Prog, o *Ownership, r *Report) {
	n := 0
	seen := map[*ssa.Function]bool{}
	for _, fn := range p.RepoFns("model") {
		og := originOf(fn)
		if seen[og] || !reflectiveWriter(o, fn) || !usesWriteCheckTag(fn) {
			continue
		}
		seen[og] = true
		rw := remoteWriteParam(fn)
		if rw == nil {
			continue
		}
		n++
		var setCall *ssa.Call
		t := o.reflectTaint(fn)
		forEachCall(fn, func(site ssa.CallInstruction) {
			c, ok := site.(*ssa.Call)
			if !ok {
				return
			}
			if callee := c.Call.StaticCallee(); callee != nil && fnPkgPath(callee) == "reflect" && callee.Name() == "Set" {
				if _, ok := t[c.Call.Args[0]]; ok {
					setCall = c
				}
			}
		})
		base := FnName(og)
		if setCall == nil {
			r.Undecided("R4b", base+"|set", p.Pos(fn.Pos()), "reflective Set not found")
			continue
		}
		// atoms
		mk := func(rwv, isNil, contains bool) func(c ssa.Value) (bool, bool) {
			return func(c ssa.Value) (bool, bool) {
				if c == ssa.Value(rw) {
					return true, rwv
				}
				switch x := c.(type) {
				case *ssa.Call:
					callee := x.Call.StaticCallee()
					if callee == nil {
						return false, false
					}
					if fnPkgPath(callee) == "reflect" && callee.Name() == "IsNil" {
						return true, isNil
					}
					if fnPkgPath(callee) == "slices" && originName(callee) == "Contains" {
						return true, contains
					}
				case *ssa.BinOp:
					// len(writecheck fields) compared with a constant, evaluated for exactly one such field
					if lc, ok := x.X.(*ssa.Call); ok && builtinName(&lc.Call) == "len" {
						if k, ok := constInt(x.Y); ok {
							if src, ok := lc.Call.Args[0].(*ssa.Call); ok {
								for _, a := range src.Call.Args {
									if s, isS := constString(a); isS && s == "writecheck" {
										switch x.Op {
										case token.GTR:
											return true, 1 > k
										case token.GEQ:
											return true, 1 >= k
										case token.EQL:
											return true, 1 == k
										case token.NEQ:
											return true, 1 != k
										case token.LSS:
											return true, 1 < k
										case token.LEQ:
											return true, 1 <= k
										}
									}
								}
							}
						}
					}
				}
				return false, false
			}
		}
		restore := reachableUnder(fn, setCall, mk(true, false, true))
		keepOther := !reachableUnder(fn, setCall, mk(true, false, false))
		keepLocal := !reachableUnder(fn, setCall, mk(false, false, true)) && !reachableUnder(fn, setCall, mk(false, false, false))
		fill := reachableUnder(fn, setCall, mk(false, true, false))
		r.Check("R4b", base+"|restores-flag", restore, p.InstrPos(setCall), "remote write, field is the writecheck field, update carries a value: the existing value is set")
		r.Check("R4b", base+"|keeps-other-fields", keepOther && keepLocal, p.InstrPos(setCall), "a field the update carries a value for is not overwritten unless it is the writecheck field of a remote write")
		// … and on every path: a settable field that is nil in the update is filled whatever its kind (pointer, slice, map)
		esc := mustPassInIteration(setCall, func(c ssa.Value) (bool, bool) {
			if x, ok := c.(*ssa.Call); ok {
				if callee := x.Call.StaticCallee(); callee != nil && fnPkgPath(callee) == "reflect" {
					switch callee.Name() {
					case "IsValid", "CanSet", "IsNil":
						return true, true
					}
				}
			}
			return false, false
		})
		r.Check("R4b", base+"|fills-missing", fill && esc == "", p.InstrPos(setCall), "a field the update does not mention (valid, settable, nil) is filled from the existing item on every path of the iteration, whatever its kind; "+esc)
	}
	r.Floor("R4b", "tag-aware mutators", n, 1)
}

// engineFailureRule applies failureMonotone to the exported generic engine and
// to the functions of the function-data store that consume an Updater result.
func engineFailureRule(p *Prog, r *Report, rule string) {
	n := 0
	seen := map[*ssa.Function]bool{}
	for _, fn := range p.RepoFns("model") {
		if originName(fn) != "UpdateList" || fn.Signature.Recv() != nil || seen[originOf(fn)] {
			continue
		}
		seen[originOf(fn)] = true
		nStages, nPaths, bad, und := failureMonotone(p, fn)
		if nStages == 0 {
			r.Undecided(rule, "model.UpdateList|stages", p.Pos(fn.Pos()), "no stage calls returning (data, ok) found in the engine")
			continue
		}
		n++
		for i, m := range bad {
			r.Fail(rule, fmt.Sprintf("model.UpdateList|lost-failure#%d", i+1), p.Pos(fn.Pos()), m)
		}
		for i, m := range und {
			r.Undecided(rule, fmt.Sprintf("model.UpdateList|undetermined#%d", i+1), p.Pos(fn.Pos()), m)
		}
		if len(bad)+len(und) == 0 {
			r.Pass(rule, "model.UpdateList", p.Pos(fn.Pos()), fmt.Sprintf("%d stages, %d paths under all stage outcomes: every path with a failed stage returns false", nStages, nPaths))
		}
	}
	r.Floor(rule, "engine bodies examined", n, 1)
}

// mustPassInIteration: from the first block of the loop body around target, with
// the branch conditions eval knows fixed and all others explored both ways, every
// path that comes back to the loop header (or leaves the loop) runs through
// target's block. Returns a description of an escaping path, "" if none.
func mustPassInIteration(target ssa.Instruction, eval func(cond ssa.Value) (known, val bool)) string {
	b := target.Block()
	var header *ssa.BasicBlock
	for d := b; d != nil; d = d.Idom() {
		for _, pr := range d.Preds {
			if d.Dominates(pr) && blockReachesOrSame(b, pr) {
				header = d
			}
		}
		if header != nil {
			break
		}
	}
	if header == nil {
		return "no loop around the mutator call"
	}
	inLoop := func(x *ssa.BasicBlock) bool { return header.Dominates(x) && (x == header || blockReaches(x, header)) }
	start := loopBodyStart(header) // the header itself in a rotated loop (range over an integer)
	if start == nil {
		return "loop body not found"
	}
	rotated := start == header
	// a condition computed into a named boolean first (a && b, a || b, possibly hoisted out of the loop) has a value
	// when all edges that are possible under the known conditions agree
	var evalNamed func(c ssa.Value, at *ssa.BasicBlock, d int) (bool, bool)
	evalNamed = func(c ssa.Value, at *ssa.BasicBlock, d int) (bool, bool) {
		if d > 6 {
			return false, false
		}
		c2, pol := normCond(c, true)
		if known, val := eval(c2); known {
			return val == pol, true
		}
		if k, isK := constBool(c2); isK {
			return k == pol, true
		}
		// "f, ok := lookUpHelper(…)": ok evaluated in the helper under the same known conditions
		if ex, isEx := c2.(*ssa.Extract); isEx {
			if hc, isCall := ex.Tuple.(*ssa.Call); isCall {
				switch predicate3Idx(hc, ex.Index, func(w ssa.Value) bool3 {
					if known, val := eval(w); known {
						return b3(val)
					}
					return bUnknown
				}, 0) {
				case bTrue:
					return pol, true
				case bFalse:
					return !pol, true
				}
			}
		}
		if hc, isCall := c2.(*ssa.Call); isCall && predicateCallee(hc) != nil {
			switch predicate3(hc, func(w ssa.Value) bool3 {
				if known, val := eval(w); known {
					return b3(val)
				}
				return bUnknown
			}, 0) {
			case bTrue:
				return pol, true
			case bFalse:
				return !pol, true
			}
		}
		ph, isPhi := c2.(*ssa.Phi)
		if !isPhi {
			return false, false
		}
		// a && b: phi [false (a false), b]; a || b: phi [true (a true), b]. The edge from the block that evaluated a is
		// possible only if a has the short-circuit value
		res, have := false, false
		for i, e := range ph.Edges {
			pred := ph.Block().Preds[i]
			// is the edge feasible? the predecessor ends in "if a" choosing between short-circuit and evaluating b
			if ifi, isIf := pred.Instrs[len(pred.Instrs)-1].(*ssa.If); isIf {
				if av, known := evalNamed(ifi.Cond, pred, d+1); known {
					toPhi := pred.Succs[0] == ph.Block()
					if (toPhi && !av) || (!toPhi && pred.Succs[1] == ph.Block() && av) {
						continue // this edge is not taken
					}
					if pred.Dominates(ph.Block()) {
						// the first operand decides (short circuit): this edge is the one taken
						if ev, known := evalNamed(e, pred, d+1); known {
							return ev == pol, true
						}
					}
				}
			}
			ev, known := evalNamed(e, pred, d+1)
			if !known {
				return false, false
			}
			if have && ev != res {
				return false, false
			}
			res, have = ev, true
		}
		if !have {
			return false, false
		}
		return res == pol, true
	}
	escape := ""
	seen := map[*ssa.BasicBlock]bool{}
	var walk func(x *ssa.BasicBlock, steps int)
	walk = func(x *ssa.BasicBlock, steps int) {
		if escape != "" || steps > 200 {
			return
		}
		if x == b {
			return // reached the call
		}
		if (x == header && !(rotated && steps == 0)) || !inLoop(x) || (rotated && isLatch(x, start)) {
			escape = fmt.Sprintf("a path of the iteration reaches block %d (%s) without the call", x.Index, x.Comment)
			return
		}
		if seen[x] {
			return
		}
		seen[x] = true
		if ifi, ok := x.Instrs[len(x.Instrs)-1].(*ssa.If); ok {
			c, pol := normCond(ifi.Cond, true)
			if val, known := evalNamed(c, x, 0); known {
				if val == pol {
					walk(x.Succs[0], steps+1)
				} else {
					walk(x.Succs[1], steps+1)
				}
				return
			}
		}
		for _, s := range x.Succs {
			walk(s, steps+1)
		}
	}
	walk(start, 0)
	return escape
}

// noWriteThroughPointee: in the reflective code of package model no reflect.Value.Set* is applied to v.Elem() where v is
// the reflect.Value of a struct *field* (Field, FieldByName, FieldByIndex): that writes the pointee of a pointer field.
// (Elem() of reflect.ValueOf(ptr) — the struct the mutator was handed — is the ordinary way to reach the fields.)
func noWriteThroughPointee(p *Prog, r *Report, rule string) {
	nSet := 0
	var fieldValue func(v ssa.Value, d int) bool
	fieldValue = func(v ssa.Value, d int) bool {
		if d > 6 {
			return false
		}
		switch x := v.(type) {
		case *ssa.Call:
			if c := x.Call.StaticCallee(); c != nil && fnPkgPath(c) == "reflect" {
				switch c.Name() {
				case "Field", "FieldByName", "FieldByIndex":
					return true
				case "Elem", "Indirect":
					return false
				}
			}
		case *ssa.UnOp:
			if al, ok := x.X.(*ssa.Alloc); ok && x.Op == token.MUL {
				if s := singleStore(al); s != nil {
					return fieldValue(s, d+1)
				}
			}
		case *ssa.Phi:
			for _, e := range x.Edges {
				if fieldValue(e, d+1) {
					return true
				}
			}
		}
		return false
	}
	idx := map[string]int{}
	seenSite := map[string]bool{}
	for _, fn := range p.RepoFns("model") {
		forEachCallOwn(fn, func(site ssa.CallInstruction) {
			c := site.Common()
			callee := c.StaticCallee()
			if callee == nil || fnPkgPath(callee) != "reflect" || !strings.HasPrefix(callee.Name(), "Set") || callee.Signature.Recv() == nil || len(c.Args) == 0 {
				return
			}
			nSet++
			recv := c.Args[0]
			// spilled receiver
			if u, ok := recv.(*ssa.UnOp); ok && u.Op == token.MUL {
				if al, ok := u.X.(*ssa.Alloc); ok {
					if s := singleStore(al); s != nil {
						recv = s
					}
				}
			}
			el, ok := recv.(*ssa.Call)
			if !ok {
				return
			}
			ec := el.Call.StaticCallee()
			if ec == nil || fnPkgPath(ec) != "reflect" || (ec.Name() != "Elem" && ec.Name() != "Indirect") || len(el.Call.Args) == 0 {
				return
			}
			if fieldValue(el.Call.Args[0], 0) {
				base := FnName(originOf(fn))
				// instantiations of one generic body report the same source site: keep one
				if seenSite[base+"@"+p.InstrPos(site)] {
					return
				}
				seenSite[base+"@"+p.InstrPos(site)] = true
				idx[base]++
				r.Fail(rule, fmt.Sprintf("%s|pointee-write#%d", base, idx[base]), p.InstrPos(site), "reflect.Value."+callee.Name()+" is applied to the Elem() of a struct field's value: the value a pointer field points to is overwritten in place instead of the pointer being replaced")
			}
		})
	}
	if len(idx) == 0 {
		r.Pass(rule, "model|reflective-sets", "", fmt.Sprintf("%d reflective Set calls in package model, none through the pointee of a field", nSet))
	}
	r.Floor(rule, "reflective Set calls in package model", nSet, 3)
}

// engineStageResultsUsed: in the generic model.UpdateList every call of a repository function returning (list, ok)
// has its list result used: it reaches a return of the engine (directly or through a later stage).
func engineStageResultsUsed(p *Prog, r *Report, rule string) {
	n := 0
	seen := map[*ssa.Function]bool{}
	for _, fn := range p.RepoFns("model") {
		if originName(fn) != "UpdateList" || fn.Signature.Recv() != nil || seen[originOf(fn)] || fn.Blocks == nil {
			continue
		}
		seen[originOf(fn)] = true
		idx := 0
		var firstStageTaint map[ssa.Value]bool
		forEachCallOwn(fn, func(site ssa.CallInstruction) {
			c, ok := site.(*ssa.Call)
			if !ok {
				return
			}
			callee := c.Call.StaticCallee()
			if callee == nil || !p.IsRepoFn(callee) {
				return
			}
			res := callee.Signature.Results()
			if res.Len() != 2 || !isBoolType(res.At(1).Type()) {
				return
			}
			if _, isSl := res.At(0).Type().Underlying().(*types.Slice); !isSl {
				return
			}
			idx++
			n++
			used := false
			if c.Referrers() != nil {
				for _, ref := range *c.Referrers() {
					ex, isEx := ref.(*ssa.Extract)
					if !isEx || ex.Index != 0 {
						continue
					}
					t := forwardTaint(ex)
					for _, b := range fn.Blocks {
						if ret, isRet := b.Instrs[len(b.Instrs)-1].(*ssa.Return); isRet && len(ret.Results) > 0 && t[ret.Results[0]] {
							used = true
						}
					}
				}
			}
			r.Check(rule, fmt.Sprintf("model.UpdateList|stage#%d:%s", idx, p.StableName(callee)), used, p.InstrPos(c), "the list this stage returns reaches the engine's result")
			// every stage works on the list the stages before it left: the list handed to a later stage derives from
			// the result of the first (delete) stage — a stage that still gets the list as it was before the delete
			// brings the deleted items back
			var listArg ssa.Value
			for _, a := range c.Call.Args {
				if _, isSl := a.Type().Underlying().(*types.Slice); isSl && types.Identical(a.Type(), res.At(0).Type()) {
					listArg = a
					break
				}
			}
			if idx == 1 {
				if c.Referrers() != nil {
					for _, ref := range *c.Referrers() {
						if ex, isEx := ref.(*ssa.Extract); isEx && ex.Index == 0 {
							firstStageTaint = forwardTaint(ex)
						}
					}
				}
			} else if listArg != nil && firstStageTaint != nil {
				r.Check(rule, fmt.Sprintf("model.UpdateList|stage#%d:%s|works-on-current-list", idx, p.StableName(callee)), firstStageTaint[listArg], p.InstrPos(c), "the list this stage works on ("+Path(listArg)+") is what the delete stage left (where it ran)")
			}
		})
	}
	r.Floor(rule, "stage calls of the engine", n, 3)
}
