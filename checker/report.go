package main

import (
	"bufio"
	"encoding/json"
	"fmt"
	"os"
	"path/filepath"
	"sort"
	"strings"
	"time"
)

// Ob is one obligation: a rule applied to one construct.
type Ob struct {
	Rule      string `json:"rule"`
	Key       string `json:"construct"` // stable key: no line numbers
	OK        bool   `json:"ok"`
	Undecided bool   `json:"undecided,omitempty"`
	Pos       string `json:"pos,omitempty"`
	Detail    string `json:"detail,omitempty"`
	Known     bool   `json:"known_finding,omitempty"`
}

type Report struct {
	Prop   string
	Tier   string
	Seed   int
	Obs    []Ob
	Infos  []string
	Rules  map[string]string // rule id -> one-line statement
	Stats  map[string]int
	Assume []string
	start  time.Time
	seen   map[string]bool

	selfRegression bool // thorough tier: the self-validation catalogue found the check itself wanting
}

func NewReport(prop, tier string, seed int) *Report {
	return &Report{Prop: prop, Tier: tier, Seed: seed, Rules: map[string]string{}, Stats: map[string]int{}, start: time.Now(), seen: map[string]bool{}}
}

func (r *Report) Rule(id, statement string) { r.Rules[id] = statement }

func (r *Report) add(o Ob) {
	k := o.Rule + "\x00" + o.Key
	if r.seen[k] {
		// the same construct may be reached twice (e.g. through two instantiations): keep the worst
		for i := range r.Obs {
			if r.Obs[i].Rule == o.Rule && r.Obs[i].Key == o.Key {
				if r.Obs[i].OK && !o.OK {
					r.Obs[i] = o
				}
				return
			}
		}
	}
	r.seen[k] = true
	r.Obs = append(r.Obs, o)
}

// Check records an obligation with its verdict.
func (r *Report) Check(rule, key string, ok bool, pos, detail string) {
	r.add(Ob{Rule: rule, Key: key, OK: ok, Pos: pos, Detail: detail})
}

func (r *Report) Pass(rule, key, pos, detail string) { r.Check(rule, key, true, pos, detail) }
func (r *Report) Fail(rule, key, pos, detail string) { r.Check(rule, key, false, pos, detail) }

// Undecided: the mechanism is not where the rule can see it (anchor missing,
// floor breached, shape not decidable). Reported as a violation of kind undecided.
func (r *Report) Undecided(rule, key, pos, detail string) {
	r.add(Ob{Rule: rule, Key: key, OK: false, Undecided: true, Pos: pos, Detail: detail})
}

// Floor checks that a rule matched at least the number of instances confirmed by hand.
func (r *Report) Floor(rule, what string, got, want int) {
	r.Stats[rule+"."+what] = got
	if got < want {
		r.Undecided(rule, "floor:"+what, "", fmt.Sprintf("rule matched %d instances of %s, at least %d were confirmed by hand on the pinned tree", got, what, want))
	}
}

func (r *Report) Stat(name string, n int) { r.Stats[name] = n }
func (r *Report) Info(format string, a ...any) {
	r.Infos = append(r.Infos, fmt.Sprintf(format, a...))
}
func (r *Report) Assumes(s ...string) { r.Assume = append(r.Assume, s...) }

// ---- known findings ----

type knownFinding struct {
	Prop, Rule, Key, What string
}

func loadKnown(path string) ([]knownFinding, error) {
	f, err := os.Open(path)
	if err != nil {
		if os.IsNotExist(err) {
			return nil, nil
		}
		return nil, err
	}
	defer f.Close()
	var res []knownFinding
	sc := bufio.NewScanner(f)
	sc.Buffer(make([]byte, 1<<20), 1<<20)
	for sc.Scan() {
		line := strings.TrimSpace(sc.Text())
		if !strings.HasPrefix(line, "known:") {
			continue // comments and "fixed:" entries suppress nothing
		}
		rest := strings.TrimSpace(strings.TrimPrefix(line, "known:"))
		what := ""
		if i := strings.Index(rest, " :: "); i >= 0 {
			what = rest[i+4:]
			rest = rest[:i]
		}
		kf := knownFinding{What: what}
		for _, tok := range strings.Fields(rest) {
			switch {
			case strings.HasPrefix(tok, "property="):
				kf.Prop = strings.TrimPrefix(tok, "property=")
			case strings.HasPrefix(tok, "rule="):
				kf.Rule = strings.TrimPrefix(tok, "rule=")
			case strings.HasPrefix(tok, "key="):
				kf.Key = strings.TrimPrefix(tok, "key=")
			}
		}
		if kf.Prop != "" && kf.Rule != "" && kf.Key != "" {
			res = append(res, kf)
		}
	}
	return res, sc.Err()
}

// ---- output ----

type violationFile struct {
	Property string `json:"property"`
	Kind     string `json:"kind"` // violation | undecided
	Rule     string `json:"rule"`
	RuleText string `json:"rule_statement"`
	Key      string `json:"construct"`
	Pos      string `json:"position"`
	Detail   string `json:"detail"`
	Replay   string `json:"replay_cmd"`
	Tier     string `json:"tier"`
}

// Finish writes evidence and violation files, prints verdict lines and returns the exit code.
func (r *Report) Finish(verifDir string, p *Prog, explanation string, extra map[string]any) int {
	known, err := loadKnown(filepath.Join(verifDir, "known_findings.txt"))
	if err != nil {
		fmt.Fprintf(os.Stderr, "cannot read known findings: %v\n", err)
		return 2
	}
	sort.SliceStable(r.Obs, func(i, j int) bool {
		if r.Obs[i].Rule != r.Obs[j].Rule {
			return r.Obs[i].Rule < r.Obs[j].Rule
		}
		return r.Obs[i].Key < r.Obs[j].Key
	})
	evDir := filepath.Join(verifDir, "evidence")
	vioDir := filepath.Join(evDir, "violations")
	_ = os.MkdirAll(vioDir, 0o755)
	// remove stale violation files of this property
	if old, _ := filepath.Glob(filepath.Join(vioDir, r.Prop+"-*.json")); old != nil {
		for _, f := range old {
			_ = os.Remove(f)
		}
	}
	nViol, nKnown, nOK := 0, 0, 0
	var knownLines []string
	matched := map[int]bool{}
	for i := range r.Obs {
		o := &r.Obs[i]
		if o.OK {
			nOK++
			continue
		}
		isKnown := false
		if !o.Undecided {
			for ki, k := range known {
				if k.Prop == r.Prop && k.Rule == o.Rule && k.Key == o.Key {
					isKnown = true
					matched[ki] = true
					knownLines = append(knownLines, fmt.Sprintf("KNOWN-FINDING: property=%s rule=%s construct=%s %s", r.Prop, o.Rule, o.Key, k.What))
					break
				}
			}
		}
		if isKnown {
			o.Known = true
			nKnown++
			continue
		}
		nViol++
		kind := "violation"
		if o.Undecided {
			kind = "undecided"
		}
		vf := violationFile{Property: r.Prop, Kind: kind, Rule: o.Rule, RuleText: r.Rules[o.Rule], Key: o.Key, Pos: o.Pos, Detail: o.Detail, Tier: r.Tier}
		path := filepath.Join(vioDir, fmt.Sprintf("%s-%d.json", r.Prop, nViol))
		vf.Replay = fmt.Sprintf("./check %s --replay %s", r.Prop, path)
		b, _ := json.MarshalIndent(vf, "", " ")
		_ = os.WriteFile(path, append(b, '\n'), 0o644)
		fmt.Printf("%s: %s rule=%s construct=%s at %s: %s\n", strings.ToUpper(kind), r.Prop, o.Rule, o.Key, o.Pos, o.Detail)
		fmt.Printf("VIOLATION property=%s replay=%s\n", r.Prop, path)
	}
	for _, l := range knownLines {
		fmt.Println(l)
	}
	for ki, k := range known {
		if k.Prop == r.Prop && !matched[ki] {
			fmt.Printf("note: known finding no longer reproduced (rule=%s construct=%s); it can be recorded as fixed\n", k.Rule, k.Key)
		}
	}

	// evidence
	distinct := map[string]bool{}
	perRule := map[string][2]int{}
	for _, o := range r.Obs {
		distinct[o.Rule+"|"+o.Key] = true
		c := perRule[o.Rule]
		c[0]++
		if o.OK {
			c[1]++
		}
		perRule[o.Rule] = c
	}
	var samples []any
	// a few obligations per rule, violations and known findings first
	perRuleSample := map[string]int{}
	for pass := 0; pass < 2; pass++ {
		for _, o := range r.Obs {
			if (pass == 0) == o.OK {
				continue
			}
			lim := 3
			if pass == 0 {
				lim = 50
			}
			if perRuleSample[o.Rule] >= lim || len(samples) >= 120 {
				continue
			}
			perRuleSample[o.Rule]++
			samples = append(samples, o)
		}
	}
	rulesOut := map[string]any{}
	var ruleIDs []string
	for id := range r.Rules {
		ruleIDs = append(ruleIDs, id)
	}
	sort.Strings(ruleIDs)
	for _, id := range ruleIDs {
		c := perRule[id]
		rulesOut[id] = map[string]any{"statement": r.Rules[id], "obligations": c[0], "holding": c[1]}
	}
	cov := map[string]any{
		"explanation":         explanation,
		"obligations":         len(r.Obs),
		"discharged":          nOK,
		"known_findings":      nKnown,
		"evaluations":         len(r.Obs),
		"distinct_nontrivial": len(distinct),
		"rule":                "one obligation = one rule applied to one construct (function, call site, field, type, path class) of /repo's current source; distinct by rule+construct key; every one is non-trivial in that the rule's pattern matched the construct",
		"samples":             samples,
		"rules":               rulesOut,
		"instance_counts":     r.Stats,
		"exhaustive":          true,
		"info":                r.Infos,
	}
	if p != nil {
		cov["analysed"] = map[string]any{"packages": p.NumPackages, "ssa_functions": p.NumFunctions, "repository_functions": p.NumRepoFns}
	}
	for k, v := range extra {
		cov[k] = v
	}
	ev := map[string]any{
		"property_id": r.Prop,
		"tier":        r.Tier,
		"seed":        r.Seed,
		"level":       "other",
		"coverage":    cov,
		"assumptions": append([]string{
			"static analysis of /repo's working tree (packages api, model, spine, util; default build configuration; tests excluded); nothing is executed",
			"a pass means: every enumerated structural obligation (a necessary condition of the property) holds on this source; it is not a proof of the behaviour",
		}, r.Assume...),
		"wall_s":     time.Since(r.start).Seconds(),
		"violations": nViol,
	}
	b, _ := json.MarshalIndent(ev, "", " ")
	if err := os.WriteFile(filepath.Join(evDir, r.Prop+".json"), append(b, '\n'), 0o644); err != nil {
		fmt.Fprintf(os.Stderr, "cannot write evidence: %v\n", err)
		return 2
	}
	fmt.Printf("%s %s: %d obligations, %d hold, %d known findings, %d violations (%.1fs)\n", r.Prop, r.Tier, len(r.Obs), nOK, nKnown, nViol, time.Since(r.start).Seconds())
	if nViol > 0 {
		return 1
	}
	if r.selfRegression {
		return 2
	}
	return 0
}

// ImportRules runs the check of a neighbouring property and takes over the obligations of the named rules under new
// ids (old id -> new id): the mechanism sits with the neighbour, the behaviour it protects is part of this property too.
// A missing anchor of the neighbour, or a rule that produced nothing, is undecided here as well.
func (r *Report) ImportRules(p *Prog, from string, check func(*Prog, *Report), ids map[string]string) {
	sub := NewReport(from, r.Tier, r.Seed)
	check(p, sub)
	n := map[string]int{}
	for _, o := range sub.Obs {
		if o.Rule == "R0" {
			for _, nw := range ids {
				r.Undecided(nw, o.Key, o.Pos, from+": "+o.Detail)
				n[nw]++
			}
			continue
		}
		if nw, ok := ids[o.Rule]; ok {
			o.Rule = nw
			r.add(o)
			n[nw]++
		}
	}
	for old, nw := range ids {
		if st, ok := sub.Rules[old]; ok {
			r.Rule(nw, st+" (shared with "+from+"-"+old+")")
		}
		if n[nw] == 0 {
			r.Undecided(nw, "floor:"+from+"-"+old, "", "the shared rule produced no obligation")
		}
	}
}
