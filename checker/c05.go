package main

import (
	"fmt"
	"go/token"
	"go/types"
	"sort"
	"strings"

	"golang.org/x/tools/go/ssa"
)

func init() {
	register("C05", true,
		"Wire-nil / panic analysis of the synchronous inbound call tree rooted at HandleSpineMesssage: taint from the unmarshalled datagram through fields, indexes, copies, parameters (context-insensitive), message fields and the reflective accessors; every pointer loaded from a field of a wire-derived data-model struct may be nil; every dereference, field address, constant index, unchecked type assertion and explicit panic on such data must be guarded on the same access path by a dominating nil/length test, by a validator whose nil-error returns are dominated by the test, or by a test every wire-carrying caller makes; two invariants are taken from exhaustive table rules (non-empty fct tags; payload types). Plus: reachability rules on the reflective selector match (Elem only on non-nil pointers), exhaustive kind tables for the reflective copy, decode error tested before use, and no-wedge rules (lock pairing and order in the inbound tree, no blocking primitive). Decided: absence of unguarded uses of optional wire data in the repository's own inbound code. Not decided: arbitrary bytes inside encoding/json and other dependencies, panics needing value reasoning, resource exhaustion.",
		checkC05)
}

func checkC05(p *Prog, r *Report) {
	dri := p.LookupIface("api", "DeviceRemoteInterface")
	if dri == nil {
		r.Undecided("R0", "anchor:api.DeviceRemoteInterface", "", "interface not found")
		return
	}
	roots := p.ImplsOf(dri, "HandleSpineMesssage")
	if len(roots) != 1 {
		r.Undecided("R0", "anchor:HandleSpineMesssage", "", fmt.Sprintf("%d implementations found", len(roots)))
		return
	}
	root := roots[0]
	r.Rule("R1", "every dereference / field access through a pointer that may be nil on the wire — or that is the result of a getter whose field is nil by construction (its constructor is called with nil) — in the synchronous inbound call tree, is guarded on the same access path")
	r.Rule("R2", "every constant index into a wire-derived list is guarded by a length test")
	r.Rule("R3", "no explicit panic and no unchecked type assertion on wire data is reachable in the inbound call tree (exemptions only where an exhaustive table rule proves the case impossible)")
	r.Rule("R4", "reflect preconditions: every fct tag is non-empty and CmdType.Data succeeds only for a tagged field (so CmdData.Function / FilterData.Function are non-nil after a successful accessor); every registered payload type is the type of the command element of its function (so the unchecked assertion in the store cannot fail); the selector match calls Elem() on an item field only if it is a non-nil pointer; every item field is of a nilable kind")
	r.Rule("R5", "no wedge: in the inbound call tree every lock is released on every path, the lock order is acyclic and no blocking primitive (channel receive, select without default, WaitGroup/Cond wait) is used")
	r.Rule("R6", "the decode error is tested before the datagram is used")

	// invariant from tables
	t := BuildTables(p)
	tagsOK := len(t.anchorsMissing) == 0
	nTags := 0
	for _, f := range t.CmdFields {
		if fct, has := f.Tags["fct"]; has {
			nTags++
			if fct == "" {
				tagsOK = false
				r.Fail("R4", "CmdType."+f.Var.Name()+"|fct", p.Pos(f.Var.Pos()), "empty fct tag: CmdType.Data returns a nil Function without an error, which the inbound code dereferences")
			}
		}
	}
	if tagsOK {
		r.Pass("R4", "CmdType|fct-tags-non-empty", "", fmt.Sprintf("%d tags", nTags))
	}
	r.Floor("R4", "CmdType fct tags", nTags, 140)
	// FilterType.Data returns an error if no function was found: Function is then never nil — structural check
	if fd := p.Method("model", "FilterType", "Data"); fd != nil {
		ok := false
		for _, b := range fd.Blocks {
			if ret, isRet := b.Instrs[len(b.Instrs)-1].(*ssa.Return); isRet && len(ret.Results) == 2 && isNilConst(ret.Results[0]) && !isNilConst(ret.Results[1]) {
				for _, g := range Guards(b) {
					if bo, isB := g.Cond.(*ssa.BinOp); isB && bo.Op == token.EQL && g.Val {
						if c, isC := bo.X.(*ssa.Call); isC && builtinName(&c.Call) == "len" {
							ok = true
						}
					}
				}
			}
		}
		r.Check("R4", "model.FilterType.Data|function-or-error", ok, p.Pos(fd.Pos()), "an empty function name yields an error, so FilterData.Function is never nil")
		tagsOK = tagsOK && ok
	}

	// CmdType.Data reports success only for a field that carries a function tag (untagged extension elements are skipped):
	// otherwise a command holding only such an element yields a nil Function without an error
	if cd := p.Method("model", "CmdType", "Data"); cd != nil {
		ok := false
		nSucc := 0
		for _, b := range cd.Blocks {
			ret, isRet := b.Instrs[len(b.Instrs)-1].(*ssa.Return)
			if !isRet || len(ret.Results) != 2 || !isNilConst(ret.Results[1]) {
				continue
			}
			nSucc++
			tagged := false
			for _, g := range Guards(b) {
				if g.Val && boolImpliesTagFound(g.Cond, 0) {
					tagged = true
				}
				if bo, isB := g.Cond.(*ssa.BinOp); isB {
					if c, isC := bo.X.(*ssa.Call); isC && builtinName(&c.Call) == "len" {
						if k, isK := constInt(bo.Y); isK && k == 0 && ((bo.Op == token.GTR && g.Val) || (bo.Op == token.EQL && !g.Val) || (bo.Op == token.NEQ && g.Val)) {
							tagged = true
						}
					}
				}
			}
			ok = tagged
			if !tagged {
				break
			}
		}
		r.Check("R4", "model.CmdType.Data|success-only-for-tagged-field", ok && nSucc > 0, p.Pos(cd.Pos()), "every successful return is reached only when the field has a function tag (comma-ok look-up found it, or the tag is non-empty)")
		tagsOK = tagsOK && ok
	} else {
		r.Undecided("R4", "anchor:model.CmdType.Data", "", "method not found")
		tagsOK = false
	}

	// the unchecked assertions newData.(*T) in the store rely on: what arrives for function F has the type the
	// factory registered for F — the decoder fills the CmdType field tagged fct:F, so that field's type must be *T
	nReg, badReg := 0, 0
	seenReg := map[string]bool{}
	for _, reg := range t.Regs {
		if seenReg[reg.Fct] {
			continue
		}
		seenReg[reg.Fct] = true
		nReg++
		fs := t.CmdByFct[reg.Fct]
		if len(fs) != 1 || !types.Identical(fs[0].Var.Type(), types.NewPointer(reg.T)) {
			badReg++
			r.Fail("R4", "fct:"+reg.Fct+"|payload-type", p.Pos(reg.Pos), fmt.Sprintf("function %s is registered with payload %s but its command element has a different type: the unchecked assertion in the store panics on the first valid message for it", reg.Fct, shortType(reg.T)))
		}
	}
	if badReg == 0 {
		r.Pass("R4", "registrations|payload-types", "", fmt.Sprintf("%d registered functions: the payload type equals the type of the command element tagged with the function", nReg))
	}
	r.Floor("R4", "registered functions", nReg, 120)
	// ... and the function under which the store is selected is the one of the value handed to it
	cmdDataSameField(p, r, "R4")

	w := RunWireNil(p, root, tagsOK)
	r.Stat("functions in the synchronous inbound call tree", len(w.reach))
	r.Stat("panic-prone sites on wire data", w.Total)
	r.Stat("guarded sites", w.Guarded)
	r.Floor("R1", "functions in the synchronous inbound call tree", len(w.reach), 100)
	r.Floor("R1", "panic-prone sites on wire data", w.Total, 20)
	nGetters := 0
	var nbc []string
	for t, fs := range w.sn.nilByType {
		for f, by := range fs {
			nGetters++
			nbc = append(nbc, fmt.Sprintf("nil by construction: %s.%s (built by %s)", t.Obj().Name(), f.S.Underlying().(*types.Struct).Field(f.I).Name(), by))
		}
	}
	sort.Strings(nbc)
	for _, s := range nbc {
		r.Info("%s", s)
	}
	r.Stat("getter fields nil by construction", nGetters)
	r.Stat("custom JSON decoders added to the inbound tree", w.Decoders)
	r.Stat("API entry points receiving an inbound message back from the application", w.MsgRoots)
	r.Floor("R1", "getter fields that are nil by construction", nGetters, 1)
	r.Stat("look-ups of the repository that can miss (one pointer/interface result, constant nil on some path)", w.LookupFns)
	r.Stat("method calls on a look-up result in the inbound tree (each needs a dominating non-nil test)", w.LookupSites)
	r.Floor("R1", "look-ups that can miss", w.LookupFns, 10)
	r.Floor("R1", "method calls on a look-up result in the inbound tree", w.LookupSites, 5)
	nf := 0
	tf := 0
	for _, k := range sortedKeys(w.taintedField) {
		_ = k
		tf++
	}
	r.Stat("wire-derived heap fields", tf)
	count := map[string]int{}
	dup := map[string]bool{}
	for _, f := range w.Findings {
		nf++
		rule := "R1"
		switch {
		case strings.HasPrefix(f.Kind, "index"):
			rule = "R2"
		case f.Kind == "panic" || f.Kind == "assert":
			rule = "R3"
		}
		k := f.Key()
		// instantiations of one generic body report the same source site: keep one
		if dup[k+"@"+p.InstrPos(f.Ins)] {
			continue
		}
		dup[k+"@"+p.InstrPos(f.Ins)] = true
		count[k]++
		if count[k] > 1 {
			k = fmt.Sprintf("%s#%d", k, count[k])
		}
		what := map[string]string{"deref": "dereference of", "field": "field access through"}[f.Kind]
		if what == "" {
			what = f.Kind + " on"
		}
		why := "a datagram omitting this element crashes the reader goroutine"
		if strings.HasSuffix(f.Path, "()") {
			why = "the getter returns nil until the value was learned from the peer; a message handled before that crashes the reader goroutine"
		}
		if strings.HasPrefix(f.Path, "result of ") {
			why = "the look-up returns nil when nothing matches (an address the peer chose, an entry removed meanwhile); a message naming such a key crashes the reader goroutine"
		}
		r.Fail(rule, k, p.InstrPos(f.Ins), fmt.Sprintf("unguarded %s %s: %s", what, f.Path, why))
	}
	if nf == 0 {
		r.Pass("R1", "inbound-tree", "", fmt.Sprintf("%d panic-prone sites on wire data, all guarded", w.Total))
		r.Pass("R2", "inbound-tree", "", "all constant indexes into wire-derived lists are length-guarded")
		r.Pass("R3", "inbound-tree", "", fmt.Sprintf("no reachable explicit panic or unchecked assertion (%d exemptions backed by table rules)", len(w.Exempt)))
	}
	c05KeepNodeManagement(p, w, r)
	// a decoder that rejects what it cannot interpret drops the whole datagram — the peer is not answered any more
	customDecoderRejectsOnlySyntax(p, r, "R8")
	for _, e := range uniqStrings(w.Exempt) {
		r.Info("exempt: %s", e)
	}

	// R4: selector match
	if sm := p.Method("model", "FilterData", "SelectorMatch"); sm != nil {
		// the Elem() call on the item's field value
		var itemElem *ssa.Call
		forEachCall(sm, func(site ssa.CallInstruction) {
			c, ok := site.(*ssa.Call)
			if !ok {
				return
			}
			callee := c.Call.StaticCallee()
			if callee == nil || fnPkgPath(callee) != "reflect" || callee.Name() != "Elem" {
				return
			}
			// receiver derives from FieldByName (the item's field), not from the selector itself
			if src, ok := derefValue(c.Call.Args[0]).(*ssa.Alloc); ok {
				if s := singleStore(src); s != nil {
					if sc, ok := s.(*ssa.Call); ok {
						if c2 := sc.Call.StaticCallee(); c2 != nil && c2.Name() == "FieldByName" {
							itemElem = c
						}
					}
				}
			} else if sc, ok := c.Call.Args[0].(*ssa.Call); ok {
				if c2 := sc.Call.StaticCallee(); c2 != nil && c2.Name() == "FieldByName" {
					itemElem = c
				}
			}
		})
		if itemElem == nil {
			r.Undecided("R4", "model.FilterData.SelectorMatch|elem", p.Pos(sm.Pos()), "Elem() on the item field not found")
		} else {
			recv := Path(itemElem.Call.Args[0])
			mk := func(isNil, notPtr bool) func(c ssa.Value) (bool, bool) {
				return func(c ssa.Value) (bool, bool) {
					switch x := c.(type) {
					case *ssa.Call:
						callee := x.Call.StaticCallee()
						if callee != nil && fnPkgPath(callee) == "reflect" && callee.Name() == "IsNil" && Path(x.Call.Args[0]) == recv {
							return true, isNil
						}
					case *ssa.BinOp:
						if kc, ok := x.X.(*ssa.Call); ok {
							if callee := kc.Call.StaticCallee(); callee != nil && fnPkgPath(callee) == "reflect" && callee.Name() == "Kind" && Path(kc.Call.Args[0]) == recv {
								if x.Op == token.NEQ {
									return true, notPtr
								}
								if x.Op == token.EQL {
									return true, !notPtr
								}
							}
						}
					}
					return false, false
				}
			}
			r.Check("R4", "model.FilterData.SelectorMatch|elem-guarded", !reachableUnder(sm, itemElem, mk(true, false)) && !reachableUnder(sm, itemElem, mk(false, true)) && reachableUnder(sm, itemElem, mk(false, false)), p.InstrPos(itemElem), "Elem() on the item field is unreachable when the field is nil or not a pointer, reachable otherwise")
		}
	} else {
		r.Undecided("R4", "anchor:model.FilterData.SelectorMatch", "", "method not found")
	}
	// R4: item fields nilable (precondition of the reflective copy: Value.IsNil panics on other kinds)
	nItems, okItems := 0, true
	for _, nt := range t.Updaters {
		_, el, item, ok := listItem(nt)
		if !ok {
			continue
		}
		nItems++
		for i := 0; i < item.NumFields(); i++ {
			if !nilableKind(item.Field(i).Type()) {
				okItems = false
				r.Fail("R4", "item:"+shortType(el)+"."+item.Field(i).Name(), p.Pos(item.Field(i).Pos()), "field of a non-nilable kind: the reflective copy calls IsNil on every field and panics")
			}
		}
	}
	if okItems {
		r.Pass("R4", "item-fields-nilable", "", fmt.Sprintf("%d item types", nItems))
	}
	r.Floor("R4", "item types", nItems, 80)

	// R6
	var unm, proc *ssa.Call
	forEachCall(root, func(site ssa.CallInstruction) {
		c, ok := site.(*ssa.Call)
		if !ok {
			return
		}
		if callee := c.Call.StaticCallee(); callee != nil && fnPkgPath(callee) == "encoding/json" && callee.Name() == "Unmarshal" {
			unm = c
		}
		if c.Call.IsInvoke() && c.Call.Method.Name() == "ProcessCmd" {
			proc = c
		}
	})
	okDecode := false
	if unm != nil && proc != nil {
		for _, g := range Guards(proc.Block()) {
			if x, trueNil, ok := nilTest(g.Cond); ok && trueNil == g.Val && x == ssa.Value(unm) {
				okDecode = true
			}
		}
	}
	r.Check("R6", FnName(root)+"|decode-error-first", okDecode, p.Pos(root.Pos()), "ProcessCmd is reached only on the nil edge of the json.Unmarshal error")

	// R5
	var treeFns []*ssa.Function
	for _, f := range p.RepoFnsWithWrappers("spine", "model", "util", "api") {
		if w.reach[f] {
			treeFns = append(treeFns, f)
		}
	}
	lo := BuildLockOrder(p, treeFns)
	for _, l := range lo.Leaks {
		parts := strings.Split(l, "|")
		r.Fail("R5", "leak:fn:"+parts[0]+"|lock:"+parts[1], parts[2], "a lock acquired while handling an inbound message may still be held when the handler returns: the next message wedges")
	}
	// a cycle wedges the reader goroutine as soon as one of its locks is taken while handling a message,
	// even if the opposite order is taken by an application call (AddEntity against the removal cascade):
	// the order graph is built over all functions and filtered on the locks of the inbound tree
	loAll := BuildLockOrder(p, p.RepoFnsWithWrappers("spine", "model", "util", "api"))
	for _, cyc := range loAll.Cycles() {
		var names, wit []string
		inbound := false
		for _, e := range cyc {
			names = append(names, e.From)
			wit = append(wit, e.Witness)
			if lo.Nodes[e.From] {
				inbound = true
			}
		}
		if !inbound {
			continue
		}
		sort.Strings(names)
		r.Fail("R5", "cycle:"+strings.Join(names, ","), "", "lock order cycle involving a lock taken in the inbound call tree: "+strings.Join(wit, " ; "))
	}
	for _, s := range lo.Selfs {
		r.Fail("R5", "self:"+s.From, "", s.Witness)
	}
	nBlock := 0
	for _, f := range treeFns {
		for _, b := range f.Blocks {
			for _, ins := range b.Instrs {
				switch x := ins.(type) {
				case *ssa.UnOp:
					if x.Op == token.ARROW {
						nBlock++
						r.Fail("R5", "blocking:fn:"+FnName(f)+"|receive", p.InstrPos(x), "channel receive in the synchronous inbound call tree")
					}
				case *ssa.Select:
					if x.Blocking {
						nBlock++
						r.Fail("R5", "blocking:fn:"+FnName(f)+"|select", p.InstrPos(x), "blocking select in the synchronous inbound call tree")
					}
				case *ssa.Send:
					nBlock++
					r.Fail("R5", "blocking:fn:"+FnName(f)+"|send", p.InstrPos(x), "channel send in the synchronous inbound call tree")
				case *ssa.Call:
					if callee := x.Call.StaticCallee(); callee != nil && fnPkgPath(callee) == "sync" && callee.Name() == "Wait" {
						nBlock++
						r.Fail("R5", "blocking:fn:"+FnName(f)+"|wait", p.InstrPos(x), "sync wait in the synchronous inbound call tree")
					}
				}
			}
		}
	}
	if len(lo.Leaks) == 0 && len(loAll.Cycles()) == 0 && len(lo.Selfs) == 0 && nBlock == 0 {
		r.Pass("R5", "inbound-tree", "", fmt.Sprintf("%d functions: locks paired, %d order edges acyclic, no blocking primitive", len(treeFns), len(lo.Edges)))
	}
	r.Assumes("taint is context-insensitive except that callee entry facts are intersected over wire-carrying call sites only",
		"the SHIP writer and application callbacks do not block or panic", "state-derived nil (e.g. an address not yet announced) is outside the wire-taint and not decided here")
}

// c05KeepNodeManagement: every message of a peer is resolved through the remote
// NodeManagement feature (device information entity, feature 0). Inbound
// discovery data must not be able to remove it, or the peer's next valid
// discovery read is rejected ("the stack still answers a valid detailed-discovery
// read from that peer").
func c05KeepNodeManagement(p *Prog, w *WireNil, r *Report) {
	r.Rule("R7", "inbound discovery data cannot remove the remote NodeManagement feature: in the inbound call tree every removal of a remote entity is guarded by a test that the address is not the device-information entity, and every function that wipes the features of a remote entity re-creates the NodeManagement feature afterwards")
	eri := p.LookupIface("api", "EntityRemoteInterface")
	dri := p.LookupIface("api", "DeviceRemoteInterface")
	if eri == nil || dri == nil {
		r.Undecided("R7", "anchor:api interfaces", "", "interface not found")
		return
	}
	isDevInfo := func(v ssa.Value) bool {
		pth := Path(v)
		return strings.Contains(pth, "DeviceInformationAddressEntity") || strings.Contains(pth, "DeviceInformationEntityId")
	}
	nRem, nWipe := 0, 0
	var fns []*ssa.Function
	for f := range w.reach {
		fns = append(fns, f)
	}
	sort.Slice(fns, func(i, j int) bool { return fns[i].String() < fns[j].String() })
	seen := map[string]bool{}
	for _, fn := range fns {
		forEachCall(fn, func(site ssa.CallInstruction) {
			c, ok := site.(*ssa.Call)
			if !ok {
				return
			}
			switch {
			case calleeIsIfaceMethod(&c.Call, dri, "RemoveEntityByAddress"):
				key := FnName(originOf(fn)) + "|removal"
				if seen[key] {
					return
				}
				seen[key] = true
				nRem++
				addr := Path(callArgs(&c.Call)[0])
				guarded := false
				for _, g := range Guards(c.Block()) {
					gc, ok := g.Cond.(*ssa.Call)
					if !ok || g.Val {
						continue
					}
					callee := gc.Call.StaticCallee()
					if callee == nil || !((fnPkgPath(callee) == "reflect" && callee.Name() == "DeepEqual") || (fnPkgPath(callee) == "slices" && originName(callee) == "Equal")) {
						continue
					}
					a0, a1 := gc.Call.Args[0], gc.Call.Args[1]
					if (Path(a0) == addr && isDevInfo(a1)) || (Path(a1) == addr && isDevInfo(a0)) {
						guarded = true
					}
				}
				r.Check("R7", key, guarded, p.InstrPos(c), "removal of the entity at "+addr+" is reached only if that address is not the device-information entity: "+fmt.Sprint(guarded))
			case calleeIsIfaceMethod(&c.Call, eri, "RemoveAllFeatures"):
				key := FnName(originOf(fn)) + "|feature-wipe"
				if seen[key] {
					return
				}
				seen[key] = true
				nWipe++
				recv := callRecv(&c.Call)
				restored := false
				wipeDetail := ""
				forEachCall(fn, func(s2 ssa.CallInstruction) {
					a, ok := s2.(*ssa.Call)
					if !ok || !calleeIsIfaceMethod(&a.Call, eri, "AddFeature") || callRecv(&a.Call) != recv {
						return
					}
					if !(blockReaches(c.Block(), a.Block()) || c.Block() == a.Block()) {
						return
					}
					// the added feature is built with the constant type NodeManagement
					isNM := false
					for _, src := range p.Sources(callArgs(&a.Call)[0], false) {
						if nc, ok := src.Val.(*ssa.Call); ok {
							for _, arg := range nc.Call.Args {
								if s, isS := constString(arg); isS && s == "NodeManagement" {
									isNM = true
								}
							}
						}
					}
					if !isNM {
						return
					}
					// ... and whether it is added is decided by the address every message of the peer is resolved with:
					// a "missing" test by another key (type and role) is satisfied by a NodeManagement feature announced
					// under another feature number, and the address [0]:0 stays unresolvable
					for _, g := range Guards(a.Block()) {
						x, _, isNil := nilTest(g.Cond)
						if !isNil {
							continue
						}
						if lc, isCall := unwrapIface(x).(*ssa.Call); isCall && lc.Call.IsInvoke() && lc.Call.Method.Name() != "FeatureOfAddress" && implementsIface(lc.Call.Value.Type(), eri) {
							wipeDetail = "the restoration is decided by " + lc.Call.Method.Name() + ", not by a look-up of the feature address"
							return
						}
					}
					restored = true
				})
				r.Check("R7", key, restored, p.InstrPos(c), "after the wipe a feature of the constant type NodeManagement is added to the same entity again (for the device-information entity, when the announcement omits it): "+fmt.Sprint(restored)+" "+wipeDetail)
			}
		})
	}
	r.Floor("R7", "removals of remote entities in the inbound tree", nRem, 1)
	r.Floor("R7", "feature wipes in the inbound tree", nWipe, 1)
}

// boolImpliesTagFound: the boolean is true only if a comma-ok look-up in a tag map
// found its key — the ok result itself, or the matching result of a repository
// helper all of whose returns yield false, such an ok, or true under such an ok.
func boolImpliesTagFound(v ssa.Value, depth int) bool {
	if depth > 3 {
		return false
	}
	switch x := v.(type) {
	case *ssa.Extract:
		if lk, isLk := x.Tuple.(*ssa.Lookup); isLk && lk.CommaOk && x.Index == 1 {
			return true
		}
		c, isCall := x.Tuple.(*ssa.Call)
		if !isCall {
			return false
		}
		h := c.Call.StaticCallee()
		if h == nil || h.Blocks == nil || !strings.HasPrefix(fnPkgPath(h), repoMod) {
			return false
		}
		n := 0
		for _, b := range h.Blocks {
			ret, isRet := b.Instrs[len(b.Instrs)-1].(*ssa.Return)
			if !isRet {
				continue
			}
			if x.Index >= len(ret.Results) {
				return false
			}
			rv := ret.Results[x.Index]
			if k, isK := constBool(rv); isK {
				if !k {
					continue
				}
				under := false
				for _, g := range Guards(b) {
					if g.Val && boolImpliesTagFound(g.Cond, depth+1) {
						under = true
					}
				}
				if !under {
					return false
				}
				n++
				continue
			}
			if !boolImpliesTagFound(rv, depth+1) {
				return false
			}
			n++
		}
		return n > 0
	case *ssa.Phi:
		n := 0
		for _, e := range x.Edges {
			if k, isK := constBool(e); isK && !k {
				continue
			}
			if !boolImpliesTagFound(e, depth+1) {
				return false
			}
			n++
		}
		return n > 0
	}
	return false
}
