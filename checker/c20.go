package main

import (
	"fmt"
	"go/token"
	"go/types"
	"strings"

	"golang.org/x/tools/go/ssa"
)

func init() {
	register("C20", true,
		"Lockset rule that in each of the four use-case mutators of a local entity the copy of the use-case data and the SetData that stores the modified copy share one critical section of one common lock (read-modify-write atomicity); ownership rule that no use-case helper writes elements of the lists it got from the copy in place; sibling rule that all five use-case methods key the data by the entity's own device and entity address and delegate to the matching data-model helper; structural rules that RemoveEntity clears the entity's use cases and that the use-case read is answered from the stored function data. Decided: the mechanisms against lost updates and cross-entity interference. Not decided: registry contents over histories (values), scenario/version fidelity.",
		checkC20)
}

func checkC20(p *Prog, r *Report) {
	ls := BuildLockset(p, "spine", "model")
	eli := p.LookupIface("api", "EntityLocalInterface")
	fli := p.LookupIface("api", "FeatureLocalInterface")
	if eli == nil || fli == nil {
		r.Undecided("R0", "anchor:api.EntityLocalInterface/FeatureLocalInterface", "", "interface not found")
		return
	}
	useCaseCycleRule(p, r, ls, eli, fli, "R1", "R5")

	r.Rule("R2", "no use-case helper writes elements of the lists of the copied data in place (the copy shares them with the store and with snapshots)")
	o := BuildOwnership(p, "model", "spine", "util")
	nUC := 0
	for k, w := range ownedWriteKeys(p, o.StoreOwnedWrites("")) {
		if strings.Contains(k, "UseCase") {
			nUC++
			r.Fail("R2", k, p.InstrPos(w.Ins), fmt.Sprintf("elements of a shared use-case list (%s) are written in place via %s", w.Root, w.How))
		}
	}
	if nUC == 0 {
		r.Pass("R2", "use-case helpers", "", "no in-place write to shared use-case lists")
	}
	// positive control: the element overwrite in UseCaseInformationDataType.Add is summarised
	found := false
	for f, s := range o.sum {
		if originName(f) == "Add" && f.Signature.Recv() != nil && isNamed(f.Signature.Recv().Type(), "model", "UseCaseInformationDataType") && s.FieldElems[0]["UseCaseSupport"] {
			found = true
		}
	}
	r.Check("R2", "summary:model.UseCaseInformationDataType.Add", found, "", "recognised as writing elements of its receiver's UseCaseSupport list (callers must hand it a private list)")

	sliceEqualityLint(p, r, "R6")
	// the registry a peer reads is the stored function data: copies of it are taken under the store lock (mechanism: function-data store)
	r.ImportRules(p, "C11", checkC11, map[string]string{"O2": "R10"})
	sharedGlobalCells(p, r, "R9")
	writeBackIndexRule(p, r, "R7")
	r.Rule("R8", "remove-all rebuilds the use-case information list keeping exactly the entries whose address differs from the entity's (retain truth table): every actor's entry of the entity goes, not just the first")
	applyRetain(p, r, "R8", "model", "NodeManagementUseCaseDataType", "RemoveUseCaseDataForAddress", retainSpec{Field: "NodeManagementUseCaseDataType.UseCaseInformation", Required: map[string]string{"address": "=Address"}})
	r.Rule("R3", "RemoveEntity removes all use cases of the removed entity, unconditionally")
	dli := p.LookupIface("api", "DeviceLocalInterface")
	for _, fn := range p.ImplsOf(dli, "RemoveEntity") {
		var call *ssa.Call
		ok := false
		p.InScope(fn, func() { // the call may sit in an extracted helper of RemoveEntity
			forEachCall(fn, func(site ssa.CallInstruction) {
				if c, isCall := site.(*ssa.Call); isCall && calleeIsIfaceMethod(&c.Call, eli, "RemoveAllUseCaseSupports") {
					call = c
				}
			})
			ok = call != nil && strings.HasPrefix(Path(call.Call.Value), "param:") && len(Guards(call.Block())) == 0
		})
		pos := p.Pos(fn.Pos())
		if call != nil {
			pos = p.InstrPos(call)
		}
		r.Check("R3", FnName(fn), ok, pos, "RemoveAllUseCaseSupports is called on the entity being removed, unconditionally")
	}

	r.Rule("R4", "the use-case read is answered with ReplyCmdType of the stored node-management use-case function data")
	ib := newInbound(p)
	cmdI := p.LookupIface("api", "FunctionDataCmdInterface")
	n4 := 0
	for _, fn := range p.RepoFns("spine") {
		if fn.Signature.Recv() == nil || !isNamed(fn.Signature.Recv().Type(), "spine", "NodeManagement") {
			continue
		}
		forEachCall(fn, func(site ssa.CallInstruction) {
			c, ok := site.(*ssa.Call)
			if !ok || ib.effect(site, nil) != "reply" {
				return
			}
			args := callArgs(&c.Call)
			rc, ok := args[2].(*ssa.Call)
			if !ok {
				// the command may be prepared by an extracted helper returning (cmd, error)
				if ex, isEx := args[2].(*ssa.Extract); isEx {
					if hc, isCall := ex.Tuple.(*ssa.Call); isCall {
						if h := hc.Call.StaticCallee(); h != nil && h.Blocks != nil && p.helperCandidate(h) {
							for _, hb := range h.Blocks {
								if ret, isRet := hb.Instrs[len(hb.Instrs)-1].(*ssa.Return); isRet && ex.Index < len(ret.Results) {
									if c2, isC2 := ret.Results[ex.Index].(*ssa.Call); isC2 && calleeIsIfaceMethod(&c2.Call, cmdI, "ReplyCmdType") {
										rc, ok = c2, true
									}
								}
							}
						}
					}
				}
			}
			if !ok || !calleeIsIfaceMethod(&rc.Call, cmdI, "ReplyCmdType") {
				return
			}
			n4++
			okFct := false
			if lk, ok := unwrapIface(rc.Call.Value).(*ssa.Call); ok {
				for _, a := range lk.Call.Args {
					if s, isS := constString(a); isS && s == "nodeManagementUseCaseData" {
						okFct = true
					}
				}
			}
			r.Check("R4", FnName(fn), okFct, p.InstrPos(site.(ssa.Instruction)), "reply built from the function data looked up with the constant nodeManagementUseCaseData")
		})
	}
	r.Floor("R4", "use-case read handlers", n4, 1)
	r.Assumes("FeatureLocal.SetData stores the value it is given (C11) and notifies (C08)")
}

func reachesIfaceCall(p *Prog, fn *ssa.Function, iface interface{}, name string, depth int, seen map[*ssa.Function]bool) bool {
	if fn == nil || fn.Blocks == nil || seen[fn] || depth > 3 {
		return false
	}
	seen[fn] = true
	res := false
	forEachCall(fn, func(site ssa.CallInstruction) {
		c := site.Common()
		if c.IsInvoke() && c.Method.Name() == name {
			res = true
			return
		}
		if callee := c.StaticCallee(); callee != nil && p.IsRepoFn(callee) && reachesIfaceCall(p, callee, iface, name, depth+1, seen) {
			res = true
		}
	})
	return res
}

// valueDerivesFrom: v is data-dependent on src inside one function.
func valueDerivesFrom(v ssa.Value, src ssa.Value) bool {
	t := forwardTaint(src)
	return t[v]
}

// addressKeyOK: the key is a FeatureAddressType whose Device and Entity come
// from the receiver's own address.
func addressKeyOK(v ssa.Value) (bool, string) {
	v = substParam(v)
	// built by an extracted helper of the entity (r.useCaseAddress()): what the helper returns, on the same receiver
	if c, isCall := v.(*ssa.Call); isCall {
		if h := c.Call.StaticCallee(); h != nil && curProg != nil && curProg.helperCandidate(h) && h.Signature.Recv() != nil && len(c.Call.Args) == 1 && Path(c.Call.Args[0]) == "recv" {
			for _, b := range h.Blocks {
				if ret, isRet := b.Instrs[len(b.Instrs)-1].(*ssa.Return); isRet && len(ret.Results) == 1 {
					return addressKeyOK(ret.Results[0])
				}
			}
		}
		return false, Path(v)
	}
	u, ok := v.(*ssa.UnOp)
	if !ok {
		return false, Path(v)
	}
	al, ok := u.X.(*ssa.Alloc)
	if !ok || al.Referrers() == nil {
		return false, Path(v)
	}
	got := map[string]string{}
	for _, ref := range *al.Referrers() {
		if fa, ok := ref.(*ssa.FieldAddr); ok {
			for _, r2 := range *fa.Referrers() {
				if st, ok := r2.(*ssa.Store); ok && st.Addr == ssa.Value(fa) {
					got[fieldOfAddr(fa).Name()] = Path(st.Val)
				}
			}
		}
	}
	// the entity's own address, read from the field or through its getter
	own := func(pth, part string) bool {
		return strings.HasPrefix(pth, "recv.") && (strings.HasSuffix(pth, ".address."+part) || strings.HasSuffix(pth, ".Address()."+part))
	}
	ok = own(got["Device"], "Device") && own(got["Entity"], "Entity") && got["Feature"] == ""
	return ok, fmt.Sprintf("{Device: %s, Entity: %s, Feature: %s}", got["Device"], got["Entity"], got["Feature"])
}

// sliceEqualityLint: a hand-written element-wise comparison of two slices of the
// same type (a function returning bool that indexes both) decides equality only
// if it compares the two lengths for equality; a one-sided length test makes it
// a prefix match.
// sliceEqualityHelpers: the generic part of the lint (shared by every property
// whose registries are keyed by entity addresses).
func sliceEqualityHelpers(p *Prog, r *Report, rule string) int {
	n := 0
	for _, fn := range p.RepoFns("model", "spine", "util") {
		if fn.Signature.Results().Len() != 1 || !isBoolType(fn.Signature.Results().At(0).Type()) {
			continue
		}
		var sl []*ssa.Parameter
		for _, par := range fn.Params {
			if _, ok := par.Type().Underlying().(*types.Slice); ok {
				sl = append(sl, par)
			}
		}
		for i := 0; i < len(sl); i++ {
			for j := i + 1; j < len(sl); j++ {
				a, b := sl[i], sl[j]
				if !types.Identical(a.Type(), b.Type()) {
					continue
				}
				ta, tb := forwardTaint(a), forwardTaint(b)
				elemCmp, lenEq, lenOther := false, false, false
				for _, blk := range fn.Blocks {
					for _, ins := range blk.Instrs {
						bo, ok := ins.(*ssa.BinOp)
						if !ok {
							continue
						}
						isLen := func(v ssa.Value, par *ssa.Parameter) bool {
							c, ok := v.(*ssa.Call)
							return ok && builtinName(&c.Call) == "len" && c.Call.Args[0] == ssa.Value(par)
						}
						switch {
						case (isLen(bo.X, a) && isLen(bo.Y, b)) || (isLen(bo.X, b) && isLen(bo.Y, a)):
							if bo.Op == token.EQL || bo.Op == token.NEQ {
								lenEq = true
							} else {
								lenOther = true
							}
						case (bo.Op == token.EQL || bo.Op == token.NEQ) && ((ta[bo.X] && tb[bo.Y] && !isLen(bo.X, a)) || (tb[bo.X] && ta[bo.Y] && !isLen(bo.X, b))):
							elemCmp = true
						}
					}
				}
				if !elemCmp {
					continue
				}
				n++
				r.Check(rule, fmt.Sprintf("%s|%s~%s", FnName(fn), a.Name(), b.Name()), lenEq, p.Pos(fn.Pos()), fmt.Sprintf("element-wise comparison of %s and %s; lengths compared for equality: %v (one-sided length test: %v)", a.Name(), b.Name(), lenEq, lenOther))
			}
		}
	}
	n += ambiguousKeyRenderers(p, r, rule)
	if n == 0 {
		r.Pass(rule, "hand-written slice comparisons", "", "none in the repository: addresses are compared with reflect.DeepEqual / slices.Equal")
	}
	r.Stat(rule+".hand-written slice comparisons", n)
	return n
}

func sliceEqualityLint(p *Prog, r *Report, rule string) {
	r.Rule(rule, "every hand-written element-wise comparison of two slices of one type compares their lengths for equality (no prefix matching of entity addresses); the use-case look-up compares addresses with such a helper or with reflect.DeepEqual/slices.Equal")
	sliceEqualityHelpers(p, r, rule)
	// the look-up itself: every condition on the entry's entity address is one of the accepted primitives
	idx := p.Method("model", "NodeManagementUseCaseDataType", "useCaseInformationIndex")
	if idx == nil {
		// an unexported helper may be renamed: find the method of the type that ranges UseCaseInformation and returns (int, bool)
		for _, fn := range p.RepoFns("model") {
			if fn.Signature.Recv() != nil && isNamed(derefType(fn.Signature.Recv().Type()), "model", "NodeManagementUseCaseDataType") && fn.Signature.Results().Len() == 2 && isBoolType(fn.Signature.Results().At(1).Type()) {
				idx = fn
			}
		}
	}
	if idx == nil {
		r.Undecided(rule, "anchor:use-case look-up", "", "look-up helper of NodeManagementUseCaseDataType not found")
		return
	}
	nCmp := 0
	// the comparisons may sit in a predicate the look-up applies to each item ("filter.matches(&item)")
	var sites []ssa.CallInstruction
	forEachCall(idx, func(site ssa.CallInstruction) {
		sites = append(sites, site)
		if h := site.Common().StaticCallee(); h != nil && h.Blocks != nil && strings.HasPrefix(fnPkgPath(h), repoMod) && !isExportedFn(originOf(h)) && h != idx {
			forEachCallOwn(h, func(s2 ssa.CallInstruction) { sites = append(sites, s2) })
		}
	})
	for _, site := range sites {
		c, ok := site.(*ssa.Call)
		if !ok || len(c.Call.Args) < 2 {
			continue
		}
		mentions := false
		for _, a := range c.Call.Args {
			if strings.HasSuffix(Path(a), ".Address.Entity") || strings.HasSuffix(Path(a), ".Address.Device") {
				mentions = true
			}
		}
		if !mentions {
			continue
		}
		nCmp++
		callee := c.Call.StaticCallee()
		okPrim := false
		name := "?"
		if callee != nil {
			name = FnName(callee)
			switch {
			case fnPkgPath(callee) == "reflect" && callee.Name() == "DeepEqual":
				okPrim = true
			case fnPkgPath(callee) == "slices" && originName(callee) == "Equal":
				okPrim = true
			case p.IsRepoFn(callee):
				okPrim = true // a repository helper: judged by the lint above
			}
		}
		r.Check(rule, fmt.Sprintf("%s|address-comparison#%d", p.StableName(idx), nCmp), okPrim, p.InstrPos(c), "addresses compared by "+name)
	}
	r.Floor(rule, "address comparisons in the use-case look-up", nCmp, 1)
}

// writeBackIndexRule: copy-modify-write-back of one list element. When an
// element is copied out of a list at index i, modified, and stored into the
// list (or a shallow clone of it) again, the store uses the same index value.
func writeBackIndexRule(p *Prog, r *Report, rule string) {
	r.Rule(rule, "an element copied out of a list at index i and stored back into that list or a shallow clone of it after modification is stored at the same index i (another index overwrites a different entry — e.g. another entity's use cases — and leaves the intended one unchanged)")
	n := 0
	for _, fn := range p.RepoFns("model", "spine") {
		idx := 0
		for _, b := range fn.Blocks {
			for _, ins := range b.Instrs {
				st, ok := ins.(*ssa.Store)
				if !ok {
					continue
				}
				ia2, ok := st.Addr.(*ssa.IndexAddr)
				if !ok {
					continue
				}
				// the stored value: load of a local copy whose only whole store is an element load
				ld, ok := st.Val.(*ssa.UnOp)
				if !ok {
					continue
				}
				al, ok := ld.X.(*ssa.Alloc)
				if !ok {
					continue
				}
				sv := singleStore(al)
				eld, ok := sv.(*ssa.UnOp)
				if !ok {
					continue
				}
				ia1, ok := eld.X.(*ssa.IndexAddr)
				if !ok {
					continue
				}
				// same list: the destination is the source itself or a shallow clone of (a load of) the same place
				same := ia1.X == ia2.X
				if !same {
					for _, src := range shallowCloneSources(ia2.X, 0) {
						if src == ia1.X || (Path(src) == Path(ia1.X) && !strings.HasPrefix(Path(src), "v:")) {
							same = true
						}
					}
				}
				if !same {
					continue
				}
				idx++
				n++
				r.Check(rule, fmt.Sprintf("%s|write-back#%d", FnName(originOf(fn)), idx), ia1.Index == ia2.Index, p.InstrPos(st), fmt.Sprintf("element read at index %s is stored back at index %s", Path(ia1.Index), Path(ia2.Index)))
			}
		}
	}
	// the write-back may be delegated to a helper that receives the index and the modified copy
	for _, fn := range p.RepoFns("model", "spine") {
		idx := 0
		forEachCallOwn(fn, func(site ssa.CallInstruction) {
			c, ok := site.(*ssa.Call)
			if !ok {
				return
			}
			h := c.Call.StaticCallee()
			if h == nil || h.Blocks == nil || !strings.HasPrefix(fnPkgPath(h), repoMod) || isExportedFn(originOf(h)) {
				return
			}
			args := argsWithRecv(&c.Call)
			for k, a := range args {
				ld, ok := a.(*ssa.UnOp)
				if !ok {
					continue
				}
				al, ok := ld.X.(*ssa.Alloc)
				if !ok {
					continue
				}
				eld, ok := singleStore(al).(*ssa.UnOp)
				if !ok {
					continue
				}
				ia1, ok := eld.X.(*ssa.IndexAddr)
				if !ok || k >= len(h.Params) {
					continue
				}
				// in the helper: parameter k stored at list[index parameter j] of a clone of the same list
				for _, hb := range h.Blocks {
					for _, hi := range hb.Instrs {
						st, ok := hi.(*ssa.Store)
						if !ok {
							continue
						}
						ia2, ok := st.Addr.(*ssa.IndexAddr)
						if !ok {
							continue
						}
						val := st.Val
						if u, isU := val.(*ssa.UnOp); isU {
							if pa, isA := u.X.(*ssa.Alloc); isA {
								if sp := spillParam(pa); sp != nil {
									val = sp
								}
							}
						}
						if val != ssa.Value(h.Params[k]) {
							continue
						}
						same := false
						last := func(s string) string {
							if i := strings.LastIndex(s, "."); i >= 0 {
								return s[i+1:]
							}
							return s
						}
						for _, src := range shallowCloneSources(ia2.X, 0) {
							if last(Path(src)) == last(Path(ia1.X)) && !strings.HasPrefix(Path(src), "v:") {
								same = true
							}
						}
						if !same {
							continue
						}
						okIdx := false
						for j, q := range h.Params {
							if ssa.Value(q) == ia2.Index && j < len(args) && args[j] == ia1.Index {
								okIdx = true
							}
						}
						idx++
						n++
						r.Check(rule, fmt.Sprintf("%s|write-back-via-helper#%d", FnName(originOf(fn)), idx), okIdx, p.InstrPos(c), fmt.Sprintf("element read at index %s is handed to %s, which stores it at index %s", Path(ia1.Index), FnName(originOf(h)), Path(ia2.Index)))
					}
				}
			}
		})
	}
	r.Floor(rule, "copy-modify-write-back sites", n, 1)
}

// ambiguousKeyRenderers (part of the shared slice-comparison lint): a function that renders a slice of numbers to
// a string by writing the formatted elements one after the other, with no separator written in the same loop,
// maps different slices to one string ([1,1] and [11]); two addresses compared through such a key match although
// they differ. Returns the number of renderers examined.
func ambiguousKeyRenderers(p *Prog, r *Report, rule string) int {
	n := 0
	for _, fn := range p.RepoFns("model", "spine", "util") {
		if fn.Blocks == nil || fn.Signature.Results().Len() != 1 {
			continue
		}
		if b, ok := fn.Signature.Results().At(0).Type().Underlying().(*types.Basic); !ok || b.Kind() != types.String {
			continue
		}
		var sl []*ssa.Parameter
		for _, par := range fn.Params {
			if st, ok := par.Type().Underlying().(*types.Slice); ok {
				if eb, isB := st.Elem().Underlying().(*types.Basic); isB && eb.Info()&types.IsInteger != 0 {
					sl = append(sl, par)
				}
			}
		}
		for _, par := range sl {
			t := forwardTaint(par)
			// string-building operations inside a loop: formatted element written, separator written
			formatted, separator := false, false
			var at ssa.Instruction
			for _, blk := range fn.Blocks {
				if loopHeaderOf(blk) == nil {
					continue
				}
				for _, ins := range blk.Instrs {
					var written []ssa.Value
					switch x := ins.(type) {
					case *ssa.Call:
						callee := x.Call.StaticCallee()
						if callee == nil {
							continue
						}
						switch {
						case fnPkgPath(callee) == "strings" && strings.HasPrefix(callee.Name(), "Write"):
							written = x.Call.Args[1:]
						case fnPkgPath(callee) == "bytes" && strings.HasPrefix(callee.Name(), "Write"):
							written = x.Call.Args[1:]
						case fnPkgPath(callee) == "fmt" && strings.HasPrefix(callee.Name(), "Fprint"):
							written = x.Call.Args[1:]
						}
					case *ssa.BinOp:
						if bt, ok := x.Type().Underlying().(*types.Basic); ok && bt.Kind() == types.String && x.Op == token.ADD {
							written = []ssa.Value{x.X, x.Y}
						}
					}
					for _, w := range written {
						if s, isS := constString(w); isS {
							if s != "" {
								separator = true
							}
							continue
						}
						if k, isK := w.(*ssa.Const); isK && k.Value != nil {
							separator = true // a constant byte or rune
							continue
						}
						if t[w] {
							// derived from the slice: through a formatting call?
							if c, isC := w.(*ssa.Call); isC {
								if cal := c.Call.StaticCallee(); cal != nil && (fnPkgPath(cal) == "strconv" || fnPkgPath(cal) == "fmt") {
									if fnPkgPath(cal) == "fmt" {
										// a format string with a literal part separates
										if len(c.Call.Args) > 0 {
											if f, isF := constString(c.Call.Args[0]); isF && strings.Trim(f, "%dvsxXq") != "" {
												separator = true
											}
										}
									}
									formatted = true
									at = ins
								}
							}
						}
					}
				}
			}
			if !formatted {
				continue
			}
			n++
			r.Check(rule, fmt.Sprintf("%s|key-of-%s", FnName(fn), par.Name()), separator, p.InstrPos(at), fmt.Sprintf("the elements of %s are rendered one after the other into a string; a separator is written between them: %v (without one, [1,1] and [11] give the same text)", par.Name(), separator))
		}
	}
	return n
}

// useCaseCycleRule decides the read-modify-write atomicity of the use-case mutators (r1) and, when r5 is given,
// their key / delegation shape. Shared: C20-R1/R5, C11-O9 (an unlocked cycle lets two appends write the same
// spare slot of a backing array a snapshot already shares).
func useCaseCycleRule(p *Prog, r *Report, ls *Lockset, eli, fli *types.Interface, r1, r5 string) {
	r.Rule(r1, "in every use-case mutator the copy of the use-case data (DataCopy) and the SetData storing the modified copy share one critical section; all mutators use the same lock, and that lock is as wide as the data (package level or owned by the device's node management, never per entity)")
	if r5 != "" {
		r.Rule(r5, "every use-case method keys the data by {Device: own address device, Entity: own address entity}, copies the node-management use-case function, and delegates to the data-model helper of the matching operation")
	}
	mutators := map[string]string{"AddUseCaseSupport": "AddUseCaseSupport", "RemoveUseCaseSupport": "RemoveUseCaseSupport", "SetUseCaseAvailability": "SetAvailability", "RemoveAllUseCaseSupports": "RemoveUseCaseDataForAddress", "HasUseCaseSupport": "HasUseCaseSupport"}
	commonLocks := map[string]int{}
	nMut := 0
	for _, m := range []string{"AddUseCaseSupport", "RemoveUseCaseSupport", "SetUseCaseAvailability", "RemoveAllUseCaseSupports", "HasUseCaseSupport"} {
		impls := p.ImplsOf(eli, m)
		if len(impls) == 0 {
			r.Undecided(r1, "anchor:"+m, "", "implementation not found")
			continue
		}
		for _, fn0 := range impls {
			fn := fn0
			m := m
			p.InScope(fn, func() {
				base := FnName(fn)
				var copyCall, setCall, helperCall *ssa.Call
				for _, an := range fn.AnonFuncs {
					forEachCallOwn(an, func(site ssa.CallInstruction) {
						if c, ok := site.(*ssa.Call); ok {
							if callee := c.Call.StaticCallee(); callee != nil && callee.Signature.Recv() != nil && isNamed(callee.Signature.Recv().Type(), "model", "NodeManagementUseCaseDataType") {
								helperCall = c
							}
						}
					})
				}
				forEachCall(fn, func(site ssa.CallInstruction) {
					c, ok := site.(*ssa.Call)
					if !ok {
						return
					}
					if calleeIsIfaceMethod(&c.Call, fli, "SetData") {
						setCall = c
					}
					if callee := c.Call.StaticCallee(); callee != nil {
						if reachesIfaceCall(p, callee, fli, "DataCopy", 0, map[*ssa.Function]bool{}) {
							copyCall = c
						}
						if callee.Signature.Recv() != nil && isNamed(callee.Signature.Recv().Type(), "model", "NodeManagementUseCaseDataType") {
							helperCall = c
						}
					}
					if calleeIsIfaceMethod(&c.Call, fli, "DataCopy") {
						copyCall = c
					}
				})
				if copyCall == nil || helperCall == nil {
					r.Fail(orStr(r5, r1), base+"|shape", p.Pos(fn.Pos()), fmt.Sprintf("copy call found=%v, data-model helper call found=%v", copyCall != nil, helperCall != nil))
					return
				}
				// R5: helper and key
				helper := originName(helperCall.Call.StaticCallee())
				okHelper := helper == mutators[m]
				// the helper works on the copy
				okOn := strings.Contains(Path(helperCall.Call.Args[0]), "DataCopy") || valueDerivesFrom(helperCall.Call.Args[0], copyCall) || valueDerivesFrom(substParam(helperCall.Call.Args[0]), copyCall)
				// key literal
				keyOK, keyDesc := false, ""
				if len(helperCall.Call.Args) > 1 {
					keyOK, keyDesc = addressKeyOK(helperCall.Call.Args[1])
				}
				// function constant of the copy and the store
				fct := ""
				for _, a := range copyCall.Call.Args {
					if s, ok := constString(a); ok {
						fct = s
					}
				}
				if r5 != "" {
					r.Check(r5, base+"|helper", okHelper && okOn, p.InstrPos(helperCall), fmt.Sprintf("delegates to %s on the copied data", helper))
				}
				if r5 != "" {
					r.Check(r5, base+"|key", keyOK, p.InstrPos(helperCall), "address key "+keyDesc)
				}
				if r5 != "" {
					r.Check(r5, base+"|function", fct == "nodeManagementUseCaseData", p.InstrPos(copyCall), "copies function "+fct)
				}
				if m == "HasUseCaseSupport" {
					r.Check(r1, base+"|read-only", setCall == nil, p.Pos(fn.Pos()), "the query does not store")
					return
				}
				nMut++
				if setCall == nil {
					r.Fail(r1, base+"|rmw", p.Pos(fn.Pos()), "no SetData call storing the modified copy")
					return
				}
				// the stored value is the copy, stored under the same function
				args := callArgs(&setCall.Call)
				sfct, _ := constString(args[0])
				okStore := sfct == "nodeManagementUseCaseData" && (valueDerivesFrom(args[1], copyCall) || strings.Contains(Path(args[1]), "DataCopy"))
				r.Check(r1, base+"|stores-copy", okStore, p.InstrPos(setCall), fmt.Sprintf("SetData(%s, %s)", sfct, Path(args[1])))
				secs := ls.CommonSections(copyCall, setCall)
				// a read lock does not exclude another read-modify-write cycle holding the same read lock
				var wsecs []string
				for _, sname := range secs {
					if h, ok := ls.At(copyCall)[sname]; ok && !h.Read {
						if h2, ok := ls.At(setCall)[sname]; ok && !h2.Read {
							wsecs = append(wsecs, sname)
						}
					}
				}
				if len(wsecs) < len(secs) {
					r.Fail(r1, base+"|write-mode", p.InstrPos(setCall), fmt.Sprintf("the cycle holds %v only in read mode: two cycles can overlap and one update is lost", secs))
				}
				secs = wsecs
				r.Check(r1, base+"|rmw", len(secs) > 0 && instrDominates(copyCall, setCall), p.InstrPos(setCall), fmt.Sprintf("copy at %s and store at %s share the critical sections %v", p.InstrPos(copyCall), p.InstrPos(setCall), secs))
				for _, s := range secs {
					commonLocks[s]++
				}
				// the lock must be as wide as the data: the use-case data belongs to the device's node management
				// (shared by all entities), so a lock that is a field of the entity does not exclude the other entities
				owner := Path(setCall.Call.Value)
				wide := false
				for _, s := range secs {
					if strings.HasPrefix(s, "global:") {
						wide = true
					}
					if i := strings.LastIndex(s, "."); i > 0 && strings.HasPrefix(owner, s[:i]) && s[:i] != "recv" {
						wide = true // a lock of the object that owns the data (or of an object it is reached through)
					}
				}
				r.Check(r1, base+"|lock-scope", wide, p.InstrPos(setCall), fmt.Sprintf("the cycle works on data of %s under the locks %v: the lock must be shared by every entity of the device (package level, or owned by the device / its node management), not per entity", owner, secs))
			})
		}
	}
	same := false
	for _, n := range commonLocks {
		if n == nMut && nMut >= 4 {
			same = true
		}
	}
	r.Check(r1, "common-lock", same, "", fmt.Sprintf("locks spanning the cycles: %v over %d mutators", commonLocks, nMut))

}
