package main

// E5 — wire-nil / panic analysis of the synchronous inbound call tree.
// Taint from the unmarshalled datagram; every pointer loaded from a field of a
// wire-derived model struct may be nil; dereferences, field addresses, constant
// indexes and unchecked type assertions must be guarded on the same access path.

import (
	"fmt"
	"go/constant"
	"go/token"
	"go/types"
	"os"
	"sort"
	"strings"

	"golang.org/x/tools/go/ssa"
)

type wfact = map[string]bool

type wnFinding struct {
	Fn   *ssa.Function
	Ins  ssa.Instruction
	Kind string // deref, field, index, panic, assert
	Path string
}

func (f wnFinding) Key() string {
	return fmt.Sprintf("fn:%s|%s|%s", FnName(originOf(f.Fn)), f.Kind, f.Path)
}

type WireNil struct {
	Decoders     int
	MsgRoots     int
	sn           *stateNil
	p            *Prog
	root         *ssa.Function
	reach        map[*ssa.Function]bool
	tainted      map[ssa.Value]bool
	taintedField map[string]bool
	taintedParam map[*ssa.Parameter]bool
	taintedRet   map[*ssa.Function]bool
	factsAt      map[ssa.Instruction]wfact
	blockFacts   map[*ssa.BasicBlock]wfact
	ensures      map[*ssa.Function]wfact
	ensuresBool  map[*ssa.Function][2]wfact // predicate helpers: facts holding when the result is false / true
	entryFacts   map[*ssa.Function]wfact
	nilableParam map[*ssa.Parameter]bool
	changed      bool
	lookupMiss   map[*ssa.Function]bool // look-ups that can miss: one pointer/interface result, constant nil on some path
	LookupFns    int
	LookupSites  int

	Findings []wnFinding
	Exempt   []string
	Total    int
	Guarded  int
	// invariants established by table rules (set by the caller)
	CmdFunctionNonNil bool
}

func isModelStruct(t types.Type) bool {
	n := namedOf(t)
	if n == nil || n.Obj().Pkg() == nil || n.Obj().Pkg().Path() != repoMod+"/model" {
		return false
	}
	_, ok := n.Underlying().(*types.Struct)
	return ok
}

func spillParam(a *ssa.Alloc) *ssa.Parameter {
	var p *ssa.Parameter
	n := 0
	if a.Referrers() == nil {
		return nil
	}
	for _, r := range *a.Referrers() {
		if st, ok := r.(*ssa.Store); ok && st.Addr == ssa.Value(a) {
			n++
			if pp, ok := st.Val.(*ssa.Parameter); ok {
				p = pp
			}
		}
	}
	if n == 1 {
		return p
	}
	return nil
}

// wpath: access path with constant indexes, parameters as p:name (also the receiver).
func wpath(v ssa.Value, d int) string {
	if d > 10 {
		return "?"
	}
	switch x := v.(type) {
	case *ssa.Parameter:
		return "p:" + x.Name()
	case *ssa.FreeVar:
		return "fv:" + x.Name()
	case *ssa.Global:
		return "g:" + x.Name()
	case *ssa.Alloc:
		if p := spillParam(x); p != nil {
			return "p:" + p.Name()
		}
		return fmt.Sprintf("a:%s@%p", x.Comment, x)
	case *ssa.FieldAddr:
		if f := fieldOfAddr(x); f != nil {
			return wpath(x.X, d+1) + "." + f.Name()
		}
	case *ssa.Field:
		if f := fieldOfVal(x); f != nil {
			return wpath(x.X, d+1) + "." + f.Name()
		}
	case *ssa.UnOp:
		if x.Op == token.MUL {
			return wpath(x.X, d+1)
		}
	case *ssa.IndexAddr:
		return wpath(x.X, d+1) + "[" + widx(x.Index) + "]"
	case *ssa.Index:
		return wpath(x.X, d+1) + "[" + widx(x.Index) + "]"
	case *ssa.Extract:
		return fmt.Sprintf("%s#%d", wpath(x.Tuple, d+1), x.Index)
	case *ssa.Call:
		// a getter that is nil by construction is a pure field read: its path is
		// the receiver's path, so a guard on one call covers the next call
		if curStateNil != nil {
			if _, nilable := curStateNil.Nilable(x); nilable {
				if rv := callRecv(x.Common()); rv != nil {
					name := ""
					if x.Call.IsInvoke() {
						name = x.Call.Method.Name()
					} else if f := x.Call.StaticCallee(); f != nil {
						name = f.Name()
					}
					return wpath(rv, d+1) + "." + name + "()"
				}
			}
		}
		// any pure pointer getter (one block returning a field of the receiver) reads the same field at the
		// next call as long as nobody assigns it in between — the same assumption the field paths make
		if curStateNil != nil && curStateNil.Pure(x) {
			if rv := callRecv(x.Common()); rv != nil {
				name := ""
				if x.Call.IsInvoke() {
					name = x.Call.Method.Name()
				} else if f := x.Call.StaticCallee(); f != nil {
					name = f.Name()
				}
				return wpath(rv, d+1) + "." + name + "()"
			}
		}
		return fmt.Sprintf("c:%p", x)
	case *ssa.MakeInterface:
		return wpath(x.X, d+1)
	case *ssa.ChangeType:
		return wpath(x.X, d+1)
	case *ssa.ChangeInterface:
		return wpath(x.X, d+1)
	case *ssa.TypeAssert:
		return wpath(x.X, d+1)
	case *ssa.Slice:
		return wpath(x.X, d+1)
	}
	return fmt.Sprintf("v:%s@%p", v.Name(), v)
}

func widx(v ssa.Value) string {
	if c, ok := v.(*ssa.Const); ok && c.Value != nil {
		return c.Value.ExactString()
	}
	return "i"
}

// displayPath strips pointer suffixes from allocation/call roots (stable keys).
func displayPath(s string) string {
	var b strings.Builder
	for i := 0; i < len(s); i++ {
		if s[i] == '@' {
			j := i + 1
			for j < len(s) && (s[j] == 'x' || (s[j] >= '0' && s[j] <= '9') || (s[j] >= 'a' && s[j] <= 'f')) {
				j++
			}
			i = j - 1
			continue
		}
		b.WriteByte(s[i])
	}
	out := b.String()
	// call roots: c:0x… -> call
	for {
		i := strings.Index(out, "c:0x")
		if i < 0 {
			break
		}
		j := i + 4
		for j < len(out) && ((out[j] >= '0' && out[j] <= '9') || (out[j] >= 'a' && out[j] <= 'f')) {
			j++
		}
		out = out[:i] + "call" + out[j:]
	}
	return out
}

func (w *WireNil) mark(v ssa.Value) {
	if v != nil && !w.tainted[v] {
		w.tainted[v] = true
		w.changed = true
	}
}

func wFieldKey(t types.Type, i int) string {
	n := namedOf(t)
	if n == nil {
		return "?"
	}
	st, ok := n.Underlying().(*types.Struct)
	if !ok {
		return "?"
	}
	return n.Obj().Name() + "." + st.Field(i).Name()
}

func (w *WireNil) callees(site ssa.CallInstruction) []*ssa.Function {
	var r []*ssa.Function
	for _, c := range w.p.Callees(site) {
		if w.reach[c] {
			r = append(r, c)
		}
	}
	return r
}

func isReflectAccessor(f *ssa.Function) bool {
	if f == nil || f.Signature.Recv() == nil || originName(f) != "Data" {
		return false
	}
	return isNamed(f.Signature.Recv().Type(), "model", "CmdType") || isNamed(f.Signature.Recv().Type(), "model", "FilterType")
}

func argsWithRecv(c *ssa.CallCommon) []ssa.Value {
	if c.IsInvoke() {
		return append([]ssa.Value{c.Value}, c.Args...)
	}
	return c.Args
}

func (w *WireNil) substToCaller(callee *ssa.Function, site ssa.CallInstruction, p string) (string, bool) {
	args := argsWithRecv(site.Common())
	for i, prm := range callee.Params {
		pre := "p:" + prm.Name()
		if p == pre || strings.HasPrefix(p, pre+".") || strings.HasPrefix(p, pre+"[") {
			if i >= len(args) {
				return "", false
			}
			return wpath(args[i], 0) + p[len(pre):], true
		}
	}
	return "", false
}

func (w *WireNil) substToCallee(callee *ssa.Function, site ssa.CallInstruction, p string) (string, bool) {
	args := argsWithRecv(site.Common())
	for i, prm := range callee.Params {
		if i >= len(args) {
			break
		}
		ap := wpath(args[i], 0)
		if p == ap || strings.HasPrefix(p, ap+".") || strings.HasPrefix(p, ap+"[") {
			return "p:" + prm.Name() + p[len(ap):], true
		}
	}
	return "", false
}

func (w *WireNil) condFacts(cond ssa.Value, takenTrue bool) []string {
	return w.condFactsDepth(cond, takenTrue, 0)
}

func (w *WireNil) condFactsDepth(cond ssa.Value, takenTrue bool, depth int) []string {
	if depth > 4 {
		return nil
	}
	var out []string
	c, pol := normCond(cond, takenTrue)
	if call, isCall := c.(*ssa.Call); isCall && isBoolType(call.Type()) {
		// predicate helper: import what its outcome establishes about the arguments
		idx := 0
		if pol {
			idx = 1
		}
		for _, callee := range w.callees(call) {
			for f := range w.ensuresBool[callee][idx] {
				if cp, ok := w.substToCaller(callee, call, f[3:]); ok {
					out = append(out, f[:3]+cp)
				}
			}
		}
		return out
	}
	if ph, isPhi := c.(*ssa.Phi); isPhi && isBoolType(ph.Type()) {
		// a condition computed into a named boolean (a && b, a || b): what holds on every edge that can
		// deliver the taken value — the facts of the edge's source block plus those of the edge's own condition
		var acc wfact
		for i, e := range ph.Edges {
			if i >= len(ph.Block().Preds) {
				break
			}
			if k, isK := constBool(e); isK && k != pol {
				continue
			}
			f := wfact{}
			for k := range w.blockFacts[ph.Block().Preds[i]] {
				f[k] = true
			}
			if _, isK := constBool(e); !isK {
				if _, nested := e.(*ssa.Phi); !nested || e != ssa.Value(ph) {
					for _, k := range w.condFactsDepth(e, pol, depth+1) {
						f[k] = true
					}
				}
			}
			if acc == nil {
				acc = f
			} else {
				for k := range acc {
					if !f[k] {
						delete(acc, k)
					}
				}
			}
		}
		for k := range acc {
			out = append(out, k)
		}
		return out
	}
	bo, ok := c.(*ssa.BinOp)
	if !ok {
		return nil
	}
	takenTrue = pol
	if x, trueMeansNil, isNil := nilTest(bo); isNil {
		if trueMeansNil != takenTrue {
			out = append(out, "nn:"+wpath(x, 0))
		} else {
			// x == nil holds: if x is the error result of a validator call, import what it ensures
			other := x
			if ex, ok := other.(*ssa.Extract); ok {
				other = ex.Tuple
			}
			if call, ok := other.(*ssa.Call); ok {
				for _, callee := range w.callees(call) {
					for f := range w.ensures[callee] {
						if cp, ok := w.substToCaller(callee, call, f[3:]); ok {
							out = append(out, f[:3]+cp)
						}
					}
				}
			}
		}
	}
	// len comparisons establishing at least one element
	if lc, ok := bo.X.(*ssa.Call); ok && builtinName(&lc.Call) == "len" {
		if k, ok := bo.Y.(*ssa.Const); ok && k.Value != nil && k.Value.Kind() == constant.Int {
			n, _ := constant.Int64Val(k.Value)
			pos := false
			switch bo.Op {
			case token.EQL:
				pos = n == 0 && !takenTrue
			case token.NEQ:
				pos = n == 0 && takenTrue
			case token.GTR:
				pos = n >= 0 && takenTrue
			case token.LSS:
				pos = n <= 1 && !takenTrue
			case token.GEQ:
				pos = n >= 1 && takenTrue
			case token.LEQ:
				pos = n <= 0 && !takenTrue
			}
			if pos {
				out = append(out, "ln:"+wpath(lc.Call.Args[0], 0))
			}
		}
	}
	return out
}

func (w *WireNil) computeFacts(fn *ssa.Function) {
	if fn.Blocks == nil {
		return
	}
	var dom func(b *ssa.BasicBlock, facts wfact)
	dom = func(b *ssa.BasicBlock, facts wfact) {
		w.blockFacts[b] = facts
		for _, ins := range b.Instrs {
			w.factsAt[ins] = facts
		}
		for _, c := range b.Dominees() {
			nf := wfact{}
			for k := range facts {
				nf[k] = true
			}
			if len(c.Preds) == 1 {
				p := c.Preds[0]
				if ifi, ok := p.Instrs[len(p.Instrs)-1].(*ssa.If); ok && p.Succs[0] != p.Succs[1] {
					for _, f := range w.condFacts(ifi.Cond, p.Succs[0] == c) {
						nf[f] = true
					}
				}
			}
			dom(c, nf)
		}
	}
	ef := wfact{}
	for k := range w.entryFacts[fn] {
		ef[k] = true
	}
	dom(fn.Blocks[0], ef)
}

func errLike(t types.Type) bool {
	s := t.String()
	return s == "error" || strings.HasSuffix(s, "model.ErrorType")
}

// computeEnsures: facts about parameter paths that hold whenever the last
// (error-like) result is nil.
func (w *WireNil) computeEnsures(fn *ssa.Function) bool {
	res := fn.Signature.Results()
	if res.Len() == 0 || !errLike(res.At(res.Len()-1).Type()) || fn.Blocks == nil {
		return false
	}
	var acc wfact
	for _, b := range fn.Blocks {
		ret, ok := b.Instrs[len(b.Instrs)-1].(*ssa.Return)
		if !ok {
			continue
		}
		last := ret.Results[len(ret.Results)-1]
		if !isNilConst(last) {
			if _, isLoad := last.(*ssa.UnOp); isLoad {
				return false // spilled results: give up on this function
			}
			if _, isPhi := last.(*ssa.Phi); isPhi {
				return false
			}
			continue
		}
		f := wfact{}
		for k := range w.blockFacts[b] {
			if strings.HasPrefix(k[3:], "p:") {
				f[k] = true
			}
		}
		if acc == nil {
			acc = f
		} else {
			for k := range acc {
				if !f[k] {
					delete(acc, k)
				}
			}
		}
	}
	if acc == nil {
		acc = wfact{}
	}
	old := w.ensures[fn]
	w.ensures[fn] = acc
	return len(old) != len(acc)
}

// computeEnsuresBool: for a function with a single boolean result, the facts about
// parameter paths that hold on every path returning true, and on every path
// returning false. The returned value is followed through phis (&& / || chains).
func (w *WireNil) computeEnsuresBool(fn *ssa.Function) bool {
	res := fn.Signature.Results()
	if res.Len() != 1 || !isBoolType(res.At(0).Type()) || fn.Blocks == nil {
		return false
	}
	var acc [2]wfact
	seen := [2]bool{}
	meet := func(idx int, f wfact) {
		pf := wfact{}
		for k := range f {
			if strings.HasPrefix(k[3:], "p:") {
				pf[k] = true
			}
		}
		if !seen[idx] {
			acc[idx], seen[idx] = pf, true
			return
		}
		for k := range acc[idx] {
			if !pf[k] {
				delete(acc[idx], k)
			}
		}
	}
	var outcome func(v ssa.Value, at wfact, depth int)
	outcome = func(v ssa.Value, at wfact, depth int) {
		if k, isK := v.(*ssa.Const); isK && k.Value != nil && k.Value.Kind() == constant.Bool {
			if constant.BoolVal(k.Value) {
				meet(1, at)
			} else {
				meet(0, at)
			}
			return
		}
		if phi, isPhi := v.(*ssa.Phi); isPhi && depth < 6 {
			for i, e := range phi.Edges {
				outcome(e, w.blockFacts[phi.Block().Preds[i]], depth+1)
			}
			return
		}
		for idx, val := range []bool{false, true} {
			f := wfact{}
			for k := range at {
				f[k] = true
			}
			for _, k := range w.condFacts(v, val) {
				f[k] = true
			}
			meet(idx, f)
		}
	}
	for _, b := range fn.Blocks {
		ret, ok := b.Instrs[len(b.Instrs)-1].(*ssa.Return)
		if !ok {
			continue
		}
		outcome(ret.Results[0], w.blockFacts[b], 0)
	}
	for i := range acc {
		if acc[i] == nil {
			acc[i] = wfact{}
		}
	}
	old := w.ensuresBool[fn]
	w.ensuresBool[fn] = acc
	return len(old[0]) != len(acc[0]) || len(old[1]) != len(acc[1])
}

func (w *WireNil) isWireNilableLoad(v ssa.Value) bool {
	switch x := v.(type) {
	case *ssa.UnOp:
		if x.Op != token.MUL {
			return false
		}
		if fa, ok := x.X.(*ssa.FieldAddr); ok && w.tainted[fa] && isModelStruct(fa.X.Type()) {
			return !w.fieldNonNilByInvariant(fa.X.Type(), fa.Field)
		}
	case *ssa.Field:
		if w.tainted[x] && isModelStruct(x.X.Type()) {
			return !w.fieldNonNilByInvariant(x.X.Type(), x.Field)
		}
	}
	return false
}

// fieldNonNilByInvariant: CmdData.Function / FilterData.Function are non-nil whenever the
// accessor returned no error, because every fct tag is non-empty (table rule C18-T2/T3).
func (w *WireNil) fieldNonNilByInvariant(t types.Type, field int) bool {
	if !w.CmdFunctionNonNil {
		return false
	}
	k := wFieldKey(t, field)
	return k == "CmdData.Function" || k == "FilterData.Function"
}

func (w *WireNil) maybeNil(v ssa.Value) bool {
	if w.isWireNilableLoad(v) {
		return true
	}
	if c, ok := v.(*ssa.Call); ok && w.sn != nil {
		if _, nilable := w.sn.Nilable(c); nilable {
			return true
		}
	}
	if w.sn != nil {
		if _, derived := w.sn.DerivedNil(v); derived {
			return true
		}
	}
	if p, ok := v.(*ssa.Parameter); ok {
		return w.nilableParam[p]
	}
	if a, ok := v.(*ssa.UnOp); ok && a.Op == token.MUL {
		if al, ok := a.X.(*ssa.Alloc); ok {
			if p := spillParam(al); p != nil {
				return w.nilableParam[p]
			}
		}
	}
	if w.lookupResult(v) != nil {
		return true
	}
	return false
}

// lookupResult: v is the result of a call to a look-up of the repository that can miss (it returns the constant
// nil on some path), possibly converted; the call is returned.
func (w *WireNil) lookupResult(v ssa.Value) *ssa.Call {
	for d := 0; d < 4; d++ {
		switch x := v.(type) {
		case *ssa.ChangeInterface:
			v = x.X
			continue
		case *ssa.ChangeType:
			v = x.X
			continue
		case *ssa.Call:
			if x.Call.Signature().Results().Len() != 1 {
				return nil
			}
			for _, c := range w.callees(x) {
				if w.lookupMiss[c] {
					return x
				}
			}
		}
		return nil
	}
	return nil
}

// computeLookupMiss finds the look-ups of the repository that can miss: functions with exactly one result of
// pointer or interface type (not an error) that return the constant nil on some path, or the result of such a
// function. Derived from the code on every run; nothing is named.
func (w *WireNil) computeLookupMiss() {
	w.lookupMiss = map[*ssa.Function]bool{}
	var cands []*ssa.Function
	for _, f := range w.p.RepoFns("model", "spine", "util") {
		if f.Blocks == nil || f.Signature.Results().Len() != 1 {
			continue
		}
		rt := f.Signature.Results().At(0).Type()
		if errLike(rt) {
			continue
		}
		switch rt.Underlying().(type) {
		case *types.Pointer, *types.Interface:
			cands = append(cands, f)
		}
	}
	var nilVal func(v ssa.Value, d int) bool
	nilVal = func(v ssa.Value, d int) bool {
		if d > 4 {
			return false
		}
		switch x := v.(type) {
		case *ssa.Const:
			return x.IsNil()
		case *ssa.Phi:
			for _, e := range x.Edges {
				if nilVal(e, d+1) {
					return true
				}
			}
		case *ssa.ChangeInterface:
			return nilVal(x.X, d+1)
		case *ssa.ChangeType:
			return nilVal(x.X, d+1)
		case *ssa.MakeInterface:
			// a typed nil pointer in an interface is not a nil interface
			return false
		case *ssa.UnOp:
			// a result cell spilled because of a defer: any value stored into it
			if al, ok := x.X.(*ssa.Alloc); ok && x.Op == token.MUL && al.Referrers() != nil {
				for _, ref := range *al.Referrers() {
					if st, ok := ref.(*ssa.Store); ok && st.Addr == ssa.Value(al) && nilVal(st.Val, d+1) {
						return true
					}
				}
			}
		case *ssa.Call:
			if x.Call.Signature().Results().Len() == 1 {
				for _, c := range w.callees(x) {
					if w.lookupMiss[c] {
						return true
					}
				}
			}
		}
		return false
	}
	for changed := true; changed; {
		changed = false
		for _, f := range cands {
			if w.lookupMiss[f] {
				continue
			}
			for _, b := range f.Blocks {
				if ret, ok := b.Instrs[len(b.Instrs)-1].(*ssa.Return); ok && len(ret.Results) == 1 && nilVal(ret.Results[0], 0) {
					w.lookupMiss[f] = true
					changed = true
				}
			}
		}
	}
	w.LookupFns = len(w.lookupMiss)
}

// curStateNil is the getter table of the running analysis (wpath is a free function).
var curStateNil *stateNil

func RunWireNil(p *Prog, root *ssa.Function, cmdFunctionNonNil bool) *WireNil {
	w := &WireNil{p: p, root: root, reach: map[*ssa.Function]bool{}, tainted: map[ssa.Value]bool{}, taintedField: map[string]bool{}, taintedParam: map[*ssa.Parameter]bool{}, taintedRet: map[*ssa.Function]bool{},
		factsAt: map[ssa.Instruction]wfact{}, blockFacts: map[*ssa.BasicBlock]wfact{}, ensures: map[*ssa.Function]wfact{}, ensuresBool: map[*ssa.Function][2]wfact{}, entryFacts: map[*ssa.Function]wfact{}, nilableParam: map[*ssa.Parameter]bool{}, CmdFunctionNonNil: cmdFunctionNonNil}
	w.sn = newStateNil(p)
	curStateNil = w.sn
	defer func() { curStateNil = nil }()
	// synchronous reachability
	var walk func(f *ssa.Function)
	walk = func(f *ssa.Function) {
		if w.reach[f] || !p.IsRepoFn(f) || f.Blocks == nil {
			return
		}
		w.reach[f] = true
		for _, b := range f.Blocks {
			for _, ins := range b.Instrs {
				switch x := ins.(type) {
				case *ssa.Call:
					for _, c := range p.Callees(x) {
						walk(c)
					}
				case *ssa.Defer:
					for _, c := range p.Callees(x) {
						walk(c)
					}
				case *ssa.MakeClosure:
					// closures run synchronously by library routines (linq, sort)
					if fn, ok := x.Fn.(*ssa.Function); ok {
						async := false
						if x.Referrers() != nil {
							for _, ref := range *x.Referrers() {
								if _, isGo := ref.(*ssa.Go); isGo {
									async = true
								}
								if c, isCall := ref.(*ssa.Call); isCall {
									if callee := c.Call.StaticCallee(); callee != nil && fnPkgPath(callee) == "time" {
										async = true
									}
								}
							}
						}
						if !async {
							walk(fn)
						}
					}
				}
			}
		}
	}
	walk(root)
	// custom decoders are called reflectively by json.Unmarshal on the inbound bytes
	var decoders []*ssa.Function
	for _, f := range p.RepoFns("model", "spine") {
		if f.Signature.Recv() != nil && (f.Name() == "UnmarshalJSON" || f.Name() == "UnmarshalText") {
			decoders = append(decoders, f)
			walk(f)
		}
	}
	w.Decoders = len(decoders)
	// API entry points that receive an inbound message back from the application (approval verdicts): the message
	// is the one the stack handed to the approval callbacks, i.e. wire data
	var msgRoots []*ssa.Function
	if fli := p.LookupIface("api", "FeatureLocalInterface"); fli != nil {
		for i := 0; i < fli.NumMethods(); i++ {
			m := fli.Method(i)
			sig := m.Type().(*types.Signature)
			takesMsg := false
			for j := 0; j < sig.Params().Len(); j++ {
				if isNamed(derefType(sig.Params().At(j).Type()), "api", "Message") {
					takesMsg = true
				}
			}
			if !takesMsg || m.Name() == "HandleMessage" {
				continue
			}
			for _, impl := range p.ImplsOf(fli, m.Name()) {
				msgRoots = append(msgRoots, impl)
				walk(impl)
			}
		}
	}
	w.MsgRoots = len(msgRoots)
	w.computeLookupMiss()
	var fns []*ssa.Function
	for f := range w.reach {
		fns = append(fns, f)
	}
	sort.Slice(fns, func(i, j int) bool {
		if fns[i].String() != fns[j].String() {
			return fns[i].String() < fns[j].String()
		}
		return fns[i].Pos() < fns[j].Pos()
	})
	// seed: the datagram unmarshalled in the root
	for _, b := range root.Blocks {
		for _, ins := range b.Instrs {
			if a, ok := ins.(*ssa.Alloc); ok && isNamed(a.Type(), "model", "Datagram") {
				w.mark(a)
			}
		}
	}
	// ... and whatever a custom decoder lets encoding/json fill
	for _, f := range decoders {
		forEachCall(f, func(site ssa.CallInstruction) {
			callee := site.Common().StaticCallee()
			if callee == nil || fnPkgPath(callee) != "encoding/json" || callee.Name() != "Unmarshal" || len(site.Common().Args) < 2 {
				return
			}
			v := site.Common().Args[1]
			if mi, ok := v.(*ssa.MakeInterface); ok {
				v = mi.X
			}
			if a, ok := v.(*ssa.Alloc); ok {
				w.mark(a)
			}
		})
	}
	// (no seeding needed for the message roots: the wire parts of api.Message are tainted heap fields already,
	// because ProcessCmd stores the inbound header and command into them; marking the whole message would also
	// taint its object references, which are not wire data)
	for iter := 0; iter < 60; iter++ {
		w.changed = false
		for _, f := range fns {
			for _, prm := range f.Params {
				if w.taintedParam[prm] {
					w.mark(prm)
				}
			}
			for _, b := range f.Blocks {
				for _, ins := range b.Instrs {
					switch x := ins.(type) {
					case *ssa.FieldAddr:
						if w.tainted[x.X] {
							w.mark(x)
						}
						if n := namedOf(x.X.Type()); n != nil && w.taintedField[wFieldKey(x.X.Type(), x.Field)] {
							switch n.Obj().Name() {
							case "Message", "CmdData", "FilterData", "EventPayload", "ResponseMessage":
								w.mark(x)
							}
						}
					case *ssa.Field:
						if w.tainted[x.X] {
							w.mark(x)
						}
					case *ssa.UnOp:
						if x.Op == token.MUL && w.tainted[x.X] {
							w.mark(x)
						}
					case *ssa.IndexAddr:
						if w.tainted[x.X] {
							w.mark(x)
						}
					case *ssa.Index:
						if w.tainted[x.X] {
							w.mark(x)
						}
					case *ssa.Slice:
						if w.tainted[x.X] {
							w.mark(x)
						}
					case *ssa.Phi:
						for _, e := range x.Edges {
							if w.tainted[e] {
								w.mark(x)
							}
						}
					case *ssa.Extract:
						if w.tainted[x.Tuple] {
							w.mark(x)
						}
					case *ssa.MakeInterface:
						if w.tainted[x.X] {
							w.mark(x)
						}
					case *ssa.ChangeType:
						if w.tainted[x.X] {
							w.mark(x)
						}
					case *ssa.Convert:
						// string(*d) of a wire value is wire text
						if w.tainted[x.X] {
							w.mark(x)
						}
					case *ssa.ChangeInterface:
						if w.tainted[x.X] {
							w.mark(x)
						}
					case *ssa.TypeAssert:
						if w.tainted[x.X] {
							w.mark(x)
						}
					case *ssa.Range:
						if w.tainted[x.X] {
							w.mark(x)
						}
					case *ssa.Next:
						if w.tainted[x.Iter] {
							w.mark(x)
						}
					case *ssa.Store:
						if w.tainted[x.Val] {
							if fa, ok := x.Addr.(*ssa.FieldAddr); ok && namedOf(fa.X.Type()) != nil {
								k := wFieldKey(fa.X.Type(), fa.Field)
								if !w.taintedField[k] {
									w.taintedField[k] = true
									w.changed = true
								}
							}
							if a, ok := x.Addr.(*ssa.Alloc); ok {
								w.mark(a)
							}
						}
					case *ssa.Return:
						for _, r := range x.Results {
							if w.tainted[r] && !w.taintedRet[f] {
								w.taintedRet[f] = true
								w.changed = true
							}
						}
					case ssa.CallInstruction:
						if _, isGo := x.(*ssa.Go); isGo {
							continue
						}
						cs := w.callees(x)
						if v, ok := ins.(ssa.Value); ok {
							for _, c := range cs {
								if w.taintedRet[c] {
									w.mark(v)
								}
							}
							if sc := x.Common().StaticCallee(); sc != nil && isReflectAccessor(sc) && len(x.Common().Args) > 0 && w.tainted[x.Common().Args[0]] {
								w.mark(v)
							}
						}
						args := argsWithRecv(x.Common())
						for _, c := range cs {
							for i, a := range args {
								if w.tainted[a] && i < len(c.Params) && !w.taintedParam[c.Params[i]] {
									w.taintedParam[c.Params[i]] = true
									w.changed = true
								}
							}
						}
					}
				}
			}
		}
		if !w.changed {
			break
		}
	}
	// facts, validator summaries, nilable parameters, caller-established facts
	for iter := 0; iter < 8; iter++ {
		for _, f := range fns {
			w.computeFacts(f)
		}
		ch := false
		for _, f := range fns {
			if w.computeEnsures(f) {
				ch = true
			}
			if w.computeEnsuresBool(f) {
				ch = true
			}
		}
		newEntry := map[*ssa.Function]wfact{}
		for _, f := range fns {
			for _, b := range f.Blocks {
				for _, ins := range b.Instrs {
					ci, ok := ins.(ssa.CallInstruction)
					if !ok {
						continue
					}
					if _, isGo := ci.(*ssa.Go); isGo {
						continue
					}
					args := argsWithRecv(ci.Common())
					anyTainted := false
					for _, a := range args {
						if w.tainted[a] {
							anyTainted = true
						}
					}
					// an object with a part that is nil by construction (an address whose device is not known yet) is
					// as relevant as wire data: its callers must have tested that part
					for _, a := range args {
						if w.sn != nil && w.sn.hasDerivedField(a.Type()) {
							anyTainted = true
						}
					}
					for _, c := range w.callees(ci) {
						for i, a := range args {
							if i >= len(c.Params) {
								continue
							}
							if _, isPtr := a.Type().Underlying().(*types.Pointer); !isPtr {
								continue
							}
							if w.maybeNil(a) && !w.factsAt[ins]["nn:"+wpath(a, 0)] {
								if !w.nilableParam[c.Params[i]] {
									w.nilableParam[c.Params[i]] = true
									ch = true
								}
							}
						}
						// entry facts are intersected over the call sites that pass wire-derived data only
						if !anyTainted {
							continue
						}
						tf := wfact{}
						for k := range w.factsAt[ins] {
							if cp, ok := w.substToCallee(c, ci, k[3:]); ok {
								tf[k[:3]+cp] = true
							}
						}
						if old, ok := newEntry[c]; !ok {
							newEntry[c] = tf
						} else {
							for k := range old {
								if !tf[k] {
									delete(old, k)
								}
							}
						}
					}
				}
			}
		}
		// a closure starts with what is known about its captured variables where it is created (the creating
		// function may itself lie outside the inbound tree: its facts are computed, nothing in it is reported)
		creators := append([]*ssa.Function{}, fns...)
		for _, f := range fns {
			if par := f.Parent(); par != nil && !w.reach[par] && par.Blocks != nil {
				dup := false
				for _, c := range creators {
					if c == par {
						dup = true
					}
				}
				if !dup {
					w.computeFacts(par)
					creators = append(creators, par)
				}
			}
		}
		for _, f := range creators {
			for _, b := range f.Blocks {
				for _, ins := range b.Instrs {
					mc, ok := ins.(*ssa.MakeClosure)
					if !ok {
						continue
					}
					anon, ok := mc.Fn.(*ssa.Function)
					if !ok {
						continue
					}
					tf := wfact{}
					for i, bnd := range mc.Bindings {
						if i >= len(anon.FreeVars) {
							break
						}
						src := wpath(bnd, 0)
						dst := "fv:" + anon.FreeVars[i].Name()
						for k := range w.factsAt[ins] {
							pth := k[3:]
							if pth == src || strings.HasPrefix(pth, src+".") || strings.HasPrefix(pth, src+"[") {
								tf[k[:3]+dst+pth[len(src):]] = true
							}
						}
					}
					if old, ok := newEntry[anon]; !ok {
						newEntry[anon] = tf
					} else {
						for k := range tf {
							old[k] = true
						}
					}
				}
			}
		}
		for f, nf := range newEntry {
			if len(nf) != len(w.entryFacts[f]) {
				ch = true
			}
			w.entryFacts[f] = nf
		}
		if !ch {
			break
		}
	}
	if dbg := os.Getenv("SPINEDEBUG_E5"); dbg != "" {
		for _, f := range fns {
			if strings.Contains(f.String(), dbg) {
				fmt.Fprintf(os.Stderr, "E5 %s entry=%v\n", f, w.entryFacts[f])
				for _, prm := range f.Params {
					fmt.Fprintf(os.Stderr, "E5   param %s tainted=%v nilable=%v\n", prm.Name(), w.taintedParam[prm], w.nilableParam[prm])
				}
			}
		}
	}
	for _, f := range fns {
		w.computeFacts(f)
	}
	// sites
	for _, f := range fns {
		for _, b := range f.Blocks {
			for _, ins := range b.Instrs {
				var target ssa.Value
				kind := ""
				switch x := ins.(type) {
				case *ssa.UnOp:
					if x.Op == token.MUL {
						switch x.X.(type) {
						case *ssa.FieldAddr, *ssa.IndexAddr, *ssa.Alloc, *ssa.Global:
						default:
							target, kind = x.X, "deref"
						}
					}
				case *ssa.FieldAddr:
					switch x.X.(type) {
					case *ssa.FieldAddr, *ssa.IndexAddr, *ssa.Alloc, *ssa.Global:
					default:
						target, kind = x.X, "field"
					}
				case *ssa.IndexAddr:
					if _, isConst := x.Index.(*ssa.Const); isConst {
						if _, isSlice := x.X.Type().Underlying().(*types.Slice); isSlice && w.tainted[x.X] {
							w.Total++
							if w.factsAt[ins]["ln:"+wpath(x.X, 0)] {
								w.Guarded++
							} else {
								w.Findings = append(w.Findings, wnFinding{f, ins, "index[" + widx(x.Index) + "]", displayPath(wpath(x.X, 0))})
							}
						}
					}
				case *ssa.Slice:
					// x[:k] / x[k:] with a constant bound on a wire-derived list or text: shorter input panics
					if w.tainted[x.X] {
						isSeq := false
						switch u := x.X.Type().Underlying().(type) {
						case *types.Slice:
							isSeq = true
						case *types.Basic:
							isSeq = u.Info()&types.IsString != 0
						}
						var bound int64
						for _, bv := range []ssa.Value{x.Low, x.High} {
							if bv == nil {
								continue
							}
							if k, isK := constInt(bv); isK && k > bound {
								bound = k
							}
						}
						if isSeq && bound > 0 {
							w.Total++
							if bound == 1 && w.factsAt[ins]["ln:"+wpath(x.X, 0)] {
								w.Guarded++
							} else {
								w.Findings = append(w.Findings, wnFinding{f, ins, fmt.Sprintf("index[:%d]", bound), displayPath(wpath(x.X, 0))})
							}
						}
					}
				case *ssa.Index:
					// s[k] on a wire-derived string: an empty (or short) text panics
					if bt, isB := x.X.Type().Underlying().(*types.Basic); isB && bt.Info()&types.IsString != 0 && w.tainted[x.X] {
						if k, isK := constInt(x.Index); isK {
							w.Total++
							if k == 0 && w.factsAt[ins]["ln:"+wpath(x.X, 0)] {
								w.Guarded++
							} else {
								w.Findings = append(w.Findings, wnFinding{f, ins, fmt.Sprintf("index[%d]", k), "text " + displayPath(wpath(x.X, 0))})
							}
						}
					}
					if _, isConst := x.Index.(*ssa.Const); isConst {
						if _, isSlice := x.X.Type().Underlying().(*types.Slice); isSlice && w.tainted[x.X] {
							w.Total++
							if w.factsAt[ins]["ln:"+wpath(x.X, 0)] {
								w.Guarded++
							} else {
								w.Findings = append(w.Findings, wnFinding{f, ins, "index[" + widx(x.Index) + "]", displayPath(wpath(x.X, 0))})
							}
						}
					}
				case *ssa.Call, *ssa.Defer, *ssa.Go:
					// a method call on the interface value a look-up returned: a miss makes it a nil-interface call
					cc := x.(ssa.CallInstruction).Common()
					if cc.IsInvoke() {
						if lc := w.lookupResult(cc.Value); lc != nil {
							w.Total++
							w.LookupSites++
							if w.factsAt[ins]["nn:"+wpath(cc.Value, 0)] {
								w.Guarded++
							} else {
								w.Findings = append(w.Findings, wnFinding{f, ins, "invoke", "result of " + lookupName(lc)})
							}
						}
					}
				case *ssa.Panic:
					w.Total++
					if panicIsDead(x) {
						w.Exempt = append(w.Exempt, fmt.Sprintf("%s: explicit panic is dead (its type switch covers the instantiated type)", FnName(f)))
						w.Guarded++
					} else {
						w.Findings = append(w.Findings, wnFinding{f, ins, "panic", "explicit"})
					}
				case *ssa.TypeAssert:
					if !x.CommaOk && w.tainted[x.X] {
						w.Total++
						if assertBackedByTables(f, x) {
							w.Exempt = append(w.Exempt, fmt.Sprintf("%s: payload type assertion to %s is backed by the table rules C18-T1/C02-S1", FnName(originOf(f)), shortType(x.AssertedType)))
							w.Guarded++
						} else {
							w.Findings = append(w.Findings, wnFinding{f, ins, "assert", shortType(x.AssertedType)})
						}
					}
				}
				if target == nil {
					continue
				}
				if _, isPtr := target.Type().Underlying().(*types.Pointer); !isPtr {
					continue
				}
				if !w.maybeNil(target) {
					continue
				}
				w.Total++
				if w.factsAt[ins]["nn:"+wpath(target, 0)] {
					w.Guarded++
					continue
				}
				w.Findings = append(w.Findings, wnFinding{f, ins, kind, displayPath(wpath(target, 0))})
			}
		}
	}
	sort.Slice(w.Findings, func(i, j int) bool {
		if w.Findings[i].Key() != w.Findings[j].Key() {
			return w.Findings[i].Key() < w.Findings[j].Key()
		}
		return w.Findings[i].Ins.Pos() < w.Findings[j].Ins.Pos()
	})
	return w
}

func lookupName(c *ssa.Call) string {
	if c.Call.IsInvoke() {
		return shortType(c.Call.Value.Type()) + "." + c.Call.Method.Name()
	}
	if f := c.Call.StaticCallee(); f != nil {
		return FnName(f)
	}
	return "call"
}

// panicIsDead: the panic sits on the default branch of a type switch over
// any(new(F)) whose cases include *F for the instantiated F.
func panicIsDead(pn *ssa.Panic) bool {
	fn := pn.Parent()
	if len(fn.TypeArgs()) == 0 {
		return false
	}
	for _, b := range fn.Blocks {
		for _, ins := range b.Instrs {
			ta, ok := ins.(*ssa.TypeAssert)
			if !ok || !ta.CommaOk {
				continue
			}
			mi, ok := ta.X.(*ssa.MakeInterface)
			if !ok {
				continue
			}
			if types.Identical(mi.X.Type(), ta.AssertedType) {
				// this case matches statically: the panic is dead if it is only reachable through the failing edge of this assertion
				for _, ref := range *ta.Referrers() {
					ex, ok := ref.(*ssa.Extract)
					if !ok || ex.Index != 1 {
						continue
					}
					for _, r2 := range *ex.Referrers() {
						if ifi, ok := r2.(*ssa.If); ok {
							fail := ifi.Block().Succs[1]
							if fail == pn.Block() || fail.Dominates(pn.Block()) {
								return true
							}
						}
					}
				}
			}
		}
	}
	return false
}

// assertBackedByTables: x.(*T) in a method of FunctionData[T] (C18-T1: the CmdType field has
// type *T for the registered function) or x.(*R) in R's own UpdateList (C02-R1/S1).
func assertBackedByTables(f *ssa.Function, ta *ssa.TypeAssert) bool {
	if f.Signature.Recv() == nil {
		return false
	}
	rn := namedOf(f.Signature.Recv().Type())
	if rn == nil {
		return false
	}
	if isFunctionDataFn(f) && rn.TypeArgs().Len() == 1 {
		return types.Identical(ta.AssertedType, types.NewPointer(rn.TypeArgs().At(0)))
	}
	if originName(f) == "UpdateList" && rn.Obj().Pkg() != nil && rn.Obj().Pkg().Path() == repoMod+"/model" {
		return types.Identical(ta.AssertedType, types.NewPointer(rn))
	}
	return false
}
