package main

import (
	"fmt"
	"go/token"
	"go/types"
	"strings"

	"golang.org/x/tools/go/ssa"
)

func init() {
	register("C06", true,
		"Guard–action coherence rules on the processing of detailed-discovery notifications (the entity removed is the one whose lastStateChange was tested; entries announced as removed are unreachable for the add path — CFG reachability under a finite assignment), dominance rules on the removal cascade (event, subscription, binding and cache clean-up all performed, with the removed entity, only if the removal found it), provenance rules on entity-added events (one per element of the list of newly created entities, which grows only on a look-up miss with the entity just created), and wiring rules of the announced operations (read/write/partial flags and function key taken from the matching sub-elements; constructor parameters not cross-wired). Decided: that the handlers act on the elements they tested and perform the complete cascade. Not decided: equality of the resulting tree with the fold of the announcements (values, addresses, histories).",
		checkC06)
}

func checkC06(p *Prog, r *Report) {
	dri := p.LookupIface("api", "DeviceRemoteInterface")
	smi := p.LookupIface("api", "SubscriptionManagerInterface")
	bmi := p.LookupIface("api", "BindingManagerInterface")
	dli := p.LookupIface("api", "DeviceLocalInterface")
	if dri == nil || smi == nil || bmi == nil || dli == nil {
		r.Undecided("R0", "anchor:api interfaces", "", "interface not found")
		return
	}
	r.Rule("R1", "the entity removed by a notification is the element whose lastStateChange was tested to be 'removed'; the add path never creates or updates an entity announced as removed")
	r.Rule("R2", "after a removal that found the entity: one entity-removed event carrying it, and the subscription, binding and client-cache clean-ups for it; none of these if the entity was unknown")
	entityRemovalCascade(p, r, "R1", "R2")

	// add path: AddEntityAndFeatures
	r.Rule("R3", "an entity-added event is published once per element of the list returned by AddEntityAndFeatures; that list grows only on a look-up miss, with the entity just created for the announced address")
	for _, fn := range p.ImplsOf(dri, "AddEntityAndFeatures") {
		base := FnName(fn)
		var create, lookup *ssa.Call
		var removeAll *ssa.Call
		forEachCall(fn, func(site ssa.CallInstruction) {
			c, ok := site.(*ssa.Call)
			if !ok {
				return
			}
			if callee := c.Call.StaticCallee(); callee != nil && p.IsRepoFn(callee) {
				// creation: a helper that ends in AddEntity of a new remote entity
				if reachesStatic(p, callee, "NewEntityRemote", 0, map[*ssa.Function]bool{}) {
					create = c
				}
				if originName(callee) == "Entity" {
					lookup = c
				}
			}
			if c.Call.IsInvoke() && c.Call.Method.Name() == "RemoveAllFeatures" {
				removeAll = c
			}
		})
		if create == nil || lookup == nil {
			r.Fail("R3", base+"|shape", p.Pos(fn.Pos()), fmt.Sprintf("creation found=%v, look-up found=%v", create != nil, lookup != nil))
			continue
		}
		// creation only on a miss of the look-up with the same address
		miss := false
		for _, g := range Guards(create.Block()) {
			if x, trueNil, ok := nilTest(g.Cond); ok && trueNil == g.Val && unwrapIface(x) == ssa.Value(lookup) {
				miss = true
			}
		}
		sameAddr := Path(callArgs(&lookup.Call)[0]) == Path(create.Call.Args[len(create.Call.Args)-1])
		r.Check("R3", base+"|create-on-miss", miss && sameAddr, p.InstrPos(create), fmt.Sprintf("creation under a miss of the look-up: %v; same address (%s): %v", miss, Path(callArgs(&lookup.Call)[0]), sameAddr))
		// the returned list: appends only of the created entity, in the creation branch
		okAppend, nAppend := true, 0
		forEachCall(fn, func(site ssa.CallInstruction) {
			c, ok := site.(*ssa.Call)
			if !ok || builtinName(&c.Call) != "append" {
				return
			}
			if !strings.Contains(c.Type().String(), "EntityRemoteInterface") {
				return
			}
			nAppend++
			// appended element derives from the creation call, in the same block region
			t := forwardTaint(create)
			if !t[c.Call.Args[1]] || !create.Block().Dominates(c.Block()) {
				okAppend = false
			}
		})
		r.Check("R3", base+"|new-list", okAppend && nAppend == 1, p.Pos(fn.Pos()), fmt.Sprintf("%d appends to the list of new entities, each of the entity just created", nAppend))
		// R1b: entries announced as removed are skipped on notifications
		var initial *ssa.Parameter
		for _, prm := range fn.Params {
			if Path(prm) != "recv" && prm.Type().String() == "bool" {
				initial = prm
			}
		}
		atom := func(c ssa.Value) (bool, bool) {
			if initial != nil && c == ssa.Value(initial) {
				return true, false
			}
			if bo, ok := c.(*ssa.BinOp); ok {
				if s, isS := constString(bo.Y); isS && s == "removed" && strings.HasSuffix(Path(bo.X), ".LastStateChange") {
					return true, bo.Op == token.EQL
				}
				if x, trueNil, ok := nilTest(bo); ok && strings.HasSuffix(Path(x), ".LastStateChange") {
					return true, trueNil == false
				}
			}
			return false, false
		}
		reachCreate := reachableUnder(fn, create, atom)
		reachStrip := removeAll != nil && reachableUnder(fn, removeAll, atom)
		r.Check("R1", base+"|skips-removed", !reachCreate && !reachStrip && initial != nil, p.InstrPos(create), fmt.Sprintf("with a notification entry marked removed: creation reachable=%v, feature reset reachable=%v", reachCreate, reachStrip))
	}
	// callers publish one add event per element
	nAddPub := 0
	for _, fn0 := range p.RepoFns("spine") {
		fn := fn0
		p.InScope(fn, func() {
			var add *ssa.Call
			forEachCallOwn(fn, func(site ssa.CallInstruction) {
				if c, ok := site.(*ssa.Call); ok && calleeIsIfaceMethod(&c.Call, dri, "AddEntityAndFeatures") {
					add = c
				}
			})
			if add == nil {
				return
			}
			base := FnName(fn)
			found := false
			if carried, inLoop := loopCarriedGuards(add); inLoop {
				r.Check("R3", base+"|addition-independent-of-earlier-entries", len(carried) == 0, p.InstrPos(add), fmt.Sprintf("whether an entry marked added is processed depends on that entry only, not on the entries before it (a notification may remove an entity and add it again): %v", carried))
			} else {
				// where removals are applied entry by entry, additions are too: the entries of a notification take effect in
				// the order announced ("removed [1,1], added [1,1]" replaces the entity; additions applied up front lose it)
				var removalInLoop ssa.Instruction
				forEachCall(fn, func(s2 ssa.CallInstruction) {
					if c2, ok := s2.(*ssa.Call); ok && calleeIsIfaceMethod(&c2.Call, dri, "RemoveEntityByAddress") {
						if loopHeaderOf(liftInScope(c2).Block()) != nil {
							removalInLoop = c2
						}
					}
				})
				if removalInLoop != nil {
					r.Fail("R3", base+"|addition-in-announced-order", p.InstrPos(add), "removals are applied inside the loop over the announced entries ("+p.InstrPos(removalInLoop)+") but the addition runs outside that loop: an entity announced as removed and then as added again ends up absent")
				}
			}
			forEachCall(fn, func(site ssa.CallInstruction) {
				c, ok := site.(*ssa.Call)
				if !ok || !staticCallee(&c.Call, repoMod+"/spine", "events", "Publish") {
					return
				}
				ev := eventFields(c.Call.Args[len(c.Call.Args)-1])
				ct, _ := constInt(ev["ChangeType"])
				et, _ := constInt(ev["EventType"])
				wantC, _ := constOf(p, "api", "ElementChangeAdd")
				wantE, _ := constOf(p, "api", "EventTypeEntityChange")
				if ct != wantC || et != wantE {
					return
				}
				found = true
				nAddPub++
				t := forwardTaint(add)
				okElem := ev["Entity"] != nil && (t[ev["Entity"]] || t[baseValue(ev["Entity"])]) && cyclic(c.Block())
				extra := 0
				for _, g := range Guards(c.Block()) {
					if bo, ok := g.Cond.(*ssa.BinOp); ok {
						if _, isLen := bo.Y.(*ssa.Call); isLen {
							continue
						}
					}
					shared := false
					for _, g2 := range Guards(add.Block()) {
						if g2.Cond == g.Cond {
							shared = true
						}
					}
					if x, _, isNil := nilTest(g.Cond); isNil && t[x] {
						shared = true // the error test of the add call
					}
					if !shared {
						extra++
					}
				}
				r.Check("R3", base+"|add-events", okElem && extra == 0, p.InstrPos(c), fmt.Sprintf("one publication per element of the returned list: %v; %d extra conditions", okElem, extra))
			})
			if !found {
				r.Fail("R3", base+"|add-events", p.InstrPos(add), "no entity-added publication for the entities created by this call")
			}
		})
	}
	r.Floor("R3", "entity-added publications", nAddPub, 2)

	r.Rule("R4", "SetOperations announces per function: read iff a read element is present, read-partial iff its partial element is present, write and write-partial likewise, keyed by the function of the same element")
	fri := p.LookupIface("api", "FeatureRemoteInterface")
	for _, fn := range p.ImplsOf(fri, "SetOperations") {
		base := FnName(fn)
		var ctor *ssa.Call
		var upd *ssa.MapUpdate
		forEachCall(fn, func(site ssa.CallInstruction) {
			if c, ok := site.(*ssa.Call); ok && staticCallee(&c.Call, repoMod+"/spine", "", "NewOperations") {
				ctor = c
			}
		})
		for _, b := range fn.Blocks {
			for _, ins := range b.Instrs {
				mu, ok := ins.(*ssa.MapUpdate)
				if !ok {
					continue
				}
				if strings.HasSuffix(Path(mu.Map), "."+FN("Feature.operations")) {
					upd = mu
				}
				// ... or a map built locally that is then stored into the operations field (built first, published under the lock)
				if mk, isMk := mu.Map.(*ssa.MakeMap); isMk && mk.Referrers() != nil {
					for _, ref := range *mk.Referrers() {
						if st, isSt := ref.(*ssa.Store); isSt && st.Val == ssa.Value(mk) && strings.HasSuffix(Path(st.Addr), "."+FN("Feature.operations")) {
							upd = mu
						}
					}
				}
			}
		}
		if ctor == nil || upd == nil || len(ctor.Call.Args) != 4 {
			r.Fail("R4", base+"|shape", p.Pos(fn.Pos()), "NewOperations call or operations map update not found")
			continue
		}
		want := []string{".PossibleOperations.Read", ".PossibleOperations.Read.Partial", ".PossibleOperations.Write", ".PossibleOperations.Write.Partial"}
		ok := true
		var desc []string
		for i, a := range ctor.Call.Args {
			paths := presenceTests(a)
			desc = append(desc, strings.Join(paths, "&"))
			hit := false
			for _, pth := range paths {
				if strings.HasSuffix(pth, want[i]) {
					hit = true
				}
			}
			if !hit {
				ok = false
			}
			// a plain flag must not depend on the partial element or on the other operation
			for _, pth := range paths {
				other := "Write"
				if i >= 2 {
					other = "Read"
				}
				if strings.Contains(pth, ".PossibleOperations."+other) {
					ok = false
				}
				if i%2 == 0 && strings.HasSuffix(pth, ".Partial") {
					ok = false
				}
			}
		}
		elem := strings.TrimSuffix(Path(upd.Key), ".Function")
		okKey := elem != Path(upd.Key) && strings.HasPrefix(desc[0], elem)
		r.Check("R4", base+"|flags", ok, p.InstrPos(ctor), fmt.Sprintf("NewOperations(%s)", strings.Join(desc, ", ")))
		r.Check("R4", base+"|key", okKey && valueIs(upd.Value, ctor), p.InstrPos(upd), fmt.Sprintf("stored under %s", Path(upd.Key)))
	}
	lintSubset(p, r, "R4l", "no read/write/partial flag is passed or stored under the name of another (cross-wiring lint restricted to the operations code)", func(key string) bool {
		return strings.Contains(key, "Operations") || strings.Contains(key, "AddFunctionType")
	})
	c06Rebuild(p, r)
	c06FullDiff(p, r)
	entityListWriters(p, r, "R15")
	r.Rule("R12", "RemoveEntityByAddress drops exactly the entity it hands back to the cascade: the rebuild of the peer's entity list keeps an entry ⇔ it is not the entity found for the address (an entry dropped on the side — a sub-entity, a prefix match — never gets its subscriptions, bindings and caches cleaned)")
	applyRetain(p, r, "R12", "spine", "DeviceRemote", "RemoveEntityByAddress", retainSpec{Field: F("DeviceRemote.entities"), Required: map[string]string{"entity": "=$"}})
	r.Rule("R8", "a list field whose slice header a getter hands out (callers iterate it without the lock) is never modified in place: no element store, no copy into it, no in-place library routine (slices.DeleteFunc, sort.Slice, …); removal builds a new slice")
	escapedListsImmutable(p, BuildLockset(p, "spine", "model"), r, "R8", map[string]bool{"DeviceRemote": true, "EntityRemote": true, "events": true})
	r.Rule("R7", "every hand-written element-wise comparison of two slices of one type compares their lengths for equality: entity addresses are never matched by prefix (shared lint, C20-R6)")
	sliceEqualityHelpers(p, r, "R7")
	r.Rule("R6", "the per-entity clean-ups called by the cascade remove that entity's entries and nothing else: keep ⇔ ¬(client device ∧ client entity equal) (retain truth tables, shared with C10-R1)")
	applyRetain(p, r, "R6", "spine", "SubscriptionManager", "RemoveSubscriptionsForEntity", retainSpec{Field: F("SubscriptionManager.subscriptionEntries"),
		Required: map[string]string{"client.device": "ClientFeature.Device().Ski()|ClientFeature.Address().Device", "client.entity": "ClientFeature.Address().Entity"}})
	applyRetain(p, r, "R6", "spine", "BindingManager", "RemoveBindingsForEntity", retainSpec{Field: F("BindingManager.bindingEntries"),
		Required: map[string]string{"client.device": "ClientFeature.Device().Ski()|ClientFeature.Address().Device", "client.entity": "ClientFeature.Address().Entity"}})
	for _, f := range []string{F("FeatureLocal.subscriptions"), F("FeatureLocal.bindings")} {
		applyRetain(p, r, "R6", "spine", "FeatureLocal", "CleanRemoteEntityCaches", retainSpec{Field: f, Required: map[string]string{"device": "=Device", "entity": "=Entity"}})
	}
	r.Rule("R10", "every generated entry carries its own state: a local variable whose address is stored into an object (lastStateChange of a generated 'added' / 'removed' entry) is never assigned again once its address was handed to an object (not later in the function, not in the next iteration of the loop that stores it) — never one variable shared by all entries and reassigned")
	sharedCellLint(p, r, "R10", "spine", "model")
	r.Rule("R9", "the clean-up steps of the removal cascade are atomic: the subscription and the binding list are read, filtered and stored inside one critical section, so that removing one entity never loses what another peer registered meanwhile (shared with C08-R9/C09-R7)")
	lsC06 := BuildLockset(p, "spine", "model")
	rebuildAtomic(p, lsC06, r, "R9", F("SubscriptionManager.subscriptionEntries"), 3)
	rebuildAtomic(p, lsC06, r, "R9", F("BindingManager.bindingEntries"), 3)
	r.Assumes("getters of the remote device tree are uninterpreted")
}

// c06Rebuild: the feature list of an announced entity is rebuilt, not extended.
func c06Rebuild(p *Prog, r *Report) {
	r.Rule("R5", "every AddFeature on a remote entity is either applied to an entity created in the same function or dominated by RemoveAllFeatures on the same entity value (an announcement replaces the entity's features; it never adds to what an earlier announcement left)")
	eri := p.LookupIface("api", "EntityRemoteInterface")
	if eri == nil {
		r.Undecided("R5", "anchor:api.EntityRemoteInterface", "", "interface not found")
		return
	}
	n := 0
	for _, fn0 := range p.ScopeRoots("spine") {
		fn := fn0
		idx := 0
		p.InScope(fn, func() {
			forEachCall(fn, func(site ssa.CallInstruction) {
				c, ok := site.(*ssa.Call)
				if !ok || !calleeIsIfaceMethod(&c.Call, eri, "AddFeature") {
					return
				}
				recv := callRecv(&c.Call)
				if recv == nil {
					return
				}
				recv = substParam(recv)
				// only receivers that are remote entities
				if !implementsIface(recv.Type(), eri) {
					if _, isI := recv.Type().Underlying().(*types.Interface); !isI || !types.Identical(recv.Type().Underlying(), eri) {
						return
					}
				}
				idx++
				n++
				key := fmt.Sprintf("%s|AddFeature#%d", FnName(fn), idx)
				// fresh: every source of the receiver is a constructor call in this function
				fresh := true
				srcs := p.Sources(recv, false)
				for _, s := range srcs {
					if s.Kind != "call" || !(strings.Contains(s.Desc, "addNewEntity") || strings.Contains(s.Desc, "NewEntityRemote")) {
						fresh = false
					}
				}
				if fresh && len(srcs) > 0 {
					r.Pass("R5", key, p.InstrPos(c), "features are added to an entity created in this function")
					return
				}
				wiped := false
				forEachCall(fn, func(s2 ssa.CallInstruction) {
					w, ok := s2.(*ssa.Call)
					if !ok || !calleeIsIfaceMethod(&w.Call, eri, "RemoveAllFeatures") {
						return
					}
					if substParam(callRecv(&w.Call)) == recv && instrDominates(w, c) {
						wiped = true
					}
				})
				r.Check("R5", key, wiped, p.InstrPos(c), "features are added to an existing remote entity ("+Path(recv)+"); RemoveAllFeatures on the same entity dominates the addition: "+fmt.Sprint(wiped))
			})
		})
	}
	r.Floor("R5", "AddFeature calls on remote entities", n, 1)
	c06Reannounce(p, r, eri)
	freshFeatureRule(p, r, eri, "R16")
}

func valueIs(v ssa.Value, c *ssa.Call) bool {
	return unwrapIface(v) == ssa.Value(c)
}

// presenceTests: the access paths whose non-nil-ness the boolean value is computed from.
func presenceTests(v ssa.Value) []string {
	var res []string
	seen := map[ssa.Value]bool{}
	var walk func(v ssa.Value, d int)
	walk = func(v ssa.Value, d int) {
		if v == nil || seen[v] || d > 6 {
			return
		}
		seen[v] = true
		switch x := v.(type) {
		case *ssa.BinOp:
			if y, trueNil, ok := nilTest(x); ok && !trueNil {
				res = append(res, Path(y))
			}
		case *ssa.Phi:
			for i, e := range x.Edges {
				walk(e, d+1)
				// the condition that selected this edge
				pred := x.Block().Preds[i]
				if ifi, ok := pred.Instrs[len(pred.Instrs)-1].(*ssa.If); ok {
					walk(ifi.Cond, d+1)
				}
			}
		}
	}
	walk(v, 0)
	return res
}

func reachesStatic(p *Prog, fn *ssa.Function, name string, depth int, seen map[*ssa.Function]bool) bool {
	if fn == nil || fn.Blocks == nil || seen[fn] || depth > 4 {
		return false
	}
	seen[fn] = true
	res := false
	forEachCall(fn, func(site ssa.CallInstruction) {
		c := site.Common().StaticCallee()
		if c == nil {
			return
		}
		if originName(c) == name {
			res = true
			return
		}
		if p.IsRepoFn(c) && reachesStatic(p, c, name, depth+1, seen) {
			res = true
		}
	})
	return res
}

// lintSubset runs the cross-wiring lint and reports the findings whose key passes the filter.
func lintSubset(p *Prog, r *Report, rule, statement string, filter func(key string) bool) {
	r.Rule(rule, statement)
	n, hits := 0, 0
	for _, short := range []string{"api", "model", "spine", "util"} {
		pk := p.Pkg(short)
		n += crossWiring(lintTarget{Name: short, Files: pk.Syntax, Info: pk.TypesInfo, Pos: p.Pos}, func(key, pos, detail string) {
			if filter(key) {
				hits++
				r.Fail(rule, key, pos, detail)
			}
		})
	}
	got, err := crossWiringSelfCheck()
	if err != nil || got != 8 {
		r.Undecided(rule, "positive-example", "", fmt.Sprintf("the lint reported %d of the 8 seeded swaps of its built-in example (err=%v)", got, err))
		return
	}
	if hits == 0 {
		r.Pass(rule, "repository", "", fmt.Sprintf("%d constructs examined, no definite swap in scope; built-in positive example fires", n))
	}
}

// entityRemovalCascade: which element a removal notification removes, and that
// the clean-up steps are applied to the entity that was removed (shared by C06 and C10).
func entityRemovalCascade(p *Prog, r *Report, ruleA, ruleB string) {
	dri := p.LookupIface("api", "DeviceRemoteInterface")
	smi := p.LookupIface("api", "SubscriptionManagerInterface")
	bmi := p.LookupIface("api", "BindingManagerInterface")
	dli := p.LookupIface("api", "DeviceLocalInterface")
	if dri == nil || smi == nil || bmi == nil || dli == nil {
		r.Undecided(ruleA, "anchor:api interfaces", "", "interface not found")
		return
	}
	nRemovers := 0
	for _, fn0 := range p.ScopeRoots("spine") {
		fn := fn0
		p.InScope(fn, func() {
			var removal *ssa.Call
			forEachCall(fn, func(site ssa.CallInstruction) {
				if c, ok := site.(*ssa.Call); ok && calleeIsIfaceMethod(&c.Call, dri, "RemoveEntityByAddress") {
					removal = c
				}
			})
			if removal == nil {
				return
			}
			nRemovers++
			base := FnName(fn)
			// the loop over the announced entries runs to the end: a notification may add one entity and remove another
			ab := loopAbandoned(removal.Block())
			for hop, at := 0, fn; hop < 3 && len(ab) == 1 && ab[0] == "no loop"; hop++ {
				// the removal branch was extracted: the loop over the entries is in the (single) caller
				callers := p.Callers(at)
				if len(callers) != 1 {
					ab = nil // not inside a loop at all: nothing to abandon
					break
				}
				ab = loopAbandoned(callers[0].Block())
				at = callers[0].Parent()
			}
			if len(ab) == 1 && ab[0] == "no loop" {
				ab = nil
			}
			r.Check(ruleB, base+"|every-entry-processed", len(ab) == 0, p.InstrPos(removal), fmt.Sprintf("the loop over the announced entity entries is left early only by returning an error; other exits: %v", ab))
			if carried, inLoop := loopCarriedGuards(removal); inLoop {
				r.Check(ruleB, base+"|removal-independent-of-earlier-entries", len(carried) == 0, p.InstrPos(removal), fmt.Sprintf("whether an entry marked removed is processed depends on that entry only, not on the entries before it: %v", carried))
			}
			arg := Path(callArgs(&removal.Call)[0])
			elem := strings.TrimSuffix(arg, ".Description.EntityAddress.Entity")
			tested := ""
			var testedRoot ssa.Instruction
			for _, g := range Guards(removal.Block()) {
				bo, ok := g.Cond.(*ssa.BinOp)
				if !ok || (bo.Op == token.EQL) != g.Val {
					continue
				}
				if s, isS := constString(bo.Y); isS && s == "removed" {
					tested = strings.TrimSuffix(Path(bo.X), ".Description.LastStateChange")
					testedRoot = elementRoot(bo.X)
				}
			}
			// paths render every non-constant index alike, so two loops over the same list look the same:
			// the element removed must also be the same element load (same loop variable) as the one tested
			sameElem := testedRoot != nil && elementRoot(callArgs(&removal.Call)[0]) == testedRoot
			r.Check(ruleA, base+"|removes-tested-element", elem != arg && tested != "" && elem == tested && sameElem, p.InstrPos(removal), fmt.Sprintf("removal of %s under a test of the state of %s; same list element (loop variable): %v", arg, tested, sameElem))
			// on the peer the message came from
			r.Check(ruleA, base+"|on-sender-device", strings.HasSuffix(Path(removal.Call.Value), ".FeatureRemote.Device()"), p.InstrPos(removal), "removal on "+Path(removal.Call.Value))

			// R2 cascade
			type step struct {
				name string
				call *ssa.Call
				arg  ssa.Value
			}
			var steps []step
			forEachCall(fn, func(site ssa.CallInstruction) {
				c, ok := site.(*ssa.Call)
				if !ok {
					return
				}
				switch {
				case calleeIsIfaceMethod(&c.Call, smi, "RemoveSubscriptionsForEntity"):
					steps = append(steps, step{"subscriptions", c, callArgs(&c.Call)[0]})
				case calleeIsIfaceMethod(&c.Call, bmi, "RemoveBindingsForEntity"):
					steps = append(steps, step{"bindings", c, callArgs(&c.Call)[0]})
				case calleeIsIfaceMethod(&c.Call, dli, "CleanRemoteEntityCaches"):
					a := callArgs(&c.Call)[0]
					if ac, ok := a.(*ssa.Call); ok && ac.Call.IsInvoke() && ac.Call.Method.Name() == "Address" {
						a = ac.Call.Value
					}
					steps = append(steps, step{"client-caches", c, a})
				case staticCallee(&c.Call, repoMod+"/spine", "events", "Publish"):
					ev := eventFields(c.Call.Args[len(c.Call.Args)-1])
					ct, _ := constInt(ev["ChangeType"])
					et, _ := constInt(ev["EventType"])
					wantC, _ := constOf(p, "api", "ElementChangeRemove")
					wantE, _ := constOf(p, "api", "EventTypeEntityChange")
					if ct == wantC && et == wantE {
						steps = append(steps, step{"event", c, ev["Entity"]})
					}
				}
			})
			seen := map[string]int{}
			for _, st := range steps {
				seen[st.name]++
				guarded := false
				extra := 0
				for _, g := range Guards(st.call.Block()) {
					if x, trueNil, ok := nilTest(g.Cond); ok && (unwrapIface(x) == ssa.Value(removal) || unwrapIface(substParam(unwrapIface(x))) == ssa.Value(removal)) {
						if trueNil != g.Val {
							guarded = true
						}
						continue
					}
					// guards shared with the removal itself are fine
					shared := false
					for _, g2 := range Guards(removal.Block()) {
						if g2.Cond == g.Cond && g2.Val == g.Val {
							shared = true
						}
					}
					if !shared {
						extra++
					}
				}
				okArg := st.arg != nil && (unwrapIface(st.arg) == ssa.Value(removal) || unwrapIface(substParam(unwrapIface(st.arg))) == ssa.Value(removal))
				r.Check(ruleB, fmt.Sprintf("%s|%s", base, st.name), guarded && okArg && extra == 0 && instrDominates(removal, st.call), p.InstrPos(st.call), fmt.Sprintf("only if the removal found the entity: %v; applied to the removed entity: %v; %d extra conditions", guarded, okArg, extra))
			}
			for _, name := range []string{"event", "subscriptions", "bindings", "client-caches"} {
				if seen[name] != 1 {
					r.Fail(ruleB, fmt.Sprintf("%s|%s|count", base, name), p.Pos(fn.Pos()), fmt.Sprintf("%d such steps in the removal branch, exactly one expected", seen[name]))
				}
			}
		})
	}
	r.Floor(ruleA, "functions removing remote entities", nRemovers, 1)
}

// elementRoot walks from a value derived from a list element (fields, loads,
// single-store locals) down to the instruction that selects the element.
func elementRoot(v ssa.Value) ssa.Instruction {
	for d := 0; d < 16 && v != nil; d++ {
		switch x := v.(type) {
		case *ssa.IndexAddr:
			return x
		case *ssa.Index:
			return x
		case *ssa.Extract:
			if n, ok := x.Tuple.(*ssa.Next); ok {
				return n
			}
			v = x.Tuple
		case *ssa.FieldAddr:
			v = x.X
		case *ssa.Field:
			v = x.X
		case *ssa.UnOp:
			v = x.X
		case *ssa.Alloc:
			if s := singleStore(x); s != nil {
				v = s
			} else {
				return nil
			}
		case *ssa.ChangeType:
			v = x.X
		case *ssa.Convert:
			v = x.X
		case *ssa.MakeInterface:
			v = x.X
		default:
			return nil
		}
	}
	return nil
}

// baseValue walks from an element or field of a value down to the value itself and
// through the parameters of extracted helpers (in scope) to the caller's argument.
func baseValue(v ssa.Value) ssa.Value {
	for d := 0; d < 16 && v != nil; d++ {
		switch x := v.(type) {
		case *ssa.UnOp:
			v = x.X
		case *ssa.IndexAddr:
			v = x.X
		case *ssa.Index:
			v = x.X
		case *ssa.FieldAddr:
			v = x.X
		case *ssa.Field:
			v = x.X
		case *ssa.MakeInterface:
			v = x.X
		case *ssa.ChangeInterface:
			v = x.X
		case *ssa.Extract:
			v = x.Tuple
		case *ssa.Alloc:
			if s := singleStore(x); s != nil {
				v = s
			} else {
				return v
			}
		case *ssa.Parameter:
			s := substParam(x)
			if s == ssa.Value(x) {
				return v
			}
			v = s
		default:
			return v
		}
	}
	return v
}

// c06FullDiff: a full (filter-less) discovery notification is turned into a diff. The entries synthesised as
// "removed" come from a loop over the entities known for the peer; that loop must range over the complete list the
// device returns — a list that is conditionally emptied or shortened misses removals (an entity replaced by
// another one leaves the announced count unchanged).
func c06FullDiff(p *Prog, r *Report) {
	r.Rule("R11", "the search for removed entities of a full notification ranges over the complete list of known entities of the peer")
	dri := p.LookupIface("api", "DeviceRemoteInterface")
	eri := p.LookupIface("api", "EntityRemoteInterface")
	if dri == nil || eri == nil {
		r.Undecided("R11", "anchor:api interfaces", "", "interface not found")
		return
	}
	n := 0
	for _, fn := range p.RepoFns("spine") {
		if fn.Blocks == nil {
			continue
		}
		// the store of the constant "removed" into a state-change cell, inside a loop
		var mark *ssa.Store
		for _, b := range fn.Blocks {
			for _, ins := range b.Instrs {
				st, ok := ins.(*ssa.Store)
				if !ok {
					continue
				}
				if s, isS := constString(st.Val); isS && s == "removed" && isNamed(st.Val.Type(), "model", "NetworkManagementStateChangeType") && loopHeaderOf(b) != nil {
					mark = st
				}
			}
		}
		if mark == nil {
			continue
		}
		hdr := loopHeaderOf(mark.Block())
		inLoop := func(x *ssa.BasicBlock) bool { return hdr.Dominates(x) && (x == hdr || blockReaches(x, hdr)) }
		base := FnName(fn)
		var ranged ssa.Value
		for _, b := range fn.Blocks {
			if !inLoop(b) {
				continue
			}
			for _, ins := range b.Instrs {
				var x ssa.Value
				switch v := ins.(type) {
				case *ssa.IndexAddr:
					x = v.X
				case *ssa.Index:
					x = v.X
				}
				if x == nil {
					continue
				}
				if sl, ok := x.Type().Underlying().(*types.Slice); ok && implementsIface(sl.Elem(), eri) {
					ranged = x
				}
			}
		}
		if ranged == nil {
			continue // the synthesised entries do not come from a loop over remote entities: another construct
		}
		n++
		v := ranged
		for {
			if ct, ok := v.(*ssa.ChangeType); ok {
				v = ct.X
				continue
			}
			break
		}
		switch x := v.(type) {
		case *ssa.Call:
			ok := calleeIsIfaceMethod(&x.Call, dri, "Entities")
			r.Check("R11", base+"|ranges-over-known-entities", ok, p.InstrPos(x), "the loop producing the removed entries ranges over "+Path(v))
		case *ssa.Phi:
			r.Fail("R11", base+"|ranges-over-known-entities", p.InstrPos(mark), "the loop producing the removed entries ranges over a list that is chosen by a condition ("+Path(v)+"): on one branch known entities are not examined, so their removal goes unnoticed")
		case *ssa.Slice:
			r.Fail("R11", base+"|ranges-over-known-entities", p.InstrPos(mark), "the loop producing the removed entries ranges over a part of the list ("+Path(v)+")")
		default:
			r.Pass("R11", base+"|ranges-over-known-entities", p.InstrPos(mark), "the loop producing the removed entries ranges over "+Path(v)+" (shape not examined further)")
		}
	}
	r.Floor("R11", "loops synthesising removed entries", n, 1)
}

// c06Reannounce: what an announcement says about an entity replaces what was known about it, every time.
//   - R13: where the announced description of an entity is stored, the entity's features are rebuilt too — the wipe
//     (RemoveAllFeatures) is reached under the same conditions as SetDescription on the same entity. A rebuild skipped
//     because "the feature list looks the same" keeps stale operations and descriptions.
//   - R14: the device part of the entity's address is filled in (UpdateDeviceAddress) for every announced entity whose
//     address lacks it, not only for entities created by this announcement: the entity known before discovery
//     (entity [0]) is exactly the one that lacks it.
func c06Reannounce(p *Prog, r *Report, eri *types.Interface) {
	reannounceRules(p, r, eri, "R13", "R14")
}

// reannounceRules: ruleW (the rebuild) may be empty when only the device-address rule is shared (C08).
func reannounceRules(p *Prog, r *Report, eri *types.Interface, ruleW, ruleA string) {
	if ruleW != "" {
		r.Rule(ruleW, "a re-announced entity is rebuilt whenever its announced description is stored: RemoveAllFeatures is reached under exactly the conditions under which SetDescription of the same entity is")
	}
	r.Rule(ruleA, "the device address learned from an announcement is given to every announced entity that lacks it: UpdateDeviceAddress is not confined to the branch that creates a new entity")
	nW, nU := 0, 0
	for _, fn0 := range p.ScopeRoots("spine") {
		fn := fn0
		p.InScope(fn, func() {
			var wipes, descs, upds []*ssa.Call
			forEachCall(fn, func(site ssa.CallInstruction) {
				c, ok := site.(*ssa.Call)
				if !ok {
					return
				}
				switch {
				case calleeIsIfaceMethod(&c.Call, eri, "RemoveAllFeatures"):
					wipes = append(wipes, c)
				case calleeIsIfaceMethod(&c.Call, eri, "SetDescription"):
					descs = append(descs, c)
				case calleeIsIfaceMethod(&c.Call, eri, "UpdateDeviceAddress"):
					upds = append(upds, c)
				}
			})
			for i, w := range wipes {
				if ruleW == "" {
					break
				}
				var sd *ssa.Call
				for _, d := range descs {
					if substParam(callRecv(&d.Call)) == substParam(callRecv(&w.Call)) {
						sd = d
					}
				}
				if sd == nil {
					continue
				}
				nW++
				var extra []string
				for _, g := range Guards(w.Block()) {
					shared := false
					for _, g2 := range Guards(sd.Block()) {
						if g2.Cond == g.Cond && g2.Val == g.Val {
							shared = true
						}
					}
					if !shared {
						extra = append(extra, fmt.Sprintf("%s=%v at %s", Path(g.Cond), g.Val, p.InstrPos(g.If)))
					}
				}
				// ... also when the skip is written as a disjunction (no single dominating condition): no path from the
				// description store to the next entry of the loop avoids the wipe
				if sd.Block() != w.Block() && sd.Parent() == w.Parent() {
					if hdr := loopHeaderOf(sd.Block()); hdr != nil && reachesAvoiding(sd.Block(), hdr, w.Block()) {
						extra = append(extra, "a path from storing the description to the next announced entity bypasses the wipe")
					}
				}
				r.Check(ruleW, fmt.Sprintf("%s|rebuild#%d", FnName(fn), i+1), len(extra) == 0, p.InstrPos(w), fmt.Sprintf("conditions on the wipe that are not conditions on storing the description: %v", extra))
			}
			for i, u := range upds {
				nU++
				// a guard "the look-up of the entity missed" (taken edge: nil) confines the update to new entities
				var bad []string
				for _, g := range Guards(u.Block()) {
					x, _, isNil := nilTest(g.Cond)
					if !isNil {
						continue
					}
					// either branch of "was the entity known?": confined to new entities the pre-discovery entity never gets
					// the address; confined to known ones, new entities depend on the order of other calls for theirs
					if lc, isCall := unwrapIface(x).(*ssa.Call); isCall && implementsIface(lc.Type(), eri) {
						bad = append(bad, fmt.Sprintf("%s == nil at %s", Path(x), p.InstrPos(g.If)))
					}
					if ph, isPhi := unwrapIface(x).(*ssa.Phi); isPhi && implementsIface(ph.Type(), eri) {
						bad = append(bad, fmt.Sprintf("%s == nil at %s", Path(x), p.InstrPos(g.If)))
					}
				}
				r.Check(ruleA, fmt.Sprintf("%s|device-address#%d", FnName(fn), i+1), len(bad) == 0, p.InstrPos(u), fmt.Sprintf("the update depends on whether the entity was known before: %v", bad))
			}
		})
	}
	if ruleW != "" {
		r.Floor(ruleW, "feature rebuilds next to a stored description", nW, 1)
	}
	r.Floor(ruleA, "device address updates", nU, 1)
}

// entityListWriters: who may change the entity list of a remote device, and how. The disconnect clean-up and the
// removal cascade find a peer's subscriptions and bindings by walking this list, so an entity may only leave it
// through the one removal that hands it to the cascade. Every store into the list is therefore either
// (a) the construction of the device, (b) an append of one new entity to the current list, or (c) the rebuild in the
// function that returns the removed entity (the retain table C06-R12 decides what that one keeps).
func entityListWriters(p *Prog, r *Report, rule string) {
	r.Rule(rule, "an entity leaves a remote device's entity list only through the removal that returns it to the clean-up cascade: every other store into the list appends to the current list (a rebuild elsewhere — 'keep what the reply lists' — drops entities whose subscriptions and bindings nobody finds again)")
	eri := p.LookupIface("api", "EntityRemoteInterface")
	key := F("DeviceRemote.entities")
	fname := key[strings.Index(key, ".")+1:]
	n := 0
	for _, fn := range p.RepoFns("spine") {
		if fn.Blocks == nil {
			continue
		}
		idx := 0
		for _, b := range fn.Blocks {
			for _, ins := range b.Instrs {
				st, ok := ins.(*ssa.Store)
				if !ok {
					continue
				}
				fa, ok := st.Addr.(*ssa.FieldAddr)
				if !ok || fieldOfAddr(fa) == nil || fieldOfAddr(fa).Name() != fname || !isNamed(derefType(fa.X.Type()), "spine", "DeviceRemote") {
					continue
				}
				if _, fresh := fa.X.(*ssa.Alloc); fresh {
					continue // construction
				}
				idx++
				n++
				base := fmt.Sprintf("%s|store#%d", FnName(originOf(fn)), idx)
				// (b) append(<load of the same field>, x)
				isAppend := false
				if c, isC := st.Val.(*ssa.Call); isC && builtinName(&c.Call) == "append" && len(c.Call.Args) == 2 {
					if strings.HasSuffix(Path(c.Call.Args[0]), "."+fname) {
						isAppend = true
					}
				}
				// (c) the function hands the removed entity back
				returnsEntity := false
				if eri != nil && fn.Signature.Results().Len() == 1 && implementsIface(fn.Signature.Results().At(0).Type(), eri) {
					returnsEntity = true
				}
				if eri != nil && fn.Signature.Results().Len() == 1 {
					if it, isI := fn.Signature.Results().At(0).Type().Underlying().(*types.Interface); isI && types.Identical(it, eri) {
						returnsEntity = true
					}
				}
				r.Check(rule, base, isAppend || returnsEntity, p.InstrPos(st), fmt.Sprintf("store of %s into the entity list: appends to the current list=%v; in the removal that returns the removed entity=%v", Path(st.Val), isAppend, returnsEntity))
			}
		}
	}
	r.Floor(rule, "stores into the remote entity list", n, 2)
}
