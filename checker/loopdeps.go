package main

import (
	"fmt"
	"go/token"
	"go/types"

	"golang.org/x/tools/go/ssa"
)

// Loop-carried conditions.
//
// A loop that handles the entries of a list one by one (the entries of a notification, the subscribers of a
// feature, the handlers of the bus) must handle every entry on its own merits: whether the action for entry k
// runs may depend on entry k and on loop-invariant state, never on what happened for the entries before it. In
// SSA a dependence on earlier iterations is visible as a phi in the loop header that is not the induction
// variable of the range. loopCarriedGuards lists the guards of an instruction that depend on such a phi.

// isInductionPhi: the phi counts the iterations of a range loop (one edge is phi+const) or steps an iterator.
func isInductionPhi(ph *ssa.Phi) bool {
	for _, e := range ph.Edges {
		if bo, ok := e.(*ssa.BinOp); ok && (bo.Op == token.ADD || bo.Op == token.SUB) {
			if bo.X == ssa.Value(ph) || bo.Y == ssa.Value(ph) {
				return true
			}
		}
	}
	return false
}

// carriedPhis collects the non-induction phis of loop headers enclosing `at` that v depends on.
func carriedPhis(v ssa.Value, at *ssa.BasicBlock, depth int, seen map[ssa.Value]bool, out *[]*ssa.Phi) {
	if v == nil || depth > 8 || seen[v] {
		return
	}
	seen[v] = true
	switch x := v.(type) {
	case *ssa.Phi:
		b := x.Block()
		isHeader := false
		for _, pr := range b.Preds {
			if b.Dominates(pr) {
				isHeader = true
			}
		}
		if isHeader && b.Dominates(at) {
			if !isInductionPhi(x) {
				*out = append(*out, x)
			}
			return
		}
		for _, e := range x.Edges {
			carriedPhis(e, at, depth+1, seen, out)
		}
	case *ssa.BinOp:
		carriedPhis(x.X, at, depth+1, seen, out)
		carriedPhis(x.Y, at, depth+1, seen, out)
	case *ssa.UnOp:
		if x.Op == token.MUL {
			// a load: loop-carried through memory only if the cell is a local written inside the loop
			if al, ok := x.X.(*ssa.Alloc); ok && al.Heap && al.Referrers() != nil {
				hdr := loopHeaderOf(at)
				for _, ref := range *al.Referrers() {
					if st, ok := ref.(*ssa.Store); ok && st.Addr == ssa.Value(al) && hdr != nil && hdr.Dominates(st.Block()) && blockReachesOrSame(st.Block(), hdr) {
						if !hdr.Dominates(al.Block()) {
							// declared outside the loop, assigned inside: carried
							*out = append(*out, nil)
						}
					}
				}
			}
			return
		}
		carriedPhis(x.X, at, depth+1, seen, out)
	case *ssa.Call:
		if bn := builtinName(&x.Call); bn == "len" || bn == "cap" {
			for _, a := range x.Call.Args {
				carriedPhis(a, at, depth+1, seen, out)
			}
		}
	case *ssa.ChangeType:
		carriedPhis(x.X, at, depth+1, seen, out)
	case *ssa.Convert:
		carriedPhis(x.X, at, depth+1, seen, out)
	}
}

// loopCarriedGuards lists the guards of ins (conditions on the dominator path from the header of its innermost
// loop) that depend on state carried over from earlier iterations of that loop. "no loop" if ins is not in a loop.
func loopCarriedGuards(ins ssa.Instruction) (res []string, inLoop bool) {
	b := ins.Block()
	hdr := loopHeaderOf(b)
	if hdr == nil {
		return nil, false
	}
	for _, g := range rawGuards(b) {
		// only guards evaluated inside the loop
		ci, ok := g.Cond.(ssa.Instruction)
		if !ok || !hdr.Dominates(ci.Block()) {
			continue
		}
		var phis []*ssa.Phi
		carriedPhis(g.Cond, b, 0, map[ssa.Value]bool{}, &phis)
		for _, ph := range phis {
			name := "a local assigned in an earlier iteration"
			if ph != nil {
				name = ph.Comment
				if name == "" {
					name = ph.Name()
				}
				if _, isBool := ph.Type().Underlying().(*types.Basic); isBool {
					name = fmt.Sprintf("%s (%s)", name, ph.Type())
				}
			}
			res = append(res, fmt.Sprintf("condition at %s depends on %s carried over from earlier iterations", ins.Parent().Prog.Fset.Position(ci.Pos()), name))
		}
	}
	return res, true
}
