package main

import (
	"fmt"
	"go/types"
	"strings"

	"golang.org/x/tools/go/ssa"
)

func init() {
	register("C10", true,
		"Retain-predicate truth tables for every removal that is scoped to a peer or an entity (the two per-entity registry removals must compare the peer as well as the entity; the four client-side cache clean-ups keep ⇔ ¬device equal resp. ¬(device ∧ entity equal)), lockset/dominance rule that whoever drops pending-approval entries stops their timers in the same critical section, structural completeness rule on RemoveRemoteDevice (every clean-up step is performed, unconditionally, for the removed peer, for every feature of every local entity; the device map is changed under its lock), rules that a removal event is published exactly in the removal branch of each registry loop and that RemoveRemoteDeviceConnection publishes exactly one device-removal event. Decided: what teardown compares and which steps it performs. Not decided: 'and only' beyond the retain predicates; no further datagram to the removed connection in general (only the timer route is covered).",
		checkC10)
}

func checkC10(p *Prog, r *Report) {
	ls := BuildLockset(p, "spine", "model")
	r.Rule("R1", "per-entity registry removals keep an entry ⇔ ¬(client device ∧ client entity equal); client-side clean-ups keep ⇔ ¬device equal (device clean-up) resp. ¬(device ∧ entity equal) (entity clean-up)")
	applyRetain(p, r, "R1", "spine", "SubscriptionManager", "RemoveSubscriptionsForEntity", retainSpec{Field: F("SubscriptionManager.subscriptionEntries"),
		Required: map[string]string{"client.device": "ClientFeature.Device().Ski()|ClientFeature.Address().Device", "client.entity": "ClientFeature.Address().Entity"}})
	applyRetain(p, r, "R1", "spine", "BindingManager", "RemoveBindingsForEntity", retainSpec{Field: F("BindingManager.bindingEntries"),
		Required: map[string]string{"client.device": "ClientFeature.Device().Ski()|ClientFeature.Address().Device", "client.entity": "ClientFeature.Address().Entity"}})
	for _, f := range []string{F("FeatureLocal.subscriptions"), F("FeatureLocal.bindings")} {
		applyRetain(p, r, "R1", "spine", "FeatureLocal", "CleanRemoteDeviceCaches", retainSpec{Field: f, Required: map[string]string{"device": "=Device"}})
		applyRetain(p, r, "R1", "spine", "FeatureLocal", "CleanRemoteEntityCaches", retainSpec{Field: f, Required: map[string]string{"device": "=Device", "entity": "=Entity"}})
	}

	r.Rule("R6", "teardown rebuilds the registries and the client-side caches atomically: the list a rebuilt list was computed from is read in the critical section that stores the result (no entry of another peer added meanwhile is lost)")
	for _, f := range []string{F("SubscriptionManager.subscriptionEntries"), F("BindingManager.bindingEntries"), F("FeatureLocal.subscriptions"), F("FeatureLocal.bindings")} {
		rebuildAtomic(p, ls, r, "R6", f, 2)
	}
	r.Rule("R8", "every hand-written element-wise comparison of two slices of one type compares their lengths for equality: entity addresses are never matched by prefix (shared lint, C20-R6)")
	sliceEqualityHelpers(p, r, "R8")
	capturedStateMapRule(p, r, "R14")
	r.Rule("R12", "RemoveEntityByAddress drops exactly the entity it hands back to the cascade (retain truth table: keep ⇔ not the entity found for the address): an entry dropped on the side keeps its subscriptions, bindings and caches — also past the disconnect, which walks the remaining entities (shared with C06-R12)")
	applyRetain(p, r, "R12", "spine", "DeviceRemote", "RemoveEntityByAddress", retainSpec{Field: F("DeviceRemote.entities"), Required: map[string]string{"entity": "=$"}})
	entityListWriters(p, r, "R13")
	r.Rule("R7", "entity removal cascade (C06-R1/R2): the entity removed is the one announced as removed, and the subscription, binding and client-cache clean-ups are applied to that entity's own address, only if it was found")
	entityRemovalCascade(p, r, "R7", "R7")
	approvalCleanupRule(p, r, "R9")
	r.Rule("R10", "a list field whose slice header a getter hands out (callers iterate it without the lock) is never modified in place: no element store, no copy into it, no in-place library routine (slices.DeleteFunc, sort.Slice, …); removal builds a new slice")
	escapedListsImmutable(p, ls, r, "R10", nil)
	timersStoppedRule(p, ls, r, "R2")

	r.Rule("R3", "RemoveRemoteDevice removes the peer's subscriptions and bindings, deletes it from the device map under the lock, and cleans approval and client-side caches of every feature of every local entity — each step unconditional once the device was found; the per-device registry removals visit every entity of the device")
	c10Teardown(p, ls, r)

	r.Rule("R4", "each per-entity registry removal publishes its removal event exactly in the branch in which the entry is not kept; RemoveRemoteDeviceConnection publishes exactly one device-removal event")
	c10Events(p, r)
	r.Rule("R11", "removing one peer does not detach the others from the stack's own event handling: the core handler is unsubscribed only under 'the remote-device map is empty', the size read after the removal in the same critical section (shared with C15-R8)")
	coreUnsubscribeRule(p, ls, r, "R11")
	r.Assumes("reflect.DeepEqual and getters are uninterpreted; the retain predicates decide which components are compared and how the comparisons are combined")
}

func c10Teardown(p *Prog, ls *Lockset, r *Report) {
	dli := p.LookupIface("api", "DeviceLocalInterface")
	smi := p.LookupIface("api", "SubscriptionManagerInterface")
	bmi := p.LookupIface("api", "BindingManagerInterface")
	fli := p.LookupIface("api", "FeatureLocalInterface")
	if dli == nil || smi == nil || bmi == nil || fli == nil {
		r.Undecided("R3", "anchor:api interfaces", "", "interface not found")
		return
	}
	for _, fn := range p.ImplsOf(dli, "RemoveRemoteDevice") {
		fn := fn
		p.InScope(fn, func() { c10TeardownOne(p, ls, r, fn, smi, bmi, fli) })
	}
	c10TeardownRest(p, ls, r)
}

func c10TeardownOne(p *Prog, ls *Lockset, r *Report, fn *ssa.Function, smi, bmi, fli *types.Interface) {
	{
		base := FnName(fn)
		// the found device
		var found *ssa.Call
		forEachCall(fn, func(site ssa.CallInstruction) {
			if c, ok := site.(*ssa.Call); ok {
				if callee := c.Call.StaticCallee(); callee != nil && originName(callee) == "RemoteDeviceForSki" {
					found = c
				}
			}
		})
		steps := map[string]*ssa.Call{}
		forEachCall(fn, func(site ssa.CallInstruction) {
			c, ok := site.(*ssa.Call)
			if !ok {
				return
			}
			switch {
			case calleeIsIfaceMethod(&c.Call, smi, "RemoveSubscriptionsForDevice"):
				steps["subscriptions"] = c
			case calleeIsIfaceMethod(&c.Call, bmi, "RemoveBindingsForDevice"):
				steps["bindings"] = c
			case calleeIsIfaceMethod(&c.Call, fli, "CleanWriteApprovalCaches"):
				steps["approval-caches"] = c
			case calleeIsIfaceMethod(&c.Call, fli, "CleanRemoteDeviceCaches"):
				steps["client-caches"] = c
			case builtinName(&c.Call) == "delete" && strings.HasSuffix(Path(c.Call.Args[0]), "."+FN("DeviceLocal.remoteDevices")):
				steps["map-delete"] = c
			}
		})
		for _, name := range []string{"subscriptions", "bindings", "map-delete", "approval-caches", "client-caches"} {
			c := steps[name]
			if c == nil {
				r.Fail("R3", base+"|"+name, p.Pos(fn.Pos()), "step missing")
				continue
			}
			// unconditional: only the device-found test and loop bounds guard the step
			extra := 0
			for _, g := range Guards(c.Block()) {
				if x, trueNil, ok := nilTest(g.Cond); ok && found != nil && unwrapIface(x) == ssa.Value(found) && trueNil != g.Val {
					continue
				}
				if bo, ok := g.Cond.(*ssa.BinOp); ok {
					if _, isLen := bo.Y.(*ssa.Call); isLen {
						continue
					}
				}
				extra++
			}
			okArg := true
			desc := ""
			switch name {
			case "subscriptions", "bindings":
				a := unwrapIface(callArgs(&c.Call)[0])
				okArg = found != nil && a == ssa.Value(found)
				desc = "argument " + Path(a)
			case "map-delete":
				okArg = Path(c.Call.Args[1]) == "param:"+fn.Params[1].Name()
				held := false
				for lp := range ls.At(c) {
					if strings.HasPrefix(lp, "recv.") {
						held = true
					}
				}
				okArg = okArg && held
				desc = fmt.Sprintf("key %s, locks %s", Path(c.Call.Args[1]), ls.At(c))
			case "approval-caches":
				okArg = Path(callArgs(&c.Call)[0]) == "param:"+fn.Params[1].Name() && strings.HasSuffix(Path(c.Call.Value), ".Entities()[].Features()[]")
				desc = fmt.Sprintf("on %s with %s", Path(c.Call.Value), Path(callArgs(&c.Call)[0]))
			case "client-caches":
				okArg = strings.HasSuffix(Path(c.Call.Value), ".Entities()[].Features()[]") && deviceAddressOf(callArgs(&c.Call)[0], found)
				desc = fmt.Sprintf("on %s with the address of the removed device: %v", Path(c.Call.Value), deviceAddressOf(callArgs(&c.Call)[0], found))
			}
			r.Check("R3", base+"|"+name, extra == 0 && okArg, p.InstrPos(c), fmt.Sprintf("%d extra conditions; %s", extra, desc))
		}
	}
}

func c10TeardownRest(p *Prog, ls *Lockset, r *Report) {
	// per-device removals visit every entity
	for _, m := range []struct {
		typ, dev, ent string
	}{{"SubscriptionManager", "RemoveSubscriptionsForDevice", "RemoveSubscriptionsForEntity"}, {"BindingManager", "RemoveBindingsForDevice", "RemoveBindingsForEntity"}} {
		fn := p.Method("spine", m.typ, m.dev)
		if fn == nil {
			r.Undecided("R3", "anchor:spine."+m.typ+"."+m.dev, "", "method not found")
			continue
		}
		var call *ssa.Call
		forEachCall(fn, func(site ssa.CallInstruction) {
			if c, ok := site.(*ssa.Call); ok {
				if callee := c.Call.StaticCallee(); callee != nil && originName(callee) == m.ent {
					call = c
				}
			}
		})
		ok := call != nil && cyclic(call.Block()) && strings.HasSuffix(Path(callArgs(&call.Call)[0]), ".Entities()[]") && strings.HasPrefix(Path(callArgs(&call.Call)[0]), "param:")
		extra := 0
		if call != nil {
			for _, g := range Guards(call.Block()) {
				if x, _, isNil := nilTest(g.Cond); isNil && strings.HasPrefix(Path(x), "param:") {
					continue
				}
				if bo, isB := g.Cond.(*ssa.BinOp); isB {
					if _, isLen := bo.Y.(*ssa.Call); isLen {
						continue
					}
				}
				extra++
			}
		}
		r.Check("R3", "spine."+m.typ+"."+m.dev+"|every-entity", ok && extra == 0, p.Pos(fn.Pos()), "the per-entity removal is applied to every element of the device's Entities()")
	}
}

// deviceAddressOf: v is &DeviceAddressType{Device: <found>.Address()}.
func deviceAddressOf(v ssa.Value, found *ssa.Call) bool {
	v = canonValue(v)
	if _, isPar := v.(*ssa.Parameter); isPar {
		v = canonValue(substParam(v)) // handed to an extracted helper
	}
	al, ok := v.(*ssa.Alloc)
	if !ok || al.Referrers() == nil || found == nil {
		return false
	}
	for _, ref := range *al.Referrers() {
		if fa, ok := ref.(*ssa.FieldAddr); ok && fieldOfAddr(fa).Name() == "Device" {
			for _, r2 := range *fa.Referrers() {
				if st, ok := r2.(*ssa.Store); ok && st.Addr == ssa.Value(fa) {
					if c, ok := st.Val.(*ssa.Call); ok && c.Call.IsInvoke() && c.Call.Method.Name() == "Address" && canonValue(c.Call.Value) == canonValue(found) {
						return true
					}
				}
			}
		}
	}
	return false
}

func eventFields(v ssa.Value) map[string]ssa.Value {
	got := map[string]ssa.Value{}
	u, ok := v.(*ssa.UnOp)
	if !ok {
		return got
	}
	al, ok := u.X.(*ssa.Alloc)
	if !ok || al.Referrers() == nil {
		return got
	}
	for _, ref := range *al.Referrers() {
		if fa, ok := ref.(*ssa.FieldAddr); ok {
			for _, r2 := range *fa.Referrers() {
				if st, ok := r2.(*ssa.Store); ok && st.Addr == ssa.Value(fa) {
					got[fieldOfAddr(fa).Name()] = st.Val
				}
			}
		}
	}
	return got
}

func c10Events(p *Prog, r *Report) {
	evConst := func(name string) int64 {
		v, _ := constOf(p, "api", name)
		return v
	}
	for _, m := range []struct {
		typ, ent, field, ev string
	}{{"SubscriptionManager", "RemoveSubscriptionsForEntity", "subscriptionEntries", "EventTypeSubscriptionChange"}, {"BindingManager", "RemoveBindingsForEntity", "bindingEntries", "EventTypeBindingChange"}} {
		fn := p.Method("spine", m.typ, m.ent)
		if fn == nil {
			r.Undecided("R4", "anchor:spine."+m.typ+"."+m.ent, "", "method not found")
			continue
		}
		var pub *ssa.Call
		var keep ssa.Instruction
		var pubAt ssa.Instruction
		p.InScope(fn, func() {
			forEachCall(fn, func(site ssa.CallInstruction) {
				c, ok := site.(*ssa.Call)
				if !ok {
					return
				}
				if staticCallee(&c.Call, repoMod+"/spine", "events", "Publish") {
					pub = c
					pubAt = liftInScope(c) // the publication may sit in an extracted helper: its place in the loop is the helper's call
				}
				if builtinName(&c.Call) == "append" && c.Parent() == fn {
					keep = c
				}
			})
		})
		base := "spine." + m.typ + "." + m.ent
		if pub == nil || keep == nil {
			r.Fail("R4", base+"|event", p.Pos(fn.Pos()), fmt.Sprintf("publication found=%v, keep-append found=%v", pub != nil, keep != nil))
			continue
		}
		// within one iteration either the entry is kept or the event is published
		header := loopHeaderOf(keep.Block())
		excl := pubAt != nil && pubAt.Parent() == fn && !reachesAvoiding(keep.Block(), pubAt.Block(), header) && !reachesAvoiding(pubAt.Block(), keep.Block(), header)
		ev := eventFields(pub.Call.Args[len(pub.Call.Args)-1])
		et, _ := constInt(ev["EventType"])
		ct, _ := constInt(ev["ChangeType"])
		okEv := et == evConst(m.ev) && ct == evConst("ElementChangeRemove") && ev["Device"] != nil && ev["Entity"] != nil
		r.Check("R4", base+"|event", pubAt != nil && cyclic(pubAt.Block()) && excl && okEv, p.InstrPos(pub), fmt.Sprintf("publication in the loop, exclusive with keeping the entry: %v; event type %d change %d", excl, et, ct))
	}
	dli := p.LookupIface("api", "DeviceLocalInterface")
	for _, fn := range p.ImplsOf(dli, "RemoveRemoteDeviceConnection") {
		var pubs []*ssa.Call
		var teardown *ssa.Call
		forEachCall(fn, func(site ssa.CallInstruction) {
			c, ok := site.(*ssa.Call)
			if !ok {
				return
			}
			if staticCallee(&c.Call, repoMod+"/spine", "events", "Publish") {
				pubs = append(pubs, c)
			}
			if calleeIsIfaceMethod(&c.Call, dli, "RemoveRemoteDevice") {
				teardown = c
			}
		})
		ok := len(pubs) == 1 && teardown != nil && len(Guards(pubs[0].Block())) == 0 && len(Guards(teardown.Block())) == 0
		desc := ""
		if ok {
			ev := eventFields(pubs[0].Call.Args[len(pubs[0].Call.Args)-1])
			et, _ := constInt(ev["EventType"])
			ct, _ := constInt(ev["ChangeType"])
			ok = et == evConst("EventTypeDeviceChange") && ct == evConst("ElementChangeRemove") && ev["Ski"] != nil && Path(ev["Ski"]) == "param:"+fn.Params[1].Name() && Path(callArgs(&teardown.Call)[0]) == "param:"+fn.Params[1].Name()
			desc = fmt.Sprintf("event type %d change %d ski %s", et, ct, Path(ev["Ski"]))
		}
		r.Check("R4", FnName(fn), ok, p.Pos(fn.Pos()), fmt.Sprintf("%d publications, teardown call found=%v, both unconditional; %s", len(pubs), teardown != nil, desc))
	}
}

func constOf(p *Prog, short, name string) (int64, bool) {
	o := p.TypesPkg(short).Scope().Lookup(name)
	if o == nil {
		return -1, false
	}
	return constIntOfObj(o)
}

// loopHeaderOf: the nearest dominating block that is the target of a back edge from a block it dominates.
func loopHeaderOf(b *ssa.BasicBlock) *ssa.BasicBlock {
	for d := b; d != nil; d = d.Idom() {
		for _, pr := range d.Preds {
			if d.Dominates(pr) && blockReaches(b, pr) {
				return d
			}
		}
	}
	return nil
}

// reachesAvoiding: can control flow from a to b without passing through avoid?
func reachesAvoiding(a, b, avoid *ssa.BasicBlock) bool {
	if a == b {
		return true
	}
	seen := map[*ssa.BasicBlock]bool{a: true}
	work := []*ssa.BasicBlock{a}
	for len(work) > 0 {
		x := work[len(work)-1]
		work = work[:len(work)-1]
		for _, s := range x.Succs {
			if s == avoid {
				continue
			}
			if s == b {
				return true
			}
			if !seen[s] {
				seen[s] = true
				work = append(work, s)
			}
		}
	}
	return false
}

// approvalCleanupRule: the per-peer clean-up of the write-approval state removes
// the peer's whole entry from the pending map and from the tally, on every path.
func approvalCleanupRule(p *Prog, r *Report, rule string) {
	r.Rule(rule, "the per-peer clean-up of the write-approval state deletes the peer's entry (keyed by its SKI argument) from the pending-approval map and from the tally, on every path to the return: a write of a peer that is gone can no longer be approved")
	fli := p.LookupIface("api", "FeatureLocalInterface")
	if fli == nil {
		r.Undecided(rule, "anchor:api.FeatureLocalInterface", "", "interface not found")
		return
	}
	n := 0
	seen := map[*ssa.Function]bool{}
	for _, fn := range p.ImplsOf(fli, "CleanWriteApprovalCaches") {
		// promotion wrappers delegate to the one implementation
		impl := fn
		if isWrapper(fn) {
			forEachCall(fn, func(site ssa.CallInstruction) {
				if c := site.Common().StaticCallee(); c != nil && c.Name() == fn.Name() {
					impl = c
				}
			})
		}
		if seen[impl] || len(impl.Params) < 2 {
			continue
		}
		seen[impl] = true
		n++
		for _, role := range []string{"FeatureLocal.pendingWriteApprovals", "FeatureLocal.writeApprovalReceived"} {
			fname := FN(role)
			var del *ssa.Call
			forEachCall(impl, func(site ssa.CallInstruction) {
				c, ok := site.(*ssa.Call)
				if !ok || builtinName(&c.Call) != "delete" {
					return
				}
				if Path(c.Call.Args[0]) == "recv."+fname && c.Call.Args[1] == ssa.Value(impl.Params[1]) {
					del = c
				}
			})
			key := fmt.Sprintf("%s|%s", FnName(impl), role)
			if del == nil {
				r.Fail(rule, key, p.Pos(impl.Pos()), "no deletion of the peer's entry from "+role)
				continue
			}
			// on every path: the deletion's block post-dominates the entry, i.e. no return is reachable without passing it
			bypass := false
			var dfs func(b *ssa.BasicBlock, seenB map[*ssa.BasicBlock]bool)
			dfs = func(b *ssa.BasicBlock, seenB map[*ssa.BasicBlock]bool) {
				if b == del.Block() || seenB[b] {
					return
				}
				seenB[b] = true
				if _, isRet := b.Instrs[len(b.Instrs)-1].(*ssa.Return); isRet {
					bypass = true
				}
				for _, s := range b.Succs {
					dfs(s, seenB)
				}
			}
			dfs(impl.Blocks[0], map[*ssa.BasicBlock]bool{})
			r.Check(rule, key, !bypass, p.InstrPos(del), fmt.Sprintf("the peer's entry is deleted from %s; a return is reachable without the deletion: %v", role, bypass))
		}
	}
	r.Floor(rule, "implementations of the per-peer clean-up", n, 1)
}

// timersStoppedRule: shared by C10 (teardown) and C01 (no stale timeout answers a later write).
func timersStoppedRule(p *Prog, ls *Lockset, r *Report, rule string) {
	r.Rule(rule, "a function that drops all pending approvals of a peer stops their timers first, in the same critical section")
	nDrop := 0
	for _, fn := range ls.fns {
		if isWrapper(fn) {
			continue
		}
		for _, a := range ls.accessesIn(F("FeatureLocal.pendingWriteApprovals"), fn) {
			del, ok := a.Ins.(*ssa.Call)
			if !ok || builtinName(&del.Call) != "delete" || !loadsFieldDirect(del.Call.Args[0], a.Field) {
				continue // only deletions of a whole peer entry (outer map)
			}
			nDrop++
			// the timers of the peer entry: everything derived from the look-up of the outer map with the deleted key
			var taint map[ssa.Value]bool
			for _, b := range fn.Blocks {
				for _, ins := range b.Instrs {
					if lk, isLk := ins.(*ssa.Lookup); isLk && loadsFieldDirect(lk.X, a.Field) && Path(lk.Index) == Path(del.Call.Args[1]) {
						taint = forwardTaint(lk)
					}
				}
			}
			var stop *ssa.Call
			forEachCall(fn, func(site ssa.CallInstruction) {
				c, ok := site.(*ssa.Call)
				if !ok || taint == nil {
					return
				}
				if callee := c.Call.StaticCallee(); callee != nil && fnPkgPath(callee) == "time" && callee.Name() == "Stop" && taint[c.Call.Args[0]] {
					stop = c
				}
			})
			ok = stop != nil && cyclic(stop.Block()) && len(ls.CommonSections(stop, del)) > 0 && blockReaches(stop.Block(), del.Block()) && !blockReaches(del.Block(), stop.Block())
			r.Check(rule, FnName(fn)+"|stops-timers", ok, p.InstrPos(del), "every timer of the dropped peer entry is stopped before the entry is deleted, under the same lock")
		}
	}
	r.Floor(rule, "functions dropping pending approvals of a peer", nDrop, 1)
}
