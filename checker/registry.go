package main

// Rules shared by the subscription and binding registries (C08, C09, C10).

import (
	"fmt"
	"go/token"
	"go/types"
	"strings"

	"golang.org/x/tools/go/ssa"
)

type mgrSpec struct {
	Type     string // SubscriptionManager | BindingManager
	Field    string // subscriptionEntries | bindingEntries
	NumField string
	Add      string
	Remove   string
	ForEnt   string
	List     string // per-device listing
	OnFeat   string // per-feature listing
	Entry    string // api entry type name
	NeedType bool
}

var subMgr = mgrSpec{Type: "SubscriptionManager", Field: "subscriptionEntries", NumField: "subscriptionNum", Add: "AddSubscription", Remove: "RemoveSubscription", ForEnt: "RemoveSubscriptionsForEntity", List: "Subscriptions", OnFeat: "SubscriptionsOnFeature", Entry: "SubscriptionEntry"}
var bindMgr = mgrSpec{Type: "BindingManager", Field: "bindingEntries", NumField: "bindingNum", Add: "AddBinding", Remove: "RemoveBinding", ForEnt: "RemoveBindingsForEntity", List: "Bindings", OnFeat: "BindingsOnFeature", Entry: "BindingEntry"}

func guardDesc(gs []Guard) string {
	var s []string
	for _, g := range gs {
		d := ""
		if x, trueNil, ok := nilTest(g.Cond); ok {
			if trueNil == g.Val {
				d = Path(x) + "==nil"
			} else {
				d = Path(x) + "!=nil"
			}
		} else {
			d = fmt.Sprintf("%s=%v", Path(g.Cond), g.Val)
		}
		s = append(s, d)
	}
	return strings.Join(s, "; ")
}

// hasNilGuard: among the guards, x (matched by pred on its path/value) is known to be nil / non-nil.
func hasNilGuard(gs []Guard, wantNil bool, pred func(x ssa.Value) bool) bool {
	for _, g := range gs {
		x, trueNil, ok := nilTest(g.Cond)
		if !ok {
			continue
		}
		isNil := trueNil == g.Val
		if isNil == wantNil && pred(x) {
			return true
		}
	}
	return false
}

// unwrapIface strips interface conversions.
func unwrapIface(v ssa.Value) ssa.Value {
	for {
		switch x := v.(type) {
		case *ssa.MakeInterface:
			v = x.X
		case *ssa.ChangeInterface:
			v = x.X
		default:
			return v
		}
	}
}

// resolveCaptured: a read of a variable captured by a function literal is the value the enclosing function
// stored into that variable (assigned once).
func resolveCaptured(v ssa.Value) ssa.Value {
	for d := 0; d < 4; d++ {
		u, ok := v.(*ssa.UnOp)
		if !ok || u.Op != token.MUL {
			return v
		}
		fv, ok := u.X.(*ssa.FreeVar)
		if !ok || fv.Parent() == nil {
			return v
		}
		idx := -1
		for i, q := range fv.Parent().FreeVars {
			if q == fv {
				idx = i
			}
		}
		b := bindingOf(fv.Parent(), idx)
		al, ok := b.(*ssa.Alloc)
		if !ok {
			return v
		}
		sv := singleStore(al)
		if sv == nil {
			return v
		}
		v = sv
	}
	return v
}

// canonValue strips interface conversions and reads of a local variable that is assigned exactly once
// (a variable captured by a closure lives in a cell: every use is a load of that cell).
func canonValue(v ssa.Value) ssa.Value {
	for d := 0; d < 6; d++ {
		v = unwrapIface(resolveCaptured(unwrapIface(v)))
		u, ok := v.(*ssa.UnOp)
		if !ok || u.Op != token.MUL {
			return v
		}
		al, ok := u.X.(*ssa.Alloc)
		if !ok {
			return v
		}
		sv := singleStore(al)
		if sv == nil {
			return v
		}
		v = sv
	}
	return v
}

// grantGuards: the registry insertion is reached only after every grant condition.
func grantGuards(p *Prog, ls *Lockset, r *Report, rule string, m mgrSpec) {
	key := F(m.Type + "." + m.Field)
	ff := ls.Facts(key)
	n := 0
	for _, a := range ff.insAcc {
		if originName(a.Fn) != m.Add {
			continue
		}
		n++
		gs := Guards(a.Ins.Block())
		base := fmt.Sprintf("spine.%s.%s", m.Type, m.Add)
		pos := p.InstrPos(a.Ins)
		var serverF, clientF ssa.Value
		// the features are the results of the two FeatureByAddress look-ups
		forEachCall(a.Fn, func(site ssa.CallInstruction) {
			c, ok := site.(*ssa.Call)
			if !ok || !c.Call.IsInvoke() || c.Call.Method.Name() != "FeatureByAddress" {
				return
			}
			switch {
			case strings.HasPrefix(Path(c.Call.Value), "recv."):
				serverF = c
			case strings.HasPrefix(Path(c.Call.Value), "param:"):
				clientF = c
			}
		})
		if serverF == nil || clientF == nil {
			r.Undecided(rule, base+"|lookups", pos, "the look-ups of the server feature (on the local device) and of the client feature (on the requesting device) were not found")
			continue
		}
		same := func(want ssa.Value) func(ssa.Value) bool {
			return func(x ssa.Value) bool { return canonValue(x) == canonValue(want) }
		}
		r.Check(rule, base+"|server-found", hasNilGuard(gs, false, same(serverF)), pos, "insertion only if the addressed local feature exists; guards: "+guardDesc(gs))
		r.Check(rule, base+"|client-found", hasNilGuard(gs, false, same(clientF)), pos, "insertion only if the client feature exists on the requesting device")
		// the server look-up uses the request's server address, the client look-up the client address
		srvArg := Path(serverF.(*ssa.Call).Call.Args[0])
		cliArg := Path(clientF.(*ssa.Call).Call.Args[0])
		r.Check(rule, base+"|lookup-args", strings.HasSuffix(srvArg, ".ServerAddress") && strings.HasSuffix(cliArg, ".ClientAddress"), pos, fmt.Sprintf("server look-up by %s, client look-up by %s", srvArg, cliArg))
		// role/type checks: calls with the role constant and the feature, result tested == nil
		roleOK := func(role string, feat ssa.Value) (bool, bool) {
			found, typed := false, false
			for _, g := range gs {
				x, trueNil, ok := nilTest(g.Cond)
				if !ok || trueNil != g.Val {
					continue // need: result == nil holds
				}
				call, ok := x.(*ssa.Call)
				if !ok {
					continue
				}
				hasRole, hasFeat, hasType := false, false, false
				for _, arg := range call.Call.Args {
					if s, ok := constString(arg); ok && s == role {
						hasRole = true
					}
					if canonValue(arg) == canonValue(feat) {
						hasFeat = true
					}
					if strings.HasSuffix(Path(arg), ".ServerFeatureType") {
						hasType = true
					}
				}
				if hasRole && hasFeat {
					found = true
					typed = hasType
				}
			}
			return found, typed
		}
		sOK, sTyped := roleOK("server", serverF)
		cOK, cTyped := roleOK("client", clientF)
		r.Check(rule, base+"|server-role-type", sOK && sTyped, pos, "insertion only after the server feature passed the role/type check against the constant server role and the requested feature type")
		r.Check(rule, base+"|client-role-type", cOK && cTyped, pos, "insertion only after the client feature passed the role/type check against the constant client role and the requested feature type")
		// the entry is built from exactly these two features
		entryOK := false
		if st, ok := a.Ins.(*ssa.Store); ok {
			entryOK = entryBuiltFrom(st, serverF, clientF)
		}
		r.Check(rule, base+"|entry", entryOK, pos, "the inserted entry carries the looked-up server feature as ServerFeature and the looked-up client feature as ClientFeature")
	}
	if n == 0 {
		r.Undecided(rule, "spine."+m.Type+"."+m.Add+"|insertion", "", "no insertion into "+key+" found in "+m.Add)
	}
	// the role/type checker itself
	checkerRule(p, r, rule, m)
}

// entryBuiltFrom: the appended element is an allocation whose ServerFeature and
// ClientFeature fields are stored from the given values.
func entryBuiltFrom(st *ssa.Store, serverF, clientF ssa.Value) bool {
	call, ok := st.Val.(*ssa.Call)
	if !ok || builtinName(&call.Call) != "append" || len(call.Call.Args) != 2 {
		return false
	}
	// append(list, slice-literal{entry})
	var entry *ssa.Alloc
	seen := map[ssa.Value]bool{}
	var find func(v ssa.Value, d int)
	find = func(v ssa.Value, d int) {
		if v == nil || seen[v] || d > 8 || entry != nil {
			return
		}
		seen[v] = true
		switch x := v.(type) {
		case *ssa.Slice:
			find(x.X, d+1)
		case *ssa.Alloc:
			if n := namedOf(x.Type()); n != nil && strings.HasSuffix(n.Obj().Name(), "Entry") {
				entry = x
				return
			}
			for _, ref := range *x.Referrers() {
				switch y := ref.(type) {
				case *ssa.IndexAddr:
					for _, r2 := range *y.Referrers() {
						if s2, ok := r2.(*ssa.Store); ok && s2.Addr == ssa.Value(y) {
							find(s2.Val, d+1)
						}
					}
				case *ssa.Store:
					if y.Addr == ssa.Value(x) {
						find(y.Val, d+1)
					}
				}
			}
		}
	}
	find(call.Call.Args[1], 0)
	if entry == nil {
		return false
	}
	got := map[string]ssa.Value{}
	for _, ref := range *entry.Referrers() {
		fa, ok := ref.(*ssa.FieldAddr)
		if !ok {
			continue
		}
		for _, r2 := range *fa.Referrers() {
			if s2, ok := r2.(*ssa.Store); ok && s2.Addr == ssa.Value(fa) {
				got[fieldOfAddr(fa).Name()] = canonValue(s2.Val)
			}
		}
	}
	return got["ServerFeature"] == canonValue(serverF) && got["ClientFeature"] == canonValue(clientF)
}

// checkerRule: the role/type checker called by Add returns nil only if the role
// is the required one (or special) and the type the required one (or generic).
func checkerRule(p *Prog, r *Report, rule string, m mgrSpec) {
	add := p.Method("spine", m.Type, m.Add)
	if add == nil {
		r.Undecided(rule, "anchor:spine."+m.Type+"."+m.Add, "", "method not found")
		return
	}
	var checker *ssa.Function
	forEachCall(add, func(site ssa.CallInstruction) {
		for _, a := range site.Common().Args {
			if s, ok := constString(a); ok && (s == "server" || s == "client") {
				if c := site.Common().StaticCallee(); c != nil && p.IsRepoFn(c) {
					checker = c
				}
			}
		}
	})
	base := "spine." + m.Type + "|role-type-checker"
	if checker == nil {
		r.Undecided(rule, base, p.Pos(add.Pos()), "no role/type checker call found")
		return
	}
	// truth table: with the four atoms Role()==special, Role()==<role parameter>, Type()==<type parameter>,
	// Type()==Generic assigned in all 16 ways, the checker returns nil ⇔ (special ∨ role) ∧ (type ∨ generic)
	okAll := true
	detail := ""
	for m := 0; m < 16; m++ {
		as := map[string]bool{"role.special": m&1 != 0, "role.param": m&2 != 0, "type.param": m&4 != 0, "type.generic": m&8 != 0}
		acc, decided := simulateChecker(checker, as)
		want := (as["role.special"] || as["role.param"]) && (as["type.param"] || as["type.generic"])
		if !decided {
			okAll = false
			detail = "the checker's control flow depends on a condition that is not one of the four role/type comparisons"
			break
		}
		if acc != want {
			okAll = false
			detail = fmt.Sprintf("with %v the checker %s, expected %s", as, map[bool]string{true: "accepts", false: "rejects"}[acc], map[bool]string{true: "accept", false: "reject"}[want])
			break
		}
	}
	r.Check(rule, base, okAll, p.Pos(checker.Pos()), "truth table over Role()==special, Role()==required, Type()==required, Type()==Generic: accepted ⇔ (special ∨ required role) ∧ (required ∨ generic type). "+detail)
}

// simulateChecker walks the checker's CFG under a total assignment of the four atoms.
func simulateChecker(fn *ssa.Function, as map[string]bool) (accepts bool, decided bool) {
	b := fn.Blocks[0]
	for steps := 0; steps < 200; steps++ {
		switch t := b.Instrs[len(b.Instrs)-1].(type) {
		case *ssa.Return:
			if len(t.Results) != 1 {
				return false, false
			}
			return isNilConst(t.Results[0]), true
		case *ssa.Jump:
			b = b.Succs[0]
		case *ssa.If:
			c, pol := normCond(t.Cond, true)
			bo, ok := c.(*ssa.BinOp)
			if !ok || (bo.Op != token.EQL && bo.Op != token.NEQ) {
				return false, false
			}
			atom := ""
			for _, side := range [][2]ssa.Value{{bo.X, bo.Y}, {bo.Y, bo.X}} {
				call, ok := side[0].(*ssa.Call)
				if !ok || !call.Call.IsInvoke() {
					continue
				}
				_, isParam := side[1].(*ssa.Parameter)
				cs, isConst := constString(side[1])
				switch call.Call.Method.Name() {
				case "Role":
					if isParam {
						atom = "role.param"
					} else if isConst && cs == "special" {
						atom = "role.special"
					}
				case "Type":
					if isParam {
						atom = "type.param"
					} else if isConst && cs == "Generic" {
						atom = "type.generic"
					}
				}
			}
			if atom == "" {
				return false, false
			}
			v := as[atom]
			if bo.Op == token.NEQ {
				v = !v
			}
			if !pol {
				v = !v
			}
			if v {
				b = b.Succs[0]
			} else {
				b = b.Succs[1]
			}
		default:
			return false, false
		}
	}
	return false, false
}

// removeMissRule: the explicit removal replaces the list only if an entry was
// removed; otherwise it returns an error.
func removeMissRule(p *Prog, ls *Lockset, r *Report, rule string, m mgrSpec) {
	fn := p.Method("spine", m.Type, m.Remove)
	base := "spine." + m.Type + "." + m.Remove
	if fn == nil {
		r.Undecided(rule, "anchor:"+base, "", "method not found")
		return
	}
	key := F(m.Type + "." + m.Field)
	n := 0
	for _, a := range ls.accessesIn(key, fn) {
		st, ok := a.Ins.(*ssa.Store)
		if !ok || a.Kind != "W" {
			continue
		}
		n++
		// guarded by len(new) != len(old) (the true edge of == returns an error)
		okGuard := false
		for _, g := range Guards(st.Block()) {
			bo, ok := g.Cond.(*ssa.BinOp)
			if !ok || (bo.Op != token.EQL && bo.Op != token.NEQ) {
				continue
			}
			differ := (bo.Op == token.NEQ) == g.Val
			lx, okx := bo.X.(*ssa.Call)
			ly, oky := bo.Y.(*ssa.Call)
			if !okx || !oky || builtinName(&lx.Call) != "len" || builtinName(&ly.Call) != "len" {
				continue
			}
			a0, a1 := lx.Call.Args[0], ly.Call.Args[0]
			if differ && ((loadsField(a0, a.Field) && a1 == st.Val) || (loadsField(a1, a.Field) && a0 == st.Val)) {
				okGuard = true
				// the other edge returns a non-nil error
				other := g.If.Block().Succs[0]
				if g.If.Block().Succs[0] == st.Block() || g.If.Block().Succs[0].Dominates(st.Block()) {
					other = g.If.Block().Succs[1]
				}
				if ret, ok := other.Instrs[len(other.Instrs)-1].(*ssa.Return); !ok || len(ret.Results) != 1 || isNilConst(ret.Results[0]) {
					okGuard = false
				}
			}
		}
		r.Check(rule, base+"|miss-is-error", okGuard, p.InstrPos(st), "the list is replaced only if its length changed; an unchanged length returns an error")
	}
	if n == 0 {
		r.Undecided(rule, base+"|store", p.Pos(fn.Pos()), "no store to "+key+" found")
	}
}

func isNilConst(v ssa.Value) bool {
	k, ok := unwrapIface(v).(*ssa.Const)
	return ok && k.IsNil()
}

// idRule: entry ids come from an atomic increment of the manager's counter.
func idRule(p *Prog, r *Report, rule string, m mgrSpec) {
	fn := p.Method("spine", m.Type, m.Add)
	base := "spine." + m.Type + "." + m.Add + "|id"
	if fn == nil {
		r.Undecided(rule, "anchor:"+base, "", "method not found")
		return
	}
	found, ok := false, false
	for _, b := range fn.Blocks {
		for _, ins := range b.Instrs {
			st, isSt := ins.(*ssa.Store)
			if !isSt {
				continue
			}
			fa, isFA := st.Addr.(*ssa.FieldAddr)
			if !isFA || fieldOfAddr(fa) == nil || fieldOfAddr(fa).Name() != "Id" {
				continue
			}
			if n := namedOf(fa.X.Type()); n == nil || n.Obj().Name() != m.Entry {
				continue
			}
			found = true
			ok = fromAtomicAdd(p, st.Val, FN(m.Type+"."+m.NumField), 0)
		}
	}
	if !found {
		r.Undecided(rule, base, p.Pos(fn.Pos()), "no entry literal with an Id found")
		return
	}
	r.Check(rule, base, ok, p.Pos(fn.Pos()), "the entry id is the result of sync/atomic.AddUint64 on the manager's counter field")
}

func fromAtomicAdd(p *Prog, v ssa.Value, field string, depth int) bool {
	if depth > 4 {
		return false
	}
	switch x := v.(type) {
	case *ssa.Call:
		c := x.Call.StaticCallee()
		if c == nil {
			return false
		}
		if fnPkgPath(c) == "sync/atomic" && strings.HasPrefix(c.Name(), "Add") && len(x.Call.Args) > 0 {
			if fa, ok := x.Call.Args[0].(*ssa.FieldAddr); ok && fieldOfAddr(fa).Name() == field {
				return true
			}
			return false
		}
		if p.IsRepoFn(c) && c.Blocks != nil {
			// every return of the callee
			all := true
			n := 0
			for _, b := range c.Blocks {
				if ret, ok := b.Instrs[len(b.Instrs)-1].(*ssa.Return); ok && len(ret.Results) == 1 {
					n++
					if !fromAtomicAdd(p, ret.Results[0], field, depth+1) {
						all = false
					}
				}
			}
			return all && n > 0
		}
	case *ssa.Convert:
		return fromAtomicAdd(p, x.X, field, depth+1)
	case *ssa.ChangeType:
		return fromAtomicAdd(p, x.X, field, depth+1)
	}
	return false
}

// listingRule: the predicate closure of a listing method compares the expected things.
//
//	per-device listing: entry.ClientFeature.Device().Ski() == <param>.Ski()
//	per-feature listing: DeepEqual(*entry.ServerFeature.Address(), <param>)
func listingRule(p *Prog, r *Report, rule string, m mgrSpec) {
	for _, which := range []string{m.List, m.OnFeat} {
		fn := p.Method("spine", m.Type, which)
		base := "spine." + m.Type + "." + which + "|predicate"
		if fn == nil {
			r.Undecided(rule, "anchor:"+base, "", "method not found")
			continue
		}
		if len(fn.AnonFuncs) == 0 {
			// no predicate closure: the listing is a plain loop that appends the entries passing one test
			listingLoop(p, r, rule, m, which, fn, base)
			continue
		}
		if len(fn.AnonFuncs) != 1 {
			r.Undecided(rule, base, p.Pos(fn.Pos()), fmt.Sprintf("%d predicate closures found, 1 expected", len(fn.AnonFuncs)))
			continue
		}
		an := fn.AnonFuncs[0]
		ok := false
		detail := ""
		for _, b := range an.Blocks {
			ret, isRet := b.Instrs[len(b.Instrs)-1].(*ssa.Return)
			if !isRet || len(ret.Results) != 1 {
				continue
			}
			switch x := ret.Results[0].(type) {
			case *ssa.BinOp:
				// Ski() == Ski()
				l, rr := Path(x.X), Path(x.Y)
				detail = l + " " + x.Op.String() + " " + rr
				if which == m.List && x.Op == token.EQL {
					e, o := l, rr
					if !strings.HasPrefix(e, "param:") || strings.Count(e, "param:") != 1 || strings.HasPrefix(o, "param:"+an.Params[0].Name()) {
						e, o = rr, l
					}
					ok = e == "param:"+an.Params[0].Name()+".ClientFeature.Device().Ski()" && strings.HasSuffix(o, ".Ski()") && strings.HasPrefix(o, "param:"+fn.Params[1].Name())
				}
			case *ssa.Call:
				if c := x.Call.StaticCallee(); c != nil && fnPkgPath(c) == "reflect" && c.Name() == "DeepEqual" && which == m.OnFeat {
					l, rr := Path(x.Call.Args[0]), Path(x.Call.Args[1])
					detail = "DeepEqual(" + l + ", " + rr + ")"
					want := "param:" + an.Params[0].Name() + ".ServerFeature.Address()"
					other := "param:" + fn.Params[1].Name()
					ok = (l == want && rr == other) || (rr == want && l == other)
				}
			}
		}
		r.Check(rule, base, ok, p.Pos(an.Pos()), "listing predicate: "+detail)
	}
}

// scanContentRule: the scan that decides an insertion into a registry compares
// the components of the existing entries with the very objects the new entry is
// built from (not with request data that merely names them).
//   - subscriptions: the pair (server feature, client feature) of the new entry;
//   - bindings: the server feature of the new entry.
func scanContentRule(p *Prog, r *Report, rule string, m mgrSpec, components []string) {
	iface := p.LookupIface("api", m.Type+"Interface")
	if iface == nil {
		r.Undecided(rule, "anchor:api."+m.Type+"Interface", "", "interface not found")
		return
	}
	for _, fn := range p.ImplsOf(iface, m.Add) {
		fn := fn
		p.InScope(fn, func() { scanContentOne(p, r, rule, m, components, fn) })
	}
}

func scanContentOne(p *Prog, r *Report, rule string, m mgrSpec, components []string, fn *ssa.Function) {
	{
		base := FnName(fn)
		// the new entry's components
		stored := map[string]ssa.Value{}
		for _, b := range fn.Blocks {
			for _, ins := range b.Instrs {
				st, ok := ins.(*ssa.Store)
				if !ok {
					continue
				}
				fa, ok := st.Addr.(*ssa.FieldAddr)
				if !ok || fieldOfAddr(fa) == nil || !isNamed(derefType(fa.X.Type()), "api", m.Entry) {
					continue
				}
				stored[fieldOfAddr(fa).Name()] = st.Val
			}
		}
		field := FN(m.Type + "." + m.Field)
		found := map[string]bool{}
		matched := map[*ssa.Call]bool{}
		// the scan is a loop in the function (or an extracted helper), or a predicate handed to slices.ContainsFunc / IndexFunc
		var sites []ssa.CallInstruction
		forEachCall(fn, func(site ssa.CallInstruction) {
			sites = append(sites, site)
			if c, ok := site.(*ssa.Call); ok && len(c.Call.Args) == 2 {
				if h := c.Call.StaticCallee(); h != nil && fnPkgPath(h) == "slices" && strings.HasSuffix(originName(h), "Func") {
					for _, pf := range predicateFunctions(c.Call.Args[1], 0) {
						forEachCallOwn(pf, func(s2 ssa.CallInstruction) { sites = append(sites, s2) })
					}
				}
			}
		})
		for _, site := range sites {
			c, ok := site.(*ssa.Call)
			if !ok {
				continue
			}
			callee := c.Call.StaticCallee()
			if callee == nil || fnPkgPath(callee) != "reflect" || callee.Name() != "DeepEqual" {
				continue
			}
			a0, a1 := Path(c.Call.Args[0]), Path(c.Call.Args[1])
			for _, comp := range components {
				for _, pair := range [][2]string{{a0, a1}, {a1, a0}} {
					el, other := pair[0], pair[1]
					i := strings.Index(el, "."+field+"[]."+comp)
					if i < 0 {
						continue
					}
					suffix := el[i+len("."+field+"[]."+comp):]
					want := ""
					if sv, ok := stored[comp]; ok {
						want = Path(sv) + suffix
					}
					found[comp] = true
					matched[c] = true
					// the features themselves are compared: an attribute of them (the address) identifies less — two peers
					// have equal client addresses as long as their device address is not known yet
					whole := suffix == "" || comp != "ClientFeature" // local (server) features have complete, unique addresses
					r.Check(rule, fmt.Sprintf("%s|scan:%s", base, comp), want != "" && other == want && whole, p.InstrPos(c), fmt.Sprintf("existing entries' %s%s is compared with %s; the new entry's %s is %s; whole feature objects compared: %v", comp, suffix, other, comp, want, whole))
				}
			}
		}
		for _, comp := range components {
			if !found[comp] {
				r.Fail(rule, fmt.Sprintf("%s|scan:%s", base, comp), p.Pos(fn.Pos()), "the scan deciding the insertion does not compare the existing entries' "+comp)
			}
		}
		// the rejection depends on these comparisons only: a further conjunct (the same client, a type, a flag) lets
		// a second entry in although the compared components already match an existing one
		for c := range matched {
			hdr := loopHeaderOf(c.Block())
			if hdr == nil || c.Parent() != fn {
				continue
			}
			for _, b := range fn.Blocks {
				if loopHeaderOf(b) != hdr && !(hdr.Dominates(b) && b != hdr) {
					continue
				}
				ret, isRet := b.Instrs[len(b.Instrs)-1].(*ssa.Return)
				if !isRet || len(ret.Results) == 0 {
					continue
				}
				last := ret.Results[len(ret.Results)-1]
				if k, isK := last.(*ssa.Const); isK && k.IsNil() {
					continue
				}
				// only returns reached through the comparison
				through := false
				var extra []string
				for _, g := range Guards(b) {
					ci, isI := g.Cond.(ssa.Instruction)
					if !isI || !hdr.Dominates(ci.Block()) {
						continue
					}
					if gc, isC := g.Cond.(*ssa.Call); isC && matched[gc] {
						if g.Val {
							through = true
						}
						continue
					}
					if bo, isB := g.Cond.(*ssa.BinOp); isB {
						if lc, isL := bo.Y.(*ssa.Call); isL && builtinName(&lc.Call) == "len" {
							continue // loop bound
						}
						if ph, isPh := bo.X.(*ssa.Phi); isPh && isInductionPhi(ph) {
							continue
						}
					}
					if ex, isEx := g.Cond.(*ssa.Extract); isEx {
						if _, isNext := ex.Tuple.(*ssa.Next); isNext {
							continue
						}
					}
					extra = append(extra, Path(g.Cond)+" at "+p.InstrPos(g.If))
				}
				if through {
					r.Check(rule, base+"|scan:rejects-on-these-alone", len(extra) == 0, p.InstrPos(ret), fmt.Sprintf("the request is rejected whenever the compared components match an existing entry; further conditions: %v", extra))
				}
			}
		}
	}
}

// listingLoop: the loop form of a listing — an append of the registry element
// guarded by exactly the expected equality.
func listingLoop(p *Prog, r *Report, rule string, m mgrSpec, which string, fn *ssa.Function, base string) {
	field := FN(m.Type + "." + m.Field)
	var app *ssa.Call
	forEachCallOwn(fn, func(site ssa.CallInstruction) {
		c, ok := site.(*ssa.Call)
		if !ok || builtinName(&c.Call) != "append" || len(c.Call.Args) != 2 {
			return
		}
		for _, e := range variadicElems(c.Call.Args[1]) {
			if strings.Contains(Path(e), "."+field+"[]") {
				app = c
			}
		}
	})
	if app == nil {
		r.Undecided(rule, base, p.Pos(fn.Pos()), "neither a predicate closure nor a loop appending registry entries found")
		return
	}
	elem := "recv." + field + "[]"
	n, ok := 0, false
	detail := ""
	for _, g := range Guards(app.Block()) {
		switch x := g.Cond.(type) {
		case *ssa.BinOp:
			if _, isLen := x.Y.(*ssa.Call); isLen && (x.Op == token.LSS || x.Op == token.GTR) {
				if lc, ok2 := x.Y.(*ssa.Call); ok2 && builtinName(&lc.Call) == "len" {
					continue // loop bound
				}
			}
			if x.Op != token.EQL && x.Op != token.NEQ {
				n++
				continue
			}
			n++
			l, rr := Path(x.X), Path(x.Y)
			detail = l + " == " + rr
			if which == m.List && (x.Op == token.EQL) == g.Val {
				e, o := l, rr
				if !strings.HasPrefix(e, elem) {
					e, o = rr, l
				}
				ok = e == elem+".ClientFeature.Device().Ski()" && strings.HasSuffix(o, ".Ski()") && strings.HasPrefix(o, "param:"+fn.Params[1].Name())
			}
		case *ssa.Call:
			n++
			if c := x.Call.StaticCallee(); c != nil && fnPkgPath(c) == "reflect" && c.Name() == "DeepEqual" && which == m.OnFeat && g.Val {
				l, rr := Path(x.Call.Args[0]), Path(x.Call.Args[1])
				detail = "DeepEqual(" + l + ", " + rr + ")"
				want := elem + ".ServerFeature.Address()"
				other := "param:" + fn.Params[1].Name()
				ok = (l == want && rr == other) || (rr == want && l == other)
			}
		case *ssa.Phi:
			// expanded
		default:
			n++
		}
	}
	r.Check(rule, base, ok && n == 1, p.InstrPos(app), fmt.Sprintf("listing loop appends an entry under %d condition(s): %s", n, detail))
}

// reportedListRule (C08/C09): the list reported to a peer is rendered from that peer's registry entries — each
// reported entry takes its id from the entry's Id, its server address from the entry's server feature and its client
// address from the entry's client feature; the entries rendered are those of the per-device listing for the
// requesting device.
func reportedListRule(p *Prog, r *Report, rule string, m mgrSpec, dataType, idField string) {
	n := 0
	for _, fn0 := range p.ScopeRoots("spine") {
		fn := fn0
		p.InScope(fn, func() {
			for _, body := range append(p.ScopeFns(fn), anonsOf(fn)...) {
				for _, b := range body.Blocks {
					for _, ins := range b.Instrs {
						al, ok := ins.(*ssa.Alloc)
						if !ok || !isNamed(derefType(al.Type()), "model", dataType) || al.Referrers() == nil {
							continue
						}
						got := map[string]string{}
						for _, ref := range *al.Referrers() {
							fa, ok := ref.(*ssa.FieldAddr)
							if !ok || fa.Referrers() == nil {
								continue
							}
							for _, r2 := range *fa.Referrers() {
								if st, ok := r2.(*ssa.Store); ok && st.Addr == ssa.Value(fa) {
									v := st.Val
									// util.Ptr(T(x)): the value pointed to
									if c, isC := v.(*ssa.Call); isC && len(c.Call.Args) == 1 && !c.Call.IsInvoke() {
										if pt, isP := c.Type().Underlying().(*types.Pointer); isP && types.Identical(pt.Elem(), c.Call.Args[0].Type()) {
											v = c.Call.Args[0]
										}
									}
									got[fieldOfAddr(fa).Name()] = Path(stripConv(v))
								}
							}
						}
						if len(got) == 0 {
							continue
						}
						n++
						base := FnName(fn) + "|" + dataType
						okId := strings.HasSuffix(got[idField], ".Id")
						okSrv := strings.HasSuffix(got["ServerAddress"], ".ServerFeature.Address()")
						okCli := strings.HasSuffix(got["ClientAddress"], ".ClientFeature.Address()")
						// same entry for all three
						root := func(s, suffix string) string { return strings.TrimSuffix(s, suffix) }
						same := root(got[idField], ".Id") == root(got["ServerAddress"], ".ServerFeature.Address()") && root(got[idField], ".Id") == root(got["ClientAddress"], ".ClientFeature.Address()")
						r.Check(rule, base+"|wiring", okId && okSrv && okCli && same, p.InstrPos(al), fmt.Sprintf("reported entry {%s: %s, ServerAddress: %s, ClientAddress: %s}", idField, got[idField], got["ServerAddress"], got["ClientAddress"]))
					}
				}
			}
		})
	}
	r.Floor(rule, "renderers of "+dataType, n, 1)
}

func anonsOf(fn *ssa.Function) []*ssa.Function {
	var res []*ssa.Function
	for _, a := range fn.AnonFuncs {
		res = append(res, a)
		res = append(res, anonsOf(a)...)
	}
	return res
}

// outcomeForwardedRule (C08/C09): the node-management handlers hand the outcome of the manager's Add/Remove back to
// their caller — the error decides between the success and the error result; an outcome that is dropped turns a
// refused request (a delete of an entry that does not exist) into an acknowledged one.
func outcomeForwardedRule(p *Prog, r *Report, rule string, m mgrSpec) {
	iface := p.LookupIface("api", m.Type+"Interface")
	if iface == nil {
		r.Undecided(rule, "anchor:api."+m.Type+"Interface", "", "interface not found")
		return
	}
	n := 0
	for _, fn0 := range p.ScopeRoots("spine") {
		fn := fn0
		if fn.Signature.Recv() != nil && implementsIface(fn.Signature.Recv().Type(), iface) {
			continue // the manager's own methods
		}
		p.InScope(fn, func() {
			forEachCall(fn, func(site ssa.CallInstruction) {
				c, ok := site.(*ssa.Call)
				if !ok || !(calleeIsIfaceMethod(&c.Call, iface, m.Add) || calleeIsIfaceMethod(&c.Call, iface, m.Remove)) {
					return
				}
				if c.Parent().Signature.Results().Len() == 0 {
					return
				}
				n++
				returned := false
				t := forwardTaint(c)
				for _, b := range c.Parent().Blocks {
					if ret, isRet := b.Instrs[len(b.Instrs)-1].(*ssa.Return); isRet {
						for _, res := range ret.Results {
							if t[res] {
								returned = true
							}
						}
					}
				}
				r.Check(rule, fmt.Sprintf("%s|%s", FnName(c.Parent()), c.Call.Method.Name()), returned, p.InstrPos(c), "the outcome of the registry operation is returned to the dispatcher (it decides between success and error result)")
			})
		})
	}
	r.Floor(rule, "calls of "+m.Add+"/"+m.Remove+" outside the manager", n, 2)
}
