package main

import (
	"fmt"
	"strings"
)

// notifyCountRule (C08-R6, C16-R7): SetData, UpdateData and the remote write
// executor notify subscribers exactly once iff the store succeeded.
func notifyCountRule(p *Prog, r *Report, rule string) {
	ib := newInbound(p)
	if len(ib.missing) > 0 {
		r.Undecided(rule, "anchors", "", strings.Join(ib.missing, ", "))
		return
	}
	fli := p.LookupIface("api", "FeatureLocalInterface")
	if fli == nil {
		r.Undecided(rule, "anchor:api.FeatureLocalInterface", "", "interface not found")
		return
	}
	n := 0
	for _, m := range []string{"SetData", "UpdateData"} {
		for _, fn := range p.ImplsOf(fli, m) {
			if isWrapper(fn) {
				continue
			}
			if nt := namedOf(fn.Signature.Recv().Type()); nt == nil || nt.Obj().Name() != "FeatureLocal" {
				continue
			}
			n++
			ib.val = inboundVal{Cls: "none", Ack: "nil"}
			e := ib.engine()
			outs := e.Summarize(fn, "api", nil, 0)
			base := FnName(fn)
			ok := true
			sawSuccess, sawFail := false, false
			for _, o := range outs {
				stored := o.N("storeLocal")
				failed := o.N("storeLocalFail")
				other := o.N("storeRemoteWrite") + o.N("storeParam") + o.N("storeRemoteWriteFail") + o.N("storeParamFail")
				nt := o.N("notify")
				switch {
				case other > 0:
					ok = false
					r.Fail(rule, base+"|class:"+classSig(o), firstPos(o), "the local API route must store with remoteWrite=false: "+strings.Join(o.Trace, " "))
				case stored == 1 && failed == 0:
					sawSuccess = true
					if nt != 1 {
						ok = false
						r.Fail(rule, base+"|class:"+classSig(o), firstPos(o), fmt.Sprintf("a successful store is followed by %d notifications: %s", nt, strings.Join(o.Trace, " ")))
					}
				default:
					if failed > 0 {
						sawFail = true
					}
					if nt != 0 || stored > 1 {
						ok = false
						r.Fail(rule, base+"|class:"+classSig(o), firstPos(o), fmt.Sprintf("%d notifications although the store did not succeed exactly once: %s", nt, strings.Join(o.Trace, " ")))
					}
				}
			}
			if len(e.Incomplete) > 0 || !sawSuccess || !sawFail {
				r.Undecided(rule, base+"|enumeration", p.Pos(fn.Pos()), fmt.Sprintf("enumeration incomplete or no success/failure class found (success=%v failure=%v %v)", sawSuccess, sawFail, e.Incomplete))
			} else if ok {
				r.Pass(rule, base, p.Pos(fn.Pos()), fmt.Sprintf("%d path classes: notify exactly once iff the store succeeded", len(outs)))
			}
		}
	}
	if n < 2 {
		r.Undecided(rule, "floor:SetData/UpdateData", "", fmt.Sprintf("%d implementations found", n))
	}
	// the remote write executor: from the inbound root with classifier write
	for _, ack := range []string{"nil", "true"} {
		ib.val = inboundVal{Cls: "write", Ack: ack}
		e := ib.engine()
		outs := e.Summarize(ib.processCmd, ib.val.String(), nil, 0)
		ok := true
		sawSuccess := false
		for _, o := range outs {
			stored := o.N("storeRemoteWrite")
			nt := o.N("notify")
			if stored == 1 {
				sawSuccess = true
				if nt != 1 {
					ok = false
					r.Fail(rule, "inbound-write|"+ib.val.String()+"|class:"+classSig(o), firstPos(o), fmt.Sprintf("an applied remote write is followed by %d notifications: %s", nt, strings.Join(o.Trace, " ")))
				}
			} else if nt != 0 {
				ok = false
				r.Fail(rule, "inbound-write|"+ib.val.String()+"|class:"+classSig(o), firstPos(o), fmt.Sprintf("%d notifications although no remote write was applied: %s", nt, strings.Join(o.Trace, " ")))
			}
		}
		if !sawSuccess {
			r.Undecided(rule, "inbound-write|"+ib.val.String()+"|enumeration", "", "no path applying a remote write found")
		} else if ok {
			r.Pass(rule, "inbound-write|"+ib.val.String(), "", fmt.Sprintf("%d path classes", len(outs)))
		}
	}
}
