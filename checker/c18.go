package main

import (
	"fmt"
	"go/types"
	"sort"
	"strings"
)

func init() {
	register("C18", true,
		"Exhaustive table rules over the type-checked program: every function registered in spine.CreateFunctionData is matched against the eebus/json struct tags of model.CmdType and model.FilterType (field present, unique, payload type identical; filter tags well-formed, naming a function with a payload, unique per (typ,fct); elements/selector types structurally compatible with the item type of the function they name), JSON names unique per struct, custom JSON methods paired; plus value-provenance rules on the command builders (function and filter wired from the same function-data object) and guard rules on the reflective tag look-ups. Decided: the tables the round trip relies on are coherent. Not decided: decode(encode(v)) == v for arbitrary values (semantics of encoding/json, SHIP transformation, relative time re-expression).",
		checkC18)
}

func checkC18(p *Prog, r *Report) {
	t := BuildTables(p)
	for _, m := range t.anchorsMissing {
		r.Undecided("T0", "anchor:"+m, "", "anchor symbol not found: "+m)
	}
	c18Tables(p, t, r)
	c18Builders(p, r)
	c18TagLookups(p, r)
	c18ByNameLookups(p, t, r)
	c18FilterValuesUsed(p, r, "R6v")
	// the function a sender names is accepted by the receiving Data(): neither side indexes or slices unguarded (mechanism: wire-optional data)
	r.ImportRules(p, "C05", checkC05, map[string]string{"R2": "R9"})
	r.Assumes("struct tags are read with the same splitting rules as model.EEBusTags (',' then ':')",
		"encoding/json and the SHIP JSON transformation are outside the analysis")
}

func c18Tables(p *Prog, t *Tables, r *Report) {
	r.Rule("T1", "every registered (function, payload type T) has exactly one CmdType field tagged fct:function, of type *T; one payload type per function")
	r.Rule("T2", "CmdType fct tags are non-empty, unique and name a declared model.FunctionType constant; every payload field carries an fct tag")
	r.Rule("T2j", "JSON names are unique within every struct of package model")
	r.Rule("T3", "every FilterType field except the two generic ones has typ in {selector,elements} and an fct naming a function that has a CmdType payload; (typ,fct) is unique; the tag is well-formed")
	r.Rule("T4e", "an elements type has exactly the field names of the item (or container) type of the function it is tagged with")
	r.Rule("T4s", "a selector type shares at least one field name with the item (or container) type of the function it is tagged with (a selector tagged with a foreign function can never match)")
	r.Rule("T5", "custom JSON methods come in MarshalJSON/UnmarshalJSON pairs on the same type")

	// T1
	seenType := map[string]types.Type{}
	for _, reg := range t.Regs {
		key := "fct:" + reg.Fct
		if old, ok := seenType[reg.Fct]; ok {
			if !types.Identical(old, reg.T) {
				r.Fail("T1", key+"|conflict", p.Pos(reg.Pos), fmt.Sprintf("function %s registered with payload types %s and %s", reg.Fct, shortType(old), shortType(reg.T)))
			}
			continue
		}
		seenType[reg.Fct] = reg.T
		fs := t.CmdByFct[reg.Fct]
		switch {
		case len(fs) == 0:
			r.Fail("T1", key, p.Pos(reg.Pos), fmt.Sprintf("registered function %s (payload %s) has no CmdType field tagged fct:%s", reg.Fct, shortType(reg.T), reg.Fct))
		case len(fs) > 1:
			r.Fail("T1", key, p.Pos(fs[1].Var.Pos()), fmt.Sprintf("%d CmdType fields are tagged fct:%s", len(fs), reg.Fct))
		case !types.Identical(fs[0].Var.Type(), types.NewPointer(reg.T)):
			r.Fail("T1", key, p.Pos(fs[0].Var.Pos()), fmt.Sprintf("CmdType.%s has type %s, the factory registers %s for %s", fs[0].Var.Name(), shortType(fs[0].Var.Type()), shortType(reg.T), reg.Fct))
		default:
			r.Pass("T1", key, p.Pos(reg.Pos), "CmdType."+fs[0].Var.Name()+" *"+shortType(reg.T))
		}
	}
	r.Floor("T1", "registered functions", len(seenType), 127)

	// T2
	nPayload := 0
	for _, f := range t.CmdFields {
		if f.Var.Name() == "Function" || f.Var.Name() == "Filter" {
			continue
		}
		if _, isPtr := f.Var.Type().Underlying().(*types.Pointer); !isPtr {
			continue
		}
		nPayload++
		key := "CmdType." + f.Var.Name()
		fct, has := f.Tags["fct"]
		switch {
		case f.Bad:
			r.Fail("T2", key, p.Pos(f.Var.Pos()), "malformed eebus tag "+f.Raw)
		case !has:
			nPayload--
			r.Info("CmdType.%s carries no fct tag: not a function payload, skipped by CmdType.Data", f.Var.Name())
		case fct == "":
			r.Fail("T2", key, p.Pos(f.Var.Pos()), "payload field with an empty fct tag: CmdType.Data cannot name its function")
		case t.FunctionConsts[fct] == "":
			r.Fail("T2", key, p.Pos(f.Var.Pos()), "fct:"+fct+" is not a declared model.FunctionType constant")
		case len(t.CmdByFct[fct]) != 1:
			r.Fail("T2", key, p.Pos(f.Var.Pos()), "fct:"+fct+" is used by more than one CmdType field")
		default:
			r.Pass("T2", key, p.Pos(f.Var.Pos()), "fct:"+fct)
		}
	}
	r.Floor("T2", "CmdType payload fields", nPayload, 140)

	// T2j over all structs of package model
	sc := p.TypesPkg("model").Scope()
	nStructs := 0
	for _, n := range sc.Names() {
		tn, ok := sc.Lookup(n).(*types.TypeName)
		if !ok {
			continue
		}
		st, ok := tn.Type().Underlying().(*types.Struct)
		if !ok {
			continue
		}
		nStructs++
		seen := map[string]string{}
		dup := ""
		for _, f := range structFields(n, st) {
			if f.JSON == "" || f.JSON == "-" {
				continue
			}
			if o, ok := seen[f.JSON]; ok {
				dup = fmt.Sprintf("fields %s and %s share the JSON name %q", o, f.Var.Name(), f.JSON)
			}
			seen[f.JSON] = f.Var.Name()
		}
		if dup != "" {
			r.Fail("T2j", "struct:"+n, p.Pos(tn.Pos()), dup)
		} else {
			r.Pass("T2j", "struct:"+n, p.Pos(tn.Pos()), "")
		}
	}
	r.Floor("T2j", "model structs", nStructs, 500)

	// T3 + T4
	pairs := map[string]string{}
	nSel, nEl := 0, 0
	for _, f := range t.FilterFields {
		if f.Var.Name() == "FilterId" || f.Var.Name() == "CmdControl" {
			continue
		}
		key := "FilterType." + f.Var.Name()
		pos := p.Pos(f.Var.Pos())
		typ, fct := f.Tags["typ"], f.Tags["fct"]
		if f.Bad {
			r.Fail("T3", key, pos, "malformed eebus tag "+f.Raw)
			continue
		}
		if typ != "selector" && typ != "elements" {
			r.Fail("T3", key, pos, fmt.Sprintf("typ is %q (tag %q): FilterType.Data and SetDataForFunction skip this field", typ, f.Raw))
			continue
		}
		if typ == "selector" {
			nSel++
		} else {
			nEl++
		}
		if fct == "" {
			r.Fail("T3", key, pos, fmt.Sprintf("empty fct (tag %q): the %s is silently dropped", f.Raw, typ))
			continue
		}
		cf := t.CmdByFct[fct]
		if len(cf) == 0 {
			r.Fail("T3", key, pos, fmt.Sprintf("fct:%s does not name a function with a CmdType payload", fct))
			continue
		}
		if o, ok := pairs[typ+"/"+fct]; ok {
			r.Fail("T3", key, pos, fmt.Sprintf("(%s,%s) is also used by FilterType.%s", typ, fct, o))
			continue
		}
		pairs[typ+"/"+fct] = f.Var.Name()
		r.Pass("T3", key, pos, typ+"/"+fct)

		// structural compatibility with the payload the tag names
		pt, ok := cf[0].Var.Type().Underlying().(*types.Pointer)
		if !ok {
			continue
		}
		payload := pt.Elem()
		fpt, ok := f.Var.Type().Underlying().(*types.Pointer)
		if !ok {
			r.Fail("T3", key+"|kind", pos, "filter field is not a pointer")
			continue
		}
		fst, ok := fpt.Elem().Underlying().(*types.Struct)
		if !ok {
			continue
		}
		var item *types.Struct
		itemName := ""
		if _, el, is, ok := listItem(payload); ok {
			item, itemName = is, shortType(el)
		} else if st, ok := payload.Underlying().(*types.Struct); ok {
			item, itemName = st, shortType(payload)
		}
		if item == nil {
			continue
		}
		if typ == "elements" {
			a, b := fieldNameList(fst), fieldNameList(item)
			// container functions mirror the container: accept the payload struct itself as well
			okNames := strings.Join(a, ",") == strings.Join(b, ",")
			if !okNames {
				if st, ok := payload.Underlying().(*types.Struct); ok {
					okNames = strings.Join(a, ",") == strings.Join(fieldNameList(st), ",")
				}
			}
			if okNames || len(a) == 0 {
				r.Pass("T4e", key, pos, "mirrors "+itemName)
			} else {
				r.Fail("T4e", key, pos, fmt.Sprintf("elements fields %v differ from the fields %v of %s (function %s): RemoveElementFromItem does nothing", a, b, itemName, fct))
			}
		} else {
			shared := 0
			itf := map[string]bool{}
			for j := 0; j < item.NumFields(); j++ {
				itf[item.Field(j).Name()] = true
			}
			if st, ok := payload.Underlying().(*types.Struct); ok {
				for j := 0; j < st.NumFields(); j++ {
					itf[st.Field(j).Name()] = true // container functions select on the container's fields
				}
			}
			for j := 0; j < fst.NumFields(); j++ {
				n := fst.Field(j).Name()
				if itf[n] || (strings.HasSuffix(n, "Interval") && itf[strings.TrimSuffix(n, "Interval")]) {
					shared++
				}
			}
			// frozen exception (one symbol): the selectors of smartEnergyManagementPsData address nested lists by composed names
			if f.Var.Name() == "SmartEnergyManagementPsDataSelectors" && fct == "smartEnergyManagementPsData" {
				shared++
			}
			if shared > 0 || fst.NumFields() == 0 {
				r.Pass("T4s", key, pos, fmt.Sprintf("%d of %d selector fields name fields of %s", shared, fst.NumFields(), itemName))
			} else {
				r.Fail("T4s", key, pos, fmt.Sprintf("no selector field %v names a field of %s, the item type of function %s", fieldNameList(fst), itemName, fct))
			}
		}
	}
	r.Floor("T3", "selector filter fields", nSel, 97)
	r.Floor("T3", "elements filter fields", nEl, 137)

	// T5
	type pair struct{ m, u bool }
	js := map[string]*pair{}
	for _, short := range []string{"model", "api", "spine"} {
		sc := p.TypesPkg(short).Scope()
		for _, n := range sc.Names() {
			tn, ok := sc.Lookup(n).(*types.TypeName)
			if !ok {
				continue
			}
			nt, ok := tn.Type().(*types.Named)
			if !ok {
				continue
			}
			for i := 0; i < nt.NumMethods(); i++ {
				m := nt.Method(i)
				if m.Name() == "MarshalJSON" || m.Name() == "UnmarshalJSON" {
					k := short + "." + n
					if js[k] == nil {
						js[k] = &pair{}
					}
					if m.Name() == "MarshalJSON" {
						js[k].m = true
					} else {
						js[k].u = true
					}
				}
			}
		}
	}
	var jk []string
	for k := range js {
		jk = append(jk, k)
	}
	sort.Strings(jk)
	for _, k := range jk {
		r.Check("T5", "type:"+k, js[k].m && js[k].u, "", fmt.Sprintf("MarshalJSON=%v UnmarshalJSON=%v", js[k].m, js[k].u))
	}
	r.Floor("T5", "types with custom JSON", len(jk), 1)
}
