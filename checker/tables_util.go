package main

import "go/types"

func nilableKind(t types.Type) bool {
	switch t.Underlying().(type) {
	case *types.Pointer, *types.Slice, *types.Map, *types.Interface, *types.Chan, *types.Signature:
		return true
	}
	return false
}
