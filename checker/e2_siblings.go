package main

// E2 — sibling templates (AST + types) and the cross-wiring lint.

import (
	"fmt"
	"go/ast"
	"go/parser"
	"go/token"
	"go/types"
	"golang.org/x/tools/go/ssa"
	"strings"
)

// updateListTemplate checks the semantic obligations S1..S5 on one per-type
// UpdateList method. All matching is done on resolved objects.
func updateListTemplate(p *Prog, r *Report, rule string, nt *types.Named) {
	name := nt.Obj().Name()
	fd, pk := p.FuncDecl("model", name, "UpdateList")
	key := "model." + name + ".UpdateList"
	if fd == nil || fd.Body == nil {
		// promoted or otherwise indirect implementation: cannot be matched against the template
		r.Undecided(rule, key, p.Pos(nt.Obj().Pos()), "no direct UpdateList declaration on this type")
		return
	}
	info := pk.TypesInfo
	pos := p.Pos(fd.Pos())
	// parameters by position
	var params []types.Object
	for _, f := range fd.Type.Params.List {
		for _, n := range f.Names {
			params = append(params, info.Defs[n])
		}
	}
	if len(params) != 5 || fd.Recv == nil || len(fd.Recv.List) != 1 || len(fd.Recv.List[0].Names) != 1 {
		r.Fail(rule, key+"|shape", pos, "unexpected signature (5 named parameters and a named receiver expected)")
		return
	}
	recvObj := info.Defs[fd.Recv.List[0].Names[0]]
	pRemote, pPersist, pNew, pPartial, pDelete := params[0], params[1], params[2], params[3], params[4]

	isObj := func(e ast.Expr, o types.Object) bool {
		id, ok := ast.Unparen(e).(*ast.Ident)
		return ok && o != nil && info.Uses[id] == o
	}
	// selector recv.F -> field object
	recvField := func(e ast.Expr) *types.Var {
		se, ok := ast.Unparen(e).(*ast.SelectorExpr)
		if !ok || !isObj(se.X, recvObj) {
			return nil
		}
		if s := info.Selections[se]; s != nil {
			if v, ok := s.Obj().(*types.Var); ok && v.IsField() {
				return v
			}
		}
		return nil
	}

	var (
		assertOK        = false
		assertSeen      = 0
		readField       *types.Var // field read from the asserted value
		newDataObj      types.Object
		engineCall      *ast.CallExpr
		resData, resOK  types.Object
		assignedFields  []*types.Var
		assignCondsOK   = true
		assignCount     = 0
		returnsOK       = false
		returnCount     = 0
		engineCallCount = 0
	)
	model := p.TypesPkg("model")
	engineObj := model.Scope().Lookup("UpdateList")

	var stack []ast.Node
	ast.Inspect(fd.Body, func(n ast.Node) bool {
		if n == nil {
			stack = stack[:len(stack)-1]
			return true
		}
		stack = append(stack, n)
		switch x := n.(type) {
		case *ast.TypeAssertExpr:
			if isObj(x.X, pNew) && x.Type != nil {
				assertSeen++
				at := info.TypeOf(x.Type)
				assertOK = types.Identical(at, types.NewPointer(nt))
			}
		case *ast.AssignStmt:
			// newData = newList.(*N).F
			if len(x.Lhs) == 1 && len(x.Rhs) == 1 {
				if se, ok := ast.Unparen(x.Rhs[0]).(*ast.SelectorExpr); ok {
					if ta, ok := ast.Unparen(se.X).(*ast.TypeAssertExpr); ok && isObj(ta.X, pNew) {
						if s := info.Selections[se]; s != nil {
							readField, _ = s.Obj().(*types.Var)
						}
						if id, ok := x.Lhs[0].(*ast.Ident); ok {
							newDataObj = info.Uses[id]
							if newDataObj == nil {
								newDataObj = info.Defs[id]
							}
						}
					}
				}
			}
			// data, success := UpdateList(...)
			if len(x.Rhs) == 1 && len(x.Lhs) == 2 {
				if call, ok := ast.Unparen(x.Rhs[0]).(*ast.CallExpr); ok && calleeObj(info, call) == engineObj && engineObj != nil {
					engineCall = call
					engineCallCount++
					if id, ok := x.Lhs[0].(*ast.Ident); ok {
						resData = info.Defs[id]
						if resData == nil {
							resData = info.Uses[id]
						}
					}
					if id, ok := x.Lhs[1].(*ast.Ident); ok {
						resOK = info.Defs[id]
						if resOK == nil {
							resOK = info.Uses[id]
						}
					}
				}
			}
			// r.F = data
			for i, lhs := range x.Lhs {
				if f := recvField(lhs); f != nil {
					assignCount++
					assignedFields = append(assignedFields, f)
					if i >= len(x.Rhs) || !isObj(x.Rhs[i], resData) {
						assignCondsOK = false
					}
					// enclosing condition: exactly success && persist
					if !guardedBySuccessAndPersist(info, stack, resOK, pPersist) {
						assignCondsOK = false
					}
				}
			}
		case *ast.ReturnStmt:
			returnCount++
			returnsOK = len(x.Results) == 2 && isObj(x.Results[0], resData) && isObj(x.Results[1], resOK)
		}
		return true
	})

	// S1
	r.Check(rule, key+"|S1", assertSeen == 1 && assertOK, pos, "the type asserted on the new list is the receiver's own type")
	// S2 + S3
	s3 := false
	var existField *types.Var
	if engineCall != nil && len(engineCall.Args) == 5 {
		existField = recvField(engineCall.Args[1])
		s3 = isObj(engineCall.Args[0], pRemote) && existField != nil && isObj(engineCall.Args[2], newDataObj) && newDataObj != nil &&
			isObj(engineCall.Args[3], pPartial) && isObj(engineCall.Args[4], pDelete)
	}
	s2 := readField != nil && existField != nil && readField == existField && len(assignedFields) == 1 && assignedFields[0] == existField
	if s2 {
		if _, isSlice := existField.Type().Underlying().(*types.Slice); !isSlice {
			s2 = false
		}
	}
	r.Check(rule, key+"|S2", s2, pos, fmt.Sprintf("field read from the new list (%s), passed as existing data (%s) and assigned (%s) are one slice field of the receiver", vname(readField), vname(existField), vnames(assignedFields)))
	r.Check(rule, key+"|S3", s3 && engineCallCount == 1, pos, "model.UpdateList is called once with (remoteWrite, r.F, newData, filterPartial, filterDelete) taken from the method's own parameters in that order")
	// S4 / S5 on the resolved program when available (guard clauses, early returns and named conditions are then all
	// the same shape); the syntactic verdicts are the fall-back
	s4, s5 := assignCount == 1 && assignCondsOK, returnCount == 1 && returnsOK
	if p.SSA != nil {
		if fn := p.Method("model", nt.Obj().Name(), "UpdateList"); fn != nil && fn.Blocks != nil {
			if a, b, ok := updateListS4S5(fn); ok {
				s4, s5 = a, b
			}
		}
	}
	r.Check(rule, key+"|S4", s4, pos, "the merged data is assigned to the receiver's field exactly under success && persist")
	r.Check(rule, key+"|S5", s5, pos, "the method returns the engine's two results (merged data, success)")
}

// updateListS4S5 decides on SSA: every store to a field of the receiver stores the
// engine's first result and is guarded by exactly {engine's second result true,
// persist parameter true}; every return returns the engine's two results.
func updateListS4S5(fn *ssa.Function) (s4, s5, ok bool) {
	if len(fn.Params) != 6 {
		return false, false, false
	}
	persist := fn.Params[2]
	var engine *ssa.Call
	for _, b := range fn.Blocks {
		for _, ins := range b.Instrs {
			if c, isC := ins.(*ssa.Call); isC {
				if callee := c.Call.StaticCallee(); callee != nil && originName(callee) == "UpdateList" && callee.Signature.Recv() == nil {
					engine = c
				}
			}
		}
	}
	if engine == nil {
		return false, false, false
	}
	var res0, res1 ssa.Value
	for _, ref := range *engine.Referrers() {
		if ex, isE := ref.(*ssa.Extract); isE {
			if ex.Index == 0 {
				res0 = ex
			} else {
				res1 = ex
			}
		}
	}
	nStores := 0
	s4 = true
	for _, b := range fn.Blocks {
		for _, ins := range b.Instrs {
			st, isS := ins.(*ssa.Store)
			if !isS {
				continue
			}
			fa, isF := st.Addr.(*ssa.FieldAddr)
			if !isF || fa.X != ssa.Value(fn.Params[0]) {
				continue
			}
			nStores++
			if st.Val != res0 {
				s4 = false
			}
			hasOK, hasPersist := false, false
			for _, g := range Guards(b) {
				switch {
				case g.Cond == res1 && g.Val:
					hasOK = true
				case g.Cond == ssa.Value(persist) && g.Val:
					hasPersist = true
				case g.Cond == res1 || g.Cond == ssa.Value(persist):
					s4 = false // reached on a false edge
				default:
					if _, isPhi := g.Cond.(*ssa.Phi); !isPhi {
						s4 = false // an additional condition
					}
				}
			}
			if !hasOK || !hasPersist {
				s4 = false
			}
		}
	}
	if nStores != 1 {
		s4 = false
	}
	s5 = true
	nRet := 0
	for _, b := range fn.Blocks {
		ret, isR := b.Instrs[len(b.Instrs)-1].(*ssa.Return)
		if !isR {
			continue
		}
		nRet++
		if len(ret.Results) != 2 || unwrapIface(ret.Results[0]) != res0 || ret.Results[1] != res1 {
			s5 = false
		}
	}
	if nRet == 0 {
		s5 = false
	}
	return s4, s5, true
}

func vname(v *types.Var) string {
	if v == nil {
		return "?"
	}
	return v.Name()
}
func vnames(vs []*types.Var) string {
	var s []string
	for _, v := range vs {
		s = append(s, vname(v))
	}
	return strings.Join(s, ",")
}

func calleeObj(info *types.Info, call *ast.CallExpr) types.Object {
	fun := ast.Unparen(call.Fun)
	switch x := fun.(type) {
	case *ast.IndexExpr:
		fun = x.X
	case *ast.IndexListExpr:
		fun = x.X
	}
	switch x := fun.(type) {
	case *ast.Ident:
		return info.Uses[x]
	case *ast.SelectorExpr:
		return info.Uses[x.Sel]
	}
	return nil
}

// guardedBySuccessAndPersist: the innermost enclosing if has the condition
// "a && b" with {a,b} == {success, persist} and we are in its body; no other
// enclosing if statements.
func guardedBySuccessAndPersist(info *types.Info, stack []ast.Node, success, persist types.Object) bool {
	nIf := 0
	ok := false
	for i := len(stack) - 1; i >= 0; i-- {
		ifs, isIf := stack[i].(*ast.IfStmt)
		if !isIf {
			continue
		}
		nIf++
		if i+1 >= len(stack) || stack[i+1] != ast.Node(ifs.Body) {
			return false // else branch
		}
		be, isB := ast.Unparen(ifs.Cond).(*ast.BinaryExpr)
		if !isB || be.Op != token.LAND {
			return false
		}
		a, aok := ast.Unparen(be.X).(*ast.Ident)
		b, bok := ast.Unparen(be.Y).(*ast.Ident)
		if !aok || !bok {
			return false
		}
		oa, ob := info.Uses[a], info.Uses[b]
		ok = success != nil && persist != nil && ((oa == success && ob == persist) || (oa == persist && ob == success))
	}
	return nIf == 1 && ok
}

// ---- cross-wiring lint ----

// lintTarget is a type-checked set of files (a repository package or the
// built-in positive example).
type lintTarget struct {
	Name  string
	Files []*ast.File
	Info  *types.Info
	Pos   func(token.Pos) string
}

// updateRoleNames: the role names of the update chain; a field with one of these
// names selected from another object (msg.FilterDelete) still carries its role.
var updateRoleNames = map[string]bool{
	"filterPartial": true, "filterDelete": true, "remoteWrite": true, "persist": true,
	"deleteSelector": true, "partialSelector": true, "deleteElements": true, "readElements": true,
}

// crossWiring reports definite swaps of same-typed values identified by name:
//   - call arguments: an identifier argument whose name equals the name of a
//     *different* parameter of the callee with the identical type
//     (f(filterDelete, filterPartial) for f(filterPartial, filterDelete *T));
//   - composite literals: T{FilterPartial: filterDelete} when T also has a field
//     FilterDelete of the identical type;
//   - multi-value assignment from a call with named results:
//     filterDelete, filterPartial := f() for f() (filterPartial, filterDelete *T).
//
// Renames cannot trigger it; only a definite swap can.
func crossWiring(t lintTarget, report func(key, pos, detail string)) int {
	n := 0
	lower := func(s string) string {
		if s == "" {
			return s
		}
		return strings.ToLower(s[:1]) + s[1:]
	}
	for _, file := range t.Files {
		ast.Inspect(file, func(node ast.Node) bool {
			switch x := node.(type) {
			case *ast.CallExpr:
				sig := callSignature(t.Info, x)
				if sig == nil || sig.Params().Len() < 2 {
					return true
				}
				n++
				np := sig.Params().Len()
				for i, a := range x.Args {
					if i >= np || (sig.Variadic() && i >= np-1) {
						break
					}
					// the role name of the argument: an identifier, or the field selected from a value (msg.FilterDelete)
					argName := ""
					switch e := ast.Unparen(a).(type) {
					case *ast.Ident:
						argName = e.Name
					case *ast.SelectorExpr:
						// a field of another object carries a role only for the update-role names: elsewhere
						// (request.MsgCounter passed as reference) crossing names is the point
						if sel := t.Info.Selections[e]; sel != nil && sel.Kind() == types.FieldVal && updateRoleNames[lower(e.Sel.Name)] {
							argName = e.Sel.Name
						}
					}
					if argName == "" {
						continue
					}
					pi := sig.Params().At(i)
					if lower(argName) == lower(pi.Name()) || argName == "_" || pi.Name() == "" {
						continue
					}
					for j := 0; j < np; j++ {
						pj := sig.Params().At(j)
						if j != i && lower(pj.Name()) == lower(argName) && types.Identical(pj.Type(), pi.Type()) {
							fn := enclosingFuncName(t.Name, file, x.Pos())
							key := fmt.Sprintf("%s|call:%s|arg:%s->param:%s", fn, calleeName(t.Info, x), argName, pi.Name())
							report(key, t.Pos(x.Pos()), fmt.Sprintf("argument %q is passed for parameter %q although the callee has a parameter %q of the identical type %s", argName, pi.Name(), pj.Name(), shortType(pi.Type())))
						}
					}
				}
			case *ast.CompositeLit:
				st, ok := deref(t.Info.TypeOf(x)).Underlying().(*types.Struct)
				if !ok {
					return true
				}
				n++
				for _, el := range x.Elts {
					kv, ok := el.(*ast.KeyValueExpr)
					if !ok {
						continue
					}
					k, ok1 := kv.Key.(*ast.Ident)
					var v *ast.Ident
					switch e := ast.Unparen(kv.Value).(type) {
					case *ast.Ident:
						v = e
					case *ast.SelectorExpr:
						if sel := t.Info.Selections[e]; sel != nil && sel.Kind() == types.FieldVal && updateRoleNames[lower(e.Sel.Name)] {
							v = e.Sel
						}
					}
					if !ok1 || v == nil || lower(k.Name) == lower(v.Name) {
						continue
					}
					var kf *types.Var
					for i := 0; i < st.NumFields(); i++ {
						if st.Field(i).Name() == k.Name {
							kf = st.Field(i)
						}
					}
					if kf == nil {
						continue
					}
					for i := 0; i < st.NumFields(); i++ {
						f := st.Field(i)
						if f != kf && lower(f.Name()) == lower(v.Name) && types.Identical(f.Type(), kf.Type()) {
							fn := enclosingFuncName(t.Name, file, x.Pos())
							key := fmt.Sprintf("%s|literal:%s|value:%s->field:%s", fn, shortType(deref(t.Info.TypeOf(x))), v.Name, k.Name)
							report(key, t.Pos(kv.Pos()), fmt.Sprintf("value %q initialises field %q although the struct has a field %q of the identical type %s", v.Name, k.Name, f.Name(), shortType(kf.Type())))
						}
					}
				}
			case *ast.AssignStmt:
				if len(x.Rhs) != 1 || len(x.Lhs) < 2 {
					return true
				}
				call, ok := ast.Unparen(x.Rhs[0]).(*ast.CallExpr)
				if !ok {
					return true
				}
				o := calleeObj(t.Info, call)
				f, ok := o.(*types.Func)
				if !ok {
					return true
				}
				res := f.Type().(*types.Signature).Results()
				if res.Len() != len(x.Lhs) {
					return true
				}
				n++
				for i, l := range x.Lhs {
					id, ok := l.(*ast.Ident)
					if !ok || id.Name == "_" || res.At(i).Name() == "" || id.Name == res.At(i).Name() {
						continue
					}
					for j := 0; j < res.Len(); j++ {
						if j != i && res.At(j).Name() == id.Name && types.Identical(res.At(j).Type(), res.At(i).Type()) {
							fn := enclosingFuncName(t.Name, file, x.Pos())
							key := fmt.Sprintf("%s|results:%s|var:%s<-result:%s", fn, f.Name(), id.Name, res.At(i).Name())
							report(key, t.Pos(x.Pos()), fmt.Sprintf("variable %q receives result %q although the callee also returns %q of the identical type", id.Name, res.At(i).Name(), res.At(j).Name()))
						}
					}
				}
			}
			return true
		})
	}
	return n
}

func callSignature(info *types.Info, call *ast.CallExpr) *types.Signature {
	tv, ok := info.Types[call.Fun]
	if !ok || tv.IsType() {
		return nil
	}
	sig, _ := tv.Type.Underlying().(*types.Signature)
	if sig == nil {
		return nil
	}
	// use the declared parameter names of the callee object when available
	if o := calleeObj(info, call); o != nil {
		if f, ok := o.(*types.Func); ok {
			if s, ok := f.Type().(*types.Signature); ok && s.Params().Len() == sig.Params().Len() {
				vars := make([]*types.Var, sig.Params().Len())
				for i := range vars {
					vars[i] = types.NewVar(token.NoPos, nil, s.Params().At(i).Name(), sig.Params().At(i).Type())
				}
				return types.NewSignatureType(nil, nil, nil, types.NewTuple(vars...), sig.Results(), sig.Variadic())
			}
		}
	}
	return sig
}

func calleeName(info *types.Info, call *ast.CallExpr) string {
	if o := calleeObj(info, call); o != nil {
		return o.Name()
	}
	return "?"
}

func enclosingFuncName(pkgName string, file *ast.File, pos token.Pos) string {
	for _, d := range file.Decls {
		if fd, ok := d.(*ast.FuncDecl); ok && fd.Pos() <= pos && pos <= fd.End() {
			if fd.Recv != nil && len(fd.Recv.List) == 1 {
				return pkgName + "." + recvTypeName(fd.Recv.List[0].Type) + "." + fd.Name.Name
			}
			return pkgName + "." + fd.Name.Name
		}
	}
	return pkgName + ".<init>"
}

const crossWiringExample = `package example

type T struct{ x int }
type M struct {
	FilterPartial *T
	FilterDelete  *T
}

func engine(remoteWrite, persist bool, filterPartial, filterDelete *T) {}
func extract() (filterPartial *T, filterDelete *T)                    { return nil, nil }

func swapped(remoteWrite, persist bool, filterPartial, filterDelete *T) {
	engine(remoteWrite, persist, filterDelete, filterPartial) // 2 reports
	engine(persist, remoteWrite, filterPartial, filterDelete) // 2 reports
	_ = M{FilterPartial: filterDelete, FilterDelete: filterPartial} // 2 reports
}

func swappedResults() {
	filterDelete, filterPartial := extract() // 2 reports
	_, _ = filterDelete, filterPartial
}

func fine(remoteWrite, persist bool, a, b *T) {
	engine(remoteWrite, persist, a, b)
	engine(remoteWrite, true, nil, b)
	p, d := extract()
	_ = M{FilterPartial: p, FilterDelete: d}
}
`

// crossWiringSelfCheck runs the lint on the built-in positive example: it must
// report exactly the 8 seeded swaps and nothing in fine().
func crossWiringSelfCheck() (got int, err error) {
	fset := token.NewFileSet()
	f, err := parser.ParseFile(fset, "example.go", crossWiringExample, 0)
	if err != nil {
		return 0, err
	}
	info := &types.Info{Types: map[ast.Expr]types.TypeAndValue{}, Defs: map[*ast.Ident]types.Object{}, Uses: map[*ast.Ident]types.Object{}, Selections: map[*ast.SelectorExpr]*types.Selection{}}
	conf := types.Config{}
	if _, err := conf.Check("example", fset, []*ast.File{f}, info); err != nil {
		return 0, err
	}
	bad := 0
	crossWiring(lintTarget{Name: "example", Files: []*ast.File{f}, Info: info, Pos: func(p token.Pos) string { return fset.Position(p).String() }}, func(key, pos, detail string) {
		got++
		if strings.Contains(key, "example.fine") {
			bad++
		}
	})
	if bad > 0 {
		return got, fmt.Errorf("lint fired %d times on the neutral part of the example", bad)
	}
	return got, nil
}
