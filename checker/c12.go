package main

import (
	"fmt"
	"go/token"
	"go/types"
	"sort"
	"strings"

	"golang.org/x/tools/go/ssa"
)

func init() {
	register("C12", true,
		"Lockset and dominance rules on the write-approval state (the per-peer tally and pending maps are (re)created only on a miss of the outer key; each resolver — ApproveOrDenyWrite and the timeout callback — claims the pending entry by a comma-ok look-up and delete inside one critical section and produces its outcome only if the claim succeeded; the timer is armed while the lock is held and the entry is stored in the same section), path-sensitive effect counting of both resolvers (a claimed write yields exactly one outcome: the write executor once, or one error result; an unclaimed or not yet unanimous one yields none), structural rules (each approval callback is started once per write in a loop over the callback list; the pending entry is armed before the callbacks are started), and a finite truth table of the tally logic. Decided: the claim discipline that makes outcomes exactly-once under races. Not decided: 'before the timeout' (timing), verdict orders beyond the claim discipline.",
		checkC12)
}

func checkC12(p *Prog, r *Report) {
	ls := BuildLockset(p, "spine", "model")
	ib := newInbound(p)
	fli := p.LookupIface("api", "FeatureLocalInterface")
	if fli == nil || len(ib.missing) > 0 {
		r.Undecided("R0", "anchors", "", "api.FeatureLocalInterface or inbound anchors not found")
		return
	}
	var pend = F("FeatureLocal.pendingWriteApprovals")
	var tally = F("FeatureLocal.writeApprovalReceived")
	r.Rule("R1", "the inner maps of the approval tally and of the pending approvals are (re)created only after a miss of the outer (peer) key")
	outerKeyGuard(p, ls, r, "R1", tally, 1)
	outerKeyGuard(p, ls, r, "R1", pend, 1)

	perWriteBookkeepingRule(p, ls, r, "R7", tally, pend)
	// a verdict given from an application event handler must not wait for Publish, nor Publish for it (mechanism: event bus)
	capturedStateMapRule(p, r, "R14")
	r.ImportRules(p, "C15", checkC15, map[string]string{"R3": "R13"})
	approvalCleanupRule(p, r, "R8")
	r.Rule("R10", "the locks of the approval bookkeeping are acquired in one order everywhere: no cycle of the held->acquired relation (over all mutexes, along synchronous calls) passes through a lock of the local feature — a verdict racing the clean-up after a disconnect cannot deadlock and leave writes without outcome")
	lockOrderOn(p, r, "R10", "FeatureLocal.", "locks of the local feature")
	r.Rule("R9", "every approval callback registered takes part: AddWriteApprovalCallback stores its callback on every path that does not return an error (no registration is dropped silently)")
	registrationRule(p, r, "R9", "AddWriteApprovalCallback", "FeatureLocal.writeApprovalCallbacks")
	r.Rule("R11", "a registration is refused only because of the role of the feature: every error return of AddWriteApprovalCallback is reached under the failed role test and under nothing else — a refusal for any other reason (a de-duplication by code pointer treats distinct closures of one literal, or bound methods of two objects, as one callback) leaves a callback out of the unanimity count")
	c12RefusalOnlyByRole(p, r, "R11")
	r.Rule("R2", "whoever deletes a pending entry and then produces an outcome claims it: a comma-ok look-up of the entry and its deletion share one critical section, and every outcome effect is reached only if the look-up found the entry")
	r.Rule("R3", "resolver paths: claimed ⇒ exactly one outcome (the write executor exactly once, or exactly one error result); not claimed or not yet unanimous ⇒ no outcome")
	nResolvers := 0
	for _, fn := range ls.fns {
		if isWrapper(fn) {
			continue
		}
		var dels []*ssa.Call
		var lookups []*ssa.Lookup
		for _, a := range ls.accessesIn(pend, fn) {
			switch x := a.Ins.(type) {
			case *ssa.Call:
				if builtinName(&x.Call) == "delete" && strings.Contains(Path(x.Call.Args[0]), "."+FN("FeatureLocal.pendingWriteApprovals")+"[]") {
					dels = append(dels, x)
				}
			case *ssa.Lookup:
				if x.CommaOk && strings.Contains(Path(x.X), "."+FN("FeatureLocal.pendingWriteApprovals")+"[]") {
					lookups = append(lookups, x)
				}
			}
		}
		if len(dels) == 0 {
			continue
		}
		nResolvers++
		base := FnName(fn)
		// R2a: claim atomic
		okClaim := false
		var claim *ssa.Lookup
		for _, d := range dels {
			for _, lk := range lookups {
				if Path(lk.Index) == Path(d.Call.Args[1]) && sharesGuardSection(ls, pend, lk, d) {
					okClaim = true
					claim = lk
				}
			}
		}
		r.Check("R2", base+"|claim", okClaim, p.InstrPos(dels[0]), fmt.Sprintf("%d comma-ok look-ups of the pending entry; one shares the critical section of the delete: %v", len(lookups), okClaim))
		// R2b: outcome effects guarded by the claim
		nEff, okEff := 0, true
		forEachCall(fn, func(site ssa.CallInstruction) {
			c, ok := site.(*ssa.Call)
			if !ok {
				return
			}
			isOutcome := ib.effect(site, nil) == "resErr"
			if !isOutcome {
				for _, callee := range p.Callees(site) {
					if ib.engine().relevantTo(callee, "storeRemoteWrite", ib) {
						isOutcome = true
					}
				}
			}
			if !isOutcome {
				return
			}
			nEff++
			guarded := false
			for _, g := range Guards(c.Block()) {
				if ex, ok := g.Cond.(*ssa.Extract); ok && ex.Index == 1 && claim != nil && ex.Tuple == ssa.Value(claim) && g.Val {
					guarded = true
				}
			}
			if !guarded {
				okEff = false
			}
		})
		r.Check("R2", base+"|outcome-after-claim", nEff > 0 && okEff, p.Pos(fn.Pos()), fmt.Sprintf("%d outcome effects, all reached only on the found edge of the claiming look-up: %v", nEff, okEff))

		// R3: path classes
		for _, ack := range []string{"nil", "true"} {
			ib.val = inboundVal{Cls: "write", Ack: ack}
			e := ib.engine()
			outs := e.Summarize(fn, ib.val.String(), nil, 0)
			ok := true
			nClaimed := 0
			for _, o := range outs {
				attempts := o.N("storeRemoteWrite") + o.N("storeRemoteWriteFail")
				errs := o.N("resErr")
				// claimed: every comma-ok look-up of the pending entry on the way found it (the last one is the claiming one)
				nFound := 0
				for _, ev := range o.Events {
					if ev == "pendingClaimed=true" {
						nFound++
					}
				}
				claimed := nFound == len(lookups) && !o.HasEvent("pendingClaimed=false")
				key := fmt.Sprintf("%s|ack=%s|class:%s|claimed=%v", base, ack, classSig(o), claimed)
				bad := ""
				if claimed {
					nClaimed++
					switch {
					case attempts == 1 && o.N("storeRemoteWrite") == 1 && errs == 0:
					case attempts == 1 && o.N("storeRemoteWriteFail") == 1 && errs == 1:
					case attempts == 0 && errs == 1 && o.N("resOk") == 0:
					default:
						bad = fmt.Sprintf("a claimed write must yield exactly one outcome (store attempts %d, error results %d, success results %d)", attempts, errs, o.N("resOk"))
					}
				} else if attempts+errs+o.N("resOk")+o.N("notify")+o.N("publish") != 0 {
					bad = "an outcome is produced without claiming the pending entry"
				}
				if bad != "" {
					ok = false
					r.Fail("R3", key, firstPos(o), bad+": "+strings.Join(o.Trace, " "))
				}
			}
			if nClaimed == 0 {
				r.Undecided("R3", fmt.Sprintf("%s|ack=%s|enumeration", base, ack), p.Pos(fn.Pos()), "no path claiming the pending entry found")
			} else if ok {
				r.Pass("R3", fmt.Sprintf("%s|ack=%s", base, ack), p.Pos(fn.Pos()), fmt.Sprintf("%d path classes, %d claiming", len(outs), nClaimed))
			}
		}
	}
	r.Floor("R2", "resolvers (functions deleting a pending entry)", nResolvers, 2)

	r.Rule("R2t", "the timeout timer is created while the lock guarding the pending map is held, and the entry is stored in the same critical section (the timer cannot fire before its entry exists); its duration is the configured approval timeout")
	nArm := 0
	var armFn *ssa.Function
	for _, fn := range ls.fns {
		if isWrapper(fn) {
			continue
		}
		forEachCall(fn, func(site ssa.CallInstruction) {
			c, ok := site.(*ssa.Call)
			if !ok {
				return
			}
			callee := c.Call.StaticCallee()
			if callee == nil || fnPkgPath(callee) != "time" || callee.Name() != "AfterFunc" {
				return
			}
			nArm++
			armFn = fn
			var store *ssa.MapUpdate
			for _, a := range ls.accessesIn(pend, fn) {
				if mu, ok := a.Ins.(*ssa.MapUpdate); ok && mu.Value == ssa.Value(c) {
					store = mu
				}
			}
			ok = store != nil && len(ls.CommonSections(c, store)) > 0
			r.Check("R2t", FnName(fn)+"|arm-under-lock", ok, p.InstrPos(c), fmt.Sprintf("timer created with locks %s; stored in the same critical section: %v", ls.At(c), ok))
			// the configured approval timeout: the field the API setter SetWriteApprovalTimeout stores into
			timeoutField := ""
			if fli2 := p.LookupIface("api", "FeatureLocalInterface"); fli2 != nil {
				for _, setter := range p.ImplsOf(fli2, "SetWriteApprovalTimeout") {
					for _, sb := range setter.Blocks {
						for _, si := range sb.Instrs {
							if st, ok := si.(*ssa.Store); ok {
								if fa, ok := st.Addr.(*ssa.FieldAddr); ok && fieldOfAddr(fa) != nil {
									if _, isParam := st.Val.(*ssa.Parameter); isParam {
										timeoutField = fieldOfAddr(fa).Name()
									}
								}
							}
						}
					}
				}
			}
			r.Check("R2t", FnName(fn)+"|duration", timeoutField != "" && strings.HasSuffix(Path(c.Call.Args[0]), "."+timeoutField), p.InstrPos(c), "timer duration "+Path(c.Call.Args[0])+"; configured timeout field: "+timeoutField)
			// key of the stored entry: the request's message counter; outer key: the peer's SKI
			if store != nil {
				outer := ""
				if lk, ok := store.Map.(*ssa.Lookup); ok {
					outer = Path(lk.Index)
				}
				r.Check("R2t", FnName(fn)+"|entry-key", strings.HasSuffix(Path(store.Key), ".RequestHeader.MsgCounter") && strings.Contains(outer, "Ski()"), p.InstrPos(store), fmt.Sprintf("entry stored under %s in the map of peer %s", Path(store.Key), outer))
			}
		})
	}
	r.Floor("R2t", "timer arming sites", nArm, 1)

	r.Rule("R4", "every approval callback is started exactly once per write: one go statement per element of the callback list, unconditionally, under the lock guarding the list")
	startFns := callbackTriggers(p, "writeApprovalCallbacks")
	isHandle := map[*ssa.Function]bool{}
	for _, fn := range p.ImplsOf(fli, "HandleMessage") {
		isHandle[fn] = true
	}
	for fn := range startFns {
		nGo := 0
		ok := true
		forEachCall(fn, func(site ssa.CallInstruction) {
			g, isGo := site.(*ssa.Go)
			if !isGo {
				return
			}
			nGo++
			if !cyclic(g.Block()) || !strings.Contains(Path(g.Call.Value), ".writeApprovalCallbacks[]") {
				ok = false
			}
			for _, gd := range Guards(g.Block()) {
				if bo, isB := gd.Cond.(*ssa.BinOp); isB {
					if _, isLen := bo.Y.(*ssa.Call); isLen {
						continue
					}
				}
				if isHandle[fn] && gd.If != nil && !cyclic(gd.If.Block()) {
					continue // loop inlined into the dispatcher: its conditions before the loop are R5's and the path engine's
				}
				ok = false
			}
			if len(g.Call.Args) != 1 || !strings.HasPrefix(Path(g.Call.Args[0]), "param:") {
				ok = false
			}
			held := false
			for lp := range ls.At(g) {
				if g := guardOfField(ls, pend); g != "" && lastComp(lp) == g {
					held = true
				}
			}
			if !held {
				ok = false
			}
		})
		r.Check("R4", FnName(fn), ok && nGo == 1, p.Pos(fn.Pos()), fmt.Sprintf("%d go statements over the callback list", nGo))
	}
	if len(startFns) != 1 {
		r.Undecided("R4", "floor:start functions", "", fmt.Sprintf("%d functions starting approval callbacks found", len(startFns)))
	}

	r.Rule("R5", "in HandleMessage the pending entry is armed before the approval callbacks are started, and both happen only when approval callbacks are registered; otherwise the write is executed directly")
	for _, fn := range p.ImplsOf(fli, "HandleMessage") {
		if isWrapper(fn) {
			continue
		}
		var arm, start ssa.Instruction
		forEachCall(fn, func(site ssa.CallInstruction) {
			c, ok := site.(*ssa.Call)
			if !ok {
				return
			}
			for _, callee := range p.Callees(c) {
				if callee == armFn {
					arm = c
				}
				if startFns[callee] {
					start = c
				}
			}
		})
		if startFns[fn] { // started inline
			forEachCall(fn, func(site ssa.CallInstruction) {
				if g, isGo := site.(*ssa.Go); isGo && strings.Contains(Path(g.Call.Value), "."+FN("FeatureLocal.writeApprovalCallbacks")+"[]") {
					start = g
				}
			})
		}
		if arm == nil && start == nil {
			continue // node management delegates nothing here
		}
		ok := arm != nil && start != nil && instrDominates(arm, start)
		// both under len(callbacks) > 0
		if ok {
			guarded := false
			for _, g := range Guards(start.Block()) {
				if bo, isB := g.Cond.(*ssa.BinOp); isB {
					if k, isK := constInt(bo.Y); isK && isApprovalCallbackCount(bo.X, 0) {
						// "callbacks are registered" in any spelling, on the edge where it holds
						pos := (bo.Op == token.GTR && k == 0) || (bo.Op == token.NEQ && k == 0) || (bo.Op == token.GEQ && k == 1)
						neg := (bo.Op == token.EQL && k == 0) || (bo.Op == token.LSS && k == 1) || (bo.Op == token.LEQ && k == 0)
						if (pos && g.Val) || (neg && !g.Val) {
							guarded = true
						}
					}
				}
			}
			ok = guarded
		}
		r.Check("R5", FnName(fn), ok, p.Pos(fn.Pos()), "arm before start, both under len(writeApprovalCallbacks) > 0")
	}

	r.Rule("R6", "tally logic of ApproveOrDenyWrite over {denied, several callbacks, tally reaches the count}: the claim is attempted iff denied, or a single callback, or the tally reached the number of callbacks")
	c12Tally(p, ls, r, fli)
	r.Assumes("time.AfterFunc runs its function at most once; Stop after the claim is irrelevant for correctness")
}

// relevantTo: callee can (synchronously) reach an effect of the given name.
func (e *PathEngine) relevantTo(fn *ssa.Function, effect string, ib *inbound) bool {
	if e.relevant == nil {
		e.computeRelevant()
	}
	key := "relTo|" + effect
	if e.relCache == nil {
		e.relCache = map[string]map[*ssa.Function]bool{}
	}
	set, ok := e.relCache[key]
	if !ok {
		set = map[*ssa.Function]bool{}
		for f := range e.relevant {
			if f.Blocks == nil {
				continue
			}
			forEachCall(f, func(site ssa.CallInstruction) {
				if ef := e.Effect(site, nil); ef == effect || (effect == "storeRemoteWrite" && ef == "storeParam") {
					set[f] = true
				}
			})
		}
		for changed := true; changed; {
			changed = false
			for f := range e.relevant {
				if set[f] || f.Blocks == nil {
					continue
				}
				forEachCall(f, func(site ssa.CallInstruction) {
					if _, isCall := site.(*ssa.Call); !isCall {
						return
					}
					for _, c := range e.p.Callees(site) {
						if set[c] && !ib.opaque(c) {
							set[f] = true
							changed = true
						}
					}
				})
			}
		}
		e.relCache[key] = set
	}
	return set[fn]
}

// c12Tally: simulate ApproveOrDenyWrite up to the claim under the finite atoms.
func c12Tally(p *Prog, ls *Lockset, r *Report, fli interface{}) {
	for _, fn := range p.RepoFns("spine") {
		if originName(fn) != "ApproveOrDenyWrite" || fn.Signature.Recv() == nil || !isNamed(fn.Signature.Recv().Type(), "spine", "FeatureLocal") {
			continue
		}
		// the claiming look-up: the second comma-ok look-up (under the final lock) — the one sharing a section with the delete
		var claim *ssa.Lookup
		var del *ssa.Call
		for _, a := range ls.accessesIn(F("FeatureLocal.pendingWriteApprovals"), fn) {
			if c, ok := a.Ins.(*ssa.Call); ok && builtinName(&c.Call) == "delete" {
				del = c
			}
		}
		for _, a := range ls.accessesIn(F("FeatureLocal.pendingWriteApprovals"), fn) {
			if lk, ok := a.Ins.(*ssa.Lookup); ok && lk.CommaOk && del != nil && len(ls.CommonSections(lk, del)) > 0 {
				claim = lk
			}
		}
		if claim == nil {
			r.Undecided("R6", FnName(fn)+"|claim", p.Pos(fn.Pos()), "claiming look-up not found")
			return
		}
		ok := true
		detail := ""
		for m := 0; m < 8; m++ {
			denied, several, reached := m&1 != 0, m&2 != 0, m&4 != 0
			atom := func(c ssa.Value) (bool, bool) {
				bo, isB := c.(*ssa.BinOp)
				if !isB {
					// early exits before the tally: treat role/device/timer checks as passed
					if call, isC := c.(*ssa.Call); isC {
						_ = call
					}
					return false, false
				}
				k, isK := constInt(bo.Y)
				px := Path(bo.X)
				switch {
				case isK && strings.HasSuffix(px, ".ErrorNumber"):
					// err.ErrorNumber == 0  (approved)
					if k == 0 {
						return true, (bo.Op == token.EQL) != denied
					}
				case isK && k == 1 && bo.Op == token.GTR && strings.Contains(px, "len("):
					return true, several
				case bo.Op == token.LSS && strings.Contains(px, "."+FN("FeatureLocal.writeApprovalReceived")):
					return true, !reached
				case bo.Op == token.LSS && isCounterLookup(bo.X):
					// the tally read through a local holding the peer's inner map ("received[counter] < count")
					return true, !reached
				}
				if bo.Op == token.GTR {
					if c2, isC := bo.X.(*ssa.Call); isC && builtinName(&c2.Call) == "len" {
						if kk, ok := constInt(bo.Y); ok && kk == 1 {
							return true, several
						}
					}
					if _, isLenVar := bo.X.(*ssa.Call); !isLenVar {
						if kk, ok := constInt(bo.Y); ok && kk == 1 {
							return true, several
						}
					}
				}
				return false, false
			}
			reachable := reachableUnder(fn, claim, atom)
			want := denied || !several || reached
			if reachable != want {
				ok = false
				detail = fmt.Sprintf("denied=%v several-callbacks=%v tally-reached=%v: claim reachable=%v, expected %v", denied, several, reached, reachable, want)
			}
		}
		r.Check("R6", FnName(fn)+"|tally", ok, p.InstrPos(claim), "truth table over {denied, more than one callback, tally reached the count}. "+detail)
		// the threshold of the tally test is the number of callbacks itself: unanimity, not a quorum
		nThr := 0
		for _, b := range fn.Blocks {
			for _, ins := range b.Instrs {
				bo, isB := ins.(*ssa.BinOp)
				if !isB || (bo.Op != token.LSS && bo.Op != token.LEQ && bo.Op != token.GEQ && bo.Op != token.GTR) {
					continue
				}
				if !(strings.Contains(Path(bo.X), "."+FN("FeatureLocal.writeApprovalReceived")) || isCounterLookup(bo.X)) {
					continue
				}
				nThr++
				thr := bo.Y
				bad := ""
				switch y := thr.(type) {
				case *ssa.BinOp:
					bad = "an arithmetic expression (" + Path(y.X) + " " + y.Op.String() + " " + Path(y.Y) + ")"
				case *ssa.Const:
					bad = "the constant " + y.Value.ExactString()
				}
				r.Check("R6", FnName(fn)+"|threshold", bad == "" && bo.Op == token.LSS, p.InstrPos(bo), fmt.Sprintf("the tally is tested with 'tally < number of callbacks' (operator %s, threshold %s %s): every callback has to approve", bo.Op, Path(thr), bad))
			}
		}
		if nThr == 0 {
			r.Undecided("R6", FnName(fn)+"|threshold", p.Pos(fn.Pos()), "comparison of the tally with the number of callbacks not found")
		}
		return
	}
	r.Undecided("R6", "anchor:ApproveOrDenyWrite", "", "implementation not found")
}

// claimRule (C12-R2, shared with C01): whoever deletes a pending entry and then
// produces an outcome claims it — the comma-ok look-up and the delete share one
// critical section and every outcome effect is reached only on the found edge.
func claimRule(p *Prog, ls *Lockset, ib *inbound, r *Report, rule string) {
	pend := F("FeatureLocal.pendingWriteApprovals")
	n := 0
	for _, fn := range ls.fns {
		if isWrapper(fn) {
			continue
		}
		var dels []*ssa.Call
		var lookups []*ssa.Lookup
		for _, a := range ls.accessesIn(pend, fn) {
			switch x := a.Ins.(type) {
			case *ssa.Call:
				if builtinName(&x.Call) == "delete" && strings.Contains(Path(x.Call.Args[0]), "."+FN("FeatureLocal.pendingWriteApprovals")+"[]") {
					dels = append(dels, x)
				}
			case *ssa.Lookup:
				if x.CommaOk && strings.Contains(Path(x.X), "."+FN("FeatureLocal.pendingWriteApprovals")+"[]") {
					lookups = append(lookups, x)
				}
			}
		}
		if len(dels) == 0 {
			continue
		}
		n++
		base := FnName(fn)
		okClaim := false
		var claim *ssa.Lookup
		for _, d := range dels {
			for _, lk := range lookups {
				if debugEnv("SPINEDEBUG_CLAIM") {
					fmt.Printf("CLAIM %s: lookup@%s held=%v ; delete@%s held=%v ; common=%v\n", FnName(fn), p.InstrPos(lk), ls.At(lk), p.InstrPos(d), ls.At(d), ls.CommonSections(lk, d))
				}
				if Path(lk.Index) == Path(d.Call.Args[1]) && sharesGuardSection(ls, pend, lk, d) {
					okClaim = true
					claim = lk
				}
			}
		}
		r.Check(rule, base+"|claim", okClaim, p.InstrPos(dels[0]), fmt.Sprintf("%d comma-ok look-ups of the pending entry; one shares the critical section of the delete: %v", len(lookups), okClaim))
		nEff, okEff := 0, true
		forEachCall(fn, func(site ssa.CallInstruction) {
			c, ok := site.(*ssa.Call)
			if !ok {
				return
			}
			isOutcome := ib.effect(site, nil) == "resErr"
			if !isOutcome {
				for _, callee := range p.Callees(site) {
					if ib.engine().relevantTo(callee, "storeRemoteWrite", ib) {
						isOutcome = true
					}
				}
			}
			if !isOutcome {
				return
			}
			nEff++
			guarded := false
			for _, g := range Guards(c.Block()) {
				if ex, ok := g.Cond.(*ssa.Extract); ok && ex.Index == 1 && claim != nil && ex.Tuple == ssa.Value(claim) && g.Val {
					guarded = true
				}
			}
			if !guarded {
				okEff = false
			}
		})
		r.Check(rule, base+"|outcome-after-claim", nEff > 0 && okEff, p.Pos(fn.Pos()), fmt.Sprintf("%d outcome effects, all reached only on the found edge of the claiming look-up: %v", nEff, okEff))
	}
	r.Floor(rule, "resolvers (functions deleting a pending entry)", n, 2)
}

// approvalLockOrder: no cycle of the held->acquired relation contains a lock of the
// write-approval bookkeeping (a verdict racing a disconnect clean-up must not deadlock).
func lockOrderOn(p *Prog, r *Report, rule string, prefix string, what string) {
	lo := BuildLockOrder(p, p.RepoFnsWithWrappers("spine", "model", "util", "api"))
	bad := 0
	for _, cyc := range lo.Cycles() {
		var names, wit []string
		hit := false
		for _, e := range cyc {
			names = append(names, e.From)
			wit = append(wit, e.Witness)
			if strings.HasPrefix(e.From, prefix) {
				hit = true
			}
		}
		if !hit {
			continue
		}
		bad++
		sort.Strings(names)
		r.Fail(rule, "cycle:"+strings.Join(names, ","), "", strings.Join(wit, " ; "))
	}
	n := 0
	for k := range lo.Nodes {
		if strings.HasPrefix(k, prefix) {
			n++
		}
	}
	if bad == 0 {
		r.Pass(rule, "order:"+prefix, "", fmt.Sprintf("%d %s, %d held->acquired edges over all mutexes, no cycle through them", n, what, len(lo.Edges)))
	}
	r.Floor(rule, what, n, 2)
}

// isCounterLookup: v reads an integer out of a map keyed by the write's message counter — directly, or through an
// unexported helper of the repository that returns such a read of the tally (recordWriteApproval(ski, counter)).
func isCounterLookup(v ssa.Value) bool {
	if c, isCall := v.(*ssa.Call); isCall {
		callee := c.Call.StaticCallee()
		if callee == nil || callee.Blocks == nil || callee.Object() == nil || callee.Object().Exported() || callee.Signature.Results().Len() != 1 {
			return false
		}
		n := 0
		for _, b := range callee.Blocks {
			ret, isRet := b.Instrs[len(b.Instrs)-1].(*ssa.Return)
			if !isRet {
				continue
			}
			n++
			lk, isLk := ret.Results[0].(*ssa.Lookup)
			if !isLk || lk.CommaOk || !strings.Contains(Path(lk.X), "."+FN("FeatureLocal.writeApprovalReceived")) {
				return false
			}
		}
		return n > 0
	}
	lk, ok := v.(*ssa.Lookup)
	if !ok || lk.CommaOk {
		return false
	}
	if bt, isB := lk.Type().Underlying().(*types.Basic); !isB || bt.Info()&types.IsInteger == 0 {
		return false
	}
	return strings.HasSuffix(Path(lk.Index), ".RequestHeader.MsgCounter")
}

// perWriteBookkeepingRule (C12-R7, shared with C01): a function that addresses the per-peer approval maps by message
// counter deletes only at the counter level.
func perWriteBookkeepingRule(p *Prog, ls *Lockset, r *Report, rule, tally, pend string) {
	r.Rule(rule, "bookkeeping of one write never touches another write of the same peer: a function that addresses the per-peer maps by message counter deletes only at the counter level; removing a peer's whole entry is left to functions that never address a single write (teardown)")
	nDel := 0
	for _, key := range []string{tally, pend} {
		fname := key[strings.Index(key, ".")+1:]
		for _, fn := range ls.fns {
			if isWrapper(fn) {
				continue
			}
			var outerDel []*ssa.Call
			inner := 0
			for _, a := range ls.accessesIn(key, fn) {
				switch x := a.Ins.(type) {
				case *ssa.Call:
					if builtinName(&x.Call) == "delete" {
						nDel++
						pth := Path(x.Call.Args[0])
						if strings.HasSuffix(pth, "."+fname) {
							outerDel = append(outerDel, x)
						} else if strings.Contains(pth, "."+fname+"[]") {
							inner++
						}
					}
				case *ssa.Lookup:
					if strings.Contains(Path(x.X), "."+fname+"[]") {
						inner++
					}
				case *ssa.MapUpdate:
					if strings.Contains(Path(x.Map), "."+fname+"[]") {
						inner++
					}
				}
			}
			for i, d := range outerDel {
				r.Check(rule, fmt.Sprintf("field:%s|fn:%s|peer-delete#%d", key, FnName(originOf(fn)), i+1), inner == 0, p.InstrPos(d), fmt.Sprintf("the whole entry of the peer is deleted in a function that addresses single writes by counter %d times: the bookkeeping of the peer's other pending writes is wiped with it", inner))
			}
		}
	}
	r.Floor(rule, "deletions on the per-peer maps", nDel, 3)
}

// c12RefusalOnlyByRole: the error returns of AddWriteApprovalCallback are guarded by the role test only.
func c12RefusalOnlyByRole(p *Prog, r *Report, rule string) {
	fli := p.LookupIface("api", "FeatureLocalInterface")
	if fli == nil {
		r.Undecided(rule, "anchor:api.FeatureLocalInterface", "", "interface not found")
		return
	}
	n := 0
	seen := map[*ssa.Function]bool{}
	for _, fn := range p.ImplsOf(fli, "AddWriteApprovalCallback") {
		impl := fn
		if isWrapper(fn) {
			forEachCall(fn, func(site ssa.CallInstruction) {
				if c := site.Common().StaticCallee(); c != nil && c.Name() == fn.Name() {
					impl = c
				}
			})
		}
		if seen[impl] || impl.Blocks == nil {
			continue
		}
		seen[impl] = true
		nres := impl.Signature.Results().Len()
		if nres == 0 {
			continue
		}
		for _, as := range resultAssignments(impl, nres-1) {
			if c, isC := as.Val.(*ssa.Const); isC && c.IsNil() {
				continue
			}
			n++
			byRole, other := false, []string{}
			for _, g := range Guards(as.Block) {
				pth := Path(g.Cond)
				if bo, isB := g.Cond.(*ssa.BinOp); isB {
					lp := Path(bo.X) + " " + Path(bo.Y)
					if strings.Contains(lp, "Role()") || strings.Contains(lp, "."+FN("Feature.role")) {
						byRole = true
						continue
					}
				}
				other = append(other, pth)
			}
			r.Check(rule, fmt.Sprintf("%s|refusal#%d", FnName(impl), n), byRole && len(other) == 0, p.Pos(as.Pos), fmt.Sprintf("the error return is reached under the role test: %v; under other conditions: %v", byRole, other))
		}
	}
	r.Floor(rule, "error returns of AddWriteApprovalCallback", n, 1)
}

// sharesGuardSection: a and b lie in one uninterrupted critical section of the lock that guards the field (the lock
// the other parties of the protocol take) — a section of some other lock that happens to span both does not make
// the pair atomic for them.
func sharesGuardSection(ls *Lockset, key string, a, b ssa.Instruction) bool {
	g := guardOfField(ls, key)
	for _, lp := range ls.CommonSections(a, b) {
		if g == "" || lastComp(lp) == g {
			return true
		}
	}
	return false
}
