package main

import (
	"fmt"
	"go/types"
	"sort"
	"strings"

	"golang.org/x/tools/go/ssa"
)

func init() {
	register("C17", true,
		"Lockset analysis over every function of packages spine and model (SSA, must-hold sets with critical-section identity, entry locksets by intersection over call sites, closures run synchronously by linq/sort treated as part of their parent): guarded-by consistency of every struct field of package spine, atomic consistency, read/write lock mode, lock pairing on every path to every return, and an acyclic held->acquired order over all mutexes using transitive may-acquire summaries along synchronous call edges. Decided: consistent locking, pairing and lock order (necessary for race and deadlock freedom). Not decided: races through data reachable from returned pointers, synchronisation by channels, liveness other than lock cycles; a lockset argument is necessary for, not equal to, race freedom under all schedules.",
		checkC17)
}

// writesThroughParam0: the function (transitively, static callees, bounded)
// stores through memory reachable from its first parameter / receiver.
func writesThroughParam0(p *Prog, fn *ssa.Function, memo map[*ssa.Function]int, depth int) bool {
	if fn == nil || fn.Blocks == nil || len(fn.Params) == 0 {
		return false
	}
	if v, ok := memo[fn]; ok {
		return v == 1
	}
	memo[fn] = 0
	root0 := rootOf(Path(fn.Params[0]))
	res := false
	for _, b := range fn.Blocks {
		for _, ins := range b.Instrs {
			switch x := ins.(type) {
			case *ssa.Store:
				if _, isAlloc := x.Addr.(*ssa.Alloc); isAlloc {
					continue
				}
				if rootOf(Path(x.Addr)) == root0 {
					res = true
				}
			case *ssa.MapUpdate:
				if rootOf(Path(x.Map)) == root0 {
					res = true
				}
			case *ssa.Call:
				if builtinName(&x.Call) == "delete" && len(x.Call.Args) > 0 && rootOf(Path(x.Call.Args[0])) == root0 {
					res = true
				}
				if depth < 4 {
					if c := x.Call.StaticCallee(); c != nil && len(x.Call.Args) > 0 && rootOf(Path(x.Call.Args[0])) == root0 {
						if writesThroughParam0(p, c, memo, depth+1) {
							res = true
						}
					}
				}
			}
		}
	}
	if res {
		memo[fn] = 1
	}
	return res
}

type fieldVerdict struct {
	Key       string
	Guard     string // lock name relative to the object, "" if none
	Atomic    bool
	Immutable bool // no write outside constructors
	NAcc      int
	Deviants  []Access
}

var guardMemo = map[*Lockset]map[string]string{}

// guardOfField is the inferred guard (lock name relative to the object) of a field.
func guardOfField(ls *Lockset, key string) string {
	m := guardMemo[ls]
	if m == nil {
		m = map[string]string{}
		for _, v := range guardTable(ls) {
			m[v.Key] = v.Guard
		}
		guardMemo[ls] = m
	}
	return m[key]
}

// guardTable infers, for every field, the lock guarding it and the deviating accesses.
func guardTable(ls *Lockset) []fieldVerdict {
	var res []fieldVerdict
	for _, key := range sortedKeys(ls.Accesses) {
		accs := ls.Accesses[key]
		v := fieldVerdict{Key: key}
		var live []Access
		nAtomic, nWrite := 0, 0
		for _, a := range accs {
			if a.Ctor {
				continue
			}
			live = append(live, a)
			if a.Kind == "A" {
				nAtomic++
			}
			if a.Write() {
				nWrite++
			}
		}
		v.NAcc = len(live)
		if len(live) == 0 {
			v.Immutable = true
			res = append(res, v)
			continue
		}
		if nAtomic > 0 {
			v.Atomic = true
			for _, a := range live {
				if a.Kind != "A" {
					v.Deviants = append(v.Deviants, a)
				}
			}
			res = append(res, v)
			continue
		}
		if nWrite == 0 {
			v.Immutable = true
			res = append(res, v)
			continue
		}
		// candidates: locks held (write mode) at some write
		count := map[string]int{}
		cand := map[string]bool{}
		for _, a := range live {
			for name, h := range a.heldOnSameObject() {
				count[name]++
				if a.Write() && !h.Read {
					cand[name] = true
				}
			}
		}
		best := ""
		for name := range cand {
			if best == "" || count[name] > count[best] || (count[name] == count[best] && name < best) {
				best = name
			}
		}
		v.Guard = best
		if best != "" {
			for _, a := range live {
				h, ok := a.heldOnSameObject()[best]
				if !ok || (a.Write() && h.Read) {
					v.Deviants = append(v.Deviants, a)
				}
			}
		}
		res = append(res, v)
	}
	return res
}

func checkC17(p *Prog, r *Report) {
	ls := BuildLockset(p, "spine", "model")
	r.Rule("R1", "guarded-by consistency: a field with at least one locked write is guarded by the lock common to its locked accesses; every access outside constructors holds it (writes in write mode)")
	r.Rule("R2", "atomic consistency: a field whose address reaches sync/atomic is never accessed otherwise")
	r.Rule("R3", "read/write mode: under a read lock no guarded field is written and no callee is called that writes through a guarded object")
	r.Rule("R4", "lock pairing: every Lock is released on every path to every return (explicitly or by a registered defer)")
	r.Rule("R5", "lock order: the held->acquired relation over all mutexes, along synchronous call edges, is acyclic and no function re-acquires a mutex it holds on the same object")
	r.Rule("R6", "every field of a spine struct that is written outside constructors is guarded by a lock or accessed atomically")

	tab := guardTable(ls)
	nGuarded, nAtomic, nImm, nNever := 0, 0, 0, 0
	for _, v := range tab {
		owner := strings.SplitN(v.Key, ".", 2)[0]
		// only structs of package spine carry locks; model structs are plain data
		if p.LookupType("spine", owner) == nil {
			continue
		}
		switch {
		case v.Atomic:
			nAtomic++
			if len(v.Deviants) == 0 {
				r.Pass("R2", "field:"+v.Key, "", fmt.Sprintf("%d accesses, all through sync/atomic", v.NAcc))
			}
			for _, a := range v.Deviants {
				r.Fail("R2", fmt.Sprintf("field:%s|fn:%s|%s", v.Key, FnName(originOf(a.Fn)), a.Kind), p.InstrPos(a.Ins), "non-atomic access to an atomically accessed field")
			}
		case v.Immutable:
			nImm++
		case v.Guard == "":
			nNever++
			// written after construction without any lock: one obligation per field, witnesses in the detail
			var ws, rs []string
			for _, a := range ls.Accesses[v.Key] {
				if a.Ctor {
					continue
				}
				s := FnName(originOf(a.Fn))
				if a.Write() {
					ws = append(ws, s)
				} else {
					rs = append(rs, s)
				}
			}
			r.Fail("R6", "field:"+stableFieldKey(p, v.Key), p.InstrPos(firstWrite(ls.Accesses[v.Key]).Ins), fmt.Sprintf("field %s is written without a lock in %s; read in %s", v.Key, uniq(ws), uniq(rs)))
		default:
			nGuarded++
			if len(v.Deviants) == 0 {
				r.Pass("R1", "field:"+v.Key, "", fmt.Sprintf("guarded by %s at all %d accesses", v.Guard, v.NAcc))
			}
			for _, a := range v.Deviants {
				rule := "R1"
				what := fmt.Sprintf("%s access without %s (held: %s)", a.Kind, v.Guard, a.Locks)
				if h, ok := a.heldOnSameObject()[v.Guard]; ok && h.Read && a.Write() {
					rule = "R3"
					what = fmt.Sprintf("%s access while %s is only read-locked", a.Kind, v.Guard)
				}
				r.Fail(rule, fmt.Sprintf("field:%s|fn:%s|%s", v.Key, FnName(originOf(a.Fn)), a.Kind), p.InstrPos(a.Ins), what)
			}
		}
	}
	r.Floor("R1", "guarded fields", nGuarded, 10)
	r.Floor("R2", "atomic fields", nAtomic, 4)
	r.Stat("fields immutable after construction", nImm)
	r.Stat("fields written without lock", nNever)

	// R3 (calls): mutating callee under a read lock
	memo := map[*ssa.Function]int{}
	nRead := 0
	for _, f := range ls.fns {
		forEachCall(f, func(site ssa.CallInstruction) {
			call, ok := site.(*ssa.Call)
			if !ok {
				return
			}
			var readLocks []string
			for lp, h := range ls.At(call) {
				if h.Read {
					readLocks = append(readLocks, lp)
				}
			}
			if len(readLocks) == 0 {
				return
			}
			if op, _ := lockCall(&call.Call); op != "" {
				return
			}
			nRead++
			c := call.Call.StaticCallee()
			if c == nil || len(call.Call.Args) == 0 {
				return
			}
			if writesThroughParam0(p, c, memo, 0) {
				r.Fail("R3", fmt.Sprintf("fn:%s|call:%s", FnName(originOf(f)), FnName(originOf(c))), p.InstrPos(call), fmt.Sprintf("%s writes through its receiver %s while only read locks %v are held", FnName(c), Path(call.Call.Args[0]), readLocks))
			} else {
				r.Pass("R3", fmt.Sprintf("fn:%s|call:%s", FnName(originOf(f)), FnName(originOf(c))), p.InstrPos(call), "callee does not write through its receiver")
			}
		})
	}
	r.Stat("R3.calls under read locks", nRead)
	r.Pass("R3", "read-locked regions", "", fmt.Sprintf("%d calls made while only a read lock is held were examined; writes to guarded fields under a read lock are reported per field (R1/R3)", nRead))

	// R4/R5
	lo := BuildLockOrder(p, ls.fns)
	nLockFns := 0
	for _, f := range ls.fns {
		has := false
		forEachCall(f, func(site ssa.CallInstruction) {
			if op, _ := lockCall(site.Common()); op == "Lock" || op == "RLock" {
				has = true
			}
		})
		if has {
			nLockFns++
		}
	}
	leakFns := map[string]bool{}
	for _, l := range lo.Leaks {
		parts := strings.Split(l, "|")
		leakFns[parts[0]] = true
		r.Fail("R4", "fn:"+parts[0]+"|lock:"+parts[1], parts[2], "lock may still be held at this return and no deferred unlock is registered")
	}
	for _, f := range ls.fns {
		has := false
		forEachCall(f, func(site ssa.CallInstruction) {
			if op, _ := lockCall(site.Common()); op == "Lock" || op == "RLock" {
				has = true
			}
		})
		if has && !leakFns[FnName(f)] {
			r.Pass("R4", "fn:"+FnName(originOf(f)), "", "every acquisition is released on all paths")
		}
	}
	r.Floor("R4", "functions acquiring locks", nLockFns, 20)

	cycles := lo.Cycles()
	for _, cyc := range cycles {
		var names, wit []string
		for _, e := range cyc {
			names = append(names, e.From)
			wit = append(wit, e.Witness)
		}
		sort.Strings(names)
		r.Fail("R5", "cycle:"+strings.Join(names, ","), "", strings.Join(wit, " ; "))
	}
	for _, s := range lo.Selfs {
		r.Fail("R5", "self:"+s.From, "", s.Witness)
	}
	var edgeKeys []string
	for k := range lo.Edges {
		edgeKeys = append(edgeKeys, k)
	}
	sort.Strings(edgeKeys)
	for _, k := range edgeKeys {
		r.Info("lock order edge %s (%s)", k, lo.Edges[k].Witness)
	}
	if len(cycles) == 0 && len(lo.Selfs) == 0 {
		r.Pass("R5", "order", "", fmt.Sprintf("%d mutexes, %d held->acquired edges, no cycle", len(lo.Nodes), len(lo.Edges)))
	}
	r.Floor("R5", "order edges", len(lo.Edges), 3)
	r.Stat("functions analysed", len(ls.fns))
	r.Rule("R9", "the guarded object does not escape its lock: the function-data store keeps a private copy, never the object its caller (and the event handlers that were handed it) still reads (shared with C11-O1)")
	noAliasIn(p, r, "R9")
	r.Rule("R10", "no value handed out points into state that is modified afterwards: the address of a field of a long-lived object (a counter updated atomically) is never returned or stored into another object — the holder reads the word with plain loads (encoding a reply, application code) while the owner keeps writing it (shared with C11-O7)")
	fieldAddressEscapes(p, r, "R10", nil, "spine")
	r.Rule("R8", "a list field whose slice header a getter hands out (callers iterate it without the lock) is never modified in place: no element store, no copy into it, no in-place library routine (slices.DeleteFunc, sort.Slice, …); removal builds a new slice")
	escapedListsImmutable(p, ls, r, "R8", nil)
	// R7: snapshots are read without any lock (replies being encoded, application code), so a write in place
	// into data reachable from a snapshot is a data race whatever lock the writer holds
	r.Rule("R7", "no function writes in place into a list reachable from stored function data or from a snapshot handed out (the ownership rule C11-O3): such data is read without locks by whoever holds the snapshot")
	own := BuildOwnership(p, "model", "spine", "util")
	osites := ownedWriteKeys(p, own.StoreOwnedWrites(""))
	for _, k := range sortedKeys(osites) {
		w := osites[k]
		r.Fail("R7", k, p.InstrPos(w.Ins), fmt.Sprintf("elements of a list shared with snapshots (%s) are written in place via %s: races with any unlocked reader of an earlier snapshot", w.Root, w.How))
	}
	if len(osites) == 0 {
		r.Pass("R7", "repository", "", "no in-place write to shared elements")
	}
	r.Stat("R7.element-write sites examined", len(own.Sites))
	r.Assumes("calls through ShipConnectionDataWriterInterface and application callbacks are external and do not call back synchronously",
		"closures passed to go-linq, sort and slices run synchronously under the caller's locks; go statements and time.AfterFunc start a new context without locks",
		"slices handed out by locking getters are not modified in place (lists are rebuilt, see C11)")
}

func originOf(f *ssa.Function) *ssa.Function {
	if o := f.Origin(); o != nil {
		return o
	}
	return f
}

func firstWrite(accs []Access) Access {
	for _, a := range accs {
		if !a.Ctor && a.Write() {
			return a
		}
	}
	return accs[0]
}

func uniq(s []string) string {
	m := map[string]bool{}
	for _, x := range s {
		m[x] = true
	}
	return strings.Join(sortedKeys(m), ", ")
}

// stableFieldKey renders "Struct.field" of package spine as "Struct.<type>#k" (k-th
// field of that type in the struct), so that a known finding survives the
// renaming of an unexported field. Keys of another shape are returned unchanged.
func stableFieldKey(p *Prog, key string) string {
	dot := strings.Index(key, ".")
	if dot < 0 || strings.ContainsAny(key[dot+1:], ".->[") {
		return key
	}
	obj := p.TypesPkg("spine").Scope().Lookup(key[:dot])
	if obj == nil {
		return key
	}
	st, ok := obj.Type().Underlying().(*types.Struct)
	if !ok {
		return key
	}
	q := func(pk *types.Package) string { return pk.Name() }
	for i := 0; i < st.NumFields(); i++ {
		if st.Field(i).Name() != key[dot+1:] {
			continue
		}
		if st.Field(i).Exported() {
			return key
		}
		ts := types.TypeString(st.Field(i).Type(), q)
		k := 0
		for j := 0; j <= i; j++ {
			if types.TypeString(st.Field(j).Type(), q) == ts {
				k++
			}
		}
		return fmt.Sprintf("%s.(%s)#%d", key[:dot], ts, k)
	}
	return key
}
