package main

// E5b — getters whose result is nil by construction.
//
// A pure getter returns a pointer field of a struct S. The field is "nil by
// construction" for a concrete type T (S itself or a struct embedding S) when
// the constructor of S stores the field only from a parameter and the function
// that builds T passes the constant nil for it (or the constructor never stores
// it). The result of such a getter, called on T or on an interface T
// implements, may be nil for the whole life of the object unless a later
// update happens, so every dereference in the inbound call tree needs a guard
// on the same getter path.
//
// Everything is derived from the repository: the getters, the constructors,
// the nil arguments. Nothing is named here.

import (
	"go/token"
	"go/types"

	"golang.org/x/tools/go/ssa"
)

type stateNil struct {
	p *Prog
	// getter function -> (struct, field index)
	getters map[*ssa.Function]snField
	// concrete named type -> fields nil by construction
	nilByType map[*types.Named]map[snField]string
	// fields of data-model structs that are initialised from a getter that is nil by construction
	// (the device part of a remote entity's address): "Type.field" -> why
	derived map[string]string
}

type snField struct {
	S *types.Named
	I int
}

func newStateNil(p *Prog) *stateNil {
	sn := &stateNil{p: p, getters: map[*ssa.Function]snField{}, nilByType: map[*types.Named]map[snField]string{}}
	// 1. pure getters
	for _, fn := range p.RepoFns("spine") {
		if f, ok := pureGetterField(fn); ok {
			sn.getters[fn] = f
		}
	}
	// 2. constructors of S: functions allocating S; how each getter field is initialised
	type ctorInit struct {
		never bool
		param int // index into Params when the only stores take a parameter
	}
	ctors := map[*ssa.Function]map[snField]ctorInit{}
	fields := map[snField]bool{}
	for _, f := range sn.getters {
		fields[f] = true
	}
	for _, fn := range p.RepoFns("spine") {
		for _, b := range fn.Blocks {
			for _, ins := range b.Instrs {
				al, ok := ins.(*ssa.Alloc)
				if !ok {
					continue
				}
				s := namedOf(al.Type())
				if s == nil {
					continue
				}
				// the allocation must be the function's result (a constructor)
				if fn.Signature.Results().Len() != 1 || namedOf(fn.Signature.Results().At(0).Type()) != s {
					continue
				}
				for f := range fields {
					if f.S != s {
						continue
					}
					init := ctorInit{never: true, param: -1}
					known := true
					for _, ref := range *al.Referrers() {
						fa, ok := ref.(*ssa.FieldAddr)
						if !ok || fa.Field != f.I {
							continue
						}
						for _, r2 := range *fa.Referrers() {
							st, ok := r2.(*ssa.Store)
							if !ok || st.Addr != ssa.Value(fa) {
								continue
							}
							init.never = false
							if par, ok := st.Val.(*ssa.Parameter); ok {
								for i, q := range fn.Params {
									if q == par {
										init.param = i
									}
								}
							} else {
								known = false
							}
						}
					}
					if !known {
						continue // initialised from something else: not nil by construction
					}
					if ctors[fn] == nil {
						ctors[fn] = map[snField]ctorInit{}
					}
					ctors[fn][f] = init
				}
			}
		}
	}
	// 3. builders: call sites of the constructors with a nil argument; the built type is the
	// result type of the enclosing function when it embeds S, else S itself
	for ctor, inits := range ctors {
		for _, site := range p.Callers(ctor) {
			if site.Common().StaticCallee() != ctor {
				continue
			}
			encl := site.Parent()
			var built *types.Named
			if encl.Signature.Results().Len() >= 1 {
				if t := namedOf(encl.Signature.Results().At(0).Type()); t != nil {
					if st, ok := t.Underlying().(*types.Struct); ok {
						for i := 0; i < st.NumFields(); i++ {
							if st.Field(i).Embedded() && namedOf(st.Field(i).Type()) != nil {
								for f := range inits {
									if namedOf(st.Field(i).Type()) == f.S {
										built = t
									}
								}
							}
						}
					}
				}
			}
			for f, in := range inits {
				isNil := in.never
				if !isNil && in.param >= 0 && in.param < len(site.Common().Args) {
					if c, ok := site.Common().Args[in.param].(*ssa.Const); ok && c.Value == nil {
						isNil = true
					}
				}
				if !isNil {
					continue
				}
				t := built
				if t == nil {
					t = f.S
				}
				if sn.nilByType[t] == nil {
					sn.nilByType[t] = map[snField]string{}
				}
				sn.nilByType[t][f] = FnName(encl)
			}
		}
	}
	// 3. derived fields: a constructor stores the result of such a getter into a field of a data-model struct
	sn.derived = map[string]string{}
	for _, fn := range p.RepoFns("spine") {
		for _, b := range fn.Blocks {
			for _, ins := range b.Instrs {
				st, ok := ins.(*ssa.Store)
				if !ok {
					continue
				}
				fa, ok := st.Addr.(*ssa.FieldAddr)
				if !ok || !isModelStruct(fa.X.Type()) {
					continue
				}
				if _, isPtr := st.Val.Type().Underlying().(*types.Pointer); !isPtr {
					continue
				}
				if why, nilable := sn.nilableOrigin(st.Val, 0); nilable {
					sn.derived[wFieldKey(fa.X.Type(), fa.Field)] = "initialised in " + FnName(fn) + " from " + why
				}
			}
		}
	}
	return sn
}

// nilableOrigin: the value is the result of a getter that is nil by construction, directly or as a
// parameter some caller fills with such a result (constructors taking the device address).
func (sn *stateNil) nilableOrigin(v ssa.Value, depth int) (string, bool) {
	switch x := v.(type) {
	case *ssa.Call:
		return sn.Nilable(x)
	case *ssa.Parameter:
		if depth > 3 || x.Parent() == nil {
			return "", false
		}
		idx := -1
		for i, q := range x.Parent().Params {
			if q == x {
				idx = i
			}
		}
		for _, site := range sn.p.Callers(x.Parent()) {
			args := argsWithRecv(site.Common())
			if idx >= 0 && idx < len(args) {
				if why, ok := sn.nilableOrigin(args[idx], depth+1); ok {
					return why, true
				}
			}
		}
	}
	return "", false
}

// hasDerivedField: t is (a pointer to) a data-model struct with a field initialised from a getter nil by construction.
func (sn *stateNil) hasDerivedField(t types.Type) bool {
	if !isModelStruct(t) {
		return false
	}
	st, ok := derefType(t).Underlying().(*types.Struct)
	if !ok {
		return false
	}
	for i := 0; i < st.NumFields(); i++ {
		if _, ok := sn.derived[wFieldKey(t, i)]; ok {
			return true
		}
	}
	return false
}

// Pure: every function the call may reach is a pure pointer getter.
func (sn *stateNil) Pure(c *ssa.Call) bool {
	callees := sn.p.Callees(c)
	if len(callees) == 0 {
		return false
	}
	for _, f := range callees {
		if _, ok := sn.getterOf(f); !ok {
			return false
		}
	}
	return true
}

// DerivedNil: the load reads a data-model field that is initialised from a getter nil by construction.
func (sn *stateNil) DerivedNil(v ssa.Value) (string, bool) {
	u, ok := v.(*ssa.UnOp)
	if !ok || u.Op != token.MUL {
		return "", false
	}
	fa, ok := u.X.(*ssa.FieldAddr)
	if !ok || !isModelStruct(fa.X.Type()) {
		return "", false
	}
	why, ok := sn.derived[wFieldKey(fa.X.Type(), fa.Field)]
	return why, ok
}

// getterOf resolves a method function (possibly a promotion wrapper) to a pure getter.
func (sn *stateNil) getterOf(fn *ssa.Function) (snField, bool) {
	if f, ok := sn.getters[fn]; ok {
		return f, true
	}
	// promotion wrapper: a synthetic function whose only call is to the getter
	if fn.Synthetic != "" && len(fn.Blocks) > 0 {
		var res snField
		found := false
		forEachCall(fn, func(site ssa.CallInstruction) {
			if c := site.Common().StaticCallee(); c != nil {
				if f, ok := sn.getters[c]; ok {
					res, found = f, true
				}
			}
		})
		return res, found
	}
	return snField{}, false
}

// Nilable reports whether the call is a getter call whose result is nil by
// construction for some concrete type the receiver may have.
func (sn *stateNil) Nilable(c *ssa.Call) (string, bool) {
	if _, isPtr := c.Type().Underlying().(*types.Pointer); !isPtr {
		return "", false
	}
	com := c.Common()
	if com.IsInvoke() {
		iface, ok := com.Value.Type().Underlying().(*types.Interface)
		if !ok {
			return "", false
		}
		for t, fs := range sn.nilByType {
			pt := types.NewPointer(t)
			if !types.Implements(pt, iface) {
				continue
			}
			sel := sn.p.SSA.MethodSets.MethodSet(pt).Lookup(com.Method.Pkg(), com.Method.Name())
			if sel == nil {
				continue
			}
			impl := sn.p.SSA.MethodValue(sel)
			if impl == nil {
				continue
			}
			if f, ok := sn.getterOf(impl); ok {
				if by, ok := fs[f]; ok {
					return t.Obj().Name() + "." + com.Method.Name() + "() is nil until set: " + by + " constructs it with nil", true
				}
			}
		}
		return "", false
	}
	callee := com.StaticCallee()
	if callee == nil {
		return "", false
	}
	f, ok := sn.getterOf(callee)
	if !ok {
		return "", false
	}
	// the concrete type the receiver belongs to
	var recvT *types.Named
	if len(com.Args) > 0 {
		recvT = namedOf(com.Args[0].Type())
		if ld, ok := com.Args[0].(*ssa.UnOp); ok && ld.Op == token.MUL {
			if fa, ok := ld.X.(*ssa.FieldAddr); ok {
				if outer := namedOf(fa.X.Type()); outer != nil {
					recvT = outer
				}
			}
		}
	}
	for t, fs := range sn.nilByType {
		if by, ok := fs[f]; ok && (recvT == nil || recvT == t || recvT == f.S) {
			return t.Obj().Name() + "." + callee.Name() + "() is nil until set: " + by + " constructs it with nil", true
		}
	}
	return "", false
}

// pureGetterField: fn is a method with no parameters that returns a pointer field of its receiver and does nothing
// else — except taking and releasing a lock around the read (Lock/RLock … Unlock/RUnlock of package sync, deferred
// or not). Such a getter reads the same field at every call.
func pureGetterField(fn *ssa.Function) (snField, bool) {
	var none snField
	if fn.Signature.Recv() == nil || fn.Signature.Results().Len() != 1 || len(fn.Params) != 1 || len(fn.Blocks) == 0 {
		return none, false
	}
	if _, isPtr := fn.Signature.Results().At(0).Type().Underlying().(*types.Pointer); !isPtr {
		return none, false
	}
	var ret *ssa.Return
	for _, b := range fn.Blocks {
		if b == fn.Recover {
			continue
		}
		for _, ins := range b.Instrs {
			switch x := ins.(type) {
			case *ssa.Return:
				if ret != nil {
					return none, false
				}
				ret = x
			case *ssa.FieldAddr, *ssa.UnOp, *ssa.RunDefers, *ssa.DebugRef, *ssa.Alloc:
			case *ssa.Store:
				// only into the result cell a deferred call makes go/ssa spill the result to
				if _, isCell := x.Addr.(*ssa.Alloc); !isCell {
					return none, false
				}
			case *ssa.Call, *ssa.Defer:
				callee := x.(ssa.CallInstruction).Common().StaticCallee()
				if callee == nil || fnPkgPath(callee) != "sync" {
					return none, false
				}
			default:
				return none, false
			}
		}
	}
	if ret == nil || len(ret.Results) != 1 {
		return none, false
	}
	ld, ok := ret.Results[0].(*ssa.UnOp)
	if !ok || ld.Op != token.MUL {
		return none, false
	}
	if cell, isCell := ld.X.(*ssa.Alloc); isCell {
		// spilled result: the one value stored into the cell
		sv := singleStore(cell)
		if sv == nil {
			return none, false
		}
		if ld, ok = sv.(*ssa.UnOp); !ok || ld.Op != token.MUL {
			return none, false
		}
	}
	fa, ok := ld.X.(*ssa.FieldAddr)
	if !ok || fa.X != ssa.Value(fn.Params[0]) {
		return none, false
	}
	s := namedOf(fa.X.Type())
	if s == nil {
		return none, false
	}
	return snField{s, fa.Field}, true
}
