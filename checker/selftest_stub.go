package main

import (
	"encoding/json"
	"fmt"
	"os"
	"os/exec"
	"path/filepath"
)

// thoroughExtras: what the thorough tier adds to the quick rules.
//
//  1. the same rules over the program as built for GOARCH=386 (32-bit word size:
//     alignment of 64-bit atomics, build-constrained files);
//  2. the self-validation catalogue for this property: every seeded change that
//     breaks the property (seeded/<id>, written by sub-agents that saw only the
//     property text) must be reported by this check, and every neutral variant
//     (selftest/neutral, behaviour-preserving refactorings) must leave it silent;
//     every "fix:" commit recorded for this property, reverted on a scratch copy,
//     must be reported again (a fixed entry suppresses nothing).
//     The outcome is recorded in the evidence; a regression of the machinery
//     makes the run fail with exit 2 (the check, not the property, is broken).
func thoroughExtras(id string, pc *propCheck, repo, verif string, r *Report, extra map[string]any) {
	// 1. GOARCH=386
	p386 := Load(LoadOpts{RepoDir: repo, NeedSSA: pc.NeedSSA, GOARCH: "386"})
	r386 := NewReport(id, r.Tier, r.Seed)
	pc.Run(p386, r386)
	curProg = nil
	primary := map[string]bool{}
	for _, o := range r.Obs {
		primary[o.Rule+"|"+o.Key] = o.OK
	}
	n386, nNew := 0, 0
	for _, o := range r386.Obs {
		n386++
		if ok, seen := primary[o.Rule+"|"+o.Key]; seen && ok == o.OK {
			continue
		}
		if !o.OK {
			nNew++
			if o.Undecided {
				r.Undecided(o.Rule, "GOARCH=386|"+o.Key, o.Pos, o.Detail)
			} else {
				r.Fail(o.Rule, "GOARCH=386|"+o.Key, o.Pos, o.Detail)
			}
		}
	}
	extra["goarch_386"] = map[string]any{"obligations": n386, "verdicts_differing_from_amd64": nNew, "packages": p386.NumPackages}
	r.Stat("thorough.obligations re-decided for GOARCH=386", n386)

	// 2. self-validation catalogue
	out := filepath.Join(os.TempDir(), fmt.Sprintf("selftest-%s-%d.json", id, os.Getpid()))
	defer os.Remove(out)
	cmd := exec.Command("python3", filepath.Join(verif, "selftest", "run_catalogue.py"), "--prop", id, "--json", out, "--no-build", "--jobs", "8")
	cmd.Env = append(os.Environ(), "VERIF_REPO="+repo)
	b, err := cmd.CombinedOutput()
	if err != nil {
		fmt.Fprintf(os.Stderr, "self-validation catalogue could not run: %v\n%s\n", err, b)
		panic(envError{"self-validation catalogue could not run"})
	}
	var sum map[string]any
	if jb, err := os.ReadFile(out); err == nil {
		_ = json.Unmarshal(jb, &sum)
	}
	if sum == nil {
		panic(envError{"self-validation catalogue produced no result"})
	}
	extra["self_validation"] = sum
	missed, _ := sum["seeded_missed"].([]any)
	noisy, _ := sum["neutral_noisy"].([]any)
	revMissed, _ := sum["reverted_fixes_missed"].([]any)
	if rv, ok := sum["reverted_fixes"].(float64); ok {
		r.Stat("thorough.reverted fixes of this property detected", int(rv)-len(revMissed))
	}
	if sd, ok := sum["seeded_detected"].(float64); ok {
		r.Stat("thorough.seeded changes of this property detected", int(sd))
	}
	if nv, ok := sum["neutral_variants"].(float64); ok {
		r.Stat("thorough.neutral variants silent", int(nv)-len(noisy))
	}
	if len(missed) > 0 || len(noisy) > 0 || len(revMissed) > 0 {
		fmt.Fprintf(os.Stderr, "SELF-VALIDATION REGRESSION for %s: missed seeded changes %v, reverted fixes not reported %v, neutral variants with alarms %v\n", id, missed, revMissed, noisy)
		r.selfRegression = true
	}
}

func runSelftest(which, repo, verif string) int {
	cmd := exec.Command("python3", filepath.Join(verif, "selftest", "run_catalogue.py"))
	cmd.Stdout, cmd.Stderr = os.Stdout, os.Stderr
	if err := cmd.Run(); err != nil {
		return 2
	}
	return 0
}
