package main

func thoroughExtras(id string, pc *propCheck, repo, verif string, r *Report, extra map[string]any) {}

func runSelftest(which, repo, verif string) int { return 0 }
