package main

import (
	"fmt"
	"go/token"
	"go/types"
	"strings"

	"golang.org/x/tools/go/ssa"
)

func init() {
	register("C16", true,
		"Lockset rules on the heartbeat manager (stop channel only under its lock; the running-check that decides the close and the close itself are one critical section, so the channel cannot be closed twice; stopping the old stream, creating the new channel and spawning the goroutine are one critical section, so two starts cannot leak a stream; counter only through sync/atomic), an abstract-domain rule on the ticker period (the timeout parameter, or the timeout minus a constant under a guard that makes the result positive: never more than the timeout), structural rules on the refresh loop (a stop case that returns; each tick refreshes through SetData with a freshly drawn counter and the announced timeout), the notification count of SetData, and the rule that RemoveEntity stops a present manager. Decided: start/stop atomicity and the period/timeout relation by construction. Not decided: periodicity and 'at most one refresh in flight' (timing).",
		checkC16)
}

func checkC16(p *Prog, r *Report) {
	ls := BuildLockset(p, "spine", "model")
	hmi := p.LookupIface("api", "HeartbeatManagerInterface")
	if hmi == nil {
		r.Undecided("R0", "anchor:api.HeartbeatManagerInterface", "", "interface not found")
		return
	}
	var key = F("HeartbeatManager.stopHeartbeatC")
	r.Rule("R1", "the stop channel field is accessed only under its lock")
	guard := ""
	for _, v := range guardTable(ls) {
		if v.Key == key {
			guard = v.Guard
			r.Check("R1", "field:"+key, v.Guard != "" && len(v.Deviants) == 0 && v.NAcc >= 4, "", fmt.Sprintf("guard %s, %d accesses, %d deviating", v.Guard, v.NAcc, len(v.Deviants)))
			for _, a := range v.Deviants {
				r.Fail("R1", fmt.Sprintf("field:%s|fn:%s|%s", key, FnName(a.Fn), a.Kind), p.InstrPos(a.Ins), fmt.Sprintf("%s access without %s (held: %s)", a.Kind, v.Guard, a.Locks))
			}
		}
	}
	if guard == "" {
		r.Undecided("R1", "field:"+key+"|guard", "", "no lock guarding the stop channel could be inferred")
	}

	r.Rule("R2", "the close of the stop channel and the running-check that decides it share one critical section of the channel's lock")
	ff := ls.Facts(key)
	nClose := 0
	for _, fn := range ls.fns {
		if isWrapper(fn) {
			continue
		}
		forEachCall(fn, func(site ssa.CallInstruction) {
			call, ok := site.(*ssa.Call)
			if !ok || builtinName(&call.Call) != "close" {
				return
			}
			if !strings.HasSuffix(Path(call.Call.Args[0]), "."+FN("HeartbeatManager.stopHeartbeatC")) {
				return
			}
			nClose++
			base := "fn:" + FnName(fn) + "|close"
			held := false
			lockPath := ""
			for lp, h := range ls.At(call) {
				if lastComp(lp) == guard && !h.Read {
					held = true
					lockPath = lp
				}
			}
			nDeciding, okSection := 0, true
			for _, rp := range ff.readPoints(fn) {
				if rp.Val == nil || rp.Ins == ssa.Instruction(call) {
					continue
				}
				t := forwardTaint(rp.Val)
				if len(divertingIfs(fn, t, call)) == 0 {
					continue
				}
				nDeciding++
				if !ls.SameSection(rp.Ins, call, lockPath) {
					okSection = false
				}
			}
			r.Check("R2", base, held && nDeciding > 0 && okSection, p.InstrPos(call), fmt.Sprintf("lock held: %v; %d deciding reads of the channel state, all in the same critical section: %v", held, nDeciding, okSection))
		})
	}
	r.Floor("R2", "close sites of the stop channel", nClose, 1)

	r.Rule("R3", "in StartHeartbeat stopping the running stream, storing the new channel and spawning the refresh goroutine share one critical section of the channel's lock; the goroutine receives the channel just created")
	for _, fn := range p.ImplsOf(hmi, "StartHeartbeat") {
		base := FnName(fn)
		var store, stop, spawn ssa.Instruction
		var spawnGo *ssa.Go
		for _, a := range ls.accessesIn(key, fn) {
			if a.Kind == "W" {
				store = a.Ins
			}
		}
		forEachCall(fn, func(site ssa.CallInstruction) {
			switch x := site.(type) {
			case *ssa.Go:
				spawn, spawnGo = x, x
			case *ssa.Call:
				for _, c := range p.Callees(x) {
					if p.IsRepoFn(c) && reachesClose(p, c, 0, map[*ssa.Function]bool{}) {
						stop = x
					}
				}
			}
		})
		if store == nil || stop == nil || spawn == nil {
			r.Fail("R3", base+"|shape", p.Pos(fn.Pos()), fmt.Sprintf("stop call found=%v, channel store found=%v, goroutine start found=%v", stop != nil, store != nil, spawn != nil))
			continue
		}
		lockPath := ""
		for lp := range ls.At(store) {
			if lastComp(lp) == guard {
				lockPath = lp
			}
		}
		ok := lockPath != "" && ls.SameSection(stop, store, lockPath) && ls.SameSection(store, spawn, lockPath) && instrDominates(stop, store) && instrDominates(store, spawn)
		r.Check("R3", base+"|atomic", ok, p.InstrPos(store), fmt.Sprintf("stop at %s, store at %s, go at %s; locks at store %s", p.InstrPos(stop), p.InstrPos(store), p.InstrPos(spawn), ls.At(store)))
		// the goroutine gets the new channel
		okChan := false
		if st, isSt := store.(*ssa.Store); isSt {
			for _, a := range spawnGo.Call.Args {
				if a == st.Val || Path(a) == Path(st.Addr) {
					okChan = true
				}
			}
		}
		r.Check("R3", base+"|channel", okChan, p.InstrPos(spawn), "the spawned loop is given the channel stored by this start")
	}

	r.Rule("R4", "the heartbeat counter is accessed only through sync/atomic")
	for _, v := range guardTable(ls) {
		if v.Key == F("HeartbeatManager.heartBeatNum") {
			r.Check("R4", "field:"+v.Key, v.Atomic && len(v.Deviants) == 0, "", fmt.Sprintf("%d accesses, non-atomic: %d", v.NAcc, len(v.Deviants)))
		}
	}
	if len(ls.Accesses[F("HeartbeatManager.heartBeatNum")]) == 0 {
		r.Undecided("R4", "field:HeartbeatManager.heartBeatNum", "", "counter field not found")
	}

	r.Rule("R11", "the heartbeat counter only grows: its only modification is sync/atomic Add with a positive constant — never a reset, store, swap or compare-and-swap (across stop and restart the published counter stays strictly increasing)")
	monotoneCounterRule(p, ls, r, "R11", F("HeartbeatManager.heartBeatNum"))
	// the ticker period is derived by reading the announced timeout text back: reader and producer must be exact (shared with C19-R14/R15)
	c19Round6(p, r, "", "R12", "R13")
	// the refresh carries a current timestamp: the textual form written is the instant read back (shared with C19-R1)
	timestampLayoutRule(p, r, "R14")
	r.Rule("R5", "the ticker period is the timeout handed to the loop or that timeout minus a non-negative constant under a guard 'timeout > constant' (never more than the timeout); the timeout handed over is the announced heartbeat timeout")
	r.Rule("R6", "the refresh loop has a case receiving from its stop channel that returns; every tick refreshes the data through SetData of the local feature with a freshly drawn counter and the announced timeout")
	c16Loop(p, ls, r)

	r.Rule("R7", "every refresh goes through FeatureLocal.SetData, which notifies subscribers exactly once iff the store succeeded")
	notifyCountRule(p, r, "R7")

	c16FeatureKnown(p, r)
	r.Rule("R9", "a refresh reaches every subscriber: NotifySubscribers sends one Notify per entry and leaves its loop only when the entries are exhausted (shared with C08-R5)")
	fanoutRule(p, r, "R9")
	r.Rule("R8", "RemoveEntity stops the heartbeat of the removed entity whenever a heartbeat manager is present")
	dli := p.LookupIface("api", "DeviceLocalInterface")
	for _, fn := range p.ImplsOf(dli, "RemoveEntity") {
		var stopCall *ssa.Call
		base := FnName(fn)
		ok := false
		p.InScope(fn, func() { // the stop may sit in an extracted helper of RemoveEntity
			forEachCall(fn, func(site ssa.CallInstruction) {
				if c, isCall := site.(*ssa.Call); isCall && calleeIsIfaceMethod(&c.Call, hmi, "StopHeartbeat") {
					stopCall = c
				}
			})
			if stopCall == nil {
				return
			}
			ok = strings.HasPrefix(Path(stopCall.Call.Value), "param:") && strings.HasSuffix(Path(stopCall.Call.Value), ".HeartbeatManager()")
			for _, g := range Guards(stopCall.Block()) {
				x, trueNil, isNil := nilTest(g.Cond)
				if isNil && trueNil != g.Val && strings.HasSuffix(Path(x), ".HeartbeatManager()") {
					continue
				}
				ok = false
			}
		})
		if stopCall == nil {
			r.Fail("R8", base, p.Pos(fn.Pos()), "no StopHeartbeat call")
			continue
		}
		r.Check("R8", base, ok, p.InstrPos(stopCall), "StopHeartbeat is called on the removed entity's manager, conditional only on the manager being present")
	}
	r.Assumes("time.Ticker fires with the period it was created with")
}

func reachesClose(p *Prog, fn *ssa.Function, depth int, seen map[*ssa.Function]bool) bool {
	if fn == nil || fn.Blocks == nil || seen[fn] || depth > 4 {
		return false
	}
	seen[fn] = true
	res := false
	forEachCall(fn, func(site ssa.CallInstruction) {
		if builtinName(site.Common()) == "close" {
			res = true
			return
		}
		if _, ok := site.(*ssa.Call); !ok {
			return
		}
		for _, c := range p.Callees(site) {
			if p.IsRepoFn(c) && reachesClose(p, c, depth+1, seen) {
				res = true
			}
		}
	})
	return res
}

func c16Loop(p *Prog, ls *Lockset, r *Report) {
	nLoops := 0
	for _, fn0 := range p.RepoFns("spine") {
		fn := fn0
		p.InScope(fn, func() {
			var ticker *ssa.Call
			forEachCallOwn(fn, func(site ssa.CallInstruction) {
				if c, ok := site.(*ssa.Call); ok {
					if callee := c.Call.StaticCallee(); callee != nil && fnPkgPath(callee) == "time" && callee.Name() == "NewTicker" {
						ticker = c
					}
				}
			})
			if ticker == nil {
				return
			}
			nLoops++
			base := FnName(fn)
			// R5: period abstract domain
			var dparam *ssa.Parameter
			for _, prm := range fn.Params {
				if n := namedOf(prm.Type()); n != nil && n.Obj().Pkg() != nil && n.Obj().Pkg().Path() == "time" && n.Obj().Name() == "Duration" {
					dparam = prm
				}
			}
			okPeriod := dparam != nil
			desc := ""
			var walk func(v ssa.Value, d int)
			seen := map[ssa.Value]bool{}
			walk = func(v ssa.Value, d int) {
				if v == nil || seen[v] || d > 8 {
					return
				}
				seen[v] = true
				switch x := v.(type) {
				case *ssa.Parameter:
					if sv := substParam(x); sv != ssa.Value(x) {
						// parameter of an extracted period helper: stands for the argument
						seen[sv] = false
						walk(sv, d+1)
						return
					}
					if x != dparam {
						okPeriod = false
						desc += " other parameter " + x.Name() + ";"
					} else {
						desc += " timeout;"
					}
				case *ssa.Call:
					// the period computed by an extracted helper: whatever the helper returns
					h := x.Call.StaticCallee()
					if h == nil || !belowScopeRoot(h) {
						okPeriod = false
						desc += " " + Path(v) + ";"
						return
					}
					for _, hb := range h.Blocks {
						if ret, ok := hb.Instrs[len(hb.Instrs)-1].(*ssa.Return); ok && len(ret.Results) == 1 {
							walk(ret.Results[0], d+1)
						}
					}
				case *ssa.Phi:
					for _, e := range x.Edges {
						walk(e, d+1)
					}
				case *ssa.BinOp:
					k, isK := constInt(x.Y)
					if x.Op == token.SUB && substParam(x.X) == ssa.Value(dparam) && isK && k >= 0 {
						// guarded by timeout > k' with k' >= k
						guarded := false
						for _, g := range Guards(x.Block()) {
							if bo, ok := g.Cond.(*ssa.BinOp); ok && g.Val && bo.Op == token.GTR && substParam(bo.X) == ssa.Value(dparam) {
								if k2, ok := constInt(bo.Y); ok && k2 >= k {
									guarded = true
								}
							}
						}
						if !guarded {
							okPeriod = false
							desc += fmt.Sprintf(" timeout-%d without a guard timeout > %d;", k, k)
						} else {
							desc += fmt.Sprintf(" timeout-%d under timeout>%d;", k, k)
						}
					} else {
						okPeriod = false
						desc += " arithmetic " + x.Op.String() + ";"
					}
				default:
					okPeriod = false
					desc += " " + Path(v) + ";"
				}
			}
			walk(ticker.Call.Args[0], 0)
			r.Check("R5", base+"|period", okPeriod, p.InstrPos(ticker), "ticker period is one of:"+desc)
			// the timeout handed to the loop is the announced one
			okTimeout := false
			tdesc := ""
			for _, site := range p.Callers(fn) {
				idx := -1
				for i, prm := range fn.Params {
					if prm == dparam {
						idx = i
					}
				}
				if idx < 0 || idx >= len(site.Common().Args) {
					continue
				}
				tdesc = Path(site.Common().Args[idx])
				okTimeout = strings.Contains(tdesc, "."+FN("HeartbeatManager.heartBeatTimeout")+".GetTimeDuration()")
			}
			r.Check("R5", base+"|timeout-origin", okTimeout, p.Pos(fn.Pos()), "the loop's timeout is "+tdesc)

			// R6: select with the stop channel; its case returns
			var sel *ssa.Select
			for _, b := range fn.Blocks {
				for _, ins := range b.Instrs {
					if s, ok := ins.(*ssa.Select); ok {
						sel = s
					}
				}
			}
			okStop := false
			if sel != nil {
				for i, st := range sel.States {
					if st.Dir != types.RecvOnly {
						continue
					}
					if _, isParam := st.Chan.(*ssa.Parameter); !isParam {
						continue
					}
					// the branch taken for index i leads to a return without going through the select again
					for _, ref := range *sel.Referrers() {
						ex, ok := ref.(*ssa.Extract)
						if !ok || ex.Index != 0 {
							continue
						}
						for _, r2 := range *ex.Referrers() {
							bo, ok := r2.(*ssa.BinOp)
							if !ok || bo.Op != token.EQL {
								continue
							}
							if k, ok := constInt(bo.Y); !ok || int(k) != i {
								continue
							}
							for _, r3 := range *bo.Referrers() {
								if ifi, ok := r3.(*ssa.If); ok {
									tb := ifi.Block().Succs[0]
									if _, isRet := tb.Instrs[len(tb.Instrs)-1].(*ssa.Return); isRet {
										okStop = true
									}
								}
							}
						}
					}
				}
			}
			r.Check("R6", base+"|stop-case", okStop, p.Pos(fn.Pos()), "the select has a receive on the stop channel parameter whose case returns")
			// each tick: SetData on the manager's local feature with heartbeat data built from a fresh counter
			fli := p.LookupIface("api", "FeatureLocalInterface")
			var setData *ssa.Call
			forEachCall(fn, func(site ssa.CallInstruction) {
				if c, ok := site.(*ssa.Call); ok && calleeIsIfaceMethod(&c.Call, fli, "SetData") {
					setData = c
				}
			})
			okTick := false
			tickDesc := ""
			if setData != nil && sel != nil {
				args := callArgs(&setData.Call)
				fct, _ := constString(args[0])
				data := Path(args[1])
				inLoop := cyclic(liftInScope(setData).Block())
				// the data handed over is built by a function that fills a heartbeat data value
				fromBuilder := false
				for _, src := range p.Sources(args[1], false) {
					if bc, ok := src.Val.(*ssa.Call); ok {
						if bf := bc.Call.StaticCallee(); bf != nil && buildsHeartbeatData(bf) {
							fromBuilder = true
						}
					}
				}
				okTick = fct == "deviceDiagnosisHeartbeatData" && inLoop && strings.HasPrefix(Path(setData.Call.Value), "recv."+FN("HeartbeatManager.localFeature")) && fromBuilder
				tickDesc = fmt.Sprintf("SetData(%s, %s) on %s inside the loop: %v", fct, data, Path(setData.Call.Value), inLoop)
			}
			r.Check("R6", base+"|tick", okTick, p.Pos(fn.Pos()), tickDesc)
			// every tick refreshes: between the select and SetData no condition other than the select's own case
			// dispatch (a refresh skipped on some ticks stretches the period beyond the announced timeout)
			if setData != nil && sel != nil {
				var extra []string
				for _, g := range Guards(liftInScope(setData).Block()) {
					ci, isI := g.Cond.(ssa.Instruction)
					if !isI || !sel.Block().Dominates(ci.Block()) {
						continue // a condition in front of the loop
					}
					fromSelect := false
					if bo, isB := g.Cond.(*ssa.BinOp); isB {
						for _, side := range []ssa.Value{bo.X, bo.Y} {
							if ex, isEx := side.(*ssa.Extract); isEx && ex.Tuple == ssa.Value(sel) {
								fromSelect = true
							}
						}
					}
					if ex, isEx := g.Cond.(*ssa.Extract); isEx && ex.Tuple == ssa.Value(sel) {
						fromSelect = true
					}
					if !fromSelect {
						extra = append(extra, Path(g.Cond)+" at "+p.InstrPos(g.If))
					}
				}
				r.Check("R6", base+"|every-tick", len(extra) == 0, p.InstrPos(setData), fmt.Sprintf("the refresh is reached on every tick; additional conditions: %v", extra))
			}
		})
	}
	r.Floor("R6", "refresh loops", nLoops, 1)
	// heartbeat data: counter from the atomic counter function, timeout is the manager's announced timeout
	for _, fn := range p.RepoFns("spine") {
		if fn.Signature.Recv() == nil || !isNamed(fn.Signature.Recv().Type(), "spine", "HeartbeatManager") {
			continue
		}
		for _, b := range fn.Blocks {
			for _, ins := range b.Instrs {
				a, ok := ins.(*ssa.Alloc)
				if !ok || !isNamed(a.Type(), "model", "DeviceDiagnosisHeartbeatDataType") {
					continue
				}
				got := map[string]string{}
				tsFromParam := false
				for _, ref := range *a.Referrers() {
					if fa, ok := ref.(*ssa.FieldAddr); ok {
						for _, r2 := range *fa.Referrers() {
							if st, ok := r2.(*ssa.Store); ok && st.Addr == ssa.Value(fa) {
								got[fieldOfAddr(fa).Name()] = Path(st.Val)
								if fieldOfAddr(fa).Name() == "Timestamp" {
									if c, ok := st.Val.(*ssa.Call); ok {
										for _, arg := range c.Call.Args {
											if strings.HasPrefix(Path(arg), "param:") {
												tsFromParam = true
											}
										}
									}
								}
							}
						}
					}
				}
				okData := got["HeartbeatTimeout"] == "recv."+FN("HeartbeatManager.heartBeatTimeout") && strings.HasPrefix(got["HeartbeatCounter"], "param:") && tsFromParam
				r.Check("R6", FnName(fn)+"|data", okData, p.InstrPos(a), fmt.Sprintf("heartbeat data: counter=%s timeout=%s timestamp=%s", got["HeartbeatCounter"], got["HeartbeatTimeout"], got["Timestamp"]))
				// callers pass a fresh counter and the current time
				for _, site := range p.Callers(fn) {
					args := callArgs(site.Common())
					// the counter argument is the result of a function that returns an atomic increment of the counter field
					freshCounter := false
					if len(args) == 2 {
						if cc, ok := args[1].(*ssa.Call); ok {
							if cf := cc.Call.StaticCallee(); cf != nil && cf.Blocks != nil {
								forEachCallOwn(cf, func(s3 ssa.CallInstruction) {
									if a3 := s3.Common().StaticCallee(); a3 != nil && fnPkgPath(a3) == "sync/atomic" && strings.HasPrefix(a3.Name(), "Add") && len(s3.Common().Args) > 0 && strings.HasSuffix(Path(s3.Common().Args[0]), "."+FN("HeartbeatManager.heartBeatNum")) {
										freshCounter = true
									}
								})
							}
						}
					}
					fresh := len(args) == 2 && freshCounter && strings.Contains(Path(args[0]), "Now()")
					r.Check("R6", FnName(site.Parent())+"|fresh-counter", fresh, p.InstrPos(site.(ssa.Instruction)), fmt.Sprintf("heartbeat data built with (%s, %s)", Path(args[0]), Path(args[1])))
				}
			}
		}
	}
}

// c16FeatureKnown: the refresh goroutine calls SetData on the manager's local
// feature field. The constructor leaves that field nil (it is set when the
// heartbeat function is added), so either every spawn of the goroutine or every
// use inside it must be guarded by a nil test of the field: StartHeartbeat may
// be called in any history without panicking.
func c16FeatureKnown(p *Prog, r *Report) {
	r.Rule("R10", "StartHeartbeat in any history: every interface-typed field of the manager that its constructor leaves nil and that the refresh goroutine invokes a method on is tested non-nil before the goroutine is spawned or before the invocation")
	hmi := p.LookupIface("api", "HeartbeatManagerInterface")
	if hmi == nil {
		r.Undecided("R10", "anchor:api.HeartbeatManagerInterface", "", "interface not found")
		return
	}
	n := 0
	for _, start := range p.ImplsOf(hmi, "StartHeartbeat") {
		var spawns []*ssa.Go
		forEachCall(start, func(site ssa.CallInstruction) {
			if g, ok := site.(*ssa.Go); ok {
				spawns = append(spawns, g)
			}
		})
		recvT := namedOf(start.Signature.Recv().Type())
		// fields set by a constructor (a function returning the manager type that allocates it)
		setByCtor := map[string]bool{}
		for _, fn := range p.RepoFns("spine") {
			if fn.Signature.Results().Len() != 1 || namedOf(fn.Signature.Results().At(0).Type()) != recvT || fn.Signature.Recv() != nil {
				continue
			}
			for _, b := range fn.Blocks {
				for _, ins := range b.Instrs {
					if st, ok := ins.(*ssa.Store); ok {
						if fa, ok := st.Addr.(*ssa.FieldAddr); ok && namedOf(fa.X.Type()) == recvT && fieldOfAddr(fa) != nil {
							if c, isC := st.Val.(*ssa.Const); !isC || !c.IsNil() {
								setByCtor[fieldOfAddr(fa).Name()] = true
							}
						}
					}
				}
			}
		}
		for _, g := range spawns {
			target := g.Call.StaticCallee()
			if target == nil || target.Blocks == nil {
				continue
			}
			p.InScope(target, func() {
				forEachCall(target, func(site ssa.CallInstruction) {
					c := site.Common()
					if !c.IsInvoke() {
						return
					}
					ld, ok := c.Value.(*ssa.UnOp)
					if !ok {
						return
					}
					fa, ok := ld.X.(*ssa.FieldAddr)
					if !ok || namedOf(fa.X.Type()) != recvT || fieldOfAddr(fa) == nil {
						return
					}
					fname := fieldOfAddr(fa).Name()
					if setByCtor[fname] {
						return
					}
					n++
					guarded := func(b *ssa.BasicBlock) bool {
						for _, gd := range Guards(b) {
							if x, trueNil, ok := nilTest(gd.Cond); ok && trueNil != gd.Val && strings.HasSuffix(Path(x), "."+fname) {
								return true
							}
						}
						return false
					}
					ok2 := guarded(site.Block()) || guarded(g.Block())
					r.Check("R10", fmt.Sprintf("%s|%s.%s()", FnName(target), fname, c.Method.Name()), ok2, p.InstrPos(site), fmt.Sprintf("field %s is nil until the heartbeat function is added; the goroutine calls %s on it; nil test before the spawn or before the call: %v", fname, c.Method.Name(), ok2))
				})
			})
		}
	}
	r.Floor("R10", "uses of constructor-nil fields in the refresh goroutine", n, 1)
}

// buildsHeartbeatData: the function allocates and returns a heartbeat data value.
func buildsHeartbeatData(fn *ssa.Function) bool {
	if fn.Blocks == nil {
		return false
	}
	for _, b := range fn.Blocks {
		for _, ins := range b.Instrs {
			if a, ok := ins.(*ssa.Alloc); ok && isNamed(a.Type(), "model", "DeviceDiagnosisHeartbeatDataType") {
				return true
			}
		}
	}
	return false
}

// monotoneCounterRule: a counter field only ever grows — every modification is
// sync/atomic Add with a positive constant; no Store/Swap/CompareAndSwap, no plain
// assignment outside construction (a reset makes numbers already handed out
// reappear).
func monotoneCounterRule(p *Prog, ls *Lockset, r *Report, rule, key string) {
	fname := key[strings.Index(key, ".")+1:]
	nMod := 0
	seen := map[ssa.Instruction]bool{}
	for _, fn := range ls.fns {
		if isWrapper(fn) {
			continue
		}
		for _, b := range fn.Blocks {
			for _, ins := range b.Instrs {
				fa, ok := ins.(*ssa.FieldAddr)
				if !ok || fa.Referrers() == nil || fieldOfAddr(fa) == nil || fieldOfAddr(fa).Name() != fname || !strings.HasSuffix(Path(fa), "."+fname) {
					continue
				}
				if n := namedOf(derefType(fa.X.Type())); n == nil || n.Obj().Name() != key[:strings.Index(key, ".")] {
					continue
				}
				for _, ref := range *fa.Referrers() {
					if seen[ref] {
						continue
					}
					seen[ref] = true
					switch x := ref.(type) {
					case *ssa.Store:
						if x.Addr == ssa.Value(fa) {
							if al, isAl := fa.X.(*ssa.Alloc); isAl && al != nil {
								continue // initialisation of an object under construction
							}
							nMod++
							r.Fail(rule, fmt.Sprintf("field:%s|fn:%s|store", key, FnName(originOf(fn))), p.InstrPos(x), "the counter is assigned directly: values already handed out can reappear")
						}
					case *ssa.Call:
						c := x.Call.StaticCallee()
						if c == nil || fnPkgPath(c) != "sync/atomic" || strings.HasPrefix(c.Name(), "Load") {
							continue
						}
						nMod++
						okAdd := false
						if strings.HasPrefix(c.Name(), "Add") && len(x.Call.Args) == 2 {
							if k, isK := constInt(x.Call.Args[1]); isK && k > 0 {
								okAdd = true
							}
						}
						r.Check(rule, fmt.Sprintf("field:%s|fn:%s|atomic.%s", key, FnName(originOf(fn)), c.Name()), okAdd, p.InstrPos(x), "modification through sync/atomic."+c.Name()+"; required: Add with a positive constant (the counter only grows)")
					}
				}
			}
		}
	}
	r.Floor(rule, "modifications of "+key, nMod, 1)
}
