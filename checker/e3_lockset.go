package main

// E3 — locksets: forward must-hold analysis per function with acquisition
// sites (critical-section identity), entry locksets by intersection over call
// sites, field access table. E4 (pairing, order) builds on the same facts.

import (
	"fmt"
	"go/token"
	"go/types"
	"os"
	"sort"
	"strings"

	"golang.org/x/tools/go/ssa"
)

// held describes one lock in a lockset.
type held struct {
	Read bool            // held in read mode (RLock)
	Acq  ssa.Instruction // the acquiring Lock call; nil = held on entry (by the callers) or merged from different sites
	// Sec identifies the critical section: acquisition instruction, or a synthetic id
	Sec string
	// Abs is the lock's abstract name (Type.field or global), kept so that a lock held by a caller that the callee
	// cannot name through its parameters is still known to be held ("caller:Type.field")
	Abs string
}

type LockSet map[string]held // lock path -> held

func (l LockSet) clone() LockSet {
	r := make(LockSet, len(l))
	for k, v := range l {
		r[k] = v
	}
	return r
}

func (l LockSet) String() string {
	var ks []string
	for k, v := range l {
		if v.Read {
			k += "(R)"
		}
		ks = append(ks, k)
	}
	sort.Strings(ks)
	return "{" + strings.Join(ks, ",") + "}"
}

func lsEqual(a, b LockSet) bool {
	if len(a) != len(b) {
		return false
	}
	for k, v := range a {
		w, ok := b[k]
		if !ok || v.Read != w.Read || v.Sec != w.Sec {
			return false
		}
	}
	return true
}

// meet: intersection; differing sections become a merged section named after the block.
func lsMeet(a, b LockSet, at *ssa.BasicBlock) LockSet {
	r := LockSet{}
	for k, v := range a {
		w, ok := b[k]
		if !ok {
			continue
		}
		h := held{Read: v.Read || w.Read}
		if v.Sec == w.Sec {
			h.Sec, h.Acq = v.Sec, v.Acq
		} else {
			h.Sec = fmt.Sprintf("merge@%p", at)
		}
		r[k] = h
	}
	return r
}

// lockCall recognises sync.(RW)Mutex operations; returns op and the mutex address.
func lockCall(c *ssa.CallCommon) (op string, mu ssa.Value) {
	f := c.StaticCallee()
	if f == nil || fnPkgPath(f) != "sync" || f.Signature.Recv() == nil || len(c.Args) == 0 {
		return "", nil
	}
	n := namedOf(f.Signature.Recv().Type())
	if n == nil || (n.Obj().Name() != "Mutex" && n.Obj().Name() != "RWMutex") {
		return "", nil
	}
	switch f.Name() {
	case "Lock", "Unlock", "RLock", "RUnlock":
		return f.Name(), c.Args[0]
	}
	return "", nil
}

// Access is one use of a struct field.
type Access struct {
	Fn    *ssa.Function
	Ins   ssa.Instruction
	Kind  string // R, W, MR (map/slice element read), MW (map write/delete), A (atomic), ESC (header returned), CW/CR (method call on the object behind the field that does / does not write through its receiver)
	Base  string // access path of the struct the field belongs to
	Field *types.Var
	Owner string // named type owning the field
	Locks LockSet
	Ctor  bool // the struct is under construction (fresh allocation in this call tree)
}

func (a Access) Write() bool { return a.Kind == "W" || a.Kind == "MW" || a.Kind == "CW" }

type Lockset struct {
	p *Prog

	fns         []*ssa.Function
	entry       map[*ssa.Function]LockSet // must-hold on entry (nil = not yet known / top)
	deferredPar map[*ssa.Function]bool    // function literals that are only ever deferred by their parent
	at          map[ssa.Instruction]LockSet
	syncPar     map[*ssa.Function]ssa.Instruction // closure run synchronously: its MakeClosure site
	ctorFn      map[*ssa.Function]bool            // function runs only on a receiver under construction

	Accesses map[string][]Access // "Type.field" -> accesses
	modMemo  map[*ssa.Function]int
}

var syncClosureCallees = map[string]bool{
	"github.com/ahmetb/go-linq/v3": true, "sort": true, "slices": true,
}

// BuildLockset analyses all repository functions of the given packages.
func BuildLockset(p *Prog, shorts ...string) *Lockset {
	ls := &Lockset{p: p, entry: map[*ssa.Function]LockSet{}, at: map[ssa.Instruction]LockSet{}, syncPar: map[*ssa.Function]ssa.Instruction{}, ctorFn: map[*ssa.Function]bool{}, Accesses: map[string][]Access{}}
	ls.fns = p.RepoFnsWithWrappers(shorts...)
	inSet := map[*ssa.Function]bool{}
	for _, f := range ls.fns {
		inSet[f] = true
	}
	// closures that run synchronously inside their parent
	for _, f := range ls.fns {
		for _, b := range f.Blocks {
			for _, ins := range b.Instrs {
				mc, ok := ins.(*ssa.MakeClosure)
				if !ok {
					continue
				}
				anon := mc.Fn.(*ssa.Function)
				syncOnly := mc.Referrers() != nil && len(*mc.Referrers()) > 0
				for _, ref := range *mc.Referrers() {
					if !ls.closureUseIsSync(ref, mc) {
						syncOnly = false
					}
				}
				if syncOnly {
					ls.syncPar[anon] = mc
				}
			}
		}
	}
	// entry locksets: exported functions, functions without in-repo callers and
	// goroutine/timer entries start empty; others: intersection over call sites (fixpoint from top)
	top := map[*ssa.Function]bool{}
	for _, f := range ls.fns {
		if ls.hasEmptyEntry(f) {
			ls.entry[f] = LockSet{}
		} else {
			top[f] = true
		}
	}
	for round := 0; round < 12; round++ {
		changed := false
		for _, f := range ls.fns {
			if e, ok := ls.entry[f]; ok || !top[f] {
				_ = e
			}
			ls.flow(f)
		}
		for _, f := range ls.fns {
			if !top[f] {
				continue
			}
			ne, known := ls.entryFromCallers(f)
			if !known {
				continue
			}
			old, had := ls.entry[f]
			if !had || !lsEqual(old, ne) {
				ls.entry[f] = ne
				changed = true
			}
		}
		if !changed {
			break
		}
	}
	// functions whose entry never became known (only called from unknown contexts): empty
	for _, f := range ls.fns {
		if _, ok := ls.entry[f]; !ok {
			ls.entry[f] = LockSet{}
		}
	}
	for _, f := range ls.fns {
		ls.flow(f)
	}
	if dbg := os.Getenv("SPINEDEBUG_LS"); dbg != "" {
		for _, f := range ls.fns {
			if strings.Contains(f.String(), dbg) {
				fmt.Fprintf(os.Stderr, "LS %s entry=%v emptyEntry=%v callers=%d\n", f, ls.entry[f], ls.hasEmptyEntry(f), len(p.Callers(f)))
				for _, s := range p.Callers(f) {
					fmt.Fprintf(os.Stderr, "   caller %s at=%v\n", s.Parent(), ls.at[s.(ssa.Instruction)])
				}
			}
		}
	}
	ls.computeCtorFns()
	for _, f := range ls.fns {
		if !isWrapper(f) {
			ls.collectAccesses(f)
		}
	}
	return ls
}

func (ls *Lockset) closureUseIsSync(ref ssa.Instruction, mc *ssa.MakeClosure) bool {
	switch x := ref.(type) {
	case *ssa.Defer:
		// "defer func() {…}()": runs when the parent returns — the locks the parent's callers hold are still held
		// then (the parent's own locks may have been released: only entry-held locks are passed on, see entryFromCallers)
		if x.Call.Value == ssa.Value(mc) {
			if ls.deferredPar == nil {
				ls.deferredPar = map[*ssa.Function]bool{}
			}
			if anon, ok := mc.Fn.(*ssa.Function); ok {
				ls.deferredPar[anon] = true
			}
			return true
		}
		return false
	case *ssa.Call:
		// passed as an argument to a known synchronous library routine, or called directly
		if x.Call.Value == ssa.Value(mc) {
			return true
		}
		if f := x.Call.StaticCallee(); f != nil && syncClosureCallees[fnPkgPath(f)] {
			return true
		}
		if x.Call.IsInvoke() {
			return false
		}
		return false
	case *ssa.MakeInterface:
		// linq's WhereT takes interface{}: follow to the call
		if x.Referrers() == nil {
			return false
		}
		for _, r2 := range *x.Referrers() {
			c, ok := r2.(*ssa.Call)
			if !ok {
				return false
			}
			f := c.Call.StaticCallee()
			if f == nil || !syncClosureCallees[fnPkgPath(f)] {
				return false
			}
		}
		return len(*x.Referrers()) > 0
	}
	return false
}

func (ls *Lockset) hasEmptyEntry(f *ssa.Function) bool {
	if _, ok := ls.syncPar[f]; ok {
		return false
	}
	if f.Parent() != nil {
		return true // closure that is not provably synchronous: own context (goroutine, timer, callback)
	}
	if f.Object() != nil && f.Object().Exported() {
		// exported methods on exported or unexported types are callable from anywhere
		return true
	}
	callers := ls.p.Callers(f)
	if len(callers) == 0 {
		return true
	}
	for _, site := range callers {
		if _, isGo := site.(*ssa.Go); isGo {
			return true
		}
		if _, isDefer := site.(*ssa.Defer); isDefer {
			return true
		}
	}
	return false
}

// entryFromCallers intersects the callers' locksets at the call sites, mapped
// into the callee's names. known=false while some caller has no lockset yet.
func (ls *Lockset) entryFromCallers(f *ssa.Function) (LockSet, bool) {
	if mc, ok := ls.syncPar[f]; ok {
		l, ok := ls.at[mc]
		if !ok {
			return nil, false
		}
		// closure paths are expressed in the parent's names (free variables resolve to their bindings)
		if ls.deferredPar[f] {
			res := LockSet{}
			for k, v := range l {
				if v.Acq == nil && strings.HasPrefix(v.Sec, "entry:") {
					res[k] = v
				}
			}
			return res, true
		}
		return l.clone(), true
	}
	var res LockSet
	first := true
	for _, site := range ls.p.Callers(f) {
		if w := site.Parent(); isWrapper(w) && !isExportedFn(w) && len(ls.p.Callers(w)) == 0 {
			continue // synthetic wrapper of an unexported method (promotion through embedding) that nothing calls
		}
		cl, ok := ls.at[site.(ssa.Instruction)]
		if !ok {
			if _, analysed := ls.entry[site.Parent()]; !analysed {
				continue // caller not analysed yet (top): ignore for now
			}
			cl = LockSet{}
		}
		m := ls.mapToCallee(cl, site, f)
		if first {
			res, first = m, false
		} else {
			res = lsMeet(res, m, f.Blocks[0])
		}
	}
	if first {
		return nil, false
	}
	return res, true
}

// mapToCallee renames lock paths held at a call site into the callee's
// parameter names: a lock "A.rest" where A is the path of argument i becomes
// "<param i>.rest". Global locks pass unchanged.
func (ls *Lockset) mapToCallee(cl LockSet, site ssa.CallInstruction, callee *ssa.Function) LockSet {
	res := LockSet{}
	c := site.Common()
	var args []ssa.Value
	if c.IsInvoke() {
		args = append([]ssa.Value{c.Value}, c.Args...)
	} else {
		args = c.Args
	}
	for k, v := range cl {
		h := held{Read: v.Read, Sec: "entry:" + v.Sec, Abs: v.Abs}
		if strings.HasPrefix(k, "global:") || strings.HasPrefix(k, "caller:") {
			res[k] = h
			continue
		}
		mapped := false
		for i, a := range args {
			if i >= len(callee.Params) {
				break
			}
			ap := Path(a)
			if ap == "?" || strings.HasPrefix(ap, "v:") {
				continue
			}
			if k == ap || strings.HasPrefix(k, ap+".") {
				pp := Path(callee.Params[i])
				res[pp+strings.TrimPrefix(k, ap)] = h
				mapped = true
			}
		}
		// held by the caller on an object the callee does not receive (a generator closure called under its
		// owner's lock): still held, under its abstract name
		if !mapped && v.Abs != "" && !strings.HasPrefix(v.Abs, "?:") {
			res["caller:"+v.Abs] = h
		}
	}
	return res
}

// flow runs the forward must-hold analysis of one function.
func (ls *Lockset) flow(f *ssa.Function) {
	entry, ok := ls.entry[f]
	if !ok {
		if e, known := ls.entryFromCallers(f); known {
			entry = e
		} else {
			entry = LockSet{}
		}
	}
	in := map[*ssa.BasicBlock]LockSet{f.Blocks[0]: entry.clone()}
	work := []*ssa.BasicBlock{f.Blocks[0]}
	queued := map[*ssa.BasicBlock]bool{f.Blocks[0]: true}
	for len(work) > 0 {
		b := work[0]
		work = work[1:]
		queued[b] = false
		cur := in[b].clone()
		for _, ins := range b.Instrs {
			ls.at[ins] = cur.clone()
			call, ok := ins.(*ssa.Call)
			if !ok {
				continue
			}
			op, mu := lockCall(&call.Call)
			if op == "" {
				continue
			}
			lp := Path(mu)
			switch op {
			case "Lock":
				cur[lp] = held{Acq: call, Sec: fmt.Sprintf("acq@%p", call), Abs: abstractLock(mu)}
			case "RLock":
				cur[lp] = held{Read: true, Acq: call, Sec: fmt.Sprintf("acq@%p", call), Abs: abstractLock(mu)}
			case "Unlock", "RUnlock":
				delete(cur, lp)
			}
		}
		for _, s := range b.Succs {
			old, seen := in[s]
			var n LockSet
			if !seen {
				n = cur.clone()
			} else {
				n = lsMeet(old, cur, s)
			}
			if !seen || !lsEqual(old, n) {
				in[s] = n
				if !queued[s] {
					queued[s] = true
					work = append(work, s)
				}
			}
		}
	}
}

// At returns the must-hold lockset immediately before an instruction.
func (ls *Lockset) At(ins ssa.Instruction) LockSet {
	if l, ok := ls.at[ins]; ok {
		return l
	}
	return LockSet{}
}

func (ls *Lockset) Entry(f *ssa.Function) LockSet { return ls.entry[f] }

// SameSection reports whether lock lp is held at both instructions within one
// uninterrupted critical section.
func (ls *Lockset) SameSection(a, b ssa.Instruction, lp string) bool {
	ha, ok1 := ls.At(a)[lp]
	hb, ok2 := ls.At(b)[lp]
	return ok1 && ok2 && ha.Sec == hb.Sec
}

// CommonSections returns the lock paths held at both instructions in one section.
func (ls *Lockset) CommonSections(a, b ssa.Instruction) []string {
	var r []string
	for lp := range ls.At(a) {
		if ls.SameSection(a, b, lp) {
			r = append(r, lp)
		}
	}
	sort.Strings(r)
	return r
}

// ---- constructor contexts ----

func rootOf(path string) string {
	for i, c := range path {
		if c == '.' || c == '[' || c == '#' {
			return path[:i]
		}
	}
	return path
}

func isFreshRoot(path string) bool {
	r := rootOf(path)
	return strings.HasPrefix(r, "alloc:")
}

// computeCtorFns: unexported methods all of whose callers pass a receiver that
// is under construction (fresh allocation, or the receiver of a ctor-context method).
func (ls *Lockset) computeCtorFns() {
	for changed := true; changed; {
		changed = false
		for _, f := range ls.fns {
			if ls.ctorFn[f] || f.Signature.Recv() == nil || (f.Object() != nil && f.Object().Exported()) || f.Parent() != nil {
				continue
			}
			callers := ls.p.Callers(f)
			if len(callers) == 0 {
				continue
			}
			all := true
			for _, site := range callers {
				recv := callRecv(site.Common())
				if recv == nil {
					all = false
					break
				}
				rp := Path(recv)
				if isFreshRoot(rp) {
					continue
				}
				if ls.ctorFn[site.Parent()] && rootOf(rp) == "recv" {
					continue
				}
				all = false
				break
			}
			if all {
				ls.ctorFn[f] = true
				changed = true
			}
		}
	}
}

// ---- field accesses ----

func (ls *Lockset) record(f *ssa.Function, fa *ssa.FieldAddr, kind string, at ssa.Instruction) {
	fld := fieldOfAddr(fa)
	if fld == nil {
		return
	}
	n := namedOf(fa.X.Type())
	if n == nil || n.Obj().Pkg() == nil || !strings.HasPrefix(n.Obj().Pkg().Path(), repoMod) {
		return
	}
	if n.Obj().Pkg().Path() != repoMod+"/spine" {
		// plain data of another package: of interest only when it is state reachable from the
		// receiver of a spine method and written in place
		ls.recordReachable(f, fa, kind, at)
		return
	}
	if tn := namedOf(fld.Type()); tn != nil && tn.Obj().Pkg() != nil && tn.Obj().Pkg().Path() == "sync" {
		return
	}
	base := Path(fa.X)
	key := n.Obj().Name() + "." + fld.Name()
	ctor := isFreshRoot(base) || (ls.ctorFn[f] && rootOf(base) == "recv")
	// an object just returned by its constructor (feature := NewFeature(…); feature.operations = …) is still under
	// construction in the function that builds the enclosing object: nobody else can hold it yet
	if !ctor {
		if c, isCall := fa.X.(*ssa.Call); isCall {
			if callee := c.Call.StaticCallee(); callee != nil && ls.p.IsRepoFn(callee) && returnsFreshObject(callee) && f.Signature.Recv() == nil {
				ctor = true
			}
		}
	}
	ls.Accesses[key] = append(ls.Accesses[key], Access{Fn: f, Ins: at, Kind: kind, Base: base, Field: fld, Owner: n.Obj().Name(), Locks: ls.At(at), Ctor: ctor})
}

// recordReachable records in-place writes to non-spine structs that hang off the
// receiver of a spine method (e.g. the address object of an entity).
func (ls *Lockset) recordReachable(f *ssa.Function, fa *ssa.FieldAddr, kind string, at ssa.Instruction) {
	if kind != "W" || f.Signature.Recv() == nil {
		return
	}
	rn := namedOf(f.Signature.Recv().Type())
	if rn == nil || rn.Obj().Pkg() == nil || rn.Obj().Pkg().Path() != repoMod+"/spine" {
		return
	}
	base := Path(fa.X)
	if !strings.HasPrefix(base, "recv.") {
		return
	}
	// a write into a local struct *value* that was initialised from the state (newAddress := *r.address) changes
	// the copy, not the state: paths identify such a local with what it was copied from
	for x := ssa.Value(fa); x != nil; {
		switch y := x.(type) {
		case *ssa.FieldAddr:
			x = y.X
			continue
		case *ssa.Alloc:
			if _, isStruct := derefType(y.Type()).Underlying().(*types.Struct); isStruct {
				return
			}
		}
		break
	}
	fld := fieldOfAddr(fa)
	// name the state by the spine field it hangs off: recv.address.Device -> <owner of address>.address->Device
	owner := rn.Obj().Name()
	first := strings.SplitN(strings.TrimPrefix(base, "recv."), ".", 2)[0]
	if fo := fieldOwner(rn, first); fo != "" {
		owner = fo
	}
	key := owner + "." + strings.TrimPrefix(base, "recv.") + "->" + fld.Name()
	ctor := ls.ctorFn[f]
	ls.Accesses[key] = append(ls.Accesses[key], Access{Fn: f, Ins: at, Kind: "W", Base: "recv", Field: fld, Owner: owner, Locks: ls.At(at), Ctor: ctor})
}

// fieldOwner finds the (possibly embedded) struct that declares field name.
func fieldOwner(n *types.Named, name string) string {
	st, ok := n.Underlying().(*types.Struct)
	if !ok {
		return ""
	}
	for i := 0; i < st.NumFields(); i++ {
		f := st.Field(i)
		if f.Name() == name {
			return n.Obj().Name()
		}
	}
	for i := 0; i < st.NumFields(); i++ {
		f := st.Field(i)
		if f.Embedded() {
			if en := namedOf(f.Type()); en != nil {
				if o := fieldOwner(en, name); o != "" {
					return o
				}
			}
		}
	}
	return ""
}

func (ls *Lockset) collectAccesses(f *ssa.Function) {
	for _, b := range f.Blocks {
		for _, ins := range b.Instrs {
			fa, ok := ins.(*ssa.FieldAddr)
			if !ok || fa.Referrers() == nil {
				continue
			}
			for _, u := range *fa.Referrers() {
				switch y := u.(type) {
				case *ssa.Store:
					if y.Addr == ssa.Value(fa) {
						ls.record(f, fa, "W", y)
					}
				case *ssa.UnOp:
					if y.Op != token.MUL {
						continue
					}
					ls.loadUses(f, fa, y, 0)
				case *ssa.Call:
					if sc := y.Call.StaticCallee(); sc != nil && fnPkgPath(sc) == "sync/atomic" {
						ls.record(f, fa, "A", y)
					}
				case *ssa.FieldAddr:
					// nested struct value: handled when that FieldAddr is visited
				}
			}
		}
	}
}

// loadUses classifies what is done with a loaded field value.
func (ls *Lockset) loadUses(f *ssa.Function, fa *ssa.FieldAddr, v ssa.Value, depth int) {
	refs := v.Referrers()
	recorded := false
	_, isMap := v.Type().Underlying().(*types.Map)
	_, isSlice := v.Type().Underlying().(*types.Slice)
	if isSlice {
		// loading the slice header is the access; later uses work on the local copy of the header
		// (element stores through it are in-place writes and recorded where they happen)
		if ins, ok := v.(ssa.Instruction); ok {
			ls.record(f, fa, "R", ins)
			recorded = true
		}
	}
	if refs != nil {
		for _, u := range *refs {
			switch z := u.(type) {
			case *ssa.MapUpdate:
				if z.Map == v {
					ls.record(f, fa, "MW", z)
					recorded = true
				}
			case *ssa.Lookup:
				if z.X == v {
					ls.record(f, fa, "MR", z)
					recorded = true
					// nested map: operations on the inner map count as operations on the field
					if depth < 2 {
						var inner ssa.Value = z
						if z.CommaOk {
							inner = nil
							for _, r2 := range *z.Referrers() {
								if ex, ok := r2.(*ssa.Extract); ok && ex.Index == 0 {
									inner = ex
								}
							}
						}
						if inner != nil {
							if _, innerMap := inner.Type().Underlying().(*types.Map); innerMap {
								ls.innerMapUses(f, fa, inner)
							}
						}
					}
				}
			case *ssa.Range:
				ls.record(f, fa, "MR", z)
				recorded = true
			case *ssa.Call:
				// a method of a library object kept behind the field (e.g. the LRU cache)
				if c := z.Call.StaticCallee(); c != nil && !ls.p.IsRepoFn(c) && c.Signature.Recv() != nil && len(z.Call.Args) > 0 && z.Call.Args[0] == v {
					if ls.modMemo == nil {
						ls.modMemo = map[*ssa.Function]int{}
					}
					if writesThroughParam0(ls.p, c, ls.modMemo, 0) {
						ls.record(f, fa, "CW", z)
					} else {
						ls.record(f, fa, "CR", z)
					}
					recorded = true
				}
				switch builtinName(&z.Call) {
				case "delete":
					ls.record(f, fa, "MW", z)
					recorded = true
				case "len", "cap":
					if isMap {
						ls.record(f, fa, "R", z)
						recorded = true
					}
				}
			case *ssa.Return:
				if isMap || isSlice {
					// the access is the load of the header (under whatever lock is held there); returning the
					// local copy of the header later, after an explicit unlock, is no further access
					var at ssa.Instruction = z
					if li, ok := v.(ssa.Instruction); ok {
						at = li
					}
					ls.record(f, fa, "ESC", at)
					recorded = true
				}
			case *ssa.IndexAddr:
				// element access of a slice: writes through it are in-place writes
				if z.Referrers() != nil {
					for _, r3 := range *z.Referrers() {
						if st, ok := r3.(*ssa.Store); ok && st.Addr == ssa.Value(z) {
							ls.record(f, fa, "MW", st)
							recorded = true
						}
					}
				}
			}
		}
	}
	if !recorded {
		if ins, ok := v.(ssa.Instruction); ok {
			ls.record(f, fa, "R", ins)
		}
	}
}

func (ls *Lockset) innerMapUses(f *ssa.Function, fa *ssa.FieldAddr, inner ssa.Value) {
	if inner.Referrers() == nil {
		return
	}
	for _, u := range *inner.Referrers() {
		switch z := u.(type) {
		case *ssa.MapUpdate:
			if z.Map == inner {
				ls.record(f, fa, "MW", z)
			}
		case *ssa.Lookup:
			if z.X == inner {
				ls.record(f, fa, "MR", z)
			}
		case *ssa.Range:
			ls.record(f, fa, "MR", z)
		case *ssa.Call:
			if builtinName(&z.Call) == "delete" {
				ls.record(f, fa, "MW", z)
			}
		}
	}
}

// lockFieldOn returns, for an access, the names of lock fields of the same
// object (base.<name>) and global locks that are held.
func (a Access) heldOnSameObject() map[string]held {
	res := map[string]held{}
	for lp, h := range a.Locks {
		if strings.HasPrefix(lp, "global:") || strings.HasPrefix(lp, "caller:") {
			// a package-level lock, or a lock of the owning object that every caller holds (the state of a generator
			// closure reached only through a field of its owner, under the owner's lock)
			res[lp] = h
			continue
		}
		if strings.HasPrefix(lp, a.Base+".") {
			rest := strings.TrimPrefix(lp, a.Base+".")
			if !strings.Contains(rest, ".") {
				res[rest] = h
			}
		}
		// a field of an embedded struct guarded by a lock of the embedding struct: base = X.Embedded, lock = X.mux
		if i := strings.LastIndex(a.Base, "."); i > 0 {
			outer := a.Base[:i]
			if strings.HasPrefix(lp, outer+".") {
				rest := strings.TrimPrefix(lp, outer+".")
				if !strings.Contains(rest, ".") {
					res["^"+rest] = h
				}
			}
		}
	}
	return res
}

// returnsFreshObject: every return of fn yields the address of a struct allocated in fn (a constructor).
func returnsFreshObject(fn *ssa.Function) bool {
	if fn.Blocks == nil || fn.Signature.Results().Len() != 1 {
		return false
	}
	n := 0
	for _, b := range fn.Blocks {
		ret, ok := b.Instrs[len(b.Instrs)-1].(*ssa.Return)
		if !ok {
			continue
		}
		n++
		v := ret.Results[0]
		if ph, isPhi := v.(*ssa.Phi); isPhi {
			for _, e := range ph.Edges {
				if _, isAl := e.(*ssa.Alloc); !isAl {
					return false
				}
			}
			continue
		}
		if _, isAl := v.(*ssa.Alloc); !isAl {
			return false
		}
	}
	return n > 0
}
