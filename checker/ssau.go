package main

// Shared SSA utilities: access paths, dominating guards, provenance.

import (
	"fmt"
	"go/constant"
	"go/token"
	"go/types"
	"os"
	"sort"
	"strings"

	"golang.org/x/tools/go/ssa"
)

// fieldOf returns the struct field selected by a FieldAddr/Field instruction.
func fieldOfAddr(x *ssa.FieldAddr) *types.Var {
	st, ok := deref(x.X.Type()).Underlying().(*types.Struct)
	if !ok {
		return nil
	}
	return st.Field(x.Field)
}

func fieldOfVal(x *ssa.Field) *types.Var {
	st, ok := x.X.Type().Underlying().(*types.Struct)
	if !ok {
		return nil
	}
	return st.Field(x.Field)
}

// isRecv reports whether v is the receiver parameter of its function.
func isRecv(v ssa.Value) bool {
	p, ok := v.(*ssa.Parameter)
	if !ok || p.Parent() == nil {
		return false
	}
	f := p.Parent()
	return f.Signature.Recv() != nil && len(f.Params) > 0 && f.Params[0] == p
}

// singleStore returns the only value stored to an Alloc (nil if none or several).
func singleStore(a *ssa.Alloc) ssa.Value {
	var v ssa.Value
	n := 0
	if a.Referrers() == nil {
		return nil
	}
	for _, r := range *a.Referrers() {
		if st, ok := r.(*ssa.Store); ok && st.Addr == a {
			v = st.Val
			n++
		}
	}
	if n == 1 {
		return v
	}
	return nil
}

// Path computes a canonical access path for a value: root.field.field…
// Loads through addresses are transparent (*(&a.f) == a.f). An Alloc holding a
// single stored value (spilled parameter/receiver, single-assignment local)
// stands for that value.
func Path(v ssa.Value) string { return pathD(v, 0) }

// pathSubst, when set, maps a parameter to the value it stands for (see
// Prog.WithHelperParams); Path then continues in the caller.
var pathSubst func(*ssa.Parameter) ssa.Value

// WithHelperParams runs f with Path resolving the parameters (and receiver) of
// unexported single-call-site helpers to the arguments at that call site, so
// that a rule about "the object the gate works on" reads the same whether the
// gate sits in the entry point or was extracted into a helper of it.
func (p *Prog) WithHelperParams(f func()) {
	old := pathSubst
	pathSubst = func(par *ssa.Parameter) ssa.Value {
		fn := par.Parent()
		if fn == nil || fn.Object() == nil || fn.Object().Exported() || fn.Parent() != nil {
			return nil
		}
		var site ssa.CallInstruction
		for _, c := range p.Callers(fn) {
			if c.Common().StaticCallee() != fn {
				return nil
			}
			if site != nil {
				return nil
			}
			site = c
		}
		if site == nil {
			return nil
		}
		for i, q := range fn.Params {
			if q == par && i < len(site.Common().Args) {
				return site.Common().Args[i]
			}
		}
		return nil
	}
	defer func() { pathSubst = old }()
	f()
}

// helperClosure returns fn and the unexported functions reachable from it
// through static calls that have exactly one call site in the repository
// (extracted helpers), up to the given depth.
func (p *Prog) helperClosure(fn *ssa.Function, depth int) []*ssa.Function {
	res := []*ssa.Function{fn}
	seen := map[*ssa.Function]bool{fn: true}
	frontier := []*ssa.Function{fn}
	for d := 0; d < depth; d++ {
		var next []*ssa.Function
		for _, f := range frontier {
			forEachCall(f, func(site ssa.CallInstruction) {
				g := site.Common().StaticCallee()
				if g == nil || seen[g] || g.Object() == nil || g.Object().Exported() || len(g.Blocks) == 0 {
					return
				}
				if !strings.Contains(fnPkgPath(g), "enbility/spine-go") {
					return
				}
				n := 0
				for _, c := range p.Callers(g) {
					_ = c
					n++
				}
				if n != 1 {
					return
				}
				seen[g] = true
				res = append(res, g)
				next = append(next, g)
			})
		}
		frontier = next
	}
	return res
}

func pathD(v ssa.Value, d int) string {
	if d > 12 || v == nil {
		return "?"
	}
	switch x := v.(type) {
	case *ssa.Parameter:
		if pathSubst != nil {
			if a := pathSubst(x); a != nil {
				return pathD(a, d+1)
			}
		}
		if b := closureParamBinding(x); b != nil {
			return pathD(b, d+1)
		}
		// the parameter of a predicate handed to slices.ContainsFunc / IndexFunc / … stands for an element of the slice
		if sl := sliceFuncElement(x); sl != nil {
			return pathD(sl, d+1) + "[]"
		}
		if s := curProg.HelperSite(x.Parent()); s != nil && belowScopeRoot(x.Parent()) {
			for i, q := range x.Parent().Params {
				if q == x && i < len(s.Common().Args) {
					return pathD(s.Common().Args[i], d+1)
				}
			}
		}
		if isRecv(x) {
			return "recv"
		}
		return "param:" + x.Name()
	case *ssa.FreeVar:
		// a captured variable: resolve to the binding in the enclosing function when possible
		if fn := x.Parent(); fn != nil && fn.Parent() != nil {
			for i, fv := range fn.FreeVars {
				if fv == x {
					if b := bindingOf(fn, i); b != nil {
						return pathD(b, d+1)
					}
				}
			}
		}
		return "free:" + x.Name()
	case *ssa.Global:
		return "global:" + x.Name()
	case *ssa.FieldAddr:
		f := fieldOfAddr(x)
		if f == nil {
			return "?"
		}
		return pathD(x.X, d+1) + "." + f.Name()
	case *ssa.Field:
		f := fieldOfVal(x)
		if f == nil {
			return "?"
		}
		return pathD(x.X, d+1) + "." + f.Name()
	case *ssa.UnOp:
		if x.Op == token.MUL {
			return pathD(x.X, d+1)
		}
	case *ssa.Alloc:
		if s := singleStore(x); s != nil {
			if _, isAlloc := s.(*ssa.Alloc); !isAlloc {
				return pathD(s, d+1)
			}
		}
		return "alloc:" + x.Comment
	case *ssa.MakeInterface:
		return pathD(x.X, d+1)
	case *ssa.ChangeInterface:
		return pathD(x.X, d+1)
	case *ssa.ChangeType:
		return pathD(x.X, d+1)
	case *ssa.Convert:
		return pathD(x.X, d+1)
	case *ssa.IndexAddr:
		return pathD(x.X, d+1) + indexStr(x.Index)
	case *ssa.Index:
		return pathD(x.X, d+1) + indexStr(x.Index)
	case *ssa.Lookup:
		return pathD(x.X, d+1) + "[]"
	case *ssa.Extract:
		return pathD(x.Tuple, d+1) + fmt.Sprintf("#%d", x.Index)
	case *ssa.Call:
		if x.Call.IsInvoke() {
			return pathD(x.Call.Value, d+1) + "." + x.Call.Method.Name() + "()"
		}
		if f := x.Call.StaticCallee(); f != nil {
			if f.Signature.Recv() != nil && len(x.Call.Args) > 0 {
				return pathD(x.Call.Args[0], d+1) + "." + f.Name() + "()"
			}
			return f.Name() + "()"
		}
	case *ssa.Const:
		if x.Value == nil {
			return "nil"
		}
		return "const:" + x.Value.ExactString()
	}
	return "v:" + v.Name()
}

// bindingOf returns the value bound to free variable i of an anonymous function
// at its (single) MakeClosure site in the parent.
func bindingOf(fn *ssa.Function, i int) ssa.Value {
	par := fn.Parent()
	if par == nil {
		return nil
	}
	var res ssa.Value
	n := 0
	for _, b := range par.Blocks {
		for _, ins := range b.Instrs {
			if mc, ok := ins.(*ssa.MakeClosure); ok && mc.Fn == fn && i < len(mc.Bindings) {
				res = mc.Bindings[i]
				n++
			}
		}
	}
	if n == 1 {
		return res
	}
	return nil
}

// ---- guards ----

// Guard is a branch fact that necessarily holds on entry to a block.
type Guard struct {
	Cond ssa.Value
	Val  bool // the condition evaluated to Val
	If   *ssa.If
}

// Guards returns the branch conditions that hold whenever block b executes,
// derived from the dominator tree: for every dominator D ending in an If, the
// edge D->S holds if S dominates b (or is b) and S has D as its only predecessor.
func Guards(b *ssa.BasicBlock) []Guard {
	res := expandPhiGuards(rawGuards(b), 0)
	// inside an extracted helper the guards of its call site hold as well
	fn := b.Parent()
	for d := 0; d < 3 && fn != nil && belowScopeRoot(fn); d++ {
		s := curProg.HelperSite(fn)
		if s == nil {
			break
		}
		res = append(res, expandPhiGuards(rawGuards(s.Block()), 0)...)
		fn = s.Parent()
	}
	return res
}

// scopeRoot: while a rule runs "in the scope of" a function (Prog.InScope), the
// extracted helpers below that function are analysed as part of it.
var scopeRoot *ssa.Function

// InScope runs f with root as scope: forEachCall(root) also visits the calls of
// root's extracted helpers, Path resolves their parameters to the arguments,
// Guards adds the guards of their call sites, instrDominates compares across
// them. Outside a scope every function stands for itself.
func (p *Prog) InScope(root *ssa.Function, f func()) {
	old := scopeRoot
	scopeRoot = root
	defer func() { scopeRoot = old }()
	f()
}

// belowScopeRoot: fn is an extracted helper (transitively) of the current scope root.
func belowScopeRoot(fn *ssa.Function) bool {
	if scopeRoot == nil || fn == nil || fn == scopeRoot || curProg == nil {
		return false
	}
	_, ok := curProg.scopeOf(scopeRoot).site[fn]
	return ok
}

// expandPhiGuards: a guard on a boolean phi that was computed by a chain of && (all
// other edges are the constant false) and is known to be true implies the value of
// its remaining edge and every guard of the block that edge comes from; dually for
// || and a phi known to be false. ("ok := a && b; if ok {…}" guards like "if a && b {…}".)
func expandPhiGuards(gs []Guard, depth int) []Guard {
	if depth > 4 {
		return gs
	}
	var res []Guard
	for _, g := range gs {
		res = append(res, g)
		phi, ok := g.Cond.(*ssa.Phi)
		if !ok || !isBoolType(phi.Type()) {
			continue
		}
		// the edges that are not the absorbing constant (false for a conjunction known true, true for a disjunction known false)
		var rest []int
		for i, e := range phi.Edges {
			if c, isC := constBool(e); isC && c != g.Val {
				continue
			}
			rest = append(rest, i)
		}
		if len(rest) != 1 {
			continue
		}
		i := rest[0]
		var extra []Guard
		if c, isC := constBool(phi.Edges[i]); !isC {
			_ = c
			cv, val := normCond(phi.Edges[i], g.Val)
			extra = append(extra, Guard{Cond: cv, Val: val, If: g.If})
		}
		pred := phi.Block().Preds[i]
		extra = append(extra, rawGuards(pred)...)
		// the last instruction of pred may itself be the If that decides the edge
		if ifi, ok := pred.Instrs[len(pred.Instrs)-1].(*ssa.If); ok {
			for k, sx := range pred.Succs {
				if sx == phi.Block() && pred.Succs[1-k] != sx {
					cv, val := normCond(ifi.Cond, k == 0)
					extra = append(extra, Guard{Cond: cv, Val: val, If: ifi})
				}
			}
		}
		res = append(res, expandPhiGuards(extra, depth+1)...)
	}
	return res
}

func rawGuards(b *ssa.BasicBlock) []Guard {
	var res []Guard
	cur := b
	for cur != nil {
		d := cur.Idom()
		if d == nil {
			break
		}
		if ifi, ok := d.Instrs[len(d.Instrs)-1].(*ssa.If); ok {
			for k, s := range d.Succs {
				if len(s.Preds) == 1 && (s == b || s.Dominates(b)) && d.Succs[1-k] != s {
					c, val := normCond(ifi.Cond, k == 0)
					res = append(res, Guard{Cond: c, Val: val, If: ifi})
				}
			}
		}
		cur = d
	}
	return res
}

// normCond strips negations: returns the inner condition and the value it has.
func normCond(c ssa.Value, val bool) (ssa.Value, bool) {
	for {
		u, ok := c.(*ssa.UnOp)
		if !ok || u.Op != token.NOT {
			return c, val
		}
		c = u.X
		val = !val
	}
}

// nilTest decomposes "x == nil" / "x != nil" conditions: returns x and whether
// the condition being true means x is nil.
func nilTest(c ssa.Value) (x ssa.Value, trueMeansNil bool, ok bool) {
	b, isB := c.(*ssa.BinOp)
	if !isB || (b.Op != token.EQL && b.Op != token.NEQ) {
		return nil, false, false
	}
	if k, isC := b.Y.(*ssa.Const); isC && k.IsNil() {
		return b.X, b.Op == token.EQL, true
	}
	if k, isC := b.X.(*ssa.Const); isC && k.IsNil() {
		return b.Y, b.Op == token.EQL, true
	}
	return nil, false, false
}

// ---- constants ----

func constString(v ssa.Value) (string, bool) {
	for {
		switch x := v.(type) {
		case *ssa.Const:
			if x.Value != nil && x.Value.Kind() == constant.String {
				return constant.StringVal(x.Value), true
			}
			return "", false
		case *ssa.ChangeType:
			v = x.X
		case *ssa.Convert:
			v = x.X
		case *ssa.MakeInterface:
			v = x.X
		default:
			return "", false
		}
	}
}

func constBool(v ssa.Value) (bool, bool) {
	if c, ok := v.(*ssa.Const); ok && c.Value != nil && c.Value.Kind() == constant.Bool {
		return constant.BoolVal(c.Value), true
	}
	return false, false
}

func constInt(v ssa.Value) (int64, bool) {
	for {
		switch x := v.(type) {
		case *ssa.Const:
			if x.Value != nil && x.Value.Kind() == constant.Int {
				i, ok := constant.Int64Val(x.Value)
				return i, ok
			}
			return 0, false
		case *ssa.ChangeType:
			v = x.X
		case *ssa.Convert:
			v = x.X
		default:
			return 0, false
		}
	}
}

// ---- call matching ----

// calleeIs reports whether the call may invoke method `name` of a type
// implementing iface (static call on a concrete implementation, or interface invoke).
func calleeIsIfaceMethod(c *ssa.CallCommon, iface *types.Interface, name string) bool {
	if iface == nil {
		return false
	}
	if c.IsInvoke() {
		if c.Method.Name() != name {
			return false
		}
		return types.Implements(c.Value.Type(), iface) || implementsIface(c.Value.Type(), iface)
	}
	f := c.StaticCallee()
	if f == nil || f.Name() != name || f.Signature.Recv() == nil {
		return false
	}
	rt := f.Signature.Recv().Type()
	return implementsIface(rt, iface)
}

func implementsIface(t types.Type, iface *types.Interface) bool {
	if types.Implements(t, iface) {
		return true
	}
	if _, isPtr := t.Underlying().(*types.Pointer); !isPtr {
		return types.Implements(types.NewPointer(t), iface)
	}
	return false
}

// staticCalleeIn reports whether the call statically targets pkgPath.name (function)
// or a method `name` of named type typ in pkgPath.
func staticCallee(c *ssa.CallCommon, pkgPath, typ, name string) bool {
	f := c.StaticCallee()
	if f == nil {
		return false
	}
	if o := f.Origin(); o != nil {
		f = o
	}
	if f.Name() != name {
		return false
	}
	if typ == "" {
		return f.Signature.Recv() == nil && fnPkgPath(f) == pkgPath
	}
	if f.Signature.Recv() == nil {
		return false
	}
	n := namedOf(f.Signature.Recv().Type())
	return n != nil && n.Obj().Name() == typ && n.Obj().Pkg() != nil && n.Obj().Pkg().Path() == pkgPath
}

func builtinName(c *ssa.CallCommon) string {
	if b, ok := c.Value.(*ssa.Builtin); ok {
		return b.Name()
	}
	return ""
}

// callArgs returns the arguments of a call without the receiver.
func callArgs(c *ssa.CallCommon) []ssa.Value {
	if c.IsInvoke() {
		return c.Args
	}
	if f := c.StaticCallee(); f != nil && f.Signature.Recv() != nil && len(c.Args) > 0 {
		return c.Args[1:]
	}
	return c.Args
}

// callRecv returns the receiver value of a method call (nil for functions).
func callRecv(c *ssa.CallCommon) ssa.Value {
	if c.IsInvoke() {
		return c.Value
	}
	if f := c.StaticCallee(); f != nil && f.Signature.Recv() != nil && len(c.Args) > 0 {
		return c.Args[0]
	}
	return nil
}

// ---- provenance ----

// Source describes where a value comes from.
type Source struct {
	Kind string // field, const, param, call, alloc, global, other
	Desc string
	Val  ssa.Value
}

func (s Source) String() string { return s.Kind + ":" + s.Desc }

type provCtx struct {
	p     *Prog
	seen  map[ssa.Value]bool
	depth int
	out   map[string]Source
	// followParams: follow a parameter to the arguments of all in-repo callers
	followParams bool
	// stopAt: parameters of these functions are sources (not followed further)
	stopAt func(fn *ssa.Function) bool
	// allocsToo: report allocation sites in addition to what is stored into them
	allocsToo bool
	// only: when following the parameters of these functions use only this call site (calling context of depth 1)
	only map[*ssa.Function]ssa.CallInstruction
}

// Sources computes the set of origins of v by walking def-use edges backwards
// through copies, conversions, loads of single-store locals, phis and — when
// followParams is set — from parameters to the arguments at every call site.
func (p *Prog) Sources(v ssa.Value, followParams bool) []Source {
	return p.SourcesOpt(v, followParams, nil, false)
}

func (p *Prog) SourcesOpt(v ssa.Value, followParams bool, stopAt func(fn *ssa.Function) bool, allocsToo bool) []Source {
	return p.SourcesCtx(v, followParams, stopAt, allocsToo, nil)
}

func (p *Prog) SourcesCtx(v ssa.Value, followParams bool, stopAt func(fn *ssa.Function) bool, allocsToo bool, only map[*ssa.Function]ssa.CallInstruction) []Source {
	c := &provCtx{p: p, seen: map[ssa.Value]bool{}, out: map[string]Source{}, followParams: followParams, stopAt: stopAt, allocsToo: allocsToo, only: only}
	c.walk(v, 0)
	var keys []string
	for k := range c.out {
		keys = append(keys, k)
	}
	sort.Strings(keys)
	var res []Source
	for _, k := range keys {
		res = append(res, c.out[k])
	}
	return res
}

func (c *provCtx) emit(kind, desc string, v ssa.Value) {
	s := Source{Kind: kind, Desc: desc, Val: v}
	c.out[s.String()] = s
}

func typeFieldName(base types.Type, f *types.Var) string {
	n := namedOf(base)
	if n != nil {
		return n.Obj().Name() + "." + f.Name()
	}
	return "?." + f.Name()
}

func (c *provCtx) walk(v ssa.Value, d int) {
	if v == nil || c.seen[v] {
		return
	}
	c.seen[v] = true
	if d > 40 {
		c.emit("other", "depth", v)
		return
	}
	switch x := v.(type) {
	case *ssa.Const:
		if x.Value == nil {
			c.emit("const", "nil", v)
		} else {
			c.emit("const", x.Value.ExactString(), v)
		}
	case *ssa.ChangeType:
		c.walk(x.X, d+1)
	case *ssa.Convert:
		c.walk(x.X, d+1)
	case *ssa.MakeInterface:
		c.walk(x.X, d+1)
	case *ssa.ChangeInterface:
		c.walk(x.X, d+1)
	case *ssa.TypeAssert:
		c.walk(x.X, d+1)
	case *ssa.Phi:
		for _, e := range x.Edges {
			c.walk(e, d+1)
		}
	case *ssa.Extract:
		c.walk(x.Tuple, d+1)
	case *ssa.UnOp:
		if x.Op == token.MUL {
			switch a := x.X.(type) {
			case *ssa.Alloc:
				c.walk(a, d+1)
			case *ssa.FieldAddr:
				f := fieldOfAddr(a)
				c.emit("field", typeFieldName(a.X.Type(), f), v)
			case *ssa.Global:
				c.emit("global", a.Name(), v)
			case *ssa.FreeVar:
				if fn := a.Parent(); fn != nil {
					for i, fv := range fn.FreeVars {
						if fv == a {
							if b := bindingOf(fn, i); b != nil {
								// the binding is the address of the captured variable
								if al, ok := b.(*ssa.Alloc); ok {
									for _, r := range *al.Referrers() {
										if st, ok := r.(*ssa.Store); ok && st.Addr == al {
											c.walk(st.Val, d+1)
										}
									}
									return
								}
								c.walk(b, d+1)
								return
							}
						}
					}
				}
				c.emit("other", "freevar:"+a.Name(), v)
			case *ssa.IndexAddr:
				c.emit("other", "elem-of:"+Path(a.X), v)
			default:
				// dereference of a pointer value: where the pointer comes from
				c.walk(x.X, d+1)
			}
			return
		}
		c.emit("other", "unop", v)
	case *ssa.Field:
		f := fieldOfVal(x)
		c.emit("field", typeFieldName(x.X.Type(), f), v)
	case *ssa.Parameter:
		fn := x.Parent()
		if !c.followParams || fn == nil || (c.stopAt != nil && c.stopAt(fn)) {
			c.emit("param", FnName(fn)+"."+x.Name(), v)
			return
		}
		idx := -1
		for i, pp := range fn.Params {
			if pp == x {
				idx = i
			}
		}
		n := 0
		if idx >= 0 {
			for _, site := range c.p.Callers(fn) {
				if only, ok := c.only[fn]; ok && only != site {
					continue
				}
				args := site.Common().Args
				ai := idx
				if site.Common().IsInvoke() {
					ai = idx - 1 // receiver is not in Args
					if ai < 0 {
						c.walk(site.Common().Value, d+1)
						n++
						continue
					}
				}
				if ai < len(args) {
					c.walk(args[ai], d+1)
					n++
				}
			}
		}
		if n == 0 && isWrapper(fn) {
			return // a synthetic wrapper nobody calls
		}
		if n == 0 || fn.Object() != nil && fn.Object().Exported() {
			c.emit("param", FnName(fn)+"."+x.Name(), v)
		}
	case *ssa.Call:
		name := ""
		if x.Call.IsInvoke() {
			name = shortType(x.Call.Value.Type()) + "." + x.Call.Method.Name()
		} else if f := x.Call.StaticCallee(); f != nil {
			name = FnName(f)
		} else if b := builtinName(&x.Call); b != "" {
			name = "builtin." + b
		} else {
			name = "dynamic"
		}
		c.emit("call", name, v)
	case *ssa.Alloc:
		// &x stands for x: what is stored into the cell is where the value comes from
		n := 0
		for _, r := range *x.Referrers() {
			if st, ok := r.(*ssa.Store); ok && st.Addr == x {
				c.walk(st.Val, d+1)
				n++
			}
		}
		if n == 0 || c.allocsToo {
			c.emit("alloc", x.Comment, v)
		}
	case *ssa.Global:
		c.emit("global", x.Name(), v)
	case *ssa.FieldAddr:
		f := fieldOfAddr(x)
		c.emit("addr", typeFieldName(x.X.Type(), f), v)
	case *ssa.Lookup:
		c.emit("other", "lookup:"+Path(x.X), v)
	case *ssa.Index:
		c.emit("other", "index:"+Path(x.X), v)
	case *ssa.Slice:
		c.walk(x.X, d+1)
	case *ssa.MakeClosure:
		c.emit("other", "closure:"+FnName(x.Fn.(*ssa.Function)), v)
	case *ssa.Function:
		c.emit("other", "func:"+FnName(x), v)
	case *ssa.BinOp:
		c.emit("other", "binop:"+x.Op.String(), v)
	default:
		c.emit("other", strings.TrimPrefix(fmt.Sprintf("%T", v), "*ssa."), v)
	}
}

func sourcesString(ss []Source) string {
	var r []string
	for _, s := range ss {
		r = append(r, s.String())
	}
	return strings.Join(r, ", ")
}

// reachesInstr reports whether, inside one function, control can flow from
// block a to block b (a == b counts as reachable).
func blockReaches(a, b *ssa.BasicBlock) bool {
	if a == b {
		return true
	}
	seen := map[*ssa.BasicBlock]bool{a: true}
	work := []*ssa.BasicBlock{a}
	for len(work) > 0 {
		x := work[len(work)-1]
		work = work[:len(work)-1]
		for _, s := range x.Succs {
			if s == b {
				return true
			}
			if !seen[s] {
				seen[s] = true
				work = append(work, s)
			}
		}
	}
	return false
}

// instrIndex returns the index of ins in its block.
func instrIndex(ins ssa.Instruction) int {
	for i, x := range ins.Block().Instrs {
		if x == ins {
			return i
		}
	}
	return -1
}

// precedes reports whether instruction a is executed before b on every path
// that executes b (a dominates b), within one function.
func instrDominates(a, b ssa.Instruction) bool {
	// an instruction inside an extracted helper stands at the helper's call site when compared with an
	// instruction of the caller
	for d := 0; d < 3 && a.Parent() != b.Parent() && scopeRoot != nil; d++ {
		if s := curProg.HelperSite(b.Parent()); s != nil && belowScopeRoot(b.Parent()) {
			b = s
			continue
		}
		break
	}
	if a.Parent() != b.Parent() {
		// a inside a helper, b in the caller after the call: a dominates b if the call does and a dominates every return of the helper
		if s := curProg.HelperSite(a.Parent()); s != nil && s.Parent() == b.Parent() && belowScopeRoot(a.Parent()) {
			all := true
			for _, blk := range a.Parent().Blocks {
				if blk == a.Parent().Recover {
					continue // reached only after a recovered panic in a function with defer
				}
				if _, isRet := blk.Instrs[len(blk.Instrs)-1].(*ssa.Return); isRet && !(a.Block() == blk || a.Block().Dominates(blk)) {
					all = false
				}
			}
			return all && instrDominates(s, b)
		}
		return false
	}
	if a.Block() == b.Block() {
		return instrIndex(a) < instrIndex(b)
	}
	return a.Block().Dominates(b.Block())
}

// forEachCall visits every call instruction (call, go, defer) of a function.
func forEachCall(fn *ssa.Function, f func(site ssa.CallInstruction)) {
	forEachCallD(fn, f, 0)
}

// forEachCallOwn visits only the call instructions of fn itself.
func forEachCallOwn(fn *ssa.Function, f func(site ssa.CallInstruction)) {
	for _, b := range fn.Blocks {
		for _, ins := range b.Instrs {
			if ci, ok := ins.(ssa.CallInstruction); ok {
				f(ci)
			}
		}
	}
}

func forEachCallD(fn *ssa.Function, f func(site ssa.CallInstruction), depth int) {
	for _, b := range fn.Blocks {
		for _, ins := range b.Instrs {
			ci, ok := ins.(ssa.CallInstruction)
			if !ok {
				continue
			}
			f(ci)
			// an extracted helper (unexported, one call site in the repository) is part of its caller:
			// its calls are visited in place, with its parameters standing for the arguments
			if depth < 3 && curProg != nil && scopeRoot != nil {
				if _, isCall := ci.(*ssa.Call); isCall {
					if h := curProg.TransparentHelper(ci); h != nil && h != fn {
						forEachCallD(h, f, depth+1)
						// a function literal handed to the helper (template method: "forEachX(func(x) {…})") runs as part of it
						for _, a := range ci.Common().Args {
							var lit *ssa.Function
							switch x := a.(type) {
							case *ssa.MakeClosure:
								lit, _ = x.Fn.(*ssa.Function)
							case *ssa.Function:
								if x.Parent() == fn {
									lit = x
								}
							}
							if lit != nil && lit.Blocks != nil {
								forEachCallD(lit, f, depth+1)
							}
						}
					}
				}
			}
		}
	}
}

// Helper scopes. An "extracted helper" of a scope root is an unexported
// repository function or method with a body (not a promotion wrapper, not an
// implementation of an api interface method, not recursive) that has exactly one
// call site inside the scope (the root and its helpers, three levels deep). It may
// have other call sites elsewhere: they belong to other scopes.
type helperScope struct {
	site map[*ssa.Function]ssa.CallInstruction
}

func (p *Prog) scopeOf(root *ssa.Function) *helperScope {
	if p.scopes == nil {
		p.scopes = map[*ssa.Function]*helperScope{}
	}
	if sc, ok := p.scopes[root]; ok {
		return sc
	}
	sc := &helperScope{site: map[*ssa.Function]ssa.CallInstruction{}}
	p.scopes[root] = sc
	ambiguous := map[*ssa.Function]bool{}
	var walk func(fn *ssa.Function, depth int)
	walk = func(fn *ssa.Function, depth int) {
		if depth > 3 {
			return
		}
		var found []*ssa.Function
		forEachCallOwn(fn, func(site ssa.CallInstruction) {
			if _, isCall := site.(*ssa.Call); !isCall {
				return
			}
			callee := site.Common().StaticCallee()
			if callee == nil || callee == root || callee == fn || ambiguous[callee] || !p.helperCandidate(callee) {
				return
			}
			if _, dup := sc.site[callee]; dup {
				delete(sc.site, callee)
				ambiguous[callee] = true
				return
			}
			sc.site[callee] = site
			found = append(found, callee)
		})
		for _, h := range found {
			if !ambiguous[h] {
				walk(h, depth+1)
			}
		}
	}
	walk(root, 1)
	for h := range ambiguous {
		delete(sc.site, h)
	}
	return sc
}

func (p *Prog) helperCandidate(callee *ssa.Function) bool {
	if v, ok := p.helperCand[callee]; ok {
		return v
	}
	if p.helperCand == nil {
		p.helperCand = map[*ssa.Function]bool{}
	}
	o := originOf(callee)
	ok := callee.Blocks != nil && o.Object() != nil && !o.Object().Exported() && callee.Parent() == nil && !isWrapper(callee) &&
		strings.HasPrefix(fnPkgPath(callee), repoMod)
	if ok && callee.Signature.Recv() != nil && implementsSomeAPIMethod(p, callee) {
		ok = false
	}
	p.helperCand[callee] = ok
	return ok
}

// TransparentHelper: the callee of site if it is an extracted helper of the current scope reached through this site.
func (p *Prog) TransparentHelper(site ssa.CallInstruction) *ssa.Function {
	if p == nil || !transparentHelpers || scopeRoot == nil {
		return nil
	}
	callee := site.Common().StaticCallee()
	if callee == nil {
		return nil
	}
	if p.scopeOf(scopeRoot).site[callee] == site {
		return callee
	}
	return nil
}

// HelperSite returns the call site through which fn belongs to the current scope (nil otherwise).
func (p *Prog) HelperSite(fn *ssa.Function) ssa.CallInstruction {
	if p == nil || fn == nil || scopeRoot == nil {
		return nil
	}
	return p.scopeOf(scopeRoot).site[fn]
}

var transparentHelpers = true

func implementsSomeAPIMethod(p *Prog, fn *ssa.Function) bool {
	recv := fn.Signature.Recv().Type()
	sc := p.TypesPkg("api").Scope()
	for _, n := range sc.Names() {
		tn, ok := sc.Lookup(n).(*types.TypeName)
		if !ok {
			continue
		}
		it, ok := tn.Type().Underlying().(*types.Interface)
		if !ok {
			continue
		}
		for i := 0; i < it.NumMethods(); i++ {
			if it.Method(i).Name() == fn.Name() && implementsIface(recv, it) {
				return true
			}
		}
	}
	return false
}

// anonFns returns fn and all anonymous functions nested in it.
func withAnon(fn *ssa.Function) []*ssa.Function {
	res := []*ssa.Function{fn}
	for _, a := range fn.AnonFuncs {
		res = append(res, withAnon(a)...)
	}
	return res
}

// constIntOfObj returns the integer value of a constant object.
func constIntOfObj(o types.Object) (int64, bool) {
	c, ok := o.(*types.Const)
	if !ok {
		return -1, false
	}
	return constant.Int64Val(c.Val())
}

// indexStr renders a constant slice index as [k], any other as [].
func indexStr(i ssa.Value) string {
	if k, ok := constInt(i); ok {
		return fmt.Sprintf("[%d]", k)
	}
	return "[]"
}

// ScopeRoots returns the functions of the given packages that stand for
// themselves in an all-function scan when extracted helpers are analysed as part
// of their callers: every function that is not an extracted helper of another
// root's scope.
func (p *Prog) ScopeRoots(shorts ...string) []*ssa.Function {
	key := strings.Join(shorts, ",")
	if p.scopeRoots == nil {
		p.scopeRoots = map[string][]*ssa.Function{}
	}
	if r, ok := p.scopeRoots[key]; ok {
		return r
	}
	all := p.RepoFns(shorts...)
	covered := map[*ssa.Function]bool{}
	isRoot := map[*ssa.Function]bool{}
	for _, fn := range all {
		if !p.helperCandidate(fn) || len(p.Callers(fn)) == 0 {
			isRoot[fn] = true
		}
	}
	for round := 0; round < 3; round++ {
		for _, fn := range all {
			if isRoot[fn] {
				for h := range p.scopeOf(fn).site {
					covered[h] = true
				}
			}
		}
		changed := false
		for _, fn := range all {
			if !isRoot[fn] && !covered[fn] {
				isRoot[fn] = true
				changed = true
			}
		}
		if !changed {
			break
		}
	}
	var res []*ssa.Function
	for _, fn := range all {
		if isRoot[fn] && !covered[fn] {
			res = append(res, fn)
		} else if isRoot[fn] {
			res = append(res, fn) // a root that is also reached as a helper elsewhere: keep (both views are analysed)
		}
	}
	p.scopeRoots[key] = res
	return res
}

// liftInScope: an instruction inside an extracted helper of the current scope is
// represented by the helper's call site in the scope root (transitively).
func liftInScope(ins ssa.Instruction) ssa.Instruction {
	for d := 0; d < 4 && ins != nil && belowScopeRoot(ins.Parent()); d++ {
		s := curProg.HelperSite(ins.Parent())
		if s == nil {
			break
		}
		ins = s
	}
	return ins
}

// closureParamBinding: par is a parameter of an anonymous function that is handed
// (as a function value) to a repository function h, and h calls that function
// parameter at exactly one place: par then stands for the argument of that call
// (template-method helpers: r.update(func(data, address) {…}) with h calling modify(data, addr)).
// Only inside a scope.
func closureParamBinding(par *ssa.Parameter) ssa.Value {
	if scopeRoot == nil || par == nil || par.Parent() == nil || par.Parent().Parent() == nil {
		return nil
	}
	cl := par.Parent()
	idx := -1
	for i, q := range cl.Params {
		if q == par {
			idx = i
		}
	}
	if idx < 0 {
		return nil
	}
	var res ssa.Value
	n := 0
	for _, b := range cl.Parent().Blocks {
		for _, ins := range b.Instrs {
			// the function value: a closure (MakeClosure) or, when nothing is captured, the function itself
			site, ok := ins.(*ssa.Call)
			if !ok {
				continue
			}
			{
				h := site.Call.StaticCallee()
				if h == nil || h.Blocks == nil || !strings.HasPrefix(fnPkgPath(h), repoMod) {
					continue
				}
				for k, a := range site.Call.Args {
					isFn := a == ssa.Value(cl)
					if mc, isMC := a.(*ssa.MakeClosure); isMC && mc.Fn == ssa.Value(cl) {
						isFn = true
					}
					if !isFn || k >= len(h.Params) {
						continue
					}
					fp := h.Params[k]
					forEachCallOwn(h, func(inner ssa.CallInstruction) {
						if inner.Common().Value == ssa.Value(fp) && !inner.Common().IsInvoke() && idx < len(inner.Common().Args) {
							res = inner.Common().Args[idx]
							n++
						}
					})
				}
			}
		}
	}
	if n != 1 {
		return nil
	}
	return res
}

// ScopeFns: root and its extracted helpers (the functions a rule running
// InScope(root) treats as one body), root first, helpers in a stable order.
func (p *Prog) ScopeFns(root *ssa.Function) []*ssa.Function {
	res := []*ssa.Function{root}
	var hs []*ssa.Function
	for h := range p.scopeOf(root).site {
		hs = append(hs, h)
	}
	sort.Slice(hs, func(i, j int) bool {
		if hs[i].Pos() != hs[j].Pos() {
			return hs[i].Pos() < hs[j].Pos()
		}
		return hs[i].String() < hs[j].String()
	})
	return append(res, hs...)
}

// sliceFuncElement: par is the only parameter of a function literal that is passed
// as the predicate to a library routine of package slices taking (slice,
// predicate) — ContainsFunc, IndexFunc, DeleteFunc, … Returns the slice argument.
func sliceFuncElement(par *ssa.Parameter) ssa.Value {
	cl := par.Parent()
	if cl == nil || cl.Parent() == nil || len(cl.Params) != 1 || cl.Params[0] != par {
		return nil
	}
	var res ssa.Value
	for _, b := range cl.Parent().Blocks {
		for _, ins := range b.Instrs {
			c, ok := ins.(*ssa.Call)
			if !ok || len(c.Call.Args) != 2 {
				continue
			}
			callee := c.Call.StaticCallee()
			if callee == nil || fnPkgPath(callee) != "slices" || !strings.HasSuffix(originName(callee), "Func") {
				continue
			}
			pred := c.Call.Args[1]
			if mc, isMC := pred.(*ssa.MakeClosure); isMC {
				pred = mc.Fn
			}
			if f, isF := pred.(*ssa.Function); isF && f == cl {
				res = c.Call.Args[0]
			}
		}
	}
	return res
}

// predicateFunctions: the functions a function-typed value may be — a literal, a
// named function, or what a repository function returns (a predicate constructor
// such as hasTypeAndRole(t, r)).
func predicateFunctions(v ssa.Value, depth int) []*ssa.Function {
	if depth > 3 || v == nil {
		return nil
	}
	switch x := v.(type) {
	case *ssa.MakeClosure:
		if f, ok := x.Fn.(*ssa.Function); ok {
			return []*ssa.Function{f}
		}
	case *ssa.Function:
		return []*ssa.Function{x}
	case *ssa.Call:
		h := x.Call.StaticCallee()
		if h == nil || h.Blocks == nil || !strings.HasPrefix(fnPkgPath(h), repoMod) {
			return nil
		}
		var res []*ssa.Function
		for _, b := range h.Blocks {
			if ret, ok := b.Instrs[len(b.Instrs)-1].(*ssa.Return); ok && len(ret.Results) == 1 {
				res = append(res, predicateFunctions(ret.Results[0], depth+1)...)
			}
		}
		return res
	case *ssa.ChangeType:
		return predicateFunctions(x.X, depth+1)
	}
	return nil
}

// decidingValues: the conditions and returned values of a predicate function, and
// of the unexported repository functions it calls (two levels).
func decidingValues(f *ssa.Function, depth int, visit func(v ssa.Value)) {
	if f == nil || f.Blocks == nil || depth > 2 {
		return
	}
	for _, b := range f.Blocks {
		for _, ins := range b.Instrs {
			switch x := ins.(type) {
			case *ssa.If:
				visit(x.Cond)
			case *ssa.Return:
				for _, rv := range x.Results {
					visit(rv)
				}
			case *ssa.Call:
				if h := x.Call.StaticCallee(); h != nil && h.Blocks != nil && strings.HasPrefix(fnPkgPath(h), repoMod) && !isExportedFn(originOf(h)) {
					decidingValues(h, depth+1, visit)
				}
			}
		}
	}
}

func debugEnv(name string) bool { return os.Getenv(name) != "" }
