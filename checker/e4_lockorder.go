package main

// E4 — lock pairing and lock order.

import (
	"fmt"
	"sort"
	"strings"

	"golang.org/x/tools/go/ssa"
)

// abstractLock maps a lock path to Type.field (or the global's name).
func abstractLock(mu ssa.Value) string {
	switch x := mu.(type) {
	case *ssa.FieldAddr:
		f := fieldOfAddr(x)
		if n := namedOf(x.X.Type()); n != nil && f != nil {
			return n.Obj().Name() + "." + f.Name()
		}
	case *ssa.Global:
		return "global:" + x.Name()
	case *ssa.UnOp:
		return abstractLock(x.X)
	}
	return "?:" + Path(mu)
}

type mayHeld struct {
	path string
	abs  string
	acq  *ssa.Call
}

// mayFlow: forward may-hold analysis of locks acquired inside the function.
// Returns the may-hold set before each instruction and the locks still
// (may-)held at returns without a registered deferred unlock.
func mayFlow(f *ssa.Function) (at map[ssa.Instruction]map[string]mayHeld, leaks []mayHeld, leakAt []ssa.Instruction) {
	at = map[ssa.Instruction]map[string]mayHeld{}
	type st struct {
		h        mayHeld
		deferred bool // a deferred unlock is registered on every path on which the lock is held
	}
	type state map[string]st
	clone := func(s state) state {
		n := state{}
		for k, v := range s {
			n[k] = v
		}
		return n
	}
	eq := func(a, b state) bool {
		if len(a) != len(b) {
			return false
		}
		for k, v := range a {
			w, ok := b[k]
			if !ok || v.deferred != w.deferred {
				return false
			}
		}
		return true
	}
	in := map[*ssa.BasicBlock]state{f.Blocks[0]: {}}
	// deferred unlocks registered before the lock is taken (defer first, lock later) are rare; handled by pending set
	work := []*ssa.BasicBlock{f.Blocks[0]}
	for len(work) > 0 {
		b := work[0]
		work = work[1:]
		cur := clone(in[b])
		for _, ins := range b.Instrs {
			h := map[string]mayHeld{}
			for k, v := range cur {
				h[k] = v.h
			}
			at[ins] = h
			switch x := ins.(type) {
			case *ssa.Call:
				op, mu := lockCall(&x.Call)
				if op == "" {
					continue
				}
				lp := Path(mu)
				switch op {
				case "Lock", "RLock":
					cur[lp] = st{h: mayHeld{path: lp, abs: abstractLock(mu), acq: x}}
				case "Unlock", "RUnlock":
					delete(cur, lp)
				}
			case *ssa.Defer:
				if op, mu := lockCall(&x.Call); op == "Unlock" || op == "RUnlock" {
					lp := Path(mu)
					if v, ok := cur[lp]; ok {
						v.deferred = true
						cur[lp] = v
					}
				}
			case *ssa.Return:
				for _, v := range cur {
					if !v.deferred {
						leaks = append(leaks, v.h)
						leakAt = append(leakAt, x)
					}
				}
			}
		}
		for _, s := range b.Succs {
			old, seen := in[s]
			n := clone(cur)
			if seen {
				for k, v := range old {
					if w, ok := n[k]; ok {
						w.deferred = w.deferred && v.deferred
						n[k] = w
					} else {
						n[k] = v
					}
				}
			}
			if !seen || !eq(old, n) {
				in[s] = n
				work = append(work, s)
			}
		}
	}
	return
}

type orderEdge struct {
	From, To string
	Witness  string
}

// LockOrder computes the held->acquired graph over abstract locks using
// synchronous call edges and a transitive may-acquire summary per function.
type LockOrder struct {
	Edges   map[string]orderEdge
	Nodes   map[string]bool
	Selfs   []orderEdge
	Leaks   []string
	acquire map[*ssa.Function]map[string]string // abstract lock -> witness chain
}

func BuildLockOrder(p *Prog, fns []*ssa.Function) *LockOrder {
	lo := &LockOrder{Edges: map[string]orderEdge{}, Nodes: map[string]bool{}, acquire: map[*ssa.Function]map[string]string{}}
	inSet := map[*ssa.Function]bool{}
	for _, f := range fns {
		inSet[f] = true
	}
	// direct acquisitions
	for _, f := range fns {
		lo.acquire[f] = map[string]string{}
		forEachCall(f, func(site ssa.CallInstruction) {
			if _, ok := site.(*ssa.Call); !ok {
				return
			}
			if op, mu := lockCall(site.Common()); op == "Lock" || op == "RLock" {
				lo.acquire[f][abstractLock(mu)] = FnName(f)
			}
		})
	}
	// transitive closure over synchronous calls
	for changed := true; changed; {
		changed = false
		for _, f := range fns {
			forEachCall(f, func(site ssa.CallInstruction) {
				if _, ok := site.(*ssa.Call); !ok {
					return // go: new context; defer: handled as a call at exit below
				}
				for _, c := range p.Callees(site) {
					for l, w := range lo.acquire[c] {
						if _, ok := lo.acquire[f][l]; !ok {
							lo.acquire[f][l] = FnName(f) + " -> " + w
							changed = true
						}
					}
				}
			})
		}
	}
	for _, f := range fns {
		at, leaks, leakAt := mayFlow(f)
		for i, l := range leaks {
			lo.Leaks = append(lo.Leaks, fmt.Sprintf("%s|%s|%s", FnName(f), l.abs, p.InstrPos(leakAt[i])))
		}
		forEachCall(f, func(site ssa.CallInstruction) {
			call, ok := site.(*ssa.Call)
			if !ok {
				return
			}
			heldNow := at[call]
			if len(heldNow) == 0 {
				return
			}
			add := func(h mayHeld, to, witness string, samePath bool) {
				if h.abs == to {
					if samePath {
						lo.Selfs = append(lo.Selfs, orderEdge{h.abs, to, witness})
					}
					return
				}
				k := h.abs + " -> " + to
				if _, ok := lo.Edges[k]; !ok {
					lo.Edges[k] = orderEdge{h.abs, to, witness}
				}
				lo.Nodes[h.abs], lo.Nodes[to] = true, true
			}
			if op, mu := lockCall(&call.Call); op == "Lock" || op == "RLock" {
				for _, h := range heldNow {
					add(h, abstractLock(mu), fmt.Sprintf("%s holds %s and locks %s at %s", FnName(f), h.abs, abstractLock(mu), p.InstrPos(call)), h.path == Path(mu))
				}
				return
			}
			for _, c := range p.Callees(call) {
				for l, w := range lo.acquire[c] {
					for _, h := range heldNow {
						// same abstract lock acquired in a callee: a self-deadlock only if the callee works on the same object;
						// callee receiver path equal to the holder's base is checked by the caller of BuildLockOrder (reported as information)
						add(h, l, fmt.Sprintf("%s holds %s and calls %s at %s", FnName(f), h.abs, w, p.InstrPos(call)), false)
					}
				}
			}
		})
	}
	return lo
}

// Cycles returns the elementary cycles found by DFS (each as a list of edges).
func (lo *LockOrder) Cycles() [][]orderEdge {
	adj := map[string][]orderEdge{}
	for _, e := range lo.Edges {
		adj[e.From] = append(adj[e.From], e)
	}
	for k := range adj {
		sort.Slice(adj[k], func(i, j int) bool { return adj[k][i].To < adj[k][j].To })
	}
	var nodes []string
	for n := range lo.Nodes {
		nodes = append(nodes, n)
	}
	sort.Strings(nodes)
	var cycles [][]orderEdge
	seenCycle := map[string]bool{}
	color := map[string]int{}
	var stack []orderEdge
	var dfs func(n string)
	dfs = func(n string) {
		color[n] = 1
		for _, e := range adj[n] {
			switch color[e.To] {
			case 0:
				stack = append(stack, e)
				dfs(e.To)
				stack = stack[:len(stack)-1]
			case 1:
				// back edge: extract cycle
				var cyc []orderEdge
				for i := len(stack) - 1; i >= 0; i-- {
					cyc = append([]orderEdge{stack[i]}, cyc...)
					if stack[i].From == e.To {
						break
					}
				}
				cyc = append(cyc, e)
				var names []string
				for _, c := range cyc {
					names = append(names, c.From)
				}
				sort.Strings(names)
				k := strings.Join(names, ",")
				if !seenCycle[k] {
					seenCycle[k] = true
					cycles = append(cycles, cyc)
				}
			}
		}
		color[n] = 2
	}
	for _, n := range nodes {
		if color[n] == 0 {
			dfs(n)
		}
	}
	return cycles
}
