package main

// Atomicity rules on top of the lockset engine: absence-then-insert,
// read-modify-write, claim by test-and-delete, outer-key guard.

import (
	"fmt"
	"go/token"
	"go/types"
	"sort"
	"strings"

	"golang.org/x/tools/go/ssa"
)

// forwardTaint returns everything data-dependent on the seeds inside one function.
func forwardTaint(seeds ...ssa.Value) map[ssa.Value]bool {
	t := map[ssa.Value]bool{}
	var work []ssa.Value
	for _, s := range seeds {
		if s != nil && !t[s] {
			t[s] = true
			work = append(work, s)
		}
	}
	for len(work) > 0 {
		v := work[len(work)-1]
		work = work[:len(work)-1]
		refs := v.Referrers()
		if refs == nil {
			continue
		}
		for _, u := range *refs {
			switch x := u.(type) {
			case *ssa.Store:
				// value stored into a local cell: loads of the cell are tainted
				if x.Val == v {
					// into a local cell, or into an element/field of a local aggregate (variadic argument arrays)
					addr := x.Addr
					for d := 0; d < 4; d++ {
						switch y := addr.(type) {
						case *ssa.IndexAddr:
							addr = y.X
							continue
						case *ssa.FieldAddr:
							addr = y.X
							continue
						}
						break
					}
					if a, ok := addr.(*ssa.Alloc); ok && !t[a] {
						t[a] = true
						work = append(work, a)
					}
				}
			case ssa.Value:
				if _, isCall := x.(*ssa.Call); isCall {
					// results of calls depend on their receiver and arguments
				}
				if !t[x] {
					t[x] = true
					work = append(work, x)
				}
			}
		}
	}
	return t
}

// divertingIfs returns the If instructions whose condition is tainted, from
// which target is reachable, and which have a successor from which target is
// not reachable (the branch can divert control away from target).
func divertingIfs(fn *ssa.Function, tainted map[ssa.Value]bool, target ssa.Instruction) []*ssa.If {
	var res []*ssa.If
	for _, b := range fn.Blocks {
		ifi, ok := b.Instrs[len(b.Instrs)-1].(*ssa.If)
		if !ok || !tainted[ifi.Cond] {
			continue
		}
		if !blockReaches(b, target.Block()) {
			continue
		}
		if b == target.Block() {
			continue // the target precedes the branch inside this block
		}
		diverts := false
		for _, s := range b.Succs {
			if !blockReaches(s, target.Block()) {
				diverts = true
			}
		}
		if diverts {
			res = append(res, ifi)
		}
	}
	return res
}

// fieldFacts are per-field summaries derived from the access table.
type fieldFacts struct {
	ls        *Lockset
	key       string
	readers   map[*ssa.Function]bool // functions reading the field directly
	inserters map[*ssa.Function]bool // functions inserting directly
	insAcc    []Access
}

func isSelfAppend(st *ssa.Store, fld *types.Var) bool {
	// value = append(load(sameField), ...) possibly through a slice conversion
	seen := map[ssa.Value]bool{}
	var walk func(v ssa.Value, d int) bool
	walk = func(v ssa.Value, d int) bool {
		if v == nil || seen[v] || d > 6 {
			return false
		}
		seen[v] = true
		switch x := v.(type) {
		case *ssa.Call:
			if builtinName(&x.Call) == "append" && len(x.Call.Args) > 0 {
				return loadsField(x.Call.Args[0], fld)
			}
		case *ssa.Phi:
			for _, e := range x.Edges {
				if walk(e, d+1) {
					return true
				}
			}
		case *ssa.ChangeType:
			return walk(x.X, d+1)
		}
		return false
	}
	return walk(st.Val, 0)
}

func loadsField(v ssa.Value, fld *types.Var) bool {
	for d := 0; d < 6; d++ {
		switch x := v.(type) {
		case *ssa.UnOp:
			if x.Op != token.MUL {
				return false
			}
			if fa, ok := x.X.(*ssa.FieldAddr); ok {
				return fieldOfAddr(fa) == fld
			}
			return false
		case *ssa.Lookup:
			v = x.X
		case *ssa.Extract:
			v = x.Tuple
		case *ssa.Slice:
			v = x.X
		case *ssa.ChangeType:
			v = x.X
		default:
			return false
		}
	}
	return false
}

func (ls *Lockset) Facts(key string) *fieldFacts {
	ff := &fieldFacts{ls: ls, key: key, readers: map[*ssa.Function]bool{}, inserters: map[*ssa.Function]bool{}}
	for _, a := range ls.Accesses[key] {
		if a.Ctor {
			continue
		}
		switch a.Kind {
		case "R", "MR", "ESC", "CR":
			ff.readers[a.Fn] = true
		case "W":
			if st, ok := a.Ins.(*ssa.Store); ok && isSelfAppend(st, a.Field) {
				ff.inserters[a.Fn] = true
				ff.insAcc = append(ff.insAcc, a)
			}
		case "MW":
			if _, ok := a.Ins.(*ssa.MapUpdate); ok {
				ff.inserters[a.Fn] = true
				ff.insAcc = append(ff.insAcc, a)
			}
		}
	}
	return ff
}

// reach computes which functions (transitively, through synchronous resolved
// calls on the same receiver object, bounded depth) are in set.
func (ff *fieldFacts) reachVia(set map[*ssa.Function]bool, fn *ssa.Function, depth int, memo map[*ssa.Function]bool) bool {
	if set[fn] {
		return true
	}
	if v, ok := memo[fn]; ok {
		return v
	}
	memo[fn] = false
	if depth <= 0 || fn.Blocks == nil {
		return false
	}
	res := false
	forEachCall(fn, func(site ssa.CallInstruction) {
		if res {
			return
		}
		if _, ok := site.(*ssa.Call); !ok {
			return
		}
		for _, c := range ff.ls.p.Callees(site) {
			if ff.ls.p.IsRepoFn(c) && ff.reachVia(set, c, depth-1, memo) {
				res = true
				return
			}
		}
	})
	memo[fn] = res
	return res
}

type point struct {
	Ins  ssa.Instruction
	Val  ssa.Value // value produced (for reads)
	Desc string
}

// readPoints: direct reads of the field in fn and calls to functions that read it.
func (ff *fieldFacts) readPoints(fn *ssa.Function) []point {
	var res []point
	for _, a := range ff.ls.Accesses[ff.key] {
		if a.Fn != fn || a.Ctor {
			continue
		}
		switch a.Kind {
		case "R", "MR", "CR":
			var v ssa.Value
			if val, ok := a.Ins.(ssa.Value); ok {
				v = val
			}
			// for map operations recorded at the Lookup/Range the value is the instruction itself
			res = append(res, point{Ins: a.Ins, Val: v, Desc: "direct " + a.Kind})
		}
	}
	memo := map[*ssa.Function]bool{}
	forEachCall(fn, func(site ssa.CallInstruction) {
		call, ok := site.(*ssa.Call)
		if !ok {
			return
		}
		// only helpers invoked on the very object whose collection is concerned (the function's own receiver)
		if rv := callRecv(site.Common()); rv == nil || Path(rv) != "recv" {
			return
		}
		for _, c := range ff.ls.p.Callees(site) {
			if c != fn && ff.ls.p.IsRepoFn(c) && ff.reachVia(ff.readers, c, 3, memo) {
				res = append(res, point{Ins: call, Val: call, Desc: "via " + FnName(originOf(c))})
				return
			}
		}
	})
	return res
}

// insertPoints: direct insertions in fn and calls to functions that insert.
func (ff *fieldFacts) insertPoints(fn *ssa.Function) []point {
	var res []point
	for _, a := range ff.insAcc {
		if a.Fn == fn {
			res = append(res, point{Ins: a.Ins, Desc: "direct"})
		}
	}
	memo := map[*ssa.Function]bool{}
	forEachCall(fn, func(site ssa.CallInstruction) {
		call, ok := site.(*ssa.Call)
		if !ok {
			return
		}
		if rv := callRecv(site.Common()); rv == nil || Path(rv) != "recv" {
			return
		}
		for _, c := range ff.ls.p.Callees(site) {
			if c != fn && ff.ls.p.IsRepoFn(c) && ff.reachVia(ff.inserters, c, 3, memo) {
				res = append(res, point{Ins: call, Desc: "via " + FnName(originOf(c))})
				return
			}
		}
	})
	return res
}

func lastComp(path string) string {
	if i := strings.LastIndex(path, "."); i >= 0 {
		return path[i+1:]
	}
	return path
}

// locksAtAllInsertions: names (last path component) of locks held at every direct insertion site.
func (ff *fieldFacts) locksAtAllInsertions() map[string]bool {
	var res map[string]bool
	for _, a := range ff.insAcc {
		cur := map[string]bool{}
		for lp, h := range a.Locks {
			if !h.Read {
				cur[lastComp(lp)] = true
			}
		}
		if res == nil {
			res = cur
		} else {
			for k := range res {
				if !cur[k] {
					delete(res, k)
				}
			}
		}
	}
	if res == nil {
		res = map[string]bool{}
	}
	return res
}

// absenceThenInsert applies the rule to one collection field.
//
//	(a) every read of the collection that decides an insertion is in the same
//	    critical section as the insertion, of a lock held at every insertion site;
//	(b) if requireScan: every insertion is decided by at least one such read.
func absenceThenInsert(p *Prog, ls *Lockset, r *Report, rule, key string, requireScan bool, floorIns int) {
	ff := ls.Facts(key)
	common := ff.locksAtAllInsertions()
	nPairs, nIns := 0, 0
	decided := map[ssa.Instruction]bool{} // direct insertion instruction -> decided by an in-section read
	insFns := map[*ssa.Function]bool{}
	for _, a := range ff.insAcc {
		insFns[a.Fn] = true
	}
	for _, fn := range ls.fns {
		if isWrapper(fn) {
			continue
		}
		ips := ff.insertPoints(fn)
		if len(ips) == 0 {
			continue
		}
		rps := ff.readPoints(fn)
		for _, ip := range ips {
			for _, rp := range rps {
				if rp.Ins == ip.Ins || rp.Val == nil {
					continue
				}
				if !(instrDominates(rp.Ins, ip.Ins) || blockReaches(rp.Ins.Block(), ip.Ins.Block())) {
					continue
				}
				if rp.Ins.Block() == ip.Ins.Block() && instrIndex(rp.Ins) > instrIndex(ip.Ins) {
					continue
				}
				tainted := forwardTaint(rp.Val)
				ifs := divertingIfs(fn, tainted, ip.Ins)
				if len(ifs) == 0 {
					continue
				}
				nPairs++
				var okLocks []string
				for _, lp := range ls.CommonSections(rp.Ins, ip.Ins) {
					if common[lastComp(lp)] {
						okLocks = append(okLocks, lp)
					}
				}
				k := fmt.Sprintf("field:%s|fn:%s|read:%s|insert:%s", key, FnName(originOf(fn)), rp.Desc, ip.Desc)
				if len(okLocks) > 0 {
					r.Pass(rule, k, p.InstrPos(ip.Ins), fmt.Sprintf("look-up at %s and insertion share one critical section of %v", p.InstrPos(rp.Ins), okLocks))
					decided[ip.Ins] = true
				} else {
					r.Fail(rule, k, p.InstrPos(ip.Ins), fmt.Sprintf("the look-up at %s (%s) decides the insertion at %s (%s) but they do not share a critical section of a lock held at every insertion site %v (locks at look-up %s, at insertion %s)", p.InstrPos(rp.Ins), rp.Desc, p.InstrPos(ip.Ins), ip.Desc, sortedKeys(common), ls.At(rp.Ins), ls.At(ip.Ins)))
				}
			}
		}
	}
	// (b) has-scan per direct insertion site
	for _, a := range ff.insAcc {
		nIns++
		if !requireScan {
			continue
		}
		ok := decided[a.Ins]
		if !ok {
			// decided in a caller: the call leading here was decided
			for _, fn := range ls.fns {
				for _, ip := range ff.insertPoints(fn) {
					if decided[ip.Ins] && strings.HasPrefix(ip.Desc, "via ") {
						for _, c := range p.Callees(ip.Ins.(ssa.CallInstruction)) {
							memo := map[*ssa.Function]bool{}
							if c == a.Fn || ff.reachVia(map[*ssa.Function]bool{a.Fn: true}, c, 3, memo) {
								ok = true
							}
						}
					}
				}
			}
		}
		k := fmt.Sprintf("field:%s|fn:%s|scan", key, FnName(originOf(a.Fn)))
		r.Check(rule, k, ok, p.InstrPos(a.Ins), "the insertion is decided by a look-up of the same collection inside its critical section (duplicate/absence check present)")
	}
	r.Floor(rule, "insertion sites of "+key, nIns, floorIns)
	r.Stat(rule+".decided read/insert pairs of "+key, nPairs)
}

// ---- outer-key guard ----

// outerKeyGuard: every "m[a] = make(map…)" on the field must be reached only on
// a miss of a look-up of m[a] itself (not of m[a][b]).
func outerKeyGuard(p *Prog, ls *Lockset, r *Report, rule, key string, floor int) {
	n := 0
	for _, a := range ls.Accesses[key] {
		mu, ok := a.Ins.(*ssa.MapUpdate)
		if !ok || a.Ctor {
			continue
		}
		if _, isMake := mu.Value.(*ssa.MakeMap); !isMake {
			continue
		}
		// only the outer map (the field itself)
		if !loadsFieldDirect(mu.Map, a.Field) {
			continue
		}
		n++
		okGuard := false
		for _, g := range Guards(mu.Block()) {
			ex, isEx := g.Cond.(*ssa.Extract)
			if !isEx || ex.Index != 1 {
				continue
			}
			lk, isLk := ex.Tuple.(*ssa.Lookup)
			if !isLk || !lk.CommaOk {
				continue
			}
			// miss (ok == false) of a look-up on the outer map with the same key
			if !g.Val && loadsFieldDirect(lk.X, a.Field) && Path(lk.Index) == Path(mu.Key) {
				okGuard = true
			}
		}
		r.Check(rule, fmt.Sprintf("field:%s|fn:%s|init", key, FnName(originOf(a.Fn))), okGuard, p.InstrPos(mu), "the inner map is (re)created only after a miss of the outer key")
	}
	r.Floor(rule, "inner-map initialisations of "+key, n, floor)
}

func loadsFieldDirect(v ssa.Value, fld *types.Var) bool {
	u, ok := v.(*ssa.UnOp)
	if !ok || u.Op != token.MUL {
		return false
	}
	fa, ok := u.X.(*ssa.FieldAddr)
	return ok && fieldOfAddr(fa) == fld
}

// ---- helpers for per-property rules ----

// accessesIn returns the accesses to key made in fn (and its nested anonymous functions when deep).
func (ls *Lockset) accessesIn(key string, fn *ssa.Function) []Access {
	var res []Access
	for _, a := range ls.Accesses[key] {
		if a.Fn == fn {
			res = append(res, a)
		}
	}
	return res
}

func sortedFns(m map[*ssa.Function]bool) []*ssa.Function {
	var r []*ssa.Function
	for f := range m {
		r = append(r, f)
	}
	sort.Slice(r, func(i, j int) bool { return r[i].String() < r[j].String() })
	return r
}

// rebuildAtomic: read-modify-write of a guarded collection field. For every
// store to the field whose value derives from a load of the same field in the
// same function (a rebuilt or extended list), the load and the store lie in one
// critical section. Otherwise an update made by another goroutine between the
// two is overwritten (lost update), although every single access is locked.
func rebuildAtomic(p *Prog, ls *Lockset, r *Report, rule, key string, floor int) {
	n := 0
	byFn := map[*ssa.Function][]Access{}
	for _, a := range ls.Accesses[key] {
		if a.Ctor || isWrapper(a.Fn) {
			continue
		}
		byFn[a.Fn] = append(byFn[a.Fn], a)
	}
	for _, fn := range sortedFns(fnSet(byFn)) {
		accs := byFn[fn]
		idx := 0
		for _, w := range accs {
			st, ok := w.Ins.(*ssa.Store)
			if !ok || w.Kind != "W" {
				continue
			}
			var feeding []Access
			for _, rd := range accs {
				if rd.Kind != "R" && rd.Kind != "MR" {
					continue
				}
				v, ok := rd.Ins.(ssa.Value)
				if !ok {
					continue
				}
				if forwardTaint(v)[st.Val] {
					feeding = append(feeding, rd)
				}
			}
			if len(feeding) == 0 {
				continue
			}
			idx++
			n++
			k := fmt.Sprintf("field:%s|fn:%s|rebuild#%d", key, FnName(originOf(fn)), idx)
			ok = true
			detail := ""
			for _, rd := range feeding {
				secs := ls.CommonSections(rd.Ins, st)
				if len(secs) == 0 {
					ok = false
					detail = fmt.Sprintf("the list stored at %s was computed from the list read at %s, but the read and the store do not share a critical section (locks at the read %s, at the store %s): an entry added or removed by another goroutine in between is lost", p.InstrPos(st), p.InstrPos(rd.Ins), ls.At(rd.Ins), ls.At(st))
				} else if detail == "" {
					detail = fmt.Sprintf("read at %s and store share one critical section of %v", p.InstrPos(rd.Ins), secs)
				}
			}
			r.Check(rule, k, ok, p.InstrPos(st), detail)
		}
	}
	r.Floor(rule, "read-modify-write sites of "+key, n, floor)
}

func fnSet(m map[*ssa.Function][]Access) map[*ssa.Function]bool {
	res := map[*ssa.Function]bool{}
	for f := range m {
		res[f] = true
	}
	return res
}

// inPlaceRoutines: library functions that modify the backing array of their first argument.
var inPlaceRoutines = map[string]map[string]bool{
	"slices": {"Delete": true, "DeleteFunc": true, "Insert": true, "Replace": true, "Compact": true, "CompactFunc": true, "Reverse": true, "Sort": true, "SortFunc": true, "SortStableFunc": true},
	"sort":   {"Slice": true, "SliceStable": true, "Sort": true, "Stable": true, "Strings": true, "Ints": true},
}

// escapedListsImmutable: a list field whose slice header is handed out by a
// getter (callers iterate it without the lock) is copy-on-write: nobody stores
// into its elements or applies an in-place routine to it. Removal and filtering
// build a new slice.
func escapedListsImmutable(p *Prog, ls *Lockset, r *Report, rule string, onlyOwners map[string]bool) {
	n := 0
	for _, key := range sortedKeys(ls.Accesses) {
		owner := strings.SplitN(key, ".", 2)[0]
		if onlyOwners != nil && !onlyOwners[owner] {
			continue
		}
		var esc *Access
		var fld *types.Var
		for i, a := range ls.Accesses[key] {
			handedOut := a.Kind == "ESC"
			if v, ok := a.Ins.(ssa.Value); ok && flowsToReturn(v) {
				handedOut = true
			}
			// the header leaves its critical section: loaded under a lock of the object and used (ranged, indexed,
			// measured) at an instruction where that lock is no longer held
			if v, ok := a.Ins.(ssa.Value); ok && !handedOut && v.Referrers() != nil {
				for lname := range a.heldOnSameObject() {
					for _, ref := range *v.Referrers() {
						if _, isStore := ref.(*ssa.Store); isStore {
							continue
						}
						stillHeld := false
						for lp := range ls.At(ref) {
							if lastComp(lp) == lname {
								stillHeld = true
							}
						}
						if !stillHeld && ref.Block() != nil {
							handedOut = true
						}
					}
				}
			}
			if handedOut {
				esc = &ls.Accesses[key][i]
				fld = a.Field
			}
		}
		if esc == nil || fld == nil {
			continue
		}
		if _, isSl := fld.Type().Underlying().(*types.Slice); !isSl {
			continue
		}
		n++
		bad := 0
		for _, fn := range ls.fns {
			if isWrapper(fn) {
				continue
			}
			for _, b := range fn.Blocks {
				for _, ins := range b.Instrs {
					switch x := ins.(type) {
					case *ssa.Store:
						if ia, ok := x.Addr.(*ssa.IndexAddr); ok && loadsField(ia.X, fld) {
							bad++
							r.Fail(rule, fmt.Sprintf("field:%s|fn:%s|element-store", key, FnName(originOf(fn))), p.InstrPos(x), fmt.Sprintf("an element of %s is overwritten in place, but %s hands the slice header out to callers that iterate it without the lock", key, FnName(esc.Fn)))
						}
					case *ssa.Call:
						callee := x.Call.StaticCallee()
						if callee == nil {
							// append to a reslice of the field (field[:0], field[:n]) reuses and overwrites its backing array
							if builtinName(&x.Call) == "append" && len(x.Call.Args) > 0 {
								if rs := resliceOfField(x.Call.Args[0], fld, 0); rs {
									bad++
									r.Fail(rule, fmt.Sprintf("field:%s|fn:%s|append-to-reslice", key, FnName(originOf(fn))), p.InstrPos(x), fmt.Sprintf("append to a reslice of %s overwrites its backing array in place, but the slice header leaves the critical section in %s: a reader still iterating the old header sees shifted elements", key, FnName(esc.Fn)))
								}
							}
							if builtinName(&x.Call) == "copy" && len(x.Call.Args) == 2 && loadsField(x.Call.Args[0], fld) {
								bad++
								r.Fail(rule, fmt.Sprintf("field:%s|fn:%s|copy-into", key, FnName(originOf(fn))), p.InstrPos(x), fmt.Sprintf("copy writes into the backing array of %s, which %s hands out", key, FnName(esc.Fn)))
							}
							continue
						}
						_ = callee
						if set := inPlaceRoutines[fnPkgPath(callee)]; set != nil && set[originName(callee)] && len(x.Call.Args) > 0 && loadsField(x.Call.Args[0], fld) {
							bad++
							r.Fail(rule, fmt.Sprintf("field:%s|fn:%s|%s.%s", key, FnName(originOf(fn)), fnPkgPath(callee), originName(callee)), p.InstrPos(x), fmt.Sprintf("%s.%s works in place on the backing array of %s, but %s hands the slice header out to callers that iterate it without the lock: a concurrent reader sees shifted or zeroed elements", fnPkgPath(callee), originName(callee), key, FnName(esc.Fn)))
						}
					}
				}
			}
		}
		if bad == 0 {
			r.Pass(rule, "field:"+key, p.InstrPos(esc.Ins), fmt.Sprintf("handed out by %s; never modified in place", FnName(esc.Fn)))
		}
	}
	r.Floor(rule, "list fields handed out by a getter", n, 1)
}

// flowsToReturn: v is returned, directly or through the result cell of a function with defer.
func flowsToReturn(v ssa.Value) bool {
	if v.Referrers() == nil {
		return false
	}
	for _, ref := range *v.Referrers() {
		switch x := ref.(type) {
		case *ssa.Return:
			return true
		case *ssa.Store:
			if al, ok := x.Addr.(*ssa.Alloc); ok && x.Val == v && al.Referrers() != nil {
				for _, r2 := range *al.Referrers() {
					if ld, ok := r2.(*ssa.UnOp); ok && ld.Referrers() != nil {
						for _, r3 := range *ld.Referrers() {
							if _, isRet := r3.(*ssa.Return); isRet {
								return true
							}
						}
					}
				}
			}
		}
	}
	return false
}

// resliceOfField: v is field[a:b] (possibly through a phi of an accumulating loop).
func resliceOfField(v ssa.Value, fld *types.Var, depth int) bool {
	if depth > 6 {
		return false
	}
	switch x := v.(type) {
	case *ssa.Slice:
		if x.Max != nil {
			return false // f[:k:k]: the capacity is capped, the next append allocates
		}
		return loadsField(x.X, fld)
	case *ssa.Phi:
		for _, e := range x.Edges {
			if e != v && resliceOfField(e, fld, depth+1) {
				return true
			}
		}
	case *ssa.Call:
		if builtinName(&x.Call) == "append" && len(x.Call.Args) > 0 {
			return resliceOfField(x.Call.Args[0], fld, depth+1)
		}
	}
	return false
}

// AtLifted: the locks held at ins, plus — when ins lies in an extracted helper of
// the current scope — the locks held at the helper's call site(s) up to the scope
// root (a lock of the caller cannot always be named inside a helper that does not
// receive the object).
func (ls *Lockset) AtLifted(ins ssa.Instruction) LockSet {
	res := LockSet{}
	for k, v := range ls.At(ins) {
		res[k] = v
	}
	fn := ins.Parent()
	for d := 0; d < 3 && belowScopeRoot(fn); d++ {
		s := curProg.HelperSite(fn)
		if s == nil {
			break
		}
		for k, v := range ls.At(s) {
			if _, ok := res[k]; !ok {
				res[k] = v
			}
		}
		fn = s.Parent()
	}
	return res
}

// accessesInScope: the accesses of fn and of its extracted helpers (current scope rooted at fn).
func (ls *Lockset) accessesInScope(key string, fn *ssa.Function) []Access {
	res := ls.accessesIn(key, fn)
	if curProg == nil {
		return res
	}
	for h := range curProg.scopeOf(fn).site {
		res = append(res, ls.accessesIn(key, h)...)
	}
	return res
}

// noStrayCompaction: a list-typed state field of one of the owners is never used
// as the backing array of another list. "x := f[:0]; x = append(x, …)" (and the
// in-place routines of package slices) overwrite the elements of f; that is only
// consistent when the result replaces f in the same function (an in-place filter
// — whether f may be filtered in place at all is escapedListsImmutable's
// question). A result that is returned or kept elsewhere leaves f with shifted,
// duplicated elements under its old length.
func noStrayCompaction(p *Prog, ls *Lockset, r *Report, rule string, owners map[string]bool) {
	nFields := 0
	for _, key := range sortedKeys(ls.Accesses) {
		owner := strings.SplitN(key, ".", 2)[0]
		if owners != nil && !owners[owner] {
			continue
		}
		accs := ls.Accesses[key]
		if len(accs) == 0 || accs[0].Field == nil {
			continue
		}
		fld := accs[0].Field
		if _, isSl := fld.Type().Underlying().(*types.Slice); !isSl {
			continue
		}
		nFields++
		bad := 0
		seenFn := map[*ssa.Function]bool{}
		for _, a := range accs {
			fn := a.Ins.Parent()
			if fn == nil || seenFn[fn] {
				continue
			}
			seenFn[fn] = true
			storedBack := func() bool {
				for _, b := range fn.Blocks {
					for _, ins := range b.Instrs {
						if st, ok := ins.(*ssa.Store); ok {
							if fa, ok := st.Addr.(*ssa.FieldAddr); ok && fieldOfAddr(fa) == fld && resliceOfField(st.Val, fld, 0) {
								return true
							}
						}
					}
				}
				return false
			}
			for _, b := range fn.Blocks {
				for _, ins := range b.Instrs {
					c, ok := ins.(*ssa.Call)
					if !ok {
						continue
					}
					how := ""
					if builtinName(&c.Call) == "append" && len(c.Call.Args) > 0 && resliceOfField(c.Call.Args[0], fld, 0) {
						how = "append to a reslice"
					}
					if callee := c.Call.StaticCallee(); callee != nil && len(c.Call.Args) > 0 {
						if set := inPlaceRoutines[fnPkgPath(callee)]; set != nil && set[originName(callee)] && loadsField(c.Call.Args[0], fld) && fnPkgPath(callee) == "slices" && !strings.HasPrefix(originName(callee), "Sort") {
							how = "slices." + originName(callee)
						}
					}
					if how == "" || storedBack() {
						continue
					}
					bad++
					r.Fail(rule, fmt.Sprintf("field:%s|fn:%s|%s", key, FnName(originOf(fn)), how), p.InstrPos(c), fmt.Sprintf("%s of %s overwrites the elements of the stored list, but the result does not replace the field: the stored list keeps its old length over shifted elements (entries lost, others duplicated)", how, key))
				}
			}
		}
		if bad == 0 {
			r.Pass(rule, "field:"+key, "", "never used as the backing array of another list")
		}
	}
	r.Floor(rule, "list-typed state fields examined", nFields, 1)
}
