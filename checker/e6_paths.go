package main

// E6 — specialise-and-count: path-sensitive enumeration of effects over a
// finite abstraction. For one valuation of the dimensions every branch whose
// condition is a predicate over a dimension is decided; other branches fork.
// Calls to functions from which an effect is reachable are replaced by their
// summaries (memoised). A block is visited at most once per path.

import (
	"fmt"
	"go/token"
	"go/types"
	"sort"
	"strings"

	"golang.org/x/tools/go/ssa"
)

type pathFacts struct {
	nilness map[ssa.Value]string // "nil" | "nonnil"
	nilPath map[string]string    // by access path, for re-loaded fields
	boolv   map[ssa.Value]bool
}

func newFacts() *pathFacts {
	return &pathFacts{nilness: map[ssa.Value]string{}, nilPath: map[string]string{}, boolv: map[ssa.Value]bool{}}
}

func (f *pathFacts) clone() *pathFacts {
	n := newFacts()
	for k, v := range f.nilness {
		n.nilness[k] = v
	}
	for k, v := range f.nilPath {
		n.nilPath[k] = v
	}
	for k, v := range f.boolv {
		n.boolv[k] = v
	}
	return n
}

type Outcome struct {
	Ret    []string // nil-ness per result: nil | nonnil | ?
	Eff    map[string]int
	Events []string // ordered: effects and gate events
	Trace  []string
}

func (o Outcome) key() string {
	var ks []string
	for k, v := range o.Eff {
		if v != 0 {
			ks = append(ks, fmt.Sprintf("%s=%d", k, v))
		}
	}
	sort.Strings(ks)
	return strings.Join(o.Ret, ",") + " | " + strings.Join(ks, " ") + " | " + strings.Join(o.Events, " ")
}

func (o Outcome) N(effect string) int { return o.Eff[effect] }

func (o Outcome) HasEvent(e string) bool {
	for _, x := range o.Events {
		if x == e {
			return true
		}
	}
	return false
}

// EventBefore reports whether event a occurs before the first occurrence of b.
func (o Outcome) EventBefore(a, b string) bool {
	for _, x := range o.Events {
		if x == a {
			return true
		}
		if x == b {
			return false
		}
	}
	return false
}

func (o Outcome) String() string {
	return o.key()
}

type PathEngine struct {
	p *Prog
	// Effect classifies a call/go instruction ("" = none).
	Effect func(site ssa.CallInstruction, f *pathFacts) string
	// Forks: effects whose error result forks the path (effect happened / "<effect>Fail")
	Forks map[string]bool
	// Decide: +1 condition true, -1 false, 0 unknown
	Decide func(cond ssa.Value, f *pathFacts) int
	// Gate: name of the event recorded when this condition is branched on ("" = none);
	// holdsWhenTrue tells whether the named predicate holds on the true edge
	Gate func(cond ssa.Value) (name string, holdsWhenTrue bool)
	// Opaque: calls that are not descended into (treated as having no effect)
	Opaque func(fn *ssa.Function) bool
	// NonNil: values known to be non-nil by construction
	NonNil func(v ssa.Value) bool

	MaxDepth   int
	relevant   map[*ssa.Function]bool
	memo       map[string][]Outcome
	Incomplete []string // depth or size limits hit
	nFns       map[*ssa.Function]bool
	nPaths     int
	relCache   map[string]map[*ssa.Function]bool
}

func NewPathEngine(p *Prog) *PathEngine {
	return &PathEngine{p: p, Forks: map[string]bool{}, MaxDepth: 10, memo: map[string][]Outcome{}, nFns: map[*ssa.Function]bool{}}
}

// computeRelevant: functions from which an effect or a gate is synchronously reachable.
func (e *PathEngine) computeRelevant() {
	e.relevant = map[*ssa.Function]bool{}
	var fns []*ssa.Function
	for f := range e.p.AllFns {
		if f.Blocks != nil && e.p.IsRepoFn(f) && !isUninstantiated(f) {
			fns = append(fns, f)
		}
	}
	for _, f := range fns {
		for _, b := range f.Blocks {
			for _, ins := range b.Instrs {
				switch x := ins.(type) {
				case ssa.CallInstruction:
					if e.Effect(x, nil) != "" {
						e.relevant[f] = true
					}
				case *ssa.If:
					if e.Gate != nil {
						if g, _ := e.Gate(x.Cond); g != "" {
							e.relevant[f] = true
						}
					}
				}
			}
		}
	}
	for changed := true; changed; {
		changed = false
		for _, f := range fns {
			if e.relevant[f] {
				continue
			}
			for _, b := range f.Blocks {
				for _, ins := range b.Instrs {
					c, ok := ins.(*ssa.Call)
					if !ok {
						continue
					}
					for _, callee := range e.p.Callees(c) {
						if e.relevant[callee] && (e.Opaque == nil || !e.Opaque(callee)) {
							e.relevant[f] = true
							changed = true
						}
					}
				}
			}
		}
	}
}

func (e *PathEngine) nilOf(v ssa.Value, f *pathFacts, depth int) string {
	if depth > 8 {
		return "?"
	}
	if c, ok := v.(*ssa.Const); ok {
		if c.IsNil() {
			return "nil"
		}
		return "nonnil"
	}
	if n, ok := f.nilness[v]; ok {
		return n
	}
	if e.NonNil != nil && e.NonNil(v) {
		return "nonnil"
	}
	switch x := v.(type) {
	case *ssa.Call:
		if c := x.Call.StaticCallee(); c != nil {
			n := c.String()
			if n == "errors.New" || n == "fmt.Errorf" {
				return "nonnil"
			}
			// constructors returning a fresh allocation on every path
			if e.p.IsRepoFn(c) && returnsFresh(c) {
				return "nonnil"
			}
		}
	case *ssa.MakeInterface:
		return e.nilOf(x.X, f, depth+1)
	case *ssa.ChangeInterface:
		return e.nilOf(x.X, f, depth+1)
	case *ssa.ChangeType:
		return e.nilOf(x.X, f, depth+1)
	case *ssa.Alloc, *ssa.MakeClosure, *ssa.MakeMap, *ssa.MakeSlice, *ssa.FieldAddr, *ssa.IndexAddr:
		return "nonnil"
	case *ssa.UnOp:
		if x.Op == token.MUL {
			// defer-spilled result: load of an Alloc -> last store to it in the same block
			if al, ok := x.X.(*ssa.Alloc); ok {
				var last ssa.Value
				for _, ins := range x.Block().Instrs {
					if ins == ssa.Instruction(x) {
						break
					}
					if st, ok := ins.(*ssa.Store); ok && st.Addr == ssa.Value(al) {
						last = st.Val
					}
				}
				if last != nil {
					return e.nilOf(last, f, depth+1)
				}
				if s := singleStore(al); s != nil {
					return e.nilOf(s, f, depth+1)
				}
			}
			if n, ok := f.nilPath[Path(x)]; ok {
				return n
			}
		}
	case *ssa.Extract:
		if n, ok := f.nilPath[Path(x)]; ok {
			return n
		}
	case *ssa.Phi:
		rs := map[string]bool{}
		for _, ed := range x.Edges {
			rs[e.nilOf(ed, f, depth+1)] = true
		}
		if len(rs) == 1 {
			for k := range rs {
				return k
			}
		}
	}
	return "?"
}

// returnsFresh: every return of fn yields a fresh allocation (directly or through
// another such function) as its single result.
var freshMemo = map[*ssa.Function]int{}

func returnsFresh(fn *ssa.Function) bool {
	if v, ok := freshMemo[fn]; ok {
		return v == 1
	}
	freshMemo[fn] = 0
	if fn.Blocks == nil || fn.Signature.Results().Len() != 1 {
		return false
	}
	n := 0
	for _, b := range fn.Blocks {
		ret, ok := b.Instrs[len(b.Instrs)-1].(*ssa.Return)
		if !ok {
			continue
		}
		n++
		v := ret.Results[0]
		for {
			if mi, ok := v.(*ssa.MakeInterface); ok {
				v = mi.X
				continue
			}
			break
		}
		switch x := v.(type) {
		case *ssa.Alloc:
		case *ssa.Call:
			c := x.Call.StaticCallee()
			if c == nil || !returnsFresh(c) {
				return false
			}
		default:
			return false
		}
	}
	if n > 0 {
		freshMemo[fn] = 1
	}
	return n > 0
}

func (e *PathEngine) evalCond(cond ssa.Value, f *pathFacts) int {
	if b, ok := f.boolv[cond]; ok {
		if b {
			return 1
		}
		return -1
	}
	if k, ok := constBool(cond); ok {
		if k {
			return 1
		}
		return -1
	}
	if e.Decide != nil {
		if d := e.Decide(cond, f); d != 0 {
			return d
		}
	}
	switch x := cond.(type) {
	case *ssa.UnOp:
		if x.Op == token.NOT {
			return -e.evalCond(x.X, f)
		}
	case *ssa.BinOp:
		if v, trueMeansNil, ok := nilTest(x); ok {
			switch e.nilOf(v, f, 0) {
			case "nil":
				if trueMeansNil {
					return 1
				}
				return -1
			case "nonnil":
				if trueMeansNil {
					return -1
				}
				return 1
			}
		}
	}
	return 0
}

func boundKey(b map[int]bool) string {
	var ks []int
	for k := range b {
		ks = append(ks, k)
	}
	sort.Ints(ks)
	s := ""
	for _, k := range ks {
		s += fmt.Sprintf("%d=%v,", k, b[k])
	}
	return s
}

type pstate struct {
	b       *ssa.BasicBlock
	prev    *ssa.BasicBlock // the block control came from (to evaluate phis)
	i       int
	eff     map[string]int
	events  []string
	trace   []string
	facts   *pathFacts
	visited map[*ssa.BasicBlock]bool
}

func cloneEff(m map[string]int) map[string]int {
	n := make(map[string]int, len(m))
	for k, v := range m {
		n[k] = v
	}
	return n
}

// Summarize enumerates the outcome classes of fn. valKey distinguishes valuations in the memo.
func (e *PathEngine) Summarize(fn *ssa.Function, valKey string, bound map[int]bool, depth int) []Outcome {
	if e.relevant == nil {
		e.computeRelevant()
	}
	key := fn.String() + "|" + valKey + "|" + boundKey(bound)
	if r, ok := e.memo[key]; ok {
		return r
	}
	e.memo[key] = nil // recursion guard
	if fn.Blocks == nil || depth > e.MaxDepth {
		if depth > e.MaxDepth {
			e.Incomplete = append(e.Incomplete, "depth limit at "+FnName(fn))
		}
		return []Outcome{{Eff: map[string]int{}}}
	}
	e.nFns[fn] = true
	var outs []Outcome
	seen := map[string]bool{}
	emit := func(o Outcome) {
		k := o.key()
		if !seen[k] {
			seen[k] = true
			outs = append(outs, o)
		}
	}
	budget := 200000
	var run func(s pstate)
	run = func(s pstate) {
		if budget <= 0 {
			return
		}
		budget--
		b := s.b
		if s.i == 0 && s.prev != nil {
			// phis take the value of the edge control came in through: constants and conditions
			// decided under the valuation become path facts (a || b || c computed into a variable)
			k := -1
			for i, pr := range b.Preds {
				if pr == s.prev {
					k = i
				}
			}
			if k >= 0 {
				var nf *pathFacts
				for _, ins := range b.Instrs {
					phi, ok := ins.(*ssa.Phi)
					if !ok {
						break
					}
					edge := phi.Edges[k]
					if bt, isB := phi.Type().Underlying().(*types.Basic); isB && bt.Kind() == types.Bool {
						if d := e.evalCond(edge, s.facts); d != 0 {
							if nf == nil {
								nf = s.facts.clone()
							}
							nf.boolv[phi] = d > 0
						}
					} else if n := e.nilOf(edge, s.facts, 0); n != "?" {
						if nf == nil {
							nf = s.facts.clone()
						}
						nf.nilness[phi] = n
					}
				}
				if nf != nil {
					s.facts = nf
				}
			}
		}
		for i := s.i; i < len(b.Instrs); i++ {
			switch x := b.Instrs[i].(type) {
			case *ssa.Defer:
				continue
			case *ssa.Go:
				if ef := e.Effect(x, s.facts); ef != "" {
					s.eff = cloneEff(s.eff)
					s.eff[ef]++
					s.events = append(append([]string{}, s.events...), ef)
					s.trace = append(append([]string{}, s.trace...), ef+"@"+e.p.InstrPos(x))
				}
				continue
			case *ssa.Call:
				if ef := e.Effect(x, s.facts); ef != "" {
					pos := e.p.InstrPos(x)
					setRes := func(fc *pathFacts, val string) {
						n := 1
						if t, ok := x.Type().(*types.Tuple); ok {
							n = t.Len()
						}
						if n == 1 {
							fc.nilness[x] = val
						}
						if x.Referrers() != nil {
							for _, r := range *x.Referrers() {
								if ex, ok := r.(*ssa.Extract); ok && ex.Index == n-1 {
									fc.nilness[ex] = val
								}
							}
						}
					}
					s1 := s
					s1.i = i + 1
					s1.eff = cloneEff(s.eff)
					s1.eff[ef]++
					s1.events = append(append([]string{}, s.events...), ef)
					s1.trace = append(append([]string{}, s.trace...), ef+"@"+pos)
					if e.Forks[ef] {
						s1.facts = s.facts.clone()
						setRes(s1.facts, "nil")
						run(s1)
						s2 := s
						s2.i = i + 1
						s2.eff = cloneEff(s.eff)
						s2.eff[ef+"Fail"]++
						s2.events = append(append([]string{}, s.events...), ef+"Fail")
						s2.trace = append(append([]string{}, s.trace...), ef+"Fail@"+pos)
						s2.facts = s.facts.clone()
						setRes(s2.facts, "nonnil")
						run(s2)
						return
					}
					s = s1
					s.i = i
					continue
				}
				var rel []*ssa.Function
				for _, c := range e.p.Callees(x) {
					if e.relevant[c] && (e.Opaque == nil || !e.Opaque(c)) {
						rel = append(rel, c)
					}
				}
				if len(rel) == 0 {
					continue
				}
				for _, c := range rel {
					bnd := map[int]bool{}
					off := 0
					if x.Call.IsInvoke() {
						off = 1
					}
					for ai, a := range x.Call.Args {
						if k, ok := constBool(a); ok {
							bnd[ai+off] = k
						} else if bv, ok := s.facts.boolv[a]; ok {
							bnd[ai+off] = bv
						}
					}
					for _, o := range e.Summarize(c, valKey, bnd, depth+1) {
						s1 := s
						s1.i = i + 1
						s1.eff = cloneEff(s.eff)
						for k, n := range o.Eff {
							s1.eff[k] += n
						}
						s1.events = append(append([]string{}, s.events...), o.Events...)
						s1.trace = append(append([]string{}, s.trace...), "["+shortFn(c)+"→"+strings.Join(o.Ret, ",")+": "+strings.Join(o.Trace, " ")+"]")
						s1.facts = s.facts.clone()
						if len(o.Ret) == 1 && o.Ret[0] != "?" {
							s1.facts.nilness[x] = o.Ret[0]
						}
						if len(o.Ret) > 1 && x.Referrers() != nil {
							for _, r := range *x.Referrers() {
								if ex, ok := r.(*ssa.Extract); ok && ex.Index < len(o.Ret) && o.Ret[ex.Index] != "?" {
									s1.facts.nilness[ex] = o.Ret[ex.Index]
								}
							}
						}
						run(s1)
					}
				}
				return
			case *ssa.If:
				d := e.evalCond(x.Cond, s.facts)
				gate, gateTrue := "", true
				if e.Gate != nil {
					gate, gateTrue = e.Gate(x.Cond)
				}
				for k, succ := range b.Succs {
					if (d > 0 && k == 1) || (d < 0 && k == 0) {
						continue
					}
					if s.visited[succ] {
						continue
					}
					vis := make(map[*ssa.BasicBlock]bool, len(s.visited)+1)
					for kk := range s.visited {
						vis[kk] = true
					}
					vis[succ] = true
					fc := s.facts
					// learn from the edge
					c, val := normCond(x.Cond, k == 0)
					if v, trueMeansNil, ok := nilTest(c); ok {
						fc = s.facts.clone()
						isNil := trueMeansNil == val
						nv := "nonnil"
						if isNil {
							nv = "nil"
						}
						fc.nilness[v] = nv
						if pth := Path(v); !strings.HasPrefix(pth, "v:") && pth != "?" {
							fc.nilPath[pth] = nv
						}
					} else if d == 0 {
						fc = s.facts.clone()
						fc.boolv[c] = val
					}
					ev := s.events
					if gate != "" {
						ev = append(append([]string{}, s.events...), fmt.Sprintf("%s=%v", gate, (k == 0) == gateTrue))
					}
					run(pstate{b: succ, prev: b, eff: s.eff, events: ev, trace: s.trace, facts: fc, visited: vis})
				}
				return
			case *ssa.Jump:
				succ := b.Succs[0]
				if s.visited[succ] {
					return
				}
				vis := make(map[*ssa.BasicBlock]bool, len(s.visited)+1)
				for kk := range s.visited {
					vis[kk] = true
				}
				vis[succ] = true
				run(pstate{b: succ, prev: b, eff: s.eff, events: s.events, trace: s.trace, facts: s.facts, visited: vis})
				return
			case *ssa.Return:
				var ret []string
				for _, rv := range x.Results {
					ret = append(ret, e.nilOf(rv, s.facts, 0))
				}
				e.nPaths++
				emit(Outcome{Ret: ret, Eff: s.eff, Events: s.events, Trace: s.trace})
				return
			case *ssa.Panic:
				e.nPaths++
				emit(Outcome{Ret: []string{"panic"}, Eff: s.eff, Events: append(append([]string{}, s.events...), "panic"), Trace: s.trace})
				return
			}
		}
	}
	f0 := newFacts()
	for i, b := range bound {
		if i < len(fn.Params) {
			f0.boolv[fn.Params[i]] = b
		}
	}
	run(pstate{b: fn.Blocks[0], eff: map[string]int{}, facts: f0, visited: map[*ssa.BasicBlock]bool{fn.Blocks[0]: true}})
	if budget <= 0 {
		e.Incomplete = append(e.Incomplete, "path budget exhausted in "+FnName(fn))
	}
	sort.Slice(outs, func(i, j int) bool { return outs[i].key() < outs[j].key() })
	e.memo[key] = outs
	return outs
}

// effectsInLoops reports effects that sit in a cyclic block of a relevant function (other than allowed ones).
func (e *PathEngine) effectsInLoops(allowed map[string]bool) []string {
	var res []string
	if e.relevant == nil {
		e.computeRelevant()
	}
	for f := range e.nFns {
		for _, b := range f.Blocks {
			if !cyclic(b) {
				continue
			}
			for _, ins := range b.Instrs {
				if ci, ok := ins.(ssa.CallInstruction); ok {
					if ef := e.Effect(ci, nil); ef != "" && !allowed[ef] {
						res = append(res, fmt.Sprintf("%s in a loop of %s at %s", ef, FnName(f), e.p.InstrPos(ins)))
					}
				}
			}
		}
	}
	sort.Strings(res)
	return res
}

func shortFn(f *ssa.Function) string {
	n := originName(f)
	if f.Signature.Recv() != nil {
		if nt := namedOf(f.Signature.Recv().Type()); nt != nil {
			return nt.Obj().Name() + "." + n
		}
	}
	return n
}
