package main

// E1 — tables read from the type-checked program: struct tags, method sets,
// registered generics. Nothing here looks at text or positions.

import (
	"go/ast"
	"go/constant"
	"go/token"
	"go/types"
	"reflect"
	"sort"
	"strings"
)

type tagField struct {
	Owner string // struct name
	Var   *types.Var
	Index int
	JSON  string
	Tags  map[string]string // eebus tags; boolean tags map to "true"
	Raw   string
	Bad   bool // malformed eebus tag (a pair with more than one ':')
}

func parseTag(raw string) (jsonName string, tags map[string]string, eebus string, malformed bool) {
	st := reflect.StructTag(raw)
	jsonName = strings.Split(st.Get("json"), ",")[0]
	eebus = st.Get("eebus")
	tags = map[string]string{}
	if eebus == "" {
		return
	}
	for _, t := range strings.Split(eebus, ",") {
		kv := strings.Split(t, ":")
		switch len(kv) {
		case 1:
			tags[kv[0]] = "true"
		case 2:
			tags[kv[0]] = kv[1]
		default:
			malformed = true
		}
	}
	return
}

func structFields(owner string, st *types.Struct) []tagField {
	var r []tagField
	for i := 0; i < st.NumFields(); i++ {
		j, tags, raw, bad := parseTag(st.Tag(i))
		r = append(r, tagField{Owner: owner, Var: st.Field(i), Index: i, JSON: j, Tags: tags, Raw: raw, Bad: bad})
	}
	return r
}

type registration struct {
	Fct     string // function name (constant value)
	Const   string // name of the constant used
	T       types.Type
	Pos     token.Pos
	Feature string
}

type Tables struct {
	p *Prog

	FunctionConsts map[string]string // value -> constant name
	Regs           []registration
	RegByFct       map[string]types.Type
	CmdFields      []tagField
	CmdByFct       map[string][]tagField
	FilterFields   []tagField
	Updater        *types.Interface
	Updaters       []*types.Named // types whose pointer implements model.Updater
	anchorsMissing []string
}

func (t *Tables) missing(what string) { t.anchorsMissing = append(t.anchorsMissing, what) }

func BuildTables(p *Prog) *Tables {
	t := &Tables{p: p, FunctionConsts: map[string]string{}, RegByFct: map[string]types.Type{}, CmdByFct: map[string][]tagField{}}
	model := p.TypesPkg("model")
	sc := model.Scope()
	ft := p.LookupType("model", "FunctionType")
	if ft == nil {
		t.missing("model.FunctionType")
	} else {
		for _, n := range sc.Names() {
			if c, ok := sc.Lookup(n).(*types.Const); ok && types.Identical(c.Type(), ft) && c.Val().Kind() == constant.String {
				t.FunctionConsts[constant.StringVal(c.Val())] = n
			}
		}
	}
	if cmd := p.LookupType("model", "CmdType"); cmd != nil {
		if st, ok := cmd.Underlying().(*types.Struct); ok {
			t.CmdFields = structFields("CmdType", st)
			for _, f := range t.CmdFields {
				if fct, ok := f.Tags["fct"]; ok {
					t.CmdByFct[fct] = append(t.CmdByFct[fct], f)
				}
			}
		}
	} else {
		t.missing("model.CmdType")
	}
	if flt := p.LookupType("model", "FilterType"); flt != nil {
		if st, ok := flt.Underlying().(*types.Struct); ok {
			t.FilterFields = structFields("FilterType", st)
		}
	} else {
		t.missing("model.FilterType")
	}
	t.Updater = p.LookupIface("model", "Updater")
	if t.Updater == nil {
		t.missing("model.Updater")
	} else {
		for _, n := range sc.Names() {
			tn, ok := sc.Lookup(n).(*types.TypeName)
			if !ok || tn.IsAlias() {
				continue
			}
			nt, ok := tn.Type().(*types.Named)
			if !ok || nt.TypeParams().Len() > 0 {
				continue
			}
			if _, isI := nt.Underlying().(*types.Interface); isI {
				continue
			}
			if types.Implements(types.NewPointer(nt), t.Updater) {
				t.Updaters = append(t.Updaters, nt)
			}
		}
	}
	t.readRegistrations()
	return t
}

// readRegistrations enumerates the explicit generic instantiations inside the
// exported factory spine.CreateFunctionData: helper[T, F](FunctionTypeX).
func (t *Tables) readRegistrations() {
	fd, pk := t.p.FuncDecl("spine", "", "CreateFunctionData")
	if fd == nil || fd.Body == nil {
		t.missing("spine.CreateFunctionData")
		return
	}
	ft := t.p.LookupType("model", "FunctionType")
	feature := ""
	ast.Inspect(fd.Body, func(n ast.Node) bool {
		// remember the feature type constant of the enclosing if (information only)
		if ifs, ok := n.(*ast.IfStmt); ok {
			feature = featureOfCond(pk.TypesInfo, ifs.Cond)
		}
		call, ok := n.(*ast.CallExpr)
		if !ok || len(call.Args) != 1 {
			return true
		}
		var idx []ast.Expr
		switch x := call.Fun.(type) {
		case *ast.IndexListExpr:
			idx = x.Indices
		case *ast.IndexExpr:
			idx = []ast.Expr{x.Index}
		default:
			return true
		}
		tv, ok := pk.TypesInfo.Types[call.Args[0]]
		if !ok || tv.Value == nil || ft == nil || !types.Identical(tv.Type, ft) {
			return true
		}
		T := pk.TypesInfo.TypeOf(idx[0])
		if T == nil {
			return true
		}
		cname := ""
		if id, ok := call.Args[0].(*ast.SelectorExpr); ok {
			cname = id.Sel.Name
		}
		t.Regs = append(t.Regs, registration{Fct: constant.StringVal(tv.Value), Const: cname, T: T, Pos: call.Pos(), Feature: feature})
		return true
	})
	for _, r := range t.Regs {
		if _, ok := t.RegByFct[r.Fct]; !ok {
			t.RegByFct[r.Fct] = r.T
		}
	}
}

func featureOfCond(info *types.Info, e ast.Expr) string {
	res := ""
	ast.Inspect(e, func(n ast.Node) bool {
		if sel, ok := n.(*ast.SelectorExpr); ok {
			if c, ok := info.Uses[sel.Sel].(*types.Const); ok && strings.HasPrefix(c.Name(), "FeatureTypeType") && c.Name() != "FeatureTypeTypeGeneric" {
				res = c.Name()
			}
		}
		return true
	})
	return res
}

func shortType(t types.Type) string {
	return types.TypeString(t, func(p *types.Package) string { return p.Name() })
}

// listItem returns, for a payload struct with exactly one slice-of-struct
// field, that field and the element struct; ok=false otherwise.
func listItem(T types.Type) (field *types.Var, elem types.Type, item *types.Struct, ok bool) {
	st, isS := T.Underlying().(*types.Struct)
	if !isS {
		return nil, nil, nil, false
	}
	var sliceFields []*types.Var
	for i := 0; i < st.NumFields(); i++ {
		if _, ok := st.Field(i).Type().Underlying().(*types.Slice); ok {
			sliceFields = append(sliceFields, st.Field(i))
		}
	}
	if len(sliceFields) != 1 {
		return nil, nil, nil, false
	}
	el := sliceFields[0].Type().Underlying().(*types.Slice).Elem()
	is, isS := el.Underlying().(*types.Struct)
	if !isS {
		return nil, nil, nil, false
	}
	return sliceFields[0], el, is, true
}

func fieldNameList(st *types.Struct) []string {
	var r []string
	for i := 0; i < st.NumFields(); i++ {
		r = append(r, st.Field(i).Name())
	}
	return r
}

func sortedKeys[V any](m map[string]V) []string {
	var k []string
	for x := range m {
		k = append(k, x)
	}
	sort.Strings(k)
	return k
}
