package main

import (
	"fmt"
	"go/token"
	"go/types"
	"strings"

	"golang.org/x/tools/go/ssa"
)

func init() {
	register("C07", true,
		"Lockset rules on the feature-id generator (invoked only under its lock, only from NextFeatureId) and on the local feature list (look-up and creation in GetOrAddFeature/AddFeature are one critical section and a (type, role) scan decides the insertion), who-may-call/provenance rule that every construction of a local feature takes its id from NextFeatureId of its entity, path-sensitive counting of subscriber notifications in AddEntity/RemoveEntity with constant propagation of the announced state, dominance rules (features attached iff added; list updated before notifying), structural rules that the discovery reply is assembled from the live getters and that Operations.Information wires read/write/partial flags. Decided: the mechanisms that make ids unique and announcements faithful. Not decided: equality of reply and configuration over all configurations (values), per-subscriber content.",
		checkC07)
}

func checkC07(p *Prog, r *Report) {
	ls := BuildLockset(p, "spine", "model")
	r.Rule("R1", "the feature-id generator of an entity is invoked only while the generator lock of that entity is held, and only inside NextFeatureId")
	c07Generator(p, ls, r)
	// the entity notifications are partial / delete commands built by the filter builders (mechanism: filter construction)
	r.ImportRules(p, "C18", checkC18, map[string]string{"R6c": "R17"})
	r.Rule("R2", "every construction of a local feature inside the repository takes its id from NextFeatureId of the entity it is created for")
	c07Ids(p, r)
	r.Rule("R3", "on the local feature list, the look-up that decides an insertion and the insertion share one critical section; every insertion is decided by a scan; the scan compares type and role")
	absenceThenInsert(p, ls, r, "R3", F("EntityLocal.features"), true, 2)
	c07ScanContent(p, ls, r)
	r.Rule("R4", "AddEntity/RemoveEntity notify the subscribers of node management exactly once, with the constant state added resp. removed, feature information attached iff added, after the entity list was updated")
	c07Notify(p, ls, r)
	r.Rule("R7", "RemoveEntity rebuilds the entity list keeping exactly the entries that are not the removed entity (retain truth table), without leaving the loop early")
	applyRetain(p, r, "R7", "spine", "DeviceLocal", "RemoveEntity", retainSpec{Field: F("DeviceLocal.entities"), Required: map[string]string{"entity": "=$"}})
	r.Rule("R8", "every read-modify-write of the local entity list and of the local feature list reads and stores inside one critical section")
	rebuildAtomic(p, ls, r, "R8", F("DeviceLocal.entities"), 2)
	rebuildAtomic(p, ls, r, "R8", F("EntityLocal.features"), 1)
	r.Rule("R9", "the notifications of AddEntity/RemoveEntity reach every subscriber: NotifySubscribers sends one Notify per entry of the per-feature query, correctly wired, and leaves its loop only when the entries are exhausted (shared with C08-R5)")
	fanoutRule(p, r, "R9")
	r.Rule("R5", "the detailed-discovery reply is assembled from the live getters: Information() of every element of Device().Entities() and of every element of its Features(), unconditionally, plus Device().Information()")
	c07Discovery(p, r)
	r.Rule("R6", "Operations.Information announces read iff read, write iff write, and the partial flags iff readPartial resp. writePartial")
	c07OperationsInfo(p, r)
	r.Rule("R10", "the local entity and feature lists, whose slice headers are handed out to readers that iterate them outside the lock (the discovery reply), are never modified in place: removal builds a new slice")
	escapedListsImmutable(p, ls, r, "R10", map[string]bool{"DeviceLocal": true, "EntityLocal": true, "Entity": true})
	r.Rule("R11", "the local entity and feature lists are never used as the backing array of another list")
	noStrayCompaction(p, ls, r, "R11", map[string]bool{"DeviceLocal": true, "EntityLocal": true, "Entity": true})
	r.Rule("R12", "the removal of one remote entity keeps the peer's other subscriptions (retain truth table of the per-entity removal: device and entity both compared), so that a peer subscribed to node management keeps being notified of local entity changes (shared with C08-R3)")
	applyRetain(p, r, "R12", "spine", "SubscriptionManager", "RemoveSubscriptionsForEntity", retainSpec{Field: F("SubscriptionManager.subscriptionEntries"),
		Required: map[string]string{"client.device": "ClientFeature.Device().Ski()|ClientFeature.Address().Device", "client.entity": "ClientFeature.Address().Entity"}})
	r.Rule("R13", "every hand-written element-wise comparison of two slices of one type compares their lengths for equality: an announced entity address never resolves to an entity whose address is a prefix of it (shared lint, C20-R6)")
	sliceEqualityHelpers(p, r, "R13")
	r.Rule("R14", "the announcement renderers (Information of the local device, entity and feature) build their result from the live state on every call: no result is a pointer kept in a field of the object (a memoised rendering goes stale when a description or function changes later), and rendering assigns no field of the object")
	c07Renderers(p, r)
	c07FunctionAlwaysAnnounced(p, r, "R16")
	r.Rule("R15", "every peer that asks is subscribed to node management: the duplicate scan of AddSubscription compares the whole server and client feature objects with the ones the new entry is built from — two peers whose device address is not known yet have equal client addresses, a scan by address rejects the second and it is never told about entities (shared with C08-R11)")
	scanContentRule(p, r, "R15", subMgr, []string{"ServerFeature", "ClientFeature"})
	r.Assumes("the closure returned by the id generator factory is only stored in Entity.fIdGenerator")
}

func c07Renderers(p *Prog, r *Report) {
	n := 0
	seen := map[*ssa.Function]bool{}
	for _, in := range []string{"DeviceLocalInterface", "EntityLocalInterface", "FeatureLocalInterface"} {
		iface := p.LookupIface("api", in)
		if iface == nil {
			r.Undecided("R14", "anchor:api."+in, "", "interface not found")
			continue
		}
		for _, fn := range p.ImplsOf(iface, "Information") {
			fn = originOf(fn)
			if seen[fn] || fn.Blocks == nil || isWrapper(fn) {
				continue
			}
			seen[fn] = true
			n++
			base := FnName(fn)
			var bad []string
			p.InScope(fn, func() {
				for _, body := range p.ScopeFns(fn) {
					for _, b := range body.Blocks {
						for _, ins := range b.Instrs {
							switch x := ins.(type) {
							case *ssa.Store:
								if fa, ok := x.Addr.(*ssa.FieldAddr); ok && strings.HasPrefix(Path(fa), "recv.") {
									bad = append(bad, fmt.Sprintf("assigns %s at %s", Path(fa), p.InstrPos(x)))
								}
							case *ssa.Return:
								if body != fn {
									continue
								}
								for _, res := range x.Results {
									for _, o := range ptrOrigins(res) {
										if u, ok := o.(*ssa.UnOp); ok && u.Op == token.MUL {
											if fa, ok := u.X.(*ssa.FieldAddr); ok && strings.HasPrefix(Path(fa), "recv.") {
												if _, isPtr := u.Type().Underlying().(*types.Pointer); isPtr {
													bad = append(bad, fmt.Sprintf("returns the pointer kept in %s at %s", Path(fa), p.InstrPos(x)))
												}
											}
										}
									}
								}
							}
						}
					}
				}
			})
			r.Check("R14", base+"|renders-live-state", len(bad) == 0, p.Pos(fn.Pos()), fmt.Sprintf("the rendering is built anew on every call: %v", bad))
		}
	}
	r.Floor("R14", "announcement renderers", n, 3)
}

func c07Generator(p *Prog, ls *Lockset, r *Report) {
	ei := p.LookupIface("api", "EntityInterface")
	n := 0
	for _, a := range ls.Accesses[F("Entity.fIdGenerator")] {
		if a.Ctor || a.Write() {
			continue
		}
		n++
		key := "fn:" + FnName(originOf(a.Fn))
		// the generator field is read-only; its calls are serialised by a lock of the same entity object
		held := len(a.heldOnSameObject()) > 0
		inNext := originName(a.Fn) == "NextFeatureId" && a.Fn.Signature.Recv() != nil && ei != nil && implementsIface(a.Fn.Signature.Recv().Type(), ei)
		r.Check("R1", key, held && inNext, p.InstrPos(a.Ins), fmt.Sprintf("generator used with locks %s (generator lock of the same entity held: %v, inside NextFeatureId: %v)", a.Locks, held, inNext))
	}
	r.Floor("R1", "uses of the id generator", n, 1)
	// nobody writes the generator after construction
	for _, a := range ls.Accesses[F("Entity.fIdGenerator")] {
		if !a.Ctor && a.Write() {
			r.Fail("R1", "write:"+FnName(originOf(a.Fn)), p.InstrPos(a.Ins), "the id generator is replaced after construction")
		}
	}
}

func c07Ids(p *Prog, r *Report) {
	n := 0
	for _, fn := range p.RepoFns("spine") {
		forEachCall(fn, func(site ssa.CallInstruction) {
			c := site.Common()
			isFL := staticCallee(c, repoMod+"/spine", "", "NewFeatureLocal")
			isNM := staticCallee(c, repoMod+"/spine", "", "NewNodeManagement")
			if !isFL && !isNM {
				return
			}
			n++
			id, ent := c.Args[0], c.Args[1]
			key := fmt.Sprintf("%s|%s", FnName(fn), c.StaticCallee().Name())
			// a constructor forwarding its own parameters
			if _, isParam := id.(*ssa.Parameter); isParam && fn.Object() != nil && fn.Object().Exported() && strings.HasPrefix(fn.Name(), "New") {
				r.Pass("R2", key, p.InstrPos(site), "constructor forwarding its id parameter")
				return
			}
			ok := false
			if call, isCall := id.(*ssa.Call); isCall {
				name := ""
				var recv ssa.Value
				if call.Call.IsInvoke() {
					name, recv = call.Call.Method.Name(), call.Call.Value
				} else if f := call.Call.StaticCallee(); f != nil && f.Signature.Recv() != nil {
					name, recv = f.Name(), call.Call.Args[0]
				}
				if name == "NextFeatureId" && recv != nil {
					// the entity the id is drawn from is the entity the feature is created for
					rp, ep := Path(recv), Path(ent)
					ok = rp == ep || strings.HasPrefix(rp, ep+".") || strings.HasPrefix(ep, rp)
				}
			}
			r.Check("R2", key, ok, p.InstrPos(site), fmt.Sprintf("id argument %s, entity argument %s", Path(id), Path(ent)))
		})
	}
	r.Floor("R2", "constructions of local features", n, 3)
}

// c07ScanContent: the branch conditions deciding an insertion into the feature
// list compare both Type() and Role() of the existing element.
func c07ScanContent(p *Prog, ls *Lockset, r *Report) {
	ff := ls.Facts(F("EntityLocal.features"))
	for _, a := range ff.insAcc {
		fn := a.Fn
		names := map[string]bool{}
		for _, rp := range ff.readPoints(fn) {
			if rp.Val == nil {
				continue
			}
			t := forwardTaint(rp.Val)
			if len(divertingIfs(fn, t, a.Ins)) == 0 {
				continue
			}
			// all tainted conditions on the way (a conjunction is a chain of branches)
			for _, b := range fn.Blocks {
				if ifi, ok := b.Instrs[len(b.Instrs)-1].(*ssa.If); ok && t[ifi.Cond] && blockReaches(b, a.Ins.Block()) {
					collectInvokes(ifi.Cond, names, 0)
				}
			}
			// the scan may sit in an extracted look-up helper: its own conditions count
			forEachCallOwn(fn, func(site ssa.CallInstruction) {
				c, ok := site.(*ssa.Call)
				if !ok || !t[c] {
					return
				}
				if h := c.Call.StaticCallee(); h != nil && p.helperCandidate(h) {
					for _, hb := range h.Blocks {
						if ifi, ok := hb.Instrs[len(hb.Instrs)-1].(*ssa.If); ok {
							collectInvokes(ifi.Cond, names, 0)
						}
					}
				}
				// … or in the predicate handed to a library search over the list (slices.ContainsFunc / IndexFunc)
				if h := c.Call.StaticCallee(); h != nil && fnPkgPath(h) == "slices" && strings.HasSuffix(originName(h), "Func") && len(c.Call.Args) == 2 {
					for _, pf := range predicateFunctions(c.Call.Args[1], 0) {
						decidingValues(pf, 0, func(v ssa.Value) { collectInvokes(v, names, 0) })
					}
				}
			})
		}
		delete(names, "")
		r.Check("R3", fmt.Sprintf("field:EntityLocal.features|fn:%s|scan-compares", FnName(originOf(fn))), names["Type"] && names["Role"], p.InstrPos(a.Ins), fmt.Sprintf("the deciding conditions call %v on the existing elements", sortedKeys(names)))
	}
}

func collectInvokes(v ssa.Value, names map[string]bool, d int) {
	if d > 6 || v == nil {
		return
	}
	switch x := v.(type) {
	case *ssa.BinOp:
		collectInvokes(x.X, names, d+1)
		collectInvokes(x.Y, names, d+1)
	case *ssa.UnOp:
		collectInvokes(x.X, names, d+1)
	case *ssa.Phi:
		for _, e := range x.Edges {
			collectInvokes(e, names, d+1)
		}
	case *ssa.Call:
		if x.Call.IsInvoke() {
			names[x.Call.Method.Name()] = true
		} else if f := x.Call.StaticCallee(); f != nil {
			names[f.Name()] = true
		}
	}
}

func c07Notify(p *Prog, ls *Lockset, r *Report) {
	ib := newInbound(p)
	dli := ib.devLocal
	if dli == nil {
		r.Undecided("R4", "anchor:api.DeviceLocalInterface", "", "interface not found")
		return
	}
	want := map[string]string{"AddEntity": "added", "RemoveEntity": "removed"}
	for _, m := range []string{"AddEntity", "RemoveEntity"} {
		impls := p.ImplsOf(dli, m)
		if len(impls) != 1 {
			r.Undecided("R4", "anchor:"+m, "", "implementation not found")
			continue
		}
		fn := impls[0]
		base := FnName(fn)
		ib.val = inboundVal{Cls: "none", Ack: "nil"}
		e := ib.newEngine()
		e.Effect = func(site ssa.CallInstruction, f *pathFacts) string {
			ef := ib.effect(site, f)
			if ef == "notify" && isDiscoveryCmd(callArgs(site.Common())[1]) {
				return "notifyDiscovery"
			}
			return ef
		}
		outs := e.Summarize(fn, "api", nil, 0)
		ok := len(outs) > 0
		for _, o := range outs {
			if o.N("notifyDiscovery") != 1 {
				ok = false
				r.Fail("R4", base+"|count|class:"+classSig(o), firstPos(o), fmt.Sprintf("%d detailed-discovery notifications on this path: %s", o.N("notifyDiscovery"), strings.Join(o.Trace, " ")))
			}
		}
		if ok {
			r.Pass("R4", base+"|count", p.Pos(fn.Pos()), fmt.Sprintf("%d path classes, exactly one notification each", len(outs)))
		}
		// the entity list is updated before the notification
		var lastStore ssa.Instruction
		var notifyCall ssa.Instruction
		orderOK := false
		forEachCall(fn, func(site ssa.CallInstruction) {
			for _, c := range p.Callees(site) {
				if e.relevant[c] && !ib.opaque(c) {
					notifyCall = site
				}
			}
			if ib.effect(site, nil) == "notify" {
				notifyCall = site
			}
		})
		p.InScope(fn, func() { // the list update may sit in an extracted helper ("dropEntity")
			for _, a := range ls.accessesInScope(F("DeviceLocal.entities"), fn) {
				if a.Kind == "W" {
					lastStore = a.Ins
				}
			}
			orderOK = lastStore != nil && notifyCall != nil && instrDominates(lastStore, notifyCall)
		})
		r.Check("R4", base+"|order", orderOK, p.Pos(fn.Pos()), "the entity list is stored before the subscribers are notified")
		// the announced state: constant at the call into the notification helper
		state := ""
		if notifyCall != nil {
			for _, a := range notifyCall.(ssa.CallInstruction).Common().Args {
				if s, isS := constString(a); isS {
					state += s
				}
			}
		}
		r.Check("R4", base+"|state", state == want[m], p.Pos(fn.Pos()), fmt.Sprintf("announced state constant %q", state))
	}
	// in the notification builder: LastStateChange is the state parameter; features only if added
	for _, fn := range p.RepoFns("spine") {
		var stateParam *ssa.Parameter
		for _, prm := range fn.Params {
			if isNamed(prm.Type(), "model", "NetworkManagementStateChangeType") {
				stateParam = prm
			}
		}
		if stateParam == nil {
			continue
		}
		hasNotify := false
		forEachCall(fn, func(site ssa.CallInstruction) {
			if ib.effect(site, nil) == "notify" {
				hasNotify = true
			}
		})
		if !hasNotify {
			continue
		}
		base := FnName(fn)
		// store to LastStateChange takes the address of the (spilled) state parameter
		okState := false
		nFeat, okFeat := 0, true
		for _, b := range fn.Blocks {
			for _, ins := range b.Instrs {
				switch x := ins.(type) {
				case *ssa.Store:
					if fa, ok := x.Addr.(*ssa.FieldAddr); ok && fieldOfAddr(fa) != nil && fieldOfAddr(fa).Name() == "LastStateChange" {
						okState = strings.HasSuffix(Path(x.Val), "param:"+stateParam.Name()) || Path(x.Val) == "param:"+stateParam.Name()
					}
				case *ssa.Call:
					if x.Call.IsInvoke() && x.Call.Method.Name() == "Information" && strings.Contains(Path(x.Call.Value), "Features()") {
						nFeat++
						guarded := false
						for _, g := range Guards(b) {
							if bo, ok := g.Cond.(*ssa.BinOp); ok && bo.Op == token.EQL && g.Val {
								if s, isS := constString(bo.Y); isS && s == "added" && Path(bo.X) == "param:"+stateParam.Name() {
									guarded = true
								}
							}
						}
						if !guarded {
							okFeat = false
						}
					}
				}
			}
		}
		r.Check("R4", base+"|state-wiring", okState, p.Pos(fn.Pos()), "LastStateChange of the announced entity is the state parameter")
		r.Check("R4", base+"|features-iff-added", nFeat > 0 && okFeat, p.Pos(fn.Pos()), "feature information is collected only under state == added")
	}
}

func c07Discovery(p *Prog, r *Report) {
	ib := newInbound(p)
	n := 0
	for _, fn := range p.RepoFns("spine") {
		var reply *ssa.Call
		forEachCall(fn, func(site ssa.CallInstruction) {
			if c, ok := site.(*ssa.Call); ok && ib.effect(site, nil) == "reply" {
				reply = c
			}
		})
		if reply == nil {
			continue
		}
		// the reply carries NodeManagementDetailedDiscoveryData built in this function
		builds := false
		for _, b := range fn.Blocks {
			for _, ins := range b.Instrs {
				if a, ok := ins.(*ssa.Alloc); ok && isNamed(a.Type(), "model", "NodeManagementDetailedDiscoveryDataType") {
					builds = true
				}
			}
		}
		if !builds {
			continue
		}
		n++
		base := FnName(fn)
		var entInfo, featInfo, devInfo bool
		extraGuards := 0
		for _, b := range fn.Blocks {
			for _, ins := range b.Instrs {
				c, ok := ins.(*ssa.Call)
				if !ok || !c.Call.IsInvoke() || c.Call.Method.Name() != "Information" {
					continue
				}
				pth := Path(c.Call.Value)
				switch {
				case strings.HasSuffix(pth, ".Entities()[]"):
					entInfo = true
				case strings.HasSuffix(pth, ".Entities()[].Features()[]"):
					featInfo = true
				case strings.HasSuffix(pth, ".Device()"):
					devInfo = true
				}
				for _, g := range Guards(b) {
					if bo, ok := g.Cond.(*ssa.BinOp); ok {
						if _, isLen := bo.Y.(*ssa.Call); isLen {
							continue // loop bound
						}
					}
					if x, _, ok := nilTest(g.Cond); ok && strings.HasPrefix(Path(x), "param:") {
						continue // argument validation
					}
					extraGuards++
				}
			}
		}
		r.Check("R5", base+"|entities", entInfo, p.Pos(fn.Pos()), "Information() of every element of Device().Entities()")
		r.Check("R5", base+"|features", featInfo, p.Pos(fn.Pos()), "Information() of every element of the entity's Features()")
		r.Check("R5", base+"|device", devInfo, p.Pos(fn.Pos()), "Device().Information()")
		// one snapshot: entity and feature information come from a single read of the entity list (two reads can
		// straddle an AddEntity/RemoveEntity: features of an entity the reply does not list, or the reverse)
		nSnap := 0
		p.InScope(fn, func() {
			forEachCall(fn, func(site ssa.CallInstruction) {
				if c, ok := site.(*ssa.Call); ok && c.Call.IsInvoke() && c.Call.Method.Name() == "Entities" && strings.HasSuffix(Path(c.Call.Value), "Device()") {
					nSnap++
				}
			})
		})
		r.Check("R5", base+"|one-snapshot", nSnap == 1, p.Pos(fn.Pos()), fmt.Sprintf("the entity list is read %d time(s) while the reply is assembled", nSnap))
		r.Check("R5", base+"|unconditional", extraGuards == 0, p.Pos(fn.Pos()), fmt.Sprintf("%d conditions filter what is announced", extraGuards))
	}
	r.Floor("R5", "discovery reply builders", n, 1)
}

func c07OperationsInfo(p *Prog, r *Report) {
	oi := p.LookupIface("api", "OperationsInterface")
	if oi == nil {
		r.Undecided("R6", "anchor:api.OperationsInterface", "", "interface not found")
		return
	}
	for _, fn := range p.ImplsOf(oi, "Information") {
		base := FnName(fn)
		want := map[string]string{"Read": "read", "Write": "write"}
		wantPartial := map[string]string{"PossibleOperationsReadType": "readPartial", "PossibleOperationsWriteType": "writePartial"}
		seen := map[string]bool{}
		ok := true
		detail := ""
		for _, b := range fn.Blocks {
			for _, ins := range b.Instrs {
				st, isSt := ins.(*ssa.Store)
				if !isSt {
					continue
				}
				fa, isFA := st.Addr.(*ssa.FieldAddr)
				if !isFA || fieldOfAddr(fa) == nil {
					continue
				}
				fname := fieldOfAddr(fa).Name()
				owner := ""
				if n := namedOf(fa.X.Type()); n != nil {
					owner = n.Obj().Name()
				}
				need := ""
				switch {
				case owner == "PossibleOperationsType" && want[fname] != "":
					need = want[fname]
				case fname == "Partial" && wantPartial[owner] != "":
					need = wantPartial[owner]
				default:
					continue
				}
				seen[need] = true
				has := false
				// iff: guarded by its own flag and by nothing but the flags of the same operation
				allowed := map[string]bool{"recv.read": need == "read" || need == "readPartial", "recv.readPartial": need == "read" || need == "readPartial",
					"recv.write": need == "write" || need == "writePartial", "recv.writePartial": need == "write" || need == "writePartial"}
				for _, g := range Guards(b) {
					if g.Val && Path(g.Cond) == "recv."+need {
						has = true
					}
					if _, isPhi := g.Cond.(*ssa.Phi); isPhi {
						continue // a condition computed by && / ||: its constituents are among the guards already
					}
					if !allowed[Path(g.Cond)] {
						ok = false
						detail += fmt.Sprintf(" %s.%s also depends on %s=%v;", owner, fname, Path(g.Cond), g.Val)
					}
				}
				if !has {
					ok = false
					detail += fmt.Sprintf(" %s.%s is set without the guard on %s;", owner, fname, need)
				}
			}
		}
		all := seen["read"] && seen["write"] && seen["readPartial"] && seen["writePartial"]
		r.Check("R6", base, ok && all, p.Pos(fn.Pos()), "flags wired: "+strings.Join(sortedKeys(seen), ",")+detail)
	}
}

// isDiscoveryCmd: the command is a local CmdType literal carrying NodeManagementDetailedDiscoveryData.
func isDiscoveryCmd(v ssa.Value) bool {
	u, ok := v.(*ssa.UnOp)
	if !ok {
		return false
	}
	al, ok := u.X.(*ssa.Alloc)
	if !ok || al.Referrers() == nil {
		return false
	}
	for _, ref := range *al.Referrers() {
		if fa, ok := ref.(*ssa.FieldAddr); ok && fieldOfAddr(fa) != nil && fieldOfAddr(fa).Name() == "NodeManagementDetailedDiscoveryData" {
			return true
		}
	}
	return false
}

// c07FunctionAlwaysAnnounced: AddFunctionType registers the function on every path except the two refusals that are
// part of its contract — the role of the feature, and "already registered". Any further early exit (no data store for
// the function, …) silently leaves a function out of every announcement.
func c07FunctionAlwaysAnnounced(p *Prog, r *Report, rule string) {
	r.Rule(rule, "a function added to a server or special feature is announced: AddFunctionType stores its operations on every path, except when the role forbids it or the function is registered already — no further early exit")
	fli := p.LookupIface("api", "FeatureLocalInterface")
	if fli == nil {
		r.Undecided(rule, "anchor:api.FeatureLocalInterface", "", "interface not found")
		return
	}
	n := 0
	seen := map[*ssa.Function]bool{}
	for _, fn0 := range p.ImplsOf(fli, "AddFunctionType") {
		fn := fn0
		if isWrapper(fn) {
			forEachCall(fn, func(site ssa.CallInstruction) {
				if c := site.Common().StaticCallee(); c != nil && c.Name() == fn0.Name() {
					fn = c
				}
			})
		}
		if seen[fn] || fn.Blocks == nil {
			continue
		}
		seen[fn] = true
		var upd *ssa.MapUpdate
		for _, b := range fn.Blocks {
			for _, ins := range b.Instrs {
				if mu, ok := ins.(*ssa.MapUpdate); ok && strings.HasSuffix(Path(mu.Map), "."+FN("Feature.operations")) {
					upd = mu
				}
			}
		}
		if upd == nil {
			r.Undecided(rule, FnName(fn)+"|shape", p.Pos(fn.Pos()), "store into the operations map not found")
			continue
		}
		n++
		var bad []string
		for _, b := range fn.Blocks {
			if b == fn.Recover {
				continue
			}
			if _, isRet := b.Instrs[len(b.Instrs)-1].(*ssa.Return); !isRet {
				continue
			}
			if upd.Block().Dominates(b) || blockReaches(upd.Block(), b) && !reachesAvoiding(fn.Blocks[0], b, upd.Block()) {
				continue // past the registration
			}
			// an early exit: it must be the refusing edge of the role test or of the "already registered" test
			allowed := false
			gs := rawGuards(b)
			if len(gs) > 0 {
				// the nearest dominating condition, with named booleans (ok := a || b) expanded into their parts
				near := gs[0].If
				for _, g := range expandPhiGuards(gs, 0) {
					if g.If != near {
						continue
					}
					var mentions func(v ssa.Value, d int) bool
					mentions = func(v ssa.Value, d int) bool {
						if v == nil || d > 5 {
							return false
						}
						pth := Path(v)
						if strings.Contains(pth, "."+FN("Feature.role")) || strings.Contains(pth, "Role()") || strings.Contains(pth, "."+FN("Feature.operations")+"[]") {
							return true
						}
						switch x := v.(type) {
						case *ssa.BinOp:
							return mentions(x.X, d+1) || mentions(x.Y, d+1)
						case *ssa.UnOp:
							return mentions(x.X, d+1)
						case *ssa.Phi:
							for _, e := range x.Edges {
								if mentions(e, d+1) {
									return true
								}
							}
							// the conditions that chose between the edges
							for _, pb := range x.Block().Preds {
								if ifi, ok := pb.Instrs[len(pb.Instrs)-1].(*ssa.If); ok && mentions(ifi.Cond, d+1) {
									return true
								}
							}
						}
						return false
					}
					if mentions(g.Cond, 0) {
						allowed = true
					}
				}
			}
			if !allowed {
				bad = append(bad, "return at "+p.InstrPos(b.Instrs[len(b.Instrs)-1])+" under "+guardDesc(gs))
			}
		}
		r.Check(rule, FnName(fn)+"|no-further-early-exit", len(bad) == 0, p.InstrPos(upd), fmt.Sprintf("early exits other than the role refusal and 'already registered': %v", bad))
	}
	r.Floor(rule, "implementations of AddFunctionType", n, 1)
}
