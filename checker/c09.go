package main

func init() {
	register("C09", true,
		"Atomicity rule on the binding registry (the single-binding look-up that decides the insertion and the insertion itself share one critical section of the lock held at every insertion site; a look-up is present), retain-predicate truth tables of RemoveBinding and the per-entity removal (kept ⇔ not all required components equal, evaluated over all assignments), dominance guards of the insertion by every grant condition, path check of the role/type checker, provenance of entry ids, listing predicates. Decided: the check/insert critical section, what exactly a removal removes, what gates a grant. Not decided: interleavings other than the check/insert split; registry contents over histories.",
		checkC09)
}

func checkC09(p *Prog, r *Report) {
	ls := BuildLockset(p, "spine", "model")
	r.Rule("R1", "the look-up that decides the insertion of a binding and the insertion share one critical section; the single-binding look-up is present")
	absenceThenInsert(p, ls, r, "R1", F("BindingManager.bindingEntries"), true, 1)
	r.Rule("R2", "RemoveBinding keeps an entry ⇔ ¬(client address ∧ server feature equal); the per-entity removal keeps ⇔ ¬(client device ∧ client entity equal)")
	r.Rule("R9", "the single-binding scan compares the server feature of the existing entries with the server feature the new entry is built from (the resolved feature, not the request's address data)")
	scanContentRule(p, r, "R9", bindMgr, []string{"ServerFeature"})
	r.Rule("R8", "every hand-written element-wise comparison of two slices of one type compares their lengths for equality: entity addresses are never matched by prefix (shared lint, C20-R6)")
	sliceEqualityHelpers(p, r, "R8")
	r.Rule("R7", "every read-modify-write of the binding list reads and stores inside one critical section")
	rebuildAtomic(p, ls, r, "R7", F("BindingManager.bindingEntries"), 3)
	applyRetain(p, r, "R2", "spine", "BindingManager", "RemoveBinding", retainSpec{Field: F("BindingManager.bindingEntries"),
		Required: map[string]string{"client.address": "=ClientFeature.Address()", "server.feature": "=ServerFeature"}})
	applyRetain(p, r, "R2", "spine", "BindingManager", "RemoveBindingsForEntity", retainSpec{Field: F("BindingManager.bindingEntries"),
		Required: map[string]string{"client.device": "ClientFeature.Device().Ski()|ClientFeature.Address().Device", "client.entity": "ClientFeature.Address().Entity"}})
	r.Rule("R2m", "RemoveBinding replaces the registry only if an entry was removed and reports an error otherwise")
	removeMissRule(p, ls, r, "R2m", bindMgr)
	r.Rule("R3", "the insertion of a binding is dominated by: server feature found, client feature found on the requesting device, both passed the role/type check (server resp. client role, requested type), entry built from exactly these features; the checker accepts only the required or special role and the required or generic type")
	grantGuards(p, ls, r, "R3", bindMgr)
	r.Rule("R4", "binding ids are results of an atomic increment of the manager's counter")
	idRule(p, r, "R4", bindMgr)
	r.Rule("R12", "the id counter only grows: every modification is sync/atomic Add with a positive constant — an id handed back, reset or recomputed is handed out twice")
	monotoneCounterRule(p, ls, r, "R12", F("BindingManager.bindingNum"))
	r.Rule("R5", "the per-device listing filters on the peer identity (SKI of the client feature's device), the per-feature listing on the server feature address")
	listingRule(p, r, "R5", bindMgr)
	r.Rule("R13", "the binding list reported to a peer is rendered entry by entry from the registry: id from the entry's Id, server address from its server feature, client address from its client feature, all of the same entry")
	reportedListRule(p, r, "R13", bindMgr, "BindingManagementEntryDataType", "BindingId")
	r.Rule("R14", "the outcome of AddBinding/RemoveBinding is the outcome of the node-management handler: a refused request is answered with an error")
	outcomeForwardedRule(p, r, "R14", bindMgr)
	deepCopyRule(p, r, "R15", bindMgr)
	featureTypeKept(p, r, "R16")
	hasBindingRule(p, r, "R6")
	r.Rule("R11", "a delete is tied to the sending peer: the pre-check of RemoveBinding asks about the address of the feature resolved on the local device and the address of the feature resolved on the requesting device, not about address data copied from the request")
	deletePrecheckRule(p, r, "R11")
	r.Rule("R10", "the binding list is never used as the backing array of another list")
	noStrayCompaction(p, ls, r, "R10", map[string]bool{"BindingManager": true})
	r.Assumes("reflect.DeepEqual and the address getters are not interpreted: the retain predicates are decided over which components are compared and how the comparisons are combined")
}
