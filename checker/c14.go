package main

import (
	"fmt"
	"sort"
	"strings"

	"golang.org/x/tools/go/ssa"
)

func init() {
	register("C14", true,
		"Lockset rules on the callback tables (look-up, start and delete of the callbacks of one counter are one critical section; registration de-duplicates inside the same lock; result callbacks are started under the lock), path-sensitive effect counting from every implementation of HandleMessage over classifier x reference-present x payload kind (an accepted reply triggers the response callbacks exactly once iff a reference is present, a rejected one never; an accepted result with a reference triggers response and result callbacks exactly once each), and provenance rules on every trigger call (key = the inbound msgCounterReference; the ResponseMessage carries that reference, the receiving feature and the message's remote feature, entity and device). Decided: who triggers, how often, with what key. Not decided: identity of 'the same callback' (function-pointer comparison), concurrent registration vs arrival beyond the lock discipline.",
		checkC14)
}

// callbackTriggers: functions that start (go) the callbacks kept in a field of the local feature.
func callbackTriggers(p *Prog, field string) map[*ssa.Function]bool {
	res := map[*ssa.Function]bool{}
	for _, fn := range p.RepoFns("spine") {
		forEachCall(fn, func(site ssa.CallInstruction) {
			if _, isGo := site.(*ssa.Go); isGo && strings.Contains(Path(site.Common().Value), "."+field) {
				res[fn] = true
			}
		})
	}
	return res
}

func checkC14(p *Prog, r *Report) {
	ls := BuildLockset(p, "spine", "model")
	ib := newInbound(p)
	fli := p.LookupIface("api", "FeatureLocalInterface")
	if fli == nil || len(ib.missing) > 0 {
		r.Undecided("R0", "anchors", "", "api.FeatureLocalInterface or inbound anchors not found")
		return
	}
	respTrig := callbackTriggers(p, FN("FeatureLocal.responseMsgCallback"))
	resTrig := callbackTriggers(p, FN("FeatureLocal.resultCallbacks"))
	r.Rule("R7", "the callback sees the data as received: the merge the cache update runs leaves the received items alone (truth table of model.Merge, shared with C02-R11: per existing item it appends a new value and never writes into the update's own items)")
	mergeTruthTable(p, r, "R7")
	r.Rule("R6", "every hand-written element-wise comparison of two slices of one type compares their lengths for equality: a reply is never routed to the feature of an entity whose address is a prefix of the addressed one (shared lint, C20-R6)")
	sliceEqualityHelpers(p, r, "R6")
	r.Rule("R5", "registration is never dropped silently: AddResultCallback stores its callback on every path; AddResponseCallback on every path that does not return an error")
	registrationRule(p, r, "R5", "AddResultCallback", "FeatureLocal.resultCallbacks")
	registrationRule(p, r, "R5", "AddResponseCallback", "FeatureLocal.responseMsgCallback")
	r.Rule("R1", "in the response-callback trigger the look-up of the counter, the start of its callbacks and the deletion of the entry share one critical section; registration scans for the same callback and appends inside the same lock; result callbacks are started under that lock")
	if len(respTrig) == 0 || len(resTrig) == 0 {
		r.Undecided("R1", "anchor:triggers", "", fmt.Sprintf("%d response and %d result callback triggers found", len(respTrig), len(resTrig)))
		return
	}
	var key = F("FeatureLocal.responseMsgCallback")
	for fn := range respTrig {
		base := FnName(fn)
		var lookup, del ssa.Instruction
		var gos []ssa.Instruction
		for _, a := range ls.accessesIn(key, fn) {
			switch x := a.Ins.(type) {
			case *ssa.Lookup:
				lookup = x
			case *ssa.Call:
				if builtinName(&x.Call) == "delete" {
					del = x
				}
			}
		}
		forEachCall(fn, func(site ssa.CallInstruction) {
			if g, ok := site.(*ssa.Go); ok {
				gos = append(gos, g)
			}
		})
		if lookup == nil || del == nil || len(gos) == 0 {
			r.Fail("R1", base+"|shape", p.Pos(fn.Pos()), fmt.Sprintf("look-up found=%v, delete found=%v, starts=%d", lookup != nil, del != nil, len(gos)))
			continue
		}
		ok := len(ls.CommonSections(lookup, del)) > 0
		for _, g := range gos {
			if len(ls.CommonSections(lookup, g)) == 0 {
				ok = false
			}
		}
		r.Check("R1", base+"|atomic", ok, p.InstrPos(lookup), fmt.Sprintf("look-up, starts and delete share the critical sections %v", ls.CommonSections(lookup, del)))
		// same key for look-up and delete: the parameter
		lk := lookup.(*ssa.Lookup)
		dk := del.(*ssa.Call).Call.Args[1]
		r.Check("R1", base+"|key", Path(lk.Index) == Path(dk) && strings.HasPrefix(Path(dk), "param:"), p.InstrPos(del), fmt.Sprintf("look-up by %s, delete of %s", Path(lk.Index), Path(dk)))
		// the callbacks started are the ones looked up, each with the message parameter
		okStart := true
		for _, g := range gos {
			c := g.(*ssa.Go).Common()
			if !valueDerivesFrom(c.Value, lk) && !strings.Contains(Path(c.Value), FN("FeatureLocal.responseMsgCallback")) {
				okStart = false
			}
			if len(c.Args) != 1 || !strings.HasPrefix(Path(c.Args[0]), "param:") {
				okStart = false
			}
		}
		r.Check("R1", base+"|starts", okStart, p.InstrPos(gos[0]), "the callbacks looked up are started with the message given to the trigger")
	}
	for fn := range resTrig {
		held := true
		forEachCall(fn, func(site ssa.CallInstruction) {
			if g, ok := site.(*ssa.Go); ok {
				h := false
				for lp := range ls.At(g) {
					if g := guardOfField(ls, key); g != "" && lastComp(lp) == g {
						h = true
					}
				}
				if !h {
					held = false
				}
			}
		})
		r.Check("R1", FnName(fn)+"|under-lock", held, p.Pos(fn.Pos()), "result callbacks are read and started under the callback lock")
	}
	absenceThenInsert(p, ls, r, "R1", key, true, 1)

	r.Rule("R2", "for classifier reply, on every implementation of HandleMessage: accepted with a reference ⇒ the response callbacks are triggered exactly once; accepted without a reference or rejected ⇒ never")
	r.Rule("R3", "for classifier result, on every implementation of HandleMessage: accepted with a reference ⇒ response callbacks and result callbacks are triggered exactly once each; without a reference or rejected ⇒ neither")
	impls := p.ImplsOf(fli, "HandleMessage")
	nImpl := 0
	curRef := true
	trigEngine := ib.newEngine()
	trigEngine.Opaque = func(f *ssa.Function) bool { return ib.opaque(f) || respTrig[f] || resTrig[f] }
	trigEngine.Effect = func(site ssa.CallInstruction, f *pathFacts) string {
		if _, isCall := site.(*ssa.Call); isCall {
			for _, c := range p.Callees(site) {
				if respTrig[c] {
					return "triggerResponse"
				}
				if resTrig[c] {
					return "triggerResult"
				}
			}
		}
		return ib.effect(site, f)
	}
	trigEngine.Decide = func(cond ssa.Value, f *pathFacts) int {
		if x, trueNil, ok := nilTest(cond); ok && strings.HasSuffix(Path(x), ".MsgCounterReference") {
			return tri(curRef != trueNil)
		}
		// the same test written as a predicate helper ("referencesRequest(header)")
		if c, pol := normCond(cond, true); c != nil {
			if call, isCall := c.(*ssa.Call); isCall && predicateCallee(call) != nil {
				res := predicate3(call, func(w ssa.Value) bool3 {
					if x, trueNil, ok := nilTest(w); ok {
						if strings.HasSuffix(Path(x), ".MsgCounterReference") {
							return b3(curRef != trueNil)
						}
						if curRef && isNamed(derefType(x.Type()), "model", "HeaderType") {
							return b3(!trueNil) // a message that carries a reference has a header
						}
					}
					switch ib.decide(w, f) {
					case 1:
						return bTrue
					case -1:
						return bFalse
					}
					return bUnknown
				}, 0)
				switch res {
				case bTrue:
					return tri(pol)
				case bFalse:
					return tri(!pol)
				}
			}
		}
		return ib.decide(cond, f)
	}
	for _, fn := range impls {
		if isWrapper(fn) {
			continue
		}
		nImpl++
		base := FnName(fn)
		for _, cls := range []string{"reply", "result", "notify", "read", "call", "write"} {
			for _, ref := range []bool{true, false} {
				v := inboundVal{Cls: cls, Ack: "nil", Result: cls == "result"}
				ib.val = v
				curRef = ref
				e := trigEngine
				e.Incomplete = nil
				outs := e.Summarize(fn, fmt.Sprintf("%s ref=%v", v, ref), nil, 0)
				ok := true
				nAcc := 0
				for _, o := range outs {
					if len(o.Ret) != 1 {
						continue
					}
					acc := o.Ret[0] == "nil"
					tr, ts := o.N("triggerResponse"), o.N("triggerResult")
					wantR, wantS := 0, 0
					switch {
					case cls == "reply" && acc && ref:
						wantR = 1
					case cls == "result" && acc && ref:
						wantR, wantS = 1, 1
					}
					if o.Ret[0] == "?" {
						r.Undecided("R2", fmt.Sprintf("%s|cls=%s ref=%v|class:%s", base, cls, ref, classSig(o)), firstPos(o), "acceptance undecided: "+strings.Join(o.Trace, " "))
						ok = false
						continue
					}
					if acc {
						nAcc++
					}
					// a reply whose data cannot be resolved is accepted by node management without a trigger only if … not allowed: same rule
					if tr != wantR || ts != wantS {
						ok = false
						rule := "R2"
						if cls == "result" {
							rule = "R3"
						}
						r.Fail(rule, fmt.Sprintf("%s|cls=%s ref=%v|class:%s", base, cls, ref, classSig(o)), firstPos(o), fmt.Sprintf("accepted=%v: response callbacks triggered %d times (want %d), result callbacks %d times (want %d): %s", acc, tr, wantR, ts, wantS, strings.Join(o.Trace, " ")))
					}
				}
				rule := "R2"
				if cls == "result" {
					rule = "R3"
				}
				if ok {
					r.Pass(rule, fmt.Sprintf("%s|cls=%s ref=%v", base, cls, ref), p.Pos(fn.Pos()), fmt.Sprintf("%d path classes, %d accepted", len(outs), nAcc))
				}
				if (cls == "reply" || cls == "result") && nAcc == 0 {
					r.Undecided(rule, fmt.Sprintf("%s|cls=%s ref=%v|enumeration", base, cls, ref), p.Pos(fn.Pos()), "no accepting path found")
				}
			}
		}
	}
	r.Floor("R2", "HandleMessage implementations", nImpl, 2)

	r.Rule("R4", "every trigger call passes the inbound msgCounterReference as key and a ResponseMessage carrying that reference, the receiving feature, the message's remote feature, entity and device, and as data the data read from the received command (not a value returned by another call)")
	nTrig := 0
	for _, fn0 := range p.RepoFns("spine") {
		fn := fn0
		p.InScope(fn, func() {
			forEachCallOwn(fn, func(site ssa.CallInstruction) {
				c, ok := site.(*ssa.Call)
				if !ok {
					return
				}
				callee := c.Call.StaticCallee()
				if callee == nil || !(respTrig[callee] || resTrig[callee]) {
					return
				}
				nTrig++
				args := callArgs(&c.Call)
				base := fmt.Sprintf("%s|%s#%d", FnName(fn), originName(callee), nTrig)
				okKey := true
				msgArg := args[len(args)-1]
				if respTrig[callee] {
					okKey = strings.HasSuffix(Path(args[0]), ".RequestHeader.MsgCounterReference")
				}
				got := responseMessageFields(msgArg)
				okMsg := strings.HasSuffix(got["MsgCounterReference"], ".RequestHeader.MsgCounterReference") &&
					(got["FeatureLocal"] == "recv" || strings.HasPrefix(got["FeatureLocal"], "recv")) &&
					strings.HasSuffix(got["FeatureRemote"], ".FeatureRemote") && strings.HasSuffix(got["EntityRemote"], ".EntityRemote") && strings.HasSuffix(got["DeviceRemote"], ".DeviceRemote") &&
					receivedData(got["Data"])
				r.Check("R4", base, okKey && okMsg, p.InstrPos(c), fmt.Sprintf("key %s; message %v", Path(args[0]), got))
			})
		})
	}
	r.Floor("R4", "trigger call sites", nTrig, 2)
	r.Assumes("callbacks are application code started with go; a started callback runs once")
}

// responseMessageFields reads the fields stored into the local ResponseMessage a value was loaded from.
func responseMessageFields(v ssa.Value) map[string]string {
	got := map[string]string{}
	// built by an extracted constructor helper: look at what the helper returns (its parameters stand for the arguments)
	if c, isCall := v.(*ssa.Call); isCall {
		if h := c.Call.StaticCallee(); h != nil && curProg != nil && curProg.helperCandidate(h) {
			for _, b := range h.Blocks {
				if ret, isRet := b.Instrs[len(b.Instrs)-1].(*ssa.Return); isRet && len(ret.Results) == 1 {
					return responseMessageFields(ret.Results[0])
				}
			}
		}
		return got
	}
	u, ok := v.(*ssa.UnOp)
	if !ok {
		return got
	}
	al, ok := u.X.(*ssa.Alloc)
	if !ok || al.Referrers() == nil {
		return got
	}
	for _, ref := range *al.Referrers() {
		if fa, ok := ref.(*ssa.FieldAddr); ok {
			for _, r2 := range *fa.Referrers() {
				if st, ok := r2.(*ssa.Store); ok && st.Addr == ssa.Value(fa) {
					got[fieldOfAddr(fa).Name()] = phiPaths(st.Val, 0)
				}
			}
		}
	}
	return got
}

// registrationRule: a callback handed to a registration method is stored on
// every path that does not report an error: no registration is dropped silently.
func registrationRule(p *Prog, r *Report, rule string, method, role string) {
	fli := p.LookupIface("api", "FeatureLocalInterface")
	if fli == nil {
		r.Undecided(rule, "anchor:api.FeatureLocalInterface", "", "interface not found")
		return
	}
	fname := FN(role)
	seen := map[*ssa.Function]bool{}
	n := 0
	for _, fn := range p.ImplsOf(fli, method) {
		impl := fn
		if isWrapper(fn) {
			forEachCall(fn, func(site ssa.CallInstruction) {
				if c := site.Common().StaticCallee(); c != nil && c.Name() == fn.Name() {
					impl = c
				}
			})
		}
		if seen[impl] || impl.Blocks == nil {
			continue
		}
		seen[impl] = true
		n++
		// insertion blocks: a store of an append result into the field, or a map update on the field whose value derives from the parameter
		ins := map[*ssa.BasicBlock]bool{}
		cbParam := impl.Params[len(impl.Params)-1]
		taint := forwardTaint(cbParam)
		for _, b := range impl.Blocks {
			for _, i2 := range b.Instrs {
				switch x := i2.(type) {
				case *ssa.Store:
					if fa, ok := x.Addr.(*ssa.FieldAddr); ok && fieldOfAddr(fa) != nil && fieldOfAddr(fa).Name() == fname && taint[x.Val] {
						ins[b] = true
					}
				case *ssa.MapUpdate:
					if strings.HasSuffix(Path(x.Map), "."+fname) && taint[x.Value] {
						ins[b] = true
					}
				}
			}
		}
		key := fmt.Sprintf("%s|stores-callback", FnName(impl))
		if len(ins) == 0 {
			r.Fail(rule, key, p.Pos(impl.Pos()), "the callback parameter is never stored into "+role)
			continue
		}
		bypass := ""
		seenB := map[*ssa.BasicBlock]bool{}
		var dfs func(b *ssa.BasicBlock)
		dfs = func(b *ssa.BasicBlock) {
			if ins[b] || seenB[b] {
				return
			}
			seenB[b] = true
			if ret, ok := b.Instrs[len(b.Instrs)-1].(*ssa.Return); ok {
				silent := true
				if len(ret.Results) > 0 {
					last := ret.Results[len(ret.Results)-1]
					if c, isC := last.(*ssa.Const); !(isC && c.IsNil()) && errLike(last.Type()) {
						silent = false // an error is reported
					}
					// defer-spilled result: look at the last store to the cell in this block
					if u, ok := last.(*ssa.UnOp); ok {
						if al, ok := u.X.(*ssa.Alloc); ok {
							for _, i3 := range b.Instrs {
								if st, ok := i3.(*ssa.Store); ok && st.Addr == ssa.Value(al) {
									if c, isC := st.Val.(*ssa.Const); isC && c.IsNil() {
										silent = true
									} else {
										silent = false
									}
								}
							}
						}
					}
				}
				if silent {
					bypass = p.InstrPos(ret)
				}
			}
			for _, s := range b.Succs {
				dfs(s)
			}
		}
		dfs(impl.Blocks[0])
		r.Check(rule, key, bypass == "", p.Pos(impl.Pos()), "every path that does not report an error stores the callback"+orStr(map[bool]string{true: "", false: "; the return at " + bypass + " is reached without storing it and without an error"}[bypass == ""], ""))
	}
	r.Floor(rule, "implementations of "+method, n, 1)
}

// phiPaths renders a value; a phi (a variable assigned on several branches) as the
// alternatives of its edges, nil constants left out.
func phiPaths(v ssa.Value, depth int) string {
	if ph, ok := v.(*ssa.Phi); ok && depth < 4 {
		var alts []string
		for _, e := range ph.Edges {
			if isNilConst(e) {
				continue
			}
			alts = append(alts, phiPaths(e, depth+1))
		}
		sort.Strings(alts)
		return strings.Join(alts, " or ")
	}
	if mi, ok := v.(*ssa.MakeInterface); ok {
		if _, isPhi := mi.X.(*ssa.Phi); isPhi {
			return phiPaths(mi.X, depth+1)
		}
	}
	return Path(v)
}

// receivedData: every alternative is read from the command of the received
// message (message.Cmd…), not a value returned by some other call.
func receivedData(paths string) bool {
	if paths == "" {
		return false
	}
	for _, alt := range strings.Split(paths, " or ") {
		if !strings.HasPrefix(alt, "param:") || !strings.Contains(alt, ".Cmd.") {
			return false
		}
	}
	return true
}
