package main

// E10 — retain-predicate analysis: for loops that rebuild a registry slice the
// condition under which an entry is KEPT is extracted as a boolean formula over
// equality atoms and evaluated over all assignments.

import (
	"fmt"
	"go/ast"
	"go/token"
	"go/types"
	"sort"
	"strings"

	"golang.org/x/tools/go/packages"
)

type bexpr struct {
	Op   string // and, or, not, atom, true, false
	Kids []*bexpr
	Atom int
}

type retAtom struct {
	Label   string // what of the entry is compared, e.g. ClientFeature.Address().Device
	Other   string // what it is compared with
	NotEq   bool   // the atom is true when the two sides differ
	NilTest bool   // comparison of an entry field with nil
	NilTrue bool   // for nil tests: atom true means the field is nil
	Free    bool   // a nil test of something that is not a field of the entry (a look-up with the entry's data): may be true or false
	Text    string
}

type retainLoop struct {
	Fn          string
	Field       string // Type.field that receives the rebuilt slice
	Keep        *bexpr
	Atoms       []retAtom
	Pos         token.Pos
	Shape       string
	Source      string // the collection ranged over
	SourceField string // Type.field when the ranged collection is a field
}

func (e *bexpr) eval(val []bool) bool {
	switch e.Op {
	case "true":
		return true
	case "false":
		return false
	case "atom":
		return val[e.Atom]
	case "not":
		return !e.Kids[0].eval(val)
	case "and":
		for _, k := range e.Kids {
			if !k.eval(val) {
				return false
			}
		}
		return true
	case "or":
		for _, k := range e.Kids {
			if k.eval(val) {
				return true
			}
		}
		return false
	}
	return false
}

func (e *bexpr) String(atoms []retAtom) string {
	switch e.Op {
	case "atom":
		a := atoms[e.Atom]
		if a.NilTest {
			if a.NilTrue {
				return a.Label + "==nil"
			}
			return a.Label + "!=nil"
		}
		if a.NotEq {
			return a.Label + "≠"
		}
		return a.Label + "="
	case "not":
		return "¬(" + e.Kids[0].String(atoms) + ")"
	case "and", "or":
		var s []string
		for _, k := range e.Kids {
			s = append(s, k.String(atoms))
		}
		sep := " ∧ "
		if e.Op == "or" {
			sep = " ∨ "
		}
		return "(" + strings.Join(s, sep) + ")"
	}
	return e.Op
}

type retainExtractor struct {
	fd      *ast.FuncDecl // the function the loop sits in (closures defined in it can be predicates)
	pk      *packages.Package
	info    *types.Info
	loopVar types.Object
	alias   map[types.Object]ast.Expr
	atoms   []retAtom
	bad     []string
	depth   int
}

// FindRetainLoops extracts all rebuild loops of a function declaration.
func FindRetainLoops(p *Prog, pk *packages.Package, fd *ast.FuncDecl, fnName string) []retainLoop {
	return findRetainLoopsBound(p, pk, fd, fnName, nil)
}

// findRetainLoopsBound: extraBind maps parameters of fd (function-typed ones in particular) to the
// expressions a call site passes for them.
func findRetainLoopsBound(p *Prog, pk *packages.Package, fd *ast.FuncDecl, fnName string, extraBind map[types.Object]ast.Expr) []retainLoop {
	var res []retainLoop
	if fd.Body == nil {
		return nil
	}
	info := pk.TypesInfo
	// assignments "X.F = v" anywhere in the function: v -> field
	assigned := map[types.Object]string{}
	ast.Inspect(fd.Body, func(n ast.Node) bool {
		as, ok := n.(*ast.AssignStmt)
		if !ok || len(as.Lhs) != len(as.Rhs) {
			return true
		}
		for i, lhs := range as.Lhs {
			se, ok := lhs.(*ast.SelectorExpr)
			if !ok {
				continue
			}
			id, ok := ast.Unparen(as.Rhs[i]).(*ast.Ident)
			if !ok {
				continue
			}
			sel := info.Selections[se]
			if sel == nil {
				continue
			}
			if v, ok := sel.Obj().(*types.Var); ok && v.IsField() {
				owner := "?"
				if n := namedOf(sel.Recv()); n != nil {
					owner = n.Obj().Name()
				}
				// the declaring struct for embedded fields
				if o := info.Uses[id]; o != nil {
					assigned[o] = owner + "." + v.Name()
				}
			}
		}
		return true
	})
	ast.Inspect(fd.Body, func(n ast.Node) bool {
		if ret, ok := n.(*ast.ReturnStmt); ok {
			for _, res := range ret.Results {
				if id, ok := ast.Unparen(res).(*ast.Ident); ok {
					if o := info.Uses[id]; o != nil {
						if _, has := assigned[o]; !has {
							assigned[o] = "$return"
						}
					}
				}
			}
		}
		return true
	})
	ast.Inspect(fd.Body, func(n ast.Node) bool {
		rs, ok := n.(*ast.RangeStmt)
		if !ok || rs.Value == nil {
			return true
		}
		vid, ok := rs.Value.(*ast.Ident)
		if !ok {
			return true
		}
		loopVar := info.Defs[vid]
		if loopVar == nil {
			return true
		}
		// find "dst = append(dst, <loopVar>)" in the body
		var stack []ast.Node
		ast.Inspect(rs.Body, func(m ast.Node) bool {
			if m == nil {
				stack = stack[:len(stack)-1]
				return true
			}
			stack = append(stack, m)
			if _, isLoop := m.(*ast.RangeStmt); isLoop && m != ast.Node(rs.Body) {
				return true
			}
			as, ok := m.(*ast.AssignStmt)
			if !ok || len(as.Lhs) != 1 || len(as.Rhs) != 1 {
				return true
			}
			dst, ok := as.Lhs[0].(*ast.Ident)
			if !ok {
				return true
			}
			call, ok := as.Rhs[0].(*ast.CallExpr)
			if !ok || len(call.Args) != 2 {
				return true
			}
			if fid, ok := call.Fun.(*ast.Ident); !ok || fid.Name != "append" || info.Uses[fid] != types.Universe.Lookup("append") {
				return true
			}
			a0, ok0 := call.Args[0].(*ast.Ident)
			a1, ok1 := ast.Unparen(call.Args[1]).(*ast.Ident)
			if !ok0 || !ok1 || info.Uses[a0] != info.Uses[dst] || info.Uses[a1] != loopVar {
				return true
			}
			field, isField := assigned[info.Uses[dst]]
			if !isField {
				return true
			}
			ex := &retainExtractor{fd: fd, pk: pk, info: info, loopVar: loopVar, alias: map[types.Object]ast.Expr{}}
			for o, v := range extraBind {
				ex.alias[o] = v
			}
			ex.collectAliases(rs.Body)
			keep, shape := ex.keepCondition(rs.Body, stack)
			rl := retainLoop{Fn: fnName, Field: field, Keep: keep, Atoms: ex.atoms, Pos: rs.Pos(), Shape: shape, Source: types.ExprString(rs.X)}
			if len(ex.bad) > 0 {
				rl.Shape = "undecided: " + strings.Join(ex.bad, "; ")
			}
			if se, isSel := ast.Unparen(rs.X).(*ast.SelectorExpr); isSel {
				if sel := info.Selections[se]; sel != nil {
					if v, isVar := sel.Obj().(*types.Var); isVar && v.IsField() {
						owner := "?"
						if n := namedOf(sel.Recv()); n != nil {
							owner = n.Obj().Name()
						}
						rl.SourceField = owner + "." + v.Name()
					}
				}
			}
			if rl.SourceField != "" && field != "$return" && rl.SourceField != field {
				rl.Shape = fmt.Sprintf("undecided: the loop ranges over %s but its result replaces %s: the rebuilt list is not a filtered copy of the list it replaces", rl.SourceField, field)
			}
			if breaksLoop(rs.Body) {
				rl.Shape = "undecided: the rebuild loop can be left with break, which drops every entry behind that point"
			}
			res = append(res, rl)
			return true
		})
		return true
	})
	return res
}

func (ex *retainExtractor) collectAliases(body *ast.BlockStmt) {
	count := map[types.Object]int{}
	ast.Inspect(body, func(n ast.Node) bool {
		as, ok := n.(*ast.AssignStmt)
		if !ok || len(as.Lhs) != 1 || len(as.Rhs) != 1 {
			return true
		}
		id, ok := as.Lhs[0].(*ast.Ident)
		if !ok {
			return true
		}
		o := ex.info.Defs[id]
		if o == nil {
			o = ex.info.Uses[id]
		}
		if o == nil {
			return true
		}
		count[o]++
		if as.Tok == token.DEFINE {
			ex.alias[o] = as.Rhs[0]
		}
		return true
	})
	for o, c := range count {
		if c != 1 {
			delete(ex.alias, o)
		}
	}
}

// keepCondition builds the condition under which the append executes, from the
// enclosing ifs (stack) and preceding "if C { …; continue }" statements.
func (ex *retainExtractor) keepCondition(body *ast.BlockStmt, stack []ast.Node) (*bexpr, string) {
	var conj []*bexpr
	shape := "append"
	// stack[0] is body; walk down
	for i := 0; i < len(stack)-1; i++ {
		switch x := stack[i].(type) {
		case *ast.BlockStmt:
			// statements before the child in this block that end in continue
			child := stack[i+1]
			for _, st := range x.List {
				if st == child {
					break
				}
				if ifs, ok := st.(*ast.IfStmt); ok && ifs.Else == nil && endsInJump(ifs.Body) {
					conj = append(conj, &bexpr{Op: "not", Kids: []*bexpr{ex.cond(ifs.Cond)}})
					shape = "continue-then-append"
				}
			}
		case *ast.IfStmt:
			child := stack[i+1]
			c := ex.cond(x.Cond)
			if child == ast.Node(x.Body) {
				conj = append(conj, c)
				shape = "append-under-if"
			} else if x.Else != nil && child == ast.Node(x.Else) {
				conj = append(conj, &bexpr{Op: "not", Kids: []*bexpr{c}})
				shape = "append-under-else"
			}
		}
	}
	if len(conj) == 0 {
		return &bexpr{Op: "true"}, "unconditional"
	}
	if len(conj) == 1 {
		return conj[0], shape
	}
	return &bexpr{Op: "and", Kids: conj}, shape
}

func endsInJump(b *ast.BlockStmt) bool {
	if len(b.List) == 0 {
		return false
	}
	switch x := b.List[len(b.List)-1].(type) {
	case *ast.BranchStmt:
		return x.Tok == token.CONTINUE
	}
	return false
}

func (ex *retainExtractor) cond(e ast.Expr) *bexpr {
	e = ast.Unparen(e)
	switch x := e.(type) {
	case *ast.BinaryExpr:
		switch x.Op {
		case token.LAND:
			return &bexpr{Op: "and", Kids: []*bexpr{ex.cond(x.X), ex.cond(x.Y)}}
		case token.LOR:
			return &bexpr{Op: "or", Kids: []*bexpr{ex.cond(x.X), ex.cond(x.Y)}}
		case token.EQL, token.NEQ:
			return ex.atom(x.X, x.Y, x.Op == token.NEQ, types.ExprString(e))
		}
	case *ast.UnaryExpr:
		if x.Op == token.NOT {
			return &bexpr{Op: "not", Kids: []*bexpr{ex.cond(x.X)}}
		}
	case *ast.Ident:
		// a condition computed into a named boolean first (isRequestedEntry := a && b): expand its definition
		if o := ex.info.Uses[x]; o != nil {
			if def, ok := ex.alias[o]; ok && ex.depth < 4 {
				ex.depth++
				r := ex.cond(def)
				ex.depth--
				return r
			}
		}
	case *ast.CallExpr:
		// reflect.DeepEqual(a, b), slices.Equal(a, b)
		if o := calleeObj(ex.info, x); o != nil && o.Pkg() != nil && len(x.Args) == 2 &&
			((o.Pkg().Path() == "reflect" && o.Name() == "DeepEqual") || (o.Pkg().Path() == "slices" && o.Name() == "Equal")) {
			return ex.atom(x.Args[0], x.Args[1], false, types.ExprString(e))
		}
		// a predicate of the repository (function, method, closure, function-typed parameter bound to one) whose
		// body is a single "return <condition>": evaluated in place, parameters standing for the arguments
		if params, recvObj, recvExpr, ret := ex.resolvePredicate(x.Fun, 0); ret != nil && ex.depth < 4 {
			saved := map[types.Object]ast.Expr{}
			had := map[types.Object]bool{}
			bind := func(o types.Object, v ast.Expr) {
				if o == nil {
					return
				}
				if old, ok := ex.alias[o]; ok {
					saved[o], had[o] = old, true
				} else {
					had[o] = false
				}
				ex.alias[o] = v
			}
			i := 0
			okBind := true
			if params != nil {
				for _, f := range params.List {
					for _, nm := range f.Names {
						if i >= len(x.Args) {
							okBind = false
							break
						}
						if id, isId := ast.Unparen(x.Args[i]).(*ast.Ident); !isId || ex.info.Uses[id] != ex.info.Defs[nm] {
							bind(ex.info.Defs[nm], x.Args[i])
						}
						i++
					}
				}
			}
			if recvObj != nil && recvExpr != nil {
				bind(recvObj, recvExpr)
			}
			var r *bexpr
			if okBind && i == len(x.Args) {
				ex.depth++
				r = ex.cond(ret)
				ex.depth--
			}
			for o, h := range had {
				if h {
					ex.alias[o] = saved[o]
				} else {
					delete(ex.alias, o)
				}
			}
			if r != nil {
				return r
			}
		}
	}
	ex.bad = append(ex.bad, "unrecognised condition "+types.ExprString(e))
	return &bexpr{Op: "false"}
}

func (ex *retainExtractor) mentionsLoopVar(e ast.Expr, depth int) bool {
	found := false
	ast.Inspect(e, func(n ast.Node) bool {
		id, ok := n.(*ast.Ident)
		if !ok {
			return true
		}
		o := ex.info.Uses[id]
		if o == ex.loopVar {
			found = true
		}
		if a, ok := ex.alias[o]; ok && depth < 4 && ex.mentionsLoopVar(a, depth+1) {
			found = true
		}
		return true
	})
	return found
}

// label renders an expression with aliases substituted and the loop variable dropped.
func (ex *retainExtractor) label(e ast.Expr, depth int) string {
	e = ast.Unparen(e)
	switch x := e.(type) {
	case *ast.Ident:
		o := ex.info.Uses[x]
		if o == ex.loopVar {
			return "$"
		}
		if a, ok := ex.alias[o]; ok && depth < 4 {
			return ex.label(a, depth+1)
		}
		return x.Name
	case *ast.SelectorExpr:
		return ex.label(x.X, depth) + "." + x.Sel.Name
	case *ast.CallExpr:
		var args []string
		for _, a := range x.Args {
			args = append(args, ex.label(a, depth))
		}
		return ex.label(x.Fun, depth) + "(" + strings.Join(args, ",") + ")"
	case *ast.StarExpr:
		return ex.label(x.X, depth)
	case *ast.UnaryExpr:
		if x.Op == token.AND {
			return ex.label(x.X, depth)
		}
	}
	return types.ExprString(e)
}

func (ex *retainExtractor) atom(a, b ast.Expr, neq bool, text string) *bexpr {
	isNil := func(e ast.Expr) bool {
		id, ok := ast.Unparen(e).(*ast.Ident)
		return ok && id.Name == "nil" && ex.info.Uses[id] == types.Universe.Lookup("nil")
	}
	ma, mb := ex.mentionsLoopVar(a, 0), ex.mentionsLoopVar(b, 0)
	at := retAtom{Text: text, NotEq: neq}
	switch {
	case isNil(b) && ma:
		at.NilTest, at.NilTrue, at.Label = true, !neq, ex.label(a, 0)
	case isNil(a) && mb:
		at.NilTest, at.NilTrue, at.Label = true, !neq, ex.label(b, 0)
	case ma && !mb:
		at.Label, at.Other = ex.label(a, 0), ex.label(b, 0)
	case mb && !ma:
		at.Label, at.Other = ex.label(b, 0), ex.label(a, 0)
	default:
		// a comparison that does not involve the entry (e.g. an index): keep as an opaque atom
		at.Label, at.Other = "?"+ex.label(a, 0), ex.label(b, 0)
	}
	if at.NilTest && !strings.HasPrefix(at.Label, "$") {
		at.Free = true
	}
	at.Label = strings.TrimPrefix(at.Label, "$.")
	// reuse an existing atom with the same label/other (polarity folded into the formula)
	for i, o := range ex.atoms {
		if o.Label == at.Label && o.Other == at.Other && o.NilTest == at.NilTest {
			if o.NilTest {
				if o.NilTrue == at.NilTrue {
					return &bexpr{Op: "atom", Atom: i}
				}
				return &bexpr{Op: "not", Kids: []*bexpr{{Op: "atom", Atom: i}}}
			}
			if o.NotEq == at.NotEq {
				return &bexpr{Op: "atom", Atom: i}
			}
			return &bexpr{Op: "not", Kids: []*bexpr{{Op: "atom", Atom: i}}}
		}
	}
	ex.atoms = append(ex.atoms, at)
	return &bexpr{Op: "atom", Atom: len(ex.atoms) - 1}
}

// retainSpec: which components a removal must compare.
type retainSpec struct {
	Fn       string            // pkg.Type.Method
	Field    string            // Type.field rebuilt
	Required map[string]string // component -> label pattern (suffix match on the entry-side label)
	Count    int               // number of loops in the function rebuilding this field
}

// checkRetain evaluates one extracted loop against its spec: with the entry's
// own nil tests assumed "not nil", keep ⇔ ¬(all required components equal).
func checkRetain(rl retainLoop, spec retainSpec) (ok bool, detail string) {
	if strings.HasPrefix(rl.Shape, "undecided") {
		return false, rl.Shape
	}
	// map atoms to components
	comp := make([]string, len(rl.Atoms))
	used := map[string]bool{}
	for i, a := range rl.Atoms {
		if a.NilTest {
			continue
		}
		for c, pat := range spec.Required {
			if matchLabel(a.Label, pat) {
				comp[i] = c
			}
		}
		if comp[i] == "" {
			return false, fmt.Sprintf("atom %q compares %q, which is none of the required components %v", a.Text, a.Label, sortedKeys(spec.Required))
		}
		used[comp[i]] = true
	}
	for c := range spec.Required {
		if !used[c] {
			return false, fmt.Sprintf("the retain condition %s does not compare the required component %s", rl.Keep.String(rl.Atoms), c)
		}
	}
	comps := sortedKeys(spec.Required)
	n := len(comps)
	var free []int
	for i, a := range rl.Atoms {
		if a.NilTest && a.Free {
			free = append(free, i)
		}
	}
	if len(free) > 4 {
		return false, "undecided: more than four look-up results tested for nil in the retain condition"
	}
	for fm := 0; fm < 1<<len(free); fm++ {
		for m := 0; m < 1<<n; m++ {
			eq := map[string]bool{}
			allEq := true
			for i, c := range comps {
				eq[c] = m&(1<<i) != 0
				if !eq[c] {
					allEq = false
				}
			}
			val := make([]bool, len(rl.Atoms))
			for i, a := range rl.Atoms {
				if a.NilTest {
					val[i] = !a.NilTrue // the entry's own fields are assumed non-nil: "x != nil" is true, "x == nil" false
					for k, fi := range free {
						if fi == i {
							val[i] = fm&(1<<k) != 0 // the result of a look-up is nil or not, whatever the entry: both are explored
						}
					}
					continue
				}
				e := eq[comp[i]]
				if a.NotEq {
					val[i] = !e
				} else {
					val[i] = e
				}
			}
			keep := rl.Keep.eval(val)
			if keep == allEq {
				var as []string
				for _, c := range comps {
					as = append(as, fmt.Sprintf("%s equal=%v", c, eq[c]))
				}
				sort.Strings(as)
				what := "kept although every required component matches"
				if !keep {
					what = "removed although a required component differs"
				}
				for k, fi := range free {
					as = append(as, fmt.Sprintf("%s is %v", rl.Atoms[fi].Text, fm&(1<<k) != 0))
				}
				return false, fmt.Sprintf("retain condition %s: an entry with %s is %s", rl.Keep.String(rl.Atoms), strings.Join(as, ", "), what)
			}
		}
	}
	return true, fmt.Sprintf("keep ⇔ ¬(%s all equal): %s", strings.Join(comps, " ∧ "), rl.Keep.String(rl.Atoms))
}

func matchLabel(label, pat string) bool {
	for _, alt := range strings.Split(pat, "|") {
		if alt == "" {
			continue
		}
		if strings.HasPrefix(alt, "=") {
			if label == alt[1:] {
				return true
			}
			continue
		}
		if label == alt || strings.HasSuffix(label, "."+alt) || strings.HasSuffix(label, alt) {
			return true
		}
	}
	return false
}

// retainLoopsOf finds the loops of a method (pkg short name, receiver type, method).
func retainLoopsOf(p *Prog, short, recv, method string) ([]retainLoop, token.Pos) {
	fd, pk := p.FuncDecl(short, recv, method)
	if fd == nil {
		return nil, token.NoPos
	}
	name := short + "." + method
	if recv != "" {
		name = short + "." + recv + "." + method
	}
	return FindRetainLoops(p, pk, fd, name), fd.Pos()
}

// applyRetain checks all loops of the function that rebuild spec.Field.
func applyRetain(p *Prog, r *Report, rule string, short, recv, method string, spec retainSpec) {
	loops, pos := retainLoopsOf(p, short, recv, method)
	key := fmt.Sprintf("%s.%s.%s|%s", short, recv, method, spec.Field)
	if pos == token.NoPos {
		r.Undecided(rule, "anchor:"+key, "", "function not found")
		return
	}
	// the rebuild may sit in an extracted helper: recv.F = helper(recv.F, …) with the loop returning its result
	if fd, pk := p.FuncDecl(short, recv, method); fd != nil {
		fname := spec.Field[strings.Index(spec.Field, ".")+1:]
		ast.Inspect(fd.Body, func(nd ast.Node) bool {
			as, ok := nd.(*ast.AssignStmt)
			if !ok || len(as.Lhs) != 1 || len(as.Rhs) != 1 {
				return true
			}
			se, ok := as.Lhs[0].(*ast.SelectorExpr)
			if !ok || se.Sel.Name != fname {
				return true
			}
			call, ok := ast.Unparen(as.Rhs[0]).(*ast.CallExpr)
			if !ok {
				return true
			}
			o := calleeObj(pk.TypesInfo, call)
			if o == nil || o.Exported() || o.Pkg() == nil || o.Pkg() != pk.Types {
				return true
			}
			// the helper's declaration
			for _, file := range pk.Syntax {
				for _, d := range file.Decls {
					hd, ok := d.(*ast.FuncDecl)
					if !ok || pk.TypesInfo.Defs[hd.Name] != o {
						continue
					}
					// parameters of the helper stand for the arguments; a closure variable of the caller for its literal
					bind := map[types.Object]ast.Expr{}
					callerEx := &retainExtractor{fd: fd, pk: pk, info: pk.TypesInfo, alias: map[types.Object]ast.Expr{}}
					ai := 0
					for _, f := range hd.Type.Params.List {
						for _, nm := range f.Names {
							if ai < len(call.Args) {
								arg := call.Args[ai]
								if id, isId := ast.Unparen(arg).(*ast.Ident); isId {
									if fl := callerEx.funcLitOf(pk.TypesInfo.Uses[id]); fl != nil {
										arg = fl
									}
								}
								if tv := pk.TypesInfo.TypeOf(arg); tv != nil {
									if _, isFn := tv.Underlying().(*types.Signature); isFn {
										bind[pk.TypesInfo.Defs[nm]] = arg
									}
								}
							}
							ai++
						}
					}
					for _, hl := range findRetainLoopsBound(p, pk, hd, short+"."+hd.Name.Name, bind) {
						if hl.Field == "$return" {
							hl.Field = spec.Field
							loops = append(loops, hl)
						}
					}
				}
			}
			return true
		})
	}
	// … or is written with the library: X.F = slices.DeleteFunc(slices.Clone(X.F), pred) — kept ⇔ ¬pred. (Without the
	// clone the routine works in place: that is escapedListsImmutable's / noStrayCompaction's business.)
	if fd, pk := p.FuncDecl(short, recv, method); fd != nil && fd.Body != nil {
		fname := spec.Field[strings.Index(spec.Field, ".")+1:]
		ast.Inspect(fd.Body, func(nd ast.Node) bool {
			as, ok := nd.(*ast.AssignStmt)
			if !ok || len(as.Lhs) != 1 || len(as.Rhs) != 1 {
				return true
			}
			switch lhs := as.Lhs[0].(type) {
			case *ast.SelectorExpr:
				if lhs.Sel.Name != fname {
					return true
				}
			case *ast.Ident:
				// a local that is stored into the field afterwards
				lo := pk.TypesInfo.Defs[lhs]
				if lo == nil {
					lo = pk.TypesInfo.Uses[lhs]
				}
				stored := false
				ast.Inspect(fd.Body, func(n2 ast.Node) bool {
					a2, ok := n2.(*ast.AssignStmt)
					if !ok || len(a2.Lhs) != 1 || len(a2.Rhs) != 1 {
						return true
					}
					if s2, ok := a2.Lhs[0].(*ast.SelectorExpr); ok && s2.Sel.Name == fname {
						if id, ok := ast.Unparen(a2.Rhs[0]).(*ast.Ident); ok && lo != nil && pk.TypesInfo.Uses[id] == lo {
							stored = true
						}
					}
					return true
				})
				if !stored {
					return true
				}
			default:
				return true
			}
			call, ok := ast.Unparen(as.Rhs[0]).(*ast.CallExpr)
			if !ok || len(call.Args) != 2 {
				return true
			}
			o := calleeObj(pk.TypesInfo, call)
			if o == nil || o.Pkg() == nil || o.Pkg().Path() != "slices" || o.Name() != "DeleteFunc" {
				return true
			}
			inner, ok := ast.Unparen(call.Args[0]).(*ast.CallExpr)
			if !ok || len(inner.Args) != 1 {
				return true
			}
			if io := calleeObj(pk.TypesInfo, inner); io == nil || io.Pkg() == nil || io.Pkg().Path() != "slices" || io.Name() != "Clone" {
				return true
			}
			src, ok := ast.Unparen(inner.Args[0]).(*ast.SelectorExpr)
			if !ok || src.Sel.Name != fname {
				return true
			}
			ex := &retainExtractor{fd: fd, pk: pk, info: pk.TypesInfo, alias: map[types.Object]ast.Expr{}}
			params, _, _, ret := ex.resolvePredicate(call.Args[1], 0)
			rl := retainLoop{Fn: short + "." + method, Field: spec.Field, Pos: as.Pos(), Source: types.ExprString(src), SourceField: spec.Field}
			if ret == nil || params == nil || len(params.List) != 1 || len(params.List[0].Names) != 1 {
				rl.Shape = "undecided: the predicate handed to slices.DeleteFunc is not a function with a single 'return <condition>'"
			} else {
				ex.loopVar = pk.TypesInfo.Defs[params.List[0].Names[0]]
				drop := ex.cond(ret)
				rl.Keep = &bexpr{Op: "not", Kids: []*bexpr{drop}}
				rl.Atoms = ex.atoms
				if len(ex.bad) > 0 {
					rl.Shape = "undecided: " + strings.Join(ex.bad, "; ")
				}
			}
			loops = append(loops, rl)
			return true
		})
	}
	// … or in an extracted helper that stores the rebuilt list itself ("r.dropEntity(entity)")
	if fd, pk := p.FuncDecl(short, recv, method); fd != nil && fd.Body != nil {
		seenHelper := map[types.Object]bool{}
		ast.Inspect(fd.Body, func(nd ast.Node) bool {
			call, ok := nd.(*ast.CallExpr)
			if !ok {
				return true
			}
			o := calleeObj(pk.TypesInfo, call)
			if o == nil || o.Exported() || o.Pkg() == nil || o.Pkg() != pk.Types || seenHelper[o] {
				return true
			}
			seenHelper[o] = true
			for _, file := range pk.Syntax {
				for _, d := range file.Decls {
					hd, ok := d.(*ast.FuncDecl)
					if !ok || pk.TypesInfo.Defs[hd.Name] != o || hd == fd {
						continue
					}
					for _, hl := range FindRetainLoops(p, pk, hd, short+"."+hd.Name.Name) {
						if hl.Field == spec.Field {
							loops = append(loops, hl)
						}
					}
				}
			}
			return true
		})
	}
	n := 0
	for _, rl := range loops {
		if rl.Field != spec.Field {
			continue
		}
		n++
		ok, detail := checkRetain(rl, spec)
		k := key
		if spec.Count > 1 {
			k = fmt.Sprintf("%s#%d", key, n)
		}
		if strings.Contains(rl.Shape, "left with break") {
			r.Fail(rule, k, p.Pos(rl.Pos), strings.TrimPrefix(rl.Shape, "undecided: "))
		} else if strings.HasPrefix(rl.Shape, "undecided") {
			r.Undecided(rule, k, p.Pos(rl.Pos), detail)
		} else {
			r.Check(rule, k, ok, p.Pos(rl.Pos), detail)
		}
	}
	want := spec.Count
	if want == 0 {
		want = 1
	}
	if n < want {
		r.Undecided(rule, key+"|loops", p.Pos(pos), fmt.Sprintf("%d rebuild loops for %s found, %d expected", n, spec.Field, want))
	}
}

// breaksLoop: the body contains a break that leaves the loop it belongs to.
func breaksLoop(body *ast.BlockStmt) bool {
	found := false
	var walk func(n ast.Node, inner bool)
	walk = func(n ast.Node, inner bool) {
		ast.Inspect(n, func(m ast.Node) bool {
			if m == nil || found {
				return false
			}
			switch x := m.(type) {
			case *ast.FuncLit:
				return false
			case *ast.ForStmt:
				walk(x.Body, true)
				return false
			case *ast.RangeStmt:
				walk(x.Body, true)
				return false
			case *ast.SwitchStmt:
				walk(x.Body, true)
				return false
			case *ast.TypeSwitchStmt:
				walk(x.Body, true)
				return false
			case *ast.SelectStmt:
				walk(x.Body, true)
				return false
			case *ast.BranchStmt:
				if x.Tok == token.BREAK && (!inner || x.Label != nil) {
					found = true
				}
				if x.Tok == token.GOTO {
					found = true
				}
			}
			return true
		})
	}
	walk(body, false)
	return found
}

// resolvePredicate finds the declaration behind a called expression when it is a
// repository predicate with a body of the form "return <expr>": its parameters,
// the receiver object and expression (methods), and the returned expression.
func (ex *retainExtractor) resolvePredicate(fun ast.Expr, depth int) (params *ast.FieldList, recvObj types.Object, recvExpr ast.Expr, ret ast.Expr) {
	if depth > 3 {
		return nil, nil, nil, nil
	}
	single := func(body *ast.BlockStmt) ast.Expr {
		// "x := e" definitions (assigned once, kept as aliases) followed by one "return <expr>"
		if body == nil || len(body.List) == 0 {
			return nil
		}
		for _, st := range body.List[:len(body.List)-1] {
			as, ok := st.(*ast.AssignStmt)
			if !ok || as.Tok != token.DEFINE || len(as.Lhs) != 1 || len(as.Rhs) != 1 {
				return nil
			}
			id, ok := as.Lhs[0].(*ast.Ident)
			if !ok || ex.info.Defs[id] == nil {
				return nil
			}
			ex.alias[ex.info.Defs[id]] = as.Rhs[0] // local of the predicate: cannot clash with anything of the caller
		}
		rs, ok := body.List[len(body.List)-1].(*ast.ReturnStmt)
		if !ok || len(rs.Results) != 1 {
			return nil
		}
		return rs.Results[0]
	}
	declOf := func(o types.Object) *ast.FuncDecl {
		if o == nil || o.Pkg() == nil || ex.pk.Types == nil || o.Pkg() != ex.pk.Types {
			return nil
		}
		for _, file := range ex.pk.Syntax {
			for _, d := range file.Decls {
				if fd, ok := d.(*ast.FuncDecl); ok && ex.info.Defs[fd.Name] == o {
					return fd
				}
			}
		}
		return nil
	}
	switch x := ast.Unparen(fun).(type) {
	case *ast.FuncLit:
		return x.Type.Params, nil, nil, single(x.Body)
	case *ast.Ident:
		o := ex.info.Uses[x]
		if o == nil {
			return nil, nil, nil, nil
		}
		if def, ok := ex.alias[o]; ok {
			return ex.resolvePredicate(def, depth+1)
		}
		if fl := ex.funcLitOf(o); fl != nil {
			return fl.Type.Params, nil, nil, single(fl.Body)
		}
		if _, isFn := o.(*types.Func); isFn {
			if fd := declOf(o); fd != nil {
				return fd.Type.Params, nil, nil, single(fd.Body)
			}
		}
	case *ast.SelectorExpr:
		if sel := ex.info.Selections[x]; sel != nil {
			if m, isFn := sel.Obj().(*types.Func); isFn {
				if fd := declOf(m); fd != nil && fd.Recv != nil && len(fd.Recv.List) == 1 {
					var ro types.Object
					if len(fd.Recv.List[0].Names) == 1 {
						ro = ex.info.Defs[fd.Recv.List[0].Names[0]]
					}
					return fd.Type.Params, ro, x.X, single(fd.Body)
				}
			}
		}
	}
	return nil, nil, nil, nil
}

// funcLitOf: the function literal a local variable of the enclosing function is defined as (assigned once).
func (ex *retainExtractor) funcLitOf(o types.Object) *ast.FuncLit {
	if o == nil || ex.fd == nil || ex.fd.Body == nil {
		return nil
	}
	var lit *ast.FuncLit
	n := 0
	ast.Inspect(ex.fd.Body, func(nd ast.Node) bool {
		as, ok := nd.(*ast.AssignStmt)
		if !ok || len(as.Lhs) != len(as.Rhs) {
			return true
		}
		for i, lhs := range as.Lhs {
			id, ok := lhs.(*ast.Ident)
			if !ok {
				continue
			}
			d := ex.info.Defs[id]
			if d == nil {
				d = ex.info.Uses[id]
			}
			if d != o {
				continue
			}
			n++
			if fl, isLit := ast.Unparen(as.Rhs[i]).(*ast.FuncLit); isLit {
				lit = fl
			}
		}
		return true
	})
	if n != 1 {
		return nil
	}
	return lit
}
