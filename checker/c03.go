package main

import (
	"fmt"
	"sort"
	"strings"

	"golang.org/x/tools/go/ssa"
)

func init() {
	register("C03", true,
		"Backward constant propagation of the remoteWrite flag over all call sites that reach the function-data store (one origin of 'true'), call-graph rule that every synchronous route to that origin passes through HandleMessage or ApproveOrDenyWrite, and path-sensitive enumeration of the inbound call tree for classifier write: the handler, the store, notifications, publications and approval callbacks are reached only after the pass edges of 'function announced', 'Write() true' and 'HasLocalFeatureRemoteBinding true', whose arguments are proved (value provenance) to be the addressed local feature and the looked-up source feature; every gate-fail path sends exactly one error result and has no other effect. Decided: the gating of every path. Not decided: value semantics of the binding look-up, histories, re-authorisation of pending writes.",
		checkC03)
}

type boolOrigin struct {
	Fn   *ssa.Function
	Site ssa.CallInstruction
	Val  bool
}

// remoteWriteOrigins finds the call sites that pass a constant for a parameter
// that flows (through parameters only) into argument 0 of UpdateDataAny.
func remoteWriteOrigins(p *Prog, ib *inbound) (origins []boolOrigin, nonConst []string, nSinks int) {
	type pk struct {
		fn  *ssa.Function
		idx int
	}
	carries := map[pk]bool{}
	paramIdx := func(fn *ssa.Function, v ssa.Value) int {
		for i, prm := range fn.Params {
			if ssa.Value(prm) == v {
				return i
			}
		}
		return -1
	}
	var fns []*ssa.Function
	for f := range p.AllFns {
		if f.Blocks != nil && p.IsRepoFn(f) && !isUninstantiated(f) {
			fns = append(fns, f)
		}
	}
	sort.Slice(fns, func(i, j int) bool { return fns[i].String() < fns[j].String() })
	handle := func(fn *ssa.Function, site ssa.CallInstruction, arg ssa.Value) bool {
		if k, ok := constBool(arg); ok {
			origins = append(origins, boolOrigin{fn, site, k})
			return false
		}
		if i := paramIdx(fn, arg); i >= 0 {
			if !carries[pk{fn, i}] {
				carries[pk{fn, i}] = true
				return true
			}
			return false
		}
		nonConst = append(nonConst, fmt.Sprintf("%s at %s passes %s", FnName(fn), p.InstrPos(site), Path(arg)))
		return false
	}
	// sinks
	seenSite := map[ssa.CallInstruction]bool{}
	for _, fn := range fns {
		forEachCall(fn, func(site ssa.CallInstruction) {
			if calleeIsIfaceMethod(site.Common(), ib.fdIface, "UpdateDataAny") {
				nSinks++
				seenSite[site] = true
				handle(fn, site, callArgs(site.Common())[0])
			}
		})
	}
	for changed := true; changed; {
		changed = false
		for _, fn := range fns {
			forEachCall(fn, func(site ssa.CallInstruction) {
				if seenSite[site] {
					return
				}
				c := site.Common()
				for _, callee := range p.Callees(site) {
					for key := range carries {
						if key.fn != callee {
							continue
						}
						ai := key.idx
						if c.IsInvoke() {
							ai--
						}
						if ai < 0 || ai >= len(c.Args) {
							continue
						}
						// a constant passed at this site is an origin (recorded once)
						if _, isConst := constBool(c.Args[ai]); isConst {
							if !seenSite[site] {
								seenSite[site] = true
								handle(fn, site, c.Args[ai])
							}
							continue
						}
						if handle(fn, site, c.Args[ai]) {
							changed = true
						}
					}
				}
			})
		}
	}
	return
}

func checkC03(p *Prog, r *Report) {
	ib := newInbound(p)
	for _, m := range ib.missing {
		r.Undecided("R0", "anchor:"+m, "", "anchor not found")
	}
	if len(ib.missing) > 0 {
		return
	}
	r.Rule("R1", "the remoteWrite flag reaching the function-data store is a constant at its origin; the value true has exactly one origin")
	r.Rule("R2", "every synchronous call chain to the origin of remoteWrite=true passes through an implementation of HandleMessage or ApproveOrDenyWrite")
	r.Rule("R3", "for classifier write the handler, the store, notifications, publications, acknowledgements and approval callbacks are reached only after the pass edges of: function announced in Operations(), Write() true, HasLocalFeatureRemoteBinding true")
	r.Rule("R3a", "the gates concern the right objects: the operations and the binding are looked up on the local feature that receives the message; the binding's remote address is Address() of the feature looked up from the datagram's source on the calling device; the announced function is the command's own function")
	r.Rule("R4", "every gate-fail path sends exactly one error result, stores nothing, notifies nobody, publishes nothing and returns an error")
	r.Rule("R5", "the write executor notifies and publishes exactly once iff the store with remoteWrite=true succeeded, and neither on failure")

	// R1
	origins, nonConst, nSinks := remoteWriteOrigins(p, ib)
	r.Floor("R1", "UpdateDataAny call sites", nSinks, 2)
	for _, nc := range nonConst {
		r.Fail("R1", "nonconst:"+strings.SplitN(nc, " at ", 2)[0], "", "remoteWrite is not a constant at its origin: "+nc)
	}
	var trueOrigins []boolOrigin
	for _, o := range origins {
		if o.Val {
			trueOrigins = append(trueOrigins, o)
		} else {
			r.Pass("R1", "origin:false|"+FnName(originOf(o.Fn)), p.InstrPos(o.Site), "passes remoteWrite=false")
		}
	}
	if len(trueOrigins) != 1 {
		var s []string
		for _, o := range trueOrigins {
			s = append(s, FnName(o.Fn)+" at "+p.InstrPos(o.Site))
		}
		r.Fail("R1", "origin:true|count", "", fmt.Sprintf("%d origins of remoteWrite=true: %v (exactly one expected: the inbound write executor)", len(trueOrigins), s))
	} else {
		r.Pass("R1", "origin:true|"+FnName(originOf(trueOrigins[0].Fn)), p.InstrPos(trueOrigins[0].Site), "the only origin of remoteWrite=true")
	}

	// R2
	fli := p.LookupIface("api", "FeatureLocalInterface")
	allowed := map[*ssa.Function]bool{}
	for _, m := range []string{"HandleMessage", "ApproveOrDenyWrite"} {
		for _, f := range p.ImplsOf(fli, m) {
			allowed[f] = true
		}
	}
	for _, o := range trueOrigins {
		seen := map[*ssa.Function]bool{o.Fn: true}
		work := []*ssa.Function{o.Fn}
		var bad []string
		for len(work) > 0 {
			f := work[len(work)-1]
			work = work[:len(work)-1]
			if allowed[f] || allowed[originOf(f)] {
				continue
			}
			callers := p.Callers(f)
			if (f.Object() != nil && f.Object().Exported()) || (len(callers) == 0 && !isWrapper(f)) {
				bad = append(bad, FnName(f))
			}
			for _, site := range callers {
				if _, isGo := site.(*ssa.Go); isGo {
					bad = append(bad, "go "+FnName(f)+" in "+FnName(site.Parent()))
					continue
				}
				if cf := site.Parent(); !seen[cf] {
					seen[cf] = true
					work = append(work, cf)
				}
			}
		}
		r.Check("R2", "route|"+FnName(originOf(o.Fn)), len(bad) == 0, p.InstrPos(o.Site), fmt.Sprintf("entry points reaching the origin without passing HandleMessage/ApproveOrDenyWrite: %v", bad))
	}

	// R3/R4/R5 by enumeration
	effectsAfterGates := []string{"storeRemoteWrite", "storeRemoteWriteFail", "storeLocal", "storeLocalFail", "storeParam", "storeParamFail", "remoteStore", "notify", "publish", "resOk", "startApprovalCallback"}
	for _, ack := range []string{"nil", "true"} {
		for _, appr := range []bool{false, true} {
			ib.val = inboundVal{Cls: "write", Ack: ack, Approval: appr}
			e := ib.engine()
			outs := e.Summarize(ib.processCmd, ib.val.String(), nil, 0)
			okR3, okR4, okR5 := true, true, true
			nPass, nFail := 0, 0
			for _, o := range outs {
				if !inScope(o) || o.HasEvent("destinationUnknown=true") {
					continue
				}
				key := ib.val.String() + "|class:" + classSig(o)
				trace := strings.Join(o.Trace, " ")
				gateFail := o.HasEvent("opKnown=false") || o.HasEvent("opWrite=false") || o.HasEvent("hasBinding=false")
				passed := o.HasEvent("opKnown=true") && o.HasEvent("opWrite=true") && o.HasEvent("hasBinding=true")
				if gateFail {
					nFail++
					bad := o.N("resErr") != 1 || len(o.Ret) != 1 || o.Ret[0] != "nonnil"
					for _, ef := range effectsAfterGates {
						if o.N(ef) != 0 {
							bad = true
						}
					}
					if bad {
						okR4 = false
						r.Fail("R4", key, firstPos(o), "a denied write must produce exactly one error result and nothing else: "+trace)
					}
					continue
				}
				// effects require all gates, in order, before the first such effect
				for _, ef := range effectsAfterGates {
					if o.N(ef) == 0 {
						continue
					}
					if !(passed && o.EventBefore("opKnown=true", ef) && o.EventBefore("opWrite=true", ef) && o.EventBefore("hasBinding=true", ef)) {
						okR3 = false
						r.Fail("R3", key+"|"+ef, firstPos(o), fmt.Sprintf("effect %s happens without the three authorisation gates before it: events %v", ef, o.Events))
					}
				}
				if passed {
					nPass++
				}
				// R5
				if !appr {
					if o.N("storeRemoteWrite") == 1 {
						if o.N("notify") != 1 || o.N("publish") != 1 {
							okR5 = false
							r.Fail("R5", key, firstPos(o), "an applied write must notify and publish exactly once: "+trace)
						}
					} else if o.N("notify") != 0 || o.N("publish") != 0 {
						okR5 = false
						r.Fail("R5", key, firstPos(o), "notification or publication although the write was not applied: "+trace)
					}
				}
			}
			if nPass == 0 || nFail < 3 {
				r.Undecided("R3", ib.val.String()+"|enumeration", "", fmt.Sprintf("%d gate-pass and %d gate-fail path classes found (at least 1 and 3 expected) %v", nPass, nFail, e.Incomplete))
				continue
			}
			if okR3 {
				r.Pass("R3", ib.val.String(), "", fmt.Sprintf("%d path classes past the gates", nPass))
			}
			if okR4 {
				r.Pass("R4", ib.val.String(), "", fmt.Sprintf("%d gate-fail path classes", nFail))
			}
			if okR5 && !appr {
				r.Pass("R5", ib.val.String(), "", "")
			}
		}
	}
	p.WithHelperParams(func() { c03GateArgs(p, ib, r) })
	hasBindingRule(p, r, "R7")
	r.Rule("R11", "a binding is revoked with the entity that holds it: RemoveEntityByAddress drops exactly the entity it hands back to the clean-up (retain truth table; shared with C06-R12) — an entity dropped on the side keeps its bindings, and its write permission, past removal and reconnect")
	applyRetain(p, r, "R11", "spine", "DeviceRemote", "RemoveEntityByAddress", retainSpec{Field: F("DeviceRemote.entities"), Required: map[string]string{"entity": "=$"}})
	r.Rule("R12", "the bindings of a removed entity are revoked in the same loop iteration that removes it: the removal cascade (C06-R1/R2) applies the binding clean-up to the removed entity, once, only if it was found, dominated by the removal — a clean-up postponed behind the loop is skipped when a later entry ends the loop with an error")
	entityRemovalCascade(p, r, "R12", "R12")
	r.Rule("R13", "a refused write is answered whether or not it asked for an acknowledgement: the sender's result builder does not make the transmission depend on ackRequest (shared with C01-R17)")
	c01ResultUnconditional(p, ib, r, "R13")
	approvalCleanupRule(p, r, "R8")
	r.Rule("R6", "a binding is revoked exactly for the client it was made for: RemoveBinding keeps ⇔ ¬(client address ∧ server feature equal); RemoveBindingsForEntity keeps ⇔ ¬(client device ∧ client entity equal) — a disappearing writer loses its own bindings and nobody else's (retain truth tables, shared with C09-R2/C10-R1)")
	applyRetain(p, r, "R6", "spine", "BindingManager", "RemoveBinding", retainSpec{Field: F("BindingManager.bindingEntries"),
		Required: map[string]string{"client.address": "=ClientFeature.Address()", "server.feature": "=ServerFeature"}})
	applyRetain(p, r, "R6", "spine", "BindingManager", "RemoveBindingsForEntity", retainSpec{Field: F("BindingManager.bindingEntries"),
		Required: map[string]string{"client.device": "ClientFeature.Device().Ski()|ClientFeature.Address().Device", "client.entity": "ClientFeature.Address().Entity"}})
	r.Rule("R9", "authorisation follows the registry at once: every read-modify-write of the binding list reads and stores inside one critical section (an unbind or bind processed meanwhile is not overwritten by a stale list; shared with C09-R7)")
	rebuildAtomic(p, BuildLockset(p, "spine", "model"), r, "R9", F("BindingManager.bindingEntries"), 3)
	r.Rule("R10", "the per-feature listing behind the binding gate filters on the whole server feature address (device, entity and feature): a binding on one local feature never authorises another (shared with C09-R5)")
	listingRule(p, r, "R10", bindMgr)
	r.Assumes("loops are unrolled at most once; the inbound datagram is abstracted to classifier x ackRequest x approval callbacks",
		"HasLocalFeatureRemoteBinding itself is checked by C09-R6; registry contents are not interpreted")
}

// c03GateArgs: provenance of the objects the gates work on, inside ProcessCmd.
func c03GateArgs(p *Prog, ib *inbound, r *Report) {
	fn := ib.processCmd
	var handler, binding, opsLookup *ssa.Call
	var writeCall *ssa.Call
	var lookup *ssa.Lookup
	// the gates sit in ProcessCmd or in a helper extracted from it
	scope := p.helperClosure(fn, 2)
	for _, g := range scope {
		forEachCall(g, func(site ssa.CallInstruction) {
			c, ok := site.(*ssa.Call)
			if !ok {
				return
			}
			switch {
			case c.Call.IsInvoke() && c.Call.Method.Name() == "HandleMessage":
				handler = c
			case calleeIsIfaceMethod(&c.Call, ib.bindMgr, "HasLocalFeatureRemoteBinding"):
				binding = c
			case calleeIsIfaceMethod(&c.Call, ib.ops, "Write"):
				writeCall = c
			case c.Call.IsInvoke() && c.Call.Method.Name() == "Operations":
				opsLookup = c
			}
		})
	}
	for _, g := range scope {
		for _, b := range g.Blocks {
			for _, ins := range b.Instrs {
				if lk, ok := ins.(*ssa.Lookup); ok && lk.CommaOk && opsLookup != nil && lk.X == ssa.Value(opsLookup) {
					lookup = lk
				}
			}
		}
	}
	base := FnName(fn)
	if handler == nil || binding == nil || writeCall == nil || opsLookup == nil || lookup == nil {
		r.Undecided("R3a", base+"|shape", p.Pos(fn.Pos()), fmt.Sprintf("handler=%v binding=%v write=%v operations=%v lookup=%v", handler != nil, binding != nil, writeCall != nil, opsLookup != nil, lookup != nil))
		return
	}
	local := Path(handler.Call.Value) // the addressed local feature
	args := callArgs(&binding.Call)
	a0, a1 := Path(args[0]), Path(args[1])
	r.Check("R3a", base+"|binding-local", a0 == local+".Address()", p.InstrPos(binding), fmt.Sprintf("binding looked up for local address %s; the message is handled by %s", a0, local))
	// remote: <remoteDevice param>.FeatureByAddress(<header>.AddressSource).Address()
	okRemote := false
	if c, ok := args[1].(*ssa.Call); ok && c.Call.IsInvoke() && c.Call.Method.Name() == "Address" {
		if fb, ok := substParam(unwrapIface(c.Call.Value)).(*ssa.Call); ok && fb.Call.IsInvoke() && fb.Call.Method.Name() == "FeatureByAddress" {
			okRemote = strings.HasPrefix(Path(fb.Call.Value), "param:") && strings.HasSuffix(Path(fb.Call.Args[0]), ".Header.AddressSource")
		}
	}
	r.Check("R3a", base+"|binding-remote", okRemote, p.InstrPos(binding), "binding looked up for remote address "+a1)
	r.Check("R3a", base+"|operations-object", Path(opsLookup.Call.Value) == local, p.InstrPos(opsLookup), "operations looked up on "+Path(opsLookup.Call.Value))
	fnKey := Path(lookup.Index)
	r.Check("R3a", base+"|operations-key", strings.HasSuffix(fnKey, ".Data()#0.Function") && strings.Contains(fnKey, "Cmd"), p.InstrPos(lookup), "operations looked up for function "+fnKey)
	// Write() is called on the looked-up operations object
	wOK := false
	if ex, ok := unwrapIface(writeCall.Call.Value).(*ssa.Extract); ok && ex.Tuple == ssa.Value(lookup) && ex.Index == 0 {
		wOK = true
	}
	r.Check("R3a", base+"|write-object", wOK, p.InstrPos(writeCall), "Write() is asked of "+Path(writeCall.Call.Value))
	// the message handed to the handler carries the looked-up remote feature and the datagram's command
	msgOK := false
	if len(handler.Call.Args) == 1 {
		if al, ok := handler.Call.Args[0].(*ssa.Alloc); ok {
			got := map[string]string{}
			for _, ref := range *al.Referrers() {
				if fa, ok := ref.(*ssa.FieldAddr); ok {
					for _, r2 := range *fa.Referrers() {
						if st, ok := r2.(*ssa.Store); ok && st.Addr == ssa.Value(fa) {
							got[fieldOfAddr(fa).Name()] = Path(st.Val)
						}
					}
				}
			}
			msgOK = strings.Contains(got["FeatureRemote"], "FeatureByAddress()") && strings.HasSuffix(got["RequestHeader"], ".Header") && strings.HasSuffix(got["Cmd"], ".Payload.Cmd[0]") && strings.HasPrefix(got["DeviceRemote"], "param:")
			r.Check("R3a", base+"|message", msgOK, p.InstrPos(handler), fmt.Sprintf("message: FeatureRemote=%s RequestHeader=%s Cmd=%s DeviceRemote=%s", got["FeatureRemote"], got["RequestHeader"], got["Cmd"], got["DeviceRemote"]))
			return
		}
	}
	r.Check("R3a", base+"|message", msgOK, p.InstrPos(handler), "message literal not found")
}

// substParam follows a helper parameter to the argument it stands for (only
// under Prog.WithHelperParams).
func substParam(v ssa.Value) ssa.Value {
	for i := 0; i < 4; i++ {
		par, ok := v.(*ssa.Parameter)
		if !ok {
			return v
		}
		var a ssa.Value
		if pathSubst != nil {
			a = pathSubst(par)
		}
		if a == nil {
			a = closureParamBinding(par)
		}
		if a == nil && belowScopeRoot(par.Parent()) {
			if s := curProg.HelperSite(par.Parent()); s != nil {
				for k, q := range par.Parent().Params {
					if q == par && k < len(s.Common().Args) {
						a = s.Common().Args[k]
					}
				}
			}
		}
		if a == nil {
			return v
		}
		v = unwrapIface(a)
	}
	return v
}
