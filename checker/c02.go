package main

import (
	"fmt"
	"go/token"
	"go/types"
	"strings"

	"golang.org/x/tools/go/ssa"
)

func init() {
	register("C02", true,
		"Sibling-template rule over all implementations of model.Updater.UpdateList (each checked for five semantic obligations on resolved objects), a cross-wiring lint for same-typed role values (partial/delete filter, remoteWrite/persist) over calls, struct literals and multi-value assignments of the whole repository, exhaustive key/selector/elements type tables, stage-order and provenance rules on the generic update engine and on the function-data store, and constant-propagation of the persist flag on the inbound reply/notify routes. Decided: the wiring every update relies on. Not decided: the fold itself (merge by identifier, field retention, idempotence, ordering) — these are properties of values computed by reflection.",
		checkC02)
}

func checkC02(p *Prog, r *Report) {
	t := BuildTables(p)
	for _, m := range t.anchorsMissing {
		r.Undecided("R0", "anchor:"+m, "", "anchor symbol not found: "+m)
	}
	// R1 sibling template
	r.Rule("R1", "every implementation of model.Updater.UpdateList matches the template: S1 asserts its own type, S2 one slice field read/passed/assigned, S3 engine called with its own parameters in order, S4 assignment exactly under success && persist, S5 returns the engine's results")
	for _, nt := range t.Updaters {
		updateListTemplate(p, r, "R1", nt)
	}
	r.Floor("R1", "Updater implementations", len(t.Updaters), 80)

	// R2 cross-wiring lint
	r.Rule("R2", "no same-typed role value is passed, stored or received under the name of a different role (filterPartial/filterDelete, remoteWrite/persist, selector/elements); zero reports expected, the built-in positive example must fire")
	c02Lint(p, r, "R2")

	c02ExtractFilter(p, r)
	c02Persist(p, r)
	c02Tables(p, t, r)
	c02Engine(p, r)
	c02Store(p, r)
	r.Assumes("role names of parameters and fields (filterPartial, filterDelete, remoteWrite, persist) are the API-level names of model.Updater and api.FunctionDataInterface",
		"reflection-driven value semantics (Merge, hashKey, updateFields, SortData) are not decided")
}

func c02Lint(p *Prog, r *Report, rule string) {
	n := 0
	reports := 0
	for _, short := range []string{"api", "model", "spine", "util"} {
		pk := p.Pkg(short)
		n += crossWiring(lintTarget{Name: short, Files: pk.Syntax, Info: pk.TypesInfo, Pos: p.Pos}, func(key, pos, detail string) {
			reports++
			r.Fail(rule, key, pos, detail)
		})
	}
	r.Stat(rule+".constructs examined", n)
	got, err := crossWiringSelfCheck()
	if err != nil || got != 8 {
		r.Undecided(rule, "positive-example", "", fmt.Sprintf("the lint reported %d of the 8 seeded swaps of its built-in example (err=%v)", got, err))
	} else {
		r.Pass(rule, "positive-example", "", "8 of 8 seeded swaps of the built-in example reported, none in its neutral part")
	}
	if reports == 0 {
		r.Pass(rule, "repository", "", fmt.Sprintf("%d calls, struct literals and multi-value assignments examined, no definite swap", n))
	}
	if n < 700 {
		r.Undecided(rule, "floor:constructs", "", fmt.Sprintf("only %d constructs examined", n))
	}
}

// c02ExtractFilter: the result named for the partial filter is assigned under
// the Partial test, the one for the delete filter under the Delete test.
func c02ExtractFilter(p *Prog, r *Report) {
	r.Rule("R3e", "CmdType.ExtractFilter assigns its first result only under a test of CmdControl.Partial and its second only under a test of CmdControl.Delete")
	fn := p.Method("model", "CmdType", "ExtractFilter")
	if fn == nil || fn.Blocks == nil || fn.Signature.Results().Len() != 2 {
		r.Undecided("R3e", "anchor:model.CmdType.ExtractFilter", "", "method with two results not found")
		return
	}
	want := []string{"Partial", "Delete"}
	n := 0
	for k := 0; k < 2; k++ {
		for _, as := range resultAssignments(fn, k) {
			if c, isC := as.Val.(*ssa.Const); isC && c.IsNil() {
				continue
			}
			n++
			tested := map[string]bool{}
			for _, g := range Guards(as.Block) {
				if x, trueNil, ok := nilTest(g.Cond); ok && trueNil != g.Val {
					pth := Path(x)
					for _, role := range want {
						if strings.HasSuffix(pth, ".CmdControl."+role) {
							tested[role] = true
						}
					}
				}
			}
			r.Check("R3e", "model.CmdType.ExtractFilter|assign:"+want[k], tested[want[k]] && !tested[want[1-k]], p.Pos(as.Pos), fmt.Sprintf("result for the %s filter is assigned under non-nil tests of CmdControl.%v", strings.ToLower(want[k]), sortedKeys(tested)))
		}
	}
	r.Floor("R3e", "result assignments", n, 2)
	// every filter of the command is examined: the order of the delete and the partial filter in a combined
	// command is not prescribed, so leaving the loop at the first match loses the other one
	for k := 0; k < 2; k++ {
		for _, as := range resultAssignments(fn, k) {
			if c, isC := as.Val.(*ssa.Const); isC && c.IsNil() {
				continue
			}
			if loopHeaderOf(as.Block) == nil {
				continue
			}
			exits := loopEarlyExits(as.Block)
			r.Check("R3e", "model.CmdType.ExtractFilter|all-filters-examined:"+want[k], len(exits) == 0, p.Pos(as.Pos), fmt.Sprintf("the loop over the filters is left only when they are exhausted (early exits: %v)", exits))
		}
	}
}

type resultAssign struct {
	Val   ssa.Value
	Block *ssa.BasicBlock
	Pos   token.Pos
}

// resultAssignments: the values that flow into result k of fn, with the block in
// which each is chosen (a store to the result cell, or the predecessor of a phi edge).
func resultAssignments(fn *ssa.Function, k int) []resultAssign {
	var res []resultAssign
	seen := map[ssa.Value]bool{}
	var walk func(v ssa.Value, at *ssa.BasicBlock, pos token.Pos, depth int)
	walk = func(v ssa.Value, at *ssa.BasicBlock, pos token.Pos, depth int) {
		if depth > 8 {
			return
		}
		switch x := v.(type) {
		case *ssa.Phi:
			if seen[x] {
				return
			}
			seen[x] = true
			for i, e := range x.Edges {
				walk(e, x.Block().Preds[i], x.Pos(), depth+1)
			}
		case *ssa.UnOp:
			if al, ok := x.X.(*ssa.Alloc); ok && x.Op == token.MUL {
				if seen[al] {
					return
				}
				seen[al] = true
				for _, ref := range *al.Referrers() {
					if st, ok := ref.(*ssa.Store); ok && st.Addr == ssa.Value(al) {
						walk(st.Val, st.Block(), st.Pos(), depth+1)
					}
				}
				return
			}
			res = append(res, resultAssign{v, at, pos})
		default:
			res = append(res, resultAssign{v, at, pos})
		}
	}
	for _, b := range fn.Blocks {
		if ret, ok := b.Instrs[len(b.Instrs)-1].(*ssa.Return); ok && k < len(ret.Results) {
			walk(ret.Results[k], b, ret.Pos(), 0)
		}
	}
	return res
}

// c02Persist: on the inbound routes the remote feature's data is updated with
// persist = true (constant at every call site in the inbound call tree).
func c02Persist(p *Prog, r *Report) {
	r.Rule("R3p", "every FeatureRemoteInterface.UpdateData call in the inbound message handlers passes the constant true for persist; FeatureLocal's own store route passes the constant true for persist to UpdateDataAny")
	fri := p.LookupIface("api", "FeatureRemoteInterface")
	fdi := p.LookupIface("api", "FunctionDataInterface")
	if fri == nil || fdi == nil {
		r.Undecided("R3p", "anchor:api.FeatureRemoteInterface/FunctionDataInterface", "", "interface not found")
		return
	}
	nRemote, nLocal := 0, 0
	for _, fn := range p.RepoFns("spine") {
		forEachCall(fn, func(site ssa.CallInstruction) {
			c := site.Common()
			switch {
			case calleeIsIfaceMethod(c, fri, "UpdateData"):
				// skip the implementation's own delegation (UpdateData calling itself is not expected)
				nRemote++
				args := callArgs(c)
				b, isConst := constBool(args[0])
				r.Check("R3p", FnName(fn)+"|FeatureRemote.UpdateData", isConst && b, p.InstrPos(site), "persist argument is "+Path(args[0]))
			case calleeIsIfaceMethod(c, fdi, "UpdateDataAny"):
				recvT := namedOf(fn.Signature.Recv().Type())
				if fn.Signature.Recv() == nil || recvT == nil {
					return
				}
				args := callArgs(c)
				switch recvT.Obj().Name() {
				case "FeatureLocal":
					nLocal++
					b, isConst := constBool(args[1])
					r.Check("R3p", FnName(fn)+"|UpdateDataAny", isConst && b, p.InstrPos(site), "persist argument is "+Path(args[1]))
				case "FeatureRemote":
					// the API route: persist is the caller's argument, remoteWrite the constant false
					nLocal++
					b, isConst := constBool(args[0])
					okp := strings.HasPrefix(Path(args[1]), "param:")
					r.Check("R3p", FnName(fn)+"|UpdateDataAny", isConst && !b && okp, p.InstrPos(site), fmt.Sprintf("remoteWrite argument is %s, persist argument is %s", Path(args[0]), Path(args[1])))
				}
			}
		})
	}
	r.Floor("R3p", "FeatureRemote.UpdateData call sites", nRemote, 1)
	r.Floor("R3p", "UpdateDataAny call sites of the features", nLocal, 1)
}

// c02Tables: key kinds, item field kinds, selector/item compatibility.
func c02Tables(p *Prog, t *Tables, r *Report) {
	r.Rule("R4", "every item type of an Updater has at least one key field (one frozen exception), every key is a pointer to a uint-kind, string-kind or UpdateHelper struct, every item field is of a nilable kind")
	r.Rule("R5", "a pointer-typed selector field that has a same-named item field has the identical type (otherwise the selector can never match)")
	r.Rule("R9", "registered payload types that consist of one list of structs implement model.Updater (frozen list of full-update-only types)")
	helper := p.LookupIface("model", "UpdateHelper")
	for _, nt := range t.Updaters {
		name := nt.Obj().Name()
		_, el, item, ok := listItem(nt)
		if !ok {
			// a list of simple values (no item struct): nothing to key
			if st, isS := nt.Underlying().(*types.Struct); isS && st.NumFields() == 1 {
				if sl, isSl := st.Field(0).Type().Underlying().(*types.Slice); isSl {
					if _, isB := sl.Elem().Underlying().(*types.Basic); isB {
						r.Pass("R4", "model."+name+"|shape", p.Pos(nt.Obj().Pos()), "list of simple values, no identifiers")
						continue
					}
				}
			}
			r.Fail("R4", "model."+name+"|shape", p.Pos(nt.Obj().Pos()), "Updater is not a struct with exactly one slice-of-struct field")
			continue
		}
		keys := 0
		okKinds, okNilable := true, true
		detail := ""
		for i := 0; i < item.NumFields(); i++ {
			f := item.Field(i)
			_, tags, _, _ := parseTag(item.Tag(i))
			switch f.Type().Underlying().(type) {
			case *types.Pointer, *types.Slice, *types.Map, *types.Interface:
			default:
				okNilable = false
				detail += fmt.Sprintf(" field %s has non-nilable type %s;", f.Name(), shortType(f.Type()))
			}
			if _, isKey := tags["key"]; !isKey {
				continue
			}
			keys++
			pt, isPtr := f.Type().Underlying().(*types.Pointer)
			if !isPtr {
				okKinds = false
				detail += fmt.Sprintf(" key %s is not a pointer;", f.Name())
				continue
			}
			switch u := pt.Elem().Underlying().(type) {
			case *types.Basic:
				if u.Kind() != types.Uint && u.Kind() != types.String {
					okKinds = false
					detail += fmt.Sprintf(" key %s has kind %s (hashKey understands uint and string only);", f.Name(), u.Name())
				}
			case *types.Struct:
				if helper == nil || !types.Implements(f.Type(), helper) {
					okKinds = false
					detail += fmt.Sprintf(" key %s is a struct that does not implement UpdateHelper;", f.Name())
				}
			default:
				okKinds = false
				detail += fmt.Sprintf(" key %s has an unsupported type %s;", f.Name(), shortType(f.Type()))
			}
		}
		pos := p.Pos(nt.Obj().Pos())
		// frozen exception: the destination list has no identifiers
		if keys == 0 && name != "NodeManagementDestinationListDataType" {
			r.Fail("R4", "model."+name+"|keys", pos, "item type "+shortType(el)+" has no field tagged key")
		} else {
			r.Pass("R4", "model."+name+"|keys", pos, fmt.Sprintf("%d key fields", keys))
		}
		r.Check("R4", "model."+name+"|keykinds", okKinds, pos, strings.TrimSpace(detail))
		r.Check("R4", "model."+name+"|nilable", okNilable, pos, strings.TrimSpace(detail))
	}

	// R5 selector/item type identity
	nSel := 0
	for _, f := range t.FilterFields {
		if f.Tags["typ"] != "selector" || f.Tags["fct"] == "" {
			continue
		}
		cf := t.CmdByFct[f.Tags["fct"]]
		if len(cf) == 0 {
			continue
		}
		pt, ok := cf[0].Var.Type().Underlying().(*types.Pointer)
		if !ok {
			continue
		}
		fpt, ok := f.Var.Type().Underlying().(*types.Pointer)
		if !ok {
			continue
		}
		fst, ok := fpt.Elem().Underlying().(*types.Struct)
		if !ok {
			continue
		}
		var item *types.Struct
		itemName := ""
		if _, el, is, ok := listItem(pt.Elem()); ok {
			item, itemName = is, shortType(el)
		} else if st, ok := pt.Elem().Underlying().(*types.Struct); ok {
			item, itemName = st, shortType(pt.Elem())
		}
		if item == nil {
			continue
		}
		nSel++
		itf := map[string]types.Type{}
		for j := 0; j < item.NumFields(); j++ {
			itf[item.Field(j).Name()] = item.Field(j).Type()
		}
		for j := 0; j < fst.NumFields(); j++ {
			sf := fst.Field(j)
			if _, isPtr := sf.Type().Underlying().(*types.Pointer); !isPtr {
				continue // SelectorMatch skips non-pointer selector fields
			}
			it, ok := itf[sf.Name()]
			if !ok {
				continue // SelectorMatch skips fields the item does not have
			}
			k := "FilterType." + f.Var.Name() + "." + sf.Name()
			if types.Identical(it, sf.Type()) {
				r.Pass("R5", k, p.Pos(sf.Pos()), shortType(it))
			} else {
				r.Fail("R5", k, p.Pos(sf.Pos()), fmt.Sprintf("selector field type %s, item field %s.%s has type %s: the comparison in SelectorMatch can never be equal", shortType(sf.Type()), itemName, sf.Name(), shortType(it)))
			}
		}
	}
	r.Floor("R5", "selector types with a resolvable item type", nSel, 95)

	// R9
	fullOnly := map[string]bool{}
	nList := 0
	for _, fct := range sortedKeys(t.RegByFct) {
		T := t.RegByFct[fct]
		if _, _, _, ok := listItem(T); !ok {
			continue
		}
		st := T.Underlying().(*types.Struct)
		if st.NumFields() != 1 {
			continue
		}
		nList++
		if types.Implements(types.NewPointer(T), t.Updater) {
			r.Pass("R9", "fct:"+fct, "", shortType(T))
		} else {
			fullOnly[shortType(T)] = true
			r.Info("registered list type without Updater (full updates only): %s (%s)", shortType(T), fct)
		}
	}
	r.Stat("R9.list-shaped registered payload types", nList)
	r.Stat("R9.full-update-only list types", len(fullOnly))
}

// c02Engine: stage order and data flow of the generic engine model.UpdateList.
func c02Engine(p *Prog, r *Report) {
	r.Rule("R7", "in model.UpdateList the delete stage (fed by filterDelete.Data) is never executed after the selector stage (fed by filterPartial.Data) or the merge; selector stage and merge work on the output of the delete stage; the merged list is returned only through SortData")
	// pick one instantiation of the generic engine (all share the body)
	var fn *ssa.Function
	for _, f := range p.RepoFns("model") {
		if originName(f) == "UpdateList" && f.Signature.Recv() == nil {
			fn = f
			break
		}
	}
	if fn == nil {
		r.Undecided("R7", "anchor:model.UpdateList", "", "no instantiation of the generic engine found")
		return
	}
	p.InScope(fn, func() { c02EngineIn(p, r, fn) })
}

func c02EngineIn(p *Prog, r *Report, fn *ssa.Function) {
	key := "model.UpdateList"
	// classify calls by the filter whose Data() feeds them
	var delCalls, selCalls, mergeCalls, sortCalls []*ssa.Call
	filterOf := func(v ssa.Value) string {
		// v = extract (call (*FilterType).Data(param)) #0
		ex, ok := v.(*ssa.Extract)
		if !ok {
			return ""
		}
		call, ok := ex.Tuple.(*ssa.Call)
		if !ok || !staticCallee(&call.Call, repoMod+"/model", "FilterType", "Data") {
			return ""
		}
		return Path(call.Call.Args[0])
	}
	params := fn.Params
	if len(params) != 5 {
		r.Undecided("R7", key+"|signature", p.Pos(fn.Pos()), "five parameters expected")
		return
	}
	pPartial, pDelete := "param:"+params[3].Name(), "param:"+params[4].Name()
	forEachCall(fn, func(site ssa.CallInstruction) {
		call, ok := site.(*ssa.Call)
		if !ok {
			return
		}
		c := site.Common()
		if staticCallee(c, repoMod+"/model", "", "Merge") {
			mergeCalls = append(mergeCalls, call)
			return
		}
		if staticCallee(c, repoMod+"/model", "", "SortData") {
			sortCalls = append(sortCalls, call)
			return
		}
		for _, a := range c.Args {
			switch filterOf(a) {
			case pDelete:
				delCalls = append(delCalls, call)
			case pPartial:
				selCalls = append(selCalls, call)
			}
		}
	})
	pos := p.Pos(fn.Pos())
	if len(delCalls) != 1 || len(selCalls) != 1 || len(mergeCalls) != 1 || len(sortCalls) != 1 {
		r.Undecided("R7", key+"|stages", pos, fmt.Sprintf("expected one delete stage, one selector stage, one Merge and one SortData call, found %d/%d/%d/%d", len(delCalls), len(selCalls), len(mergeCalls), len(sortCalls)))
		return
	}
	del, sel, merge, srt := delCalls[0], selCalls[0], mergeCalls[0], sortCalls[0]
	// a stage called inside an extracted helper is represented by the helper's call in the engine;
	// the helper must hand the stage's result on
	inner := del
	flowsOut := true
	if l, isC := liftInScope(del).(*ssa.Call); isC && l != del {
		del = l
		flowsOut = false
		for _, b := range inner.Parent().Blocks {
			if ret, isRet := b.Instrs[len(b.Instrs)-1].(*ssa.Return); isRet && len(ret.Results) > 0 {
				for _, s := range p.Sources(ret.Results[0], false) {
					if s.Kind == "call" && s.Val == ssa.Value(inner) {
						flowsOut = true
					}
				}
			}
		}
	}
	if l, isC := liftInScope(sel).(*ssa.Call); isC {
		sel = l
	}
	if l, isC := liftInScope(merge).(*ssa.Call); isC {
		merge = l
	}
	if sel.Parent() != fn || del.Parent() != fn || merge.Parent() != fn || srt.Parent() != fn {
		r.Undecided("R7", key+"|stages", pos, "stage calls could not be related to the engine's control flow")
		return
	}
	r.Check("R7", key+"|order:delete-before-selector", !blockReaches(sel.Block(), del.Block()) && blockReaches(del.Block(), sel.Block()), p.InstrPos(del), "the delete stage is reachable before, never after, the selector stage")
	r.Check("R7", key+"|order:delete-before-merge", !blockReaches(merge.Block(), del.Block()) && blockReaches(del.Block(), merge.Block()), p.InstrPos(del), "the delete stage is reachable before, never after, the merge")
	// existing-data argument of selector stage and merge derives from the delete stage's result (and the parameter)
	feeds := func(call *ssa.Call) bool {
		for _, a := range call.Call.Args {
			for _, s := range p.Sources(a, false) {
				if s.Kind == "call" && s.Val == ssa.Value(del) {
					return true
				}
			}
		}
		return false
	}
	r.Check("R7", key+"|flow:delete->selector", feeds(sel) && flowsOut, p.InstrPos(sel), "the selector stage receives the list produced by the delete stage")
	r.Check("R7", key+"|flow:delete->merge", feeds(merge), p.InstrPos(merge), "the merge receives the list produced by the delete stage")
	// sort consumes merge result, and every return reachable from the merge returns the sort's result
	okSort := false
	for _, s := range p.Sources(srt.Call.Args[0], false) {
		if s.Kind == "call" && s.Val == ssa.Value(merge) {
			okSort = true
		}
	}
	okRet := true
	nRet := 0
	for _, b := range fn.Blocks {
		ret, ok := b.Instrs[len(b.Instrs)-1].(*ssa.Return)
		if !ok || !blockReaches(merge.Block(), b) {
			continue
		}
		nRet++
		if len(ret.Results) == 0 {
			okRet = false
			continue
		}
		viaSort := false
		for _, s := range p.Sources(ret.Results[0], false) {
			if s.Kind == "call" && s.Val == ssa.Value(srt) {
				viaSort = true
			} else {
				viaSort = false
				break
			}
		}
		if !viaSort {
			okRet = false
		}
	}
	r.Check("R7", key+"|flow:merge->sort->return", okSort && okRet && nRet > 0, p.InstrPos(srt), "SortData consumes the merged list and every return after the merge returns SortData's result")
}

// c02Store: in the function-data store a present filter never takes the replace path.
func c02Store(p *Prog, r *Report) {
	r.Rule("R10", "the comparator the merged list is sorted with is a lexicographic ascending order over the key values: smaller decides true, larger decides false, equal moves on to the next key, ties yield false (truth table over the three relations)")
	comparatorRule(p, r, "R10")
	mergeTruthTable(p, r, "R11")
	selectorTruthTable(p, r, "R12")
	hashKeyRule(p, r, "R13")
	deleteStageTable(p, r, "R14")
	r.Rule("R15", "the filters of a received command reach the store whatever its classifier (reply as well as notify and write): ProcessCmd extracts them from the command without a condition on the classifier and hands the feature exactly that pair (partial as partial, delete as delete)")
	c02FiltersExtracted(p, r, "R15")
	r.Rule("R16", "a partial update keeps what it does not mention: the helper that fills the replacement item from the existing one sets every valid, settable field that is nil in the update, on every path of its per-field iteration and whatever the field's kind (shared with C04-R4b)")
	c02CarryOver(p, r, "R16")
	singleApplicationRule(p, r, "R19")
	r.Rule("R17", "the stages of the generic UpdateList are chained: the list every stage returns flows into the next stage or the result, and every stage after the delete stage works on the list the delete stage left (shared with C04-R15) — a stage fed with the list as it was before the delete brings deleted items back; a stage whose result is dropped has no effect")
	engineStageResultsUsed(p, r, "R17")
	c02HandlersUseExtractedFilters(p, r, "R18")
	r.Rule("R8", "in FunctionData.UpdateData every store to the data field is either guarded by both filters being nil (replace path) or happens after the Updater.UpdateList call under its success (merge path)")
	var fns []*ssa.Function
	for _, f := range p.RepoFns("spine") {
		if originName(f) == "UpdateData" && f.Signature.Recv() != nil {
			if n := namedOf(f.Signature.Recv().Type()); n != nil && n.Obj().Name() == "FunctionData" {
				fns = append(fns, f)
			}
		}
	}
	if len(fns) == 0 {
		r.Undecided("R8", "anchor:spine.FunctionData.UpdateData", "", "method not found")
		return
	}
	upd := p.LookupIface("model", "Updater")
	nStores := 0
	for _, fn := range fns[:1] { // all instantiations share the body
		p.InScope(fn, func() {
			var updCall ssa.Instruction
			forEachCall(fn, func(site ssa.CallInstruction) {
				if calleeIsIfaceMethod(site.Common(), upd, "UpdateList") {
					updCall = site
				}
			})
			idx := 0
			for _, sf := range p.ScopeFns(fn) {
				for _, b := range sf.Blocks {
					for _, ins := range b.Instrs {
						st, ok := ins.(*ssa.Store)
						if !ok {
							continue
						}
						fa, ok := st.Addr.(*ssa.FieldAddr)
						if !ok || fieldOfAddr(fa) == nil || fieldOfAddr(fa).Name() != "data" {
							continue
						}
						nStores++
						idx++
						nilGuards := map[string]bool{}
						for _, g := range Guards(b) {
							if x, trueMeansNil, ok := nilTest(g.Cond); ok && trueMeansNil == g.Val {
								nilGuards[Path(x)] = true
							}
						}
						replace := nilGuards["param:filterPartial"] && nilGuards["param:filterDelete"]
						merge := updCall != nil && instrDominates(updCall, st)
						kind := "neither"
						if replace {
							kind = "replace path (both filters nil)"
						} else if merge {
							kind = "merge path (after UpdateList)"
						}
						r.Check("R8", fmt.Sprintf("spine.FunctionData.UpdateData|store#%d", idx), replace || merge, p.InstrPos(st), kind)
					}
				}
			}
		})
	}
	r.Floor("R8", "stores to FunctionData.data", nStores, 2)
}

// comparatorRule: the less function handed to the sort of the merged list is a
// lexicographic "<" over the key fields. Decided by a truth table: for each of
// the three relations between the two key values of one loop iteration the
// closure is simulated from the point where both values are known.
func comparatorRule(p *Prog, r *Report, rule string) {
	n := 0
	seen := map[*ssa.Function]bool{}
	for _, fn := range p.RepoFns("model") {
		if originName(fn) != "SortData" || seen[originOf(fn)] {
			continue
		}
		seen[originOf(fn)] = true
		var less *ssa.Function
		var lessParams []*ssa.Parameter
		forEachCall(fn, func(site ssa.CallInstruction) {
			callee := site.Common().StaticCallee()
			if callee == nil || fnPkgPath(callee) != "sort" || (callee.Name() != "Slice" && callee.Name() != "SliceStable") {
				return
			}
			if mc, ok := site.Common().Args[1].(*ssa.MakeClosure); ok {
				less, _ = mc.Fn.(*ssa.Function)
				// a method value ("sorter.less"): the closure is the synthetic bound-method wrapper, the comparator is
				// the method it calls; the method's last two parameters are i and j
				if less != nil && strings.HasSuffix(less.Name(), "$bound") {
					var target *ssa.Function
					forEachCallOwn(less, func(s2 ssa.CallInstruction) {
						if c := s2.Common().StaticCallee(); c != nil {
							target = c
						}
					})
					less = target
				}
			}
		})
		base := "model.SortData"
		if less != nil && len(less.Params) == 3 && less.Signature.Recv() != nil {
			// method comparator: analysed on (i, j)
			lessParams = less.Params[1:]
		} else if less != nil {
			lessParams = less.Params
		}
		if less == nil || len(lessParams) != 2 {
			r.Undecided(rule, base+"|less", p.Pos(fn.Pos()), "no sort.Slice call with a closure found")
			continue
		}
		n++
		ti, tj := forwardTaint(lessParams[0]), forwardTaint(lessParams[1])
		// comparisons of an i-side value with a j-side value
		type cmp struct {
			bo      *ssa.BinOp
			swapped bool
		}
		var cmps []cmp
		var vi, vj ssa.Value
		for _, b := range less.Blocks {
			for _, ins := range b.Instrs {
				bo, ok := ins.(*ssa.BinOp)
				if !ok {
					continue
				}
				switch bo.Op {
				case token.LSS, token.GTR, token.LEQ, token.GEQ, token.EQL, token.NEQ:
				default:
					continue
				}
				if _, isC := bo.X.(*ssa.Const); isC {
					continue
				}
				if _, isC := bo.Y.(*ssa.Const); isC {
					continue
				}
				if b, ok := bo.X.Type().Underlying().(*types.Basic); !ok || b.Info()&types.IsInteger == 0 {
					continue
				}
				switch {
				case ti[bo.X] && !tj[bo.X] && tj[bo.Y] && !ti[bo.Y]:
					cmps = append(cmps, cmp{bo, false})
					vi, vj = bo.X, bo.Y
				case tj[bo.X] && !ti[bo.X] && ti[bo.Y] && !tj[bo.Y]:
					cmps = append(cmps, cmp{bo, true})
					vi, vj = bo.Y, bo.X
				}
			}
		}
		if len(cmps) == 0 {
			r.Undecided(rule, base+"|comparisons", p.Pos(less.Pos()), "no comparison between a key value of item i and one of item j found")
			continue
		}
		// the pair of key values is the one compared by an ordered comparison; equality tests of other pairs
		// (field counts, kinds) are not part of the order
		vi, vj = nil, nil
		for _, c := range cmps {
			if c.bo.Op == token.EQL || c.bo.Op == token.NEQ {
				continue
			}
			x, y := c.bo.X, c.bo.Y
			if c.swapped {
				x, y = y, x
			}
			if vi == nil {
				vi, vj = x, y
			} else if x != vi || y != vj {
				r.Undecided(rule, base+"|comparisons", p.InstrPos(c.bo), "ordered comparisons of more than one pair of values")
				vi = nil
				break
			}
		}
		if vi == nil {
			if len(r.Obs) == 0 || true {
				r.Undecided(rule, base+"|comparisons", p.Pos(less.Pos()), "no ordered comparison between a key value of item i and one of item j found")
			}
			continue
		}
		var same []cmp
		for _, c := range cmps {
			x, y := c.bo.X, c.bo.Y
			if c.swapped {
				x, y = y, x
			}
			if x == vi && y == vj {
				same = append(same, c)
			}
		}
		cmps = same
		// start: the block that defines the later of the two values
		start := vi.(ssa.Instruction).Block()
		if vjb := vj.(ssa.Instruction).Block(); vjb != start && start.Dominates(vjb) {
			start = vjb
		}
		rel := func(c cmp, rho int) bool { // rho: -1 i<j, 0 equal, 1 i>j
			rr := rho
			if c.swapped {
				rr = -rho
			}
			switch c.bo.Op {
			case token.LSS:
				return rr < 0
			case token.GTR:
				return rr > 0
			case token.LEQ:
				return rr <= 0
			case token.GEQ:
				return rr >= 0
			case token.EQL:
				return rr == 0
			}
			return rr != 0
		}
		want := map[int]string{-1: "true", 0: "next-key", 1: "false"}
		names := map[int]string{-1: "key(i) < key(j)", 0: "key(i) = key(j)", 1: "key(i) > key(j)"}
		for _, rho := range []int{-1, 0, 1} {
			outcomes := map[string]bool{}
			seenB := map[*ssa.BasicBlock]bool{}
			var walk func(b *ssa.BasicBlock, first bool)
			walk = func(b *ssa.BasicBlock, first bool) {
				if !first && b != start && b.Dominates(start) {
					outcomes["next-key"] = true
					return
				}
				if seenB[b] {
					return
				}
				seenB[b] = true
				switch last := b.Instrs[len(b.Instrs)-1].(type) {
				case *ssa.Return:
					if v, ok := constBool(last.Results[0]); ok {
						outcomes[fmt.Sprint(v)] = true
					} else {
						rv, pol := normCond(last.Results[0], true)
						decided := false
						for _, c := range cmps {
							if ssa.Value(c.bo) == rv {
								outcomes[fmt.Sprint(rel(c, rho) == pol)] = true
								decided = true
							}
						}
						if !decided {
							outcomes["?"] = true
						}
					}
				case *ssa.If:
					cond, pol := normCond(last.Cond, true)
					for _, c := range cmps {
						if ssa.Value(c.bo) == cond {
							if rel(c, rho) == pol {
								walk(b.Succs[0], false)
							} else {
								walk(b.Succs[1], false)
							}
							return
						}
					}
					walk(b.Succs[0], false)
					walk(b.Succs[1], false)
				default:
					for _, s := range b.Succs {
						walk(s, false)
					}
				}
			}
			walk(start, true)
			got := strings.Join(sortedKeys(outcomes), "|")
			r.Check(rule, fmt.Sprintf("%s|less|%s", base, names[rho]), got == want[rho], p.InstrPos(cmps[0].bo), fmt.Sprintf("with %s the comparator does: %s (a lexicographic ascending order needs: %s)", names[rho], got, want[rho]))
		}
		// irreflexivity / ties: true is returned only by the comparison itself
		okTrue := true
		for _, b := range less.Blocks {
			if ret, ok := b.Instrs[len(b.Instrs)-1].(*ssa.Return); ok {
				if v, isC := constBool(ret.Results[0]); !isC || v {
					if !(start.Dominates(b)) {
						okTrue = false
					}
				}
			}
		}
		r.Check(rule, base+"|less|ties", okTrue, p.Pos(less.Pos()), "every return that can yield true is dominated by the comparison of the key values (equal keys and incomparable items yield false)")
	}
	r.Floor(rule, "sort comparators", n, 1)
}

// c02FiltersExtracted: the restricted-exchange filters of a received command
// reach the store whatever the classifier: in ProcessCmd the filters are
// extracted from the command unconditionally with respect to the classifier, and
// the message handed to the feature carries exactly the extracted pair.
func c02FiltersExtracted(p *Prog, r *Report, rule string) {
	ib := newInbound(p)
	if ib.processCmd == nil {
		r.Undecided(rule, "anchor:ProcessCmd", "", "inbound dispatcher not found")
		return
	}
	fn := ib.processCmd
	n := 0
	p.InScope(fn, func() {
		forEachCall(fn, func(site ssa.CallInstruction) {
			c, ok := site.(*ssa.Call)
			if !ok || !staticCallee(&c.Call, repoMod+"/model", "CmdType", "ExtractFilter") {
				return
			}
			n++
			bad := ""
			for _, g := range Guards(c.Block()) {
				var ops []ssa.Value
				if bo, isB := g.Cond.(*ssa.BinOp); isB {
					if x, _, isNil := nilTest(bo); isNil {
						// the filters restrict the payload whether or not the optional function element names it again:
						// without them a partial or delete command is executed as a full replacement
						if strings.HasSuffix(Path(x), ".Function") {
							bad = "the extraction is conditioned on the command's optional function element (" + guardDesc([]Guard{g}) + ")"
						}
						continue // "a classifier is present at all" is no distinction between classifiers
					}
					ops = []ssa.Value{bo.X, bo.Y}
				}
				for _, o := range ops {
					if isNamed(o.Type(), "model", "CmdClassifierType") {
						bad = "the extraction is conditioned on the classifier (" + guardDesc([]Guard{g}) + ")"
					}
				}
			}
			// reachable for every classifier whose handler consumes the filters
			for _, cls := range []string{"reply", "notify", "write"} {
				reach := reachableUnder(c.Parent(), c, func(cond ssa.Value) (bool, bool) {
					bo, isB := cond.(*ssa.BinOp)
					if !isB || (bo.Op != token.EQL && bo.Op != token.NEQ) {
						return false, false
					}
					x, y := bo.X, bo.Y
					if _, isK := constString(x); isK {
						x, y = y, x
					}
					s, isK := constString(y)
					if !isK || !isNamed(x.Type(), "model", "CmdClassifierType") {
						return false, false
					}
					return true, (s == cls) == (bo.Op == token.EQL)
				})
				if !reach {
					bad = "the filters of a " + cls + " are not extracted"
				}
			}
			// the message given to the handler carries the extracted filters
			wired := map[string]bool{}
			if c.Referrers() != nil {
				for _, ref := range *c.Referrers() {
					ex, isEx := ref.(*ssa.Extract)
					if !isEx {
						continue
					}
					t := forwardTaint(ex)
					// values handed to an extracted helper continue in its parameters
					for round := 0; round < 2; round++ {
						var more []ssa.Value
						for _, sf := range p.ScopeFns(fn) {
							forEachCallOwn(sf, func(site ssa.CallInstruction) {
								h := site.Common().StaticCallee()
								if h == nil || h.Blocks == nil || !p.helperCandidate(h) {
									return
								}
								for ai, a := range argsWithRecv(site.Common()) {
									if t[a] && ai < len(h.Params) && !t[h.Params[ai]] {
										more = append(more, h.Params[ai])
									}
								}
							})
						}
						if len(more) == 0 {
							break
						}
						for v := range forwardTaint(more...) {
							t[v] = true
						}
					}
					for _, sf := range p.ScopeFns(fn) {
						for _, b := range sf.Blocks {
							for _, ins := range b.Instrs {
								st, isSt := ins.(*ssa.Store)
								if !isSt || !t[st.Val] {
									continue
								}
								if fa, isFA := st.Addr.(*ssa.FieldAddr); isFA && fieldOfAddr(fa) != nil && isNamed(derefType(fa.X.Type()), "api", "Message") {
									wired[fmt.Sprintf("%d->%s", ex.Index, fieldOfAddr(fa).Name())] = true
								}
							}
						}
					}
				}
			}
			okWire := wired["0->FilterPartial"] && wired["1->FilterDelete"] && len(wired) == 2
			r.Check(rule, FnName(fn)+"|filters-extracted", bad == "" && okWire, p.InstrPos(c), fmt.Sprintf("%s; extracted pair stored as %v (required: result 0 as FilterPartial, result 1 as FilterDelete)", orStr(bad, "extraction independent of the classifier"), sortedKeys(wired)))
		})
	})
	r.Floor(rule, "filter extractions in ProcessCmd", n, 1)
}

// c02CarryOver: a partial update keeps what it does not mention — the helper that
// fills the replacement item from the existing one sets every valid, settable
// field that is nil in the update, on every path of its per-field iteration and
// whatever the field's kind (shared with C04-R4b).
func c02CarryOver(p *Prog, r *Report, rule string) {
	o := BuildOwnership(p, "model", "spine", "util")
	n := 0
	seen := map[*ssa.Function]bool{}
	for _, fn := range p.RepoFns("model") {
		og := originOf(fn)
		if seen[og] || !reflectiveWriter(o, fn) || !usesWriteCheckTag(fn) || remoteWriteParam(fn) == nil {
			continue
		}
		seen[og] = true
		var setCall *ssa.Call
		t := o.reflectTaint(fn)
		forEachCall(fn, func(site ssa.CallInstruction) {
			if c, ok := site.(*ssa.Call); ok {
				if callee := c.Call.StaticCallee(); callee != nil && fnPkgPath(callee) == "reflect" && callee.Name() == "Set" {
					if _, ok := t[c.Call.Args[0]]; ok {
						setCall = c
					}
				}
			}
		})
		if setCall == nil {
			r.Undecided(rule, FnName(og)+"|set", p.Pos(fn.Pos()), "reflective Set not found")
			continue
		}
		n++
		esc := mustPassInIteration(setCall, func(c ssa.Value) (bool, bool) {
			if x, ok := c.(*ssa.Call); ok {
				if callee := x.Call.StaticCallee(); callee != nil && fnPkgPath(callee) == "reflect" {
					switch callee.Name() {
					case "IsValid", "CanSet", "IsNil":
						return true, true
					}
				}
			}
			return false, false
		})
		r.Check(rule, FnName(og)+"|carries-over-unmentioned-fields", esc == "", p.InstrPos(setCall), "a valid, settable field that is nil in the update is filled from the existing item on every path of the iteration, whatever its kind (pointer, list, map); "+esc)
	}
	r.Floor(rule, "tag-aware mutators", n, 1)
}

// c02HandlersUseExtractedFilters: the handlers below the dispatcher apply an update with the filter pair the
// dispatcher extracted and put into the message (Message.FilterPartial / Message.FilterDelete) — not with filters they
// read again from the command (the command's own filter list is not part of the contract between dispatcher and
// handler: once one side clears it or the other re-reads it, a partial reply replaces the replicated data).
func c02HandlersUseExtractedFilters(p *Prog, r *Report, rule string) {
	r.Rule(rule, "reply, notify and write handlers hand the store the filter pair of the message (Message.FilterPartial, Message.FilterDelete) that the dispatcher extracted; none of them re-reads filters from the command")
	fri := p.LookupIface("api", "FeatureRemoteInterface")
	fli := p.LookupIface("api", "FeatureLocalInterface")
	if fri == nil || fli == nil {
		r.Undecided(rule, "anchor:api interfaces", "", "interface not found")
		return
	}
	n := 0
	for _, root := range p.ImplsOf(fli, "HandleMessage") {
		if isWrapper(root) || root.Blocks == nil {
			continue
		}
		// everything the handler reaches synchronously inside package spine, a few calls deep
		seen := map[*ssa.Function]bool{}
		var visit func(fn *ssa.Function, d int)
		visit = func(fn *ssa.Function, d int) {
			if seen[fn] || d > 4 || fn.Blocks == nil || !p.IsRepoFn(fn) || fnPkgPath(fn) != repoMod+"/spine" {
				return
			}
			seen[fn] = true
			forEachCallOwn(fn, func(site ssa.CallInstruction) {
				c, ok := site.(*ssa.Call)
				if !ok {
					return
				}
				if calleeIsIfaceMethod(&c.Call, fri, "UpdateData") {
					args := callArgs(&c.Call)
					if len(args) == 5 {
						n++
						// a filter that arrives as a parameter of the handler's helper: what its callers pass
						through := func(v ssa.Value, suffix string) (string, bool) {
							par, isPar := v.(*ssa.Parameter)
							if !isPar {
								pth := Path(substParam(v))
								return pth, strings.HasSuffix(pth, suffix) || isNilConst(v)
							}
							idx := -1
							for i, q := range par.Parent().Params {
								if q == par {
									idx = i
								}
							}
							all, desc := true, ""
							callers := p.Callers(par.Parent())
							nReal := 0
							for _, cs := range callers {
								if isWrapper(cs.Parent()) {
									continue // a promoted-method wrapper hands its own parameters through
								}
								nReal++
								as := argsWithRecv(cs.Common())
								if idx < 0 || idx >= len(as) {
									all = false
									continue
								}
								pth := Path(as[idx])
								desc += pth + " "
								if !strings.HasSuffix(pth, suffix) && !isNilConst(as[idx]) {
									all = false
								}
							}
							return "param <- " + strings.TrimSpace(desc), all && nReal > 0
						}
						fp, okP := through(args[3], ".FilterPartial")
						fd, okD := through(args[4], ".FilterDelete")
						ok := okP && okD
						r.Check(rule, fmt.Sprintf("%s|update-filters#%d", FnName(fn), n), ok, p.InstrPos(c), fmt.Sprintf("the cache update is called with (%s, %s)", fp, fd))
					}
				}
				if cal := c.Call.StaticCallee(); cal != nil && staticCallee(&c.Call, repoMod+"/model", "CmdType", "ExtractFilter") {
					r.Fail(rule, FnName(fn)+"|re-extracts", p.InstrPos(c), "a handler reads the filters from the command again instead of using the pair of the message")
				}
				for _, callee := range p.Callees(c) {
					visit(callee, d+1)
				}
			})
		}
		visit(root, 0)
	}
	r.Floor(rule, "cache updates below the handlers", n, 2)
}
