package main

import (
	"fmt"
	"go/token"
	"go/types"
	"strings"

	"golang.org/x/tools/go/ssa"
)

func init() {
	register("C13", true,
		"Lockset and atomic-consistency rules on the sender (counter only through sync/atomic and 8-aligned also under 32-bit sizes; no mutating cache call under a read lock; hash look-up, transmission and cache insertion of Request in one critical section of a lock held at every insertion site), provenance rules (every header builder draws its MsgCounter from its own call of the atomic counter function; the request hash covers destination and command; Notify caches exactly the datagram it transmits under its counter), dominance rules (Notify caches before transmitting; the request is cached only on the transmit-succeeded edge; the insertion is preceded by a bounded eviction; the inbound path clears the reference before processing), who-may-send rule. Decided: the mechanisms behind counter uniqueness and request de-duplication. Not decided: counter order beyond 'atomic increment', LRU retention of exactly the last 100, hash collisions.",
		checkC13)
}

func checkC13(p *Prog, r *Report) {
	ib := newInbound(p)
	ls := BuildLockset(p, "spine", "model")
	r.Rule("R1", "the message counter is accessed only through sync/atomic")
	for _, v := range guardTable(ls) {
		if v.Key != F("Sender.msgNum") {
			continue
		}
		r.Check("R1", "field:Sender.msgNum", v.Atomic && len(v.Deviants) == 0, "", fmt.Sprintf("%d accesses, atomic=%v, non-atomic accesses=%d", v.NAcc, v.Atomic, len(v.Deviants)))
	}
	if len(ls.Accesses[F("Sender.msgNum")]) == 0 {
		r.Undecided("R1", "field:Sender.msgNum", "", "no access to the counter field found")
	}
	r.Rule("R2", "every header builder of the sender obtains its MsgCounter from its own call of the counter function (an atomic add on the counter), one call per datagram")
	c13Builders(p, ib, r)
	r.Rule("R3", "only the sender writes to the SHIP connection")
	c13WhoMaySend(p, ib, r)
	r.Rule("R4", "Notify stores (its counter, its datagram) in the notify cache before transmitting that datagram; the cache capacity is a constant of at least 100")
	c13Notify(p, ib, ls, r)
	r.Rule("R5", "no mutating call on the notify cache and no write to the request cache happens while only a read lock is held")
	c13RWMode(p, ls, r)
	r.Rule("R6", "in Request the look-up of an unanswered identical request, the transmission and the cache insertion share one critical section of a lock held at every insertion site; the insertion happens only on the transmit-succeeded edge")
	absenceThenInsert(p, ls, r, "R6", F("Sender.reqMsgCache"), true, 1)
	c13Request(p, ib, ls, r)
	r.Rule("R7", "the insertion into the request cache is preceded by an eviction guarded by a constant bound; every inbound message with a msgCounterReference clears it from the cache before the command is processed")
	c13Bounded(p, ib, ls, r)
	r.Rule("R8", "the request hash is computed from the destination address and the command, and both reach the digest")
	c13Hash(p, ib, r)
	r.Rule("R9", "64-bit fields accessed atomically are 8-byte aligned under 32-bit (GOARCH=386) struct layout")
	c13Alignment(p, ls, r)
	// a response re-enables sending only if it is decoded: the custom decoders of the data model add no rejection of their own
	customDecoderRejectsOnlySyntax(p, r, "R10")
	r.Assumes("the LRU cache library keeps its documented capacity", "sha256 is collision free for the purposes of de-duplication")
}

func isSenderFn(ib *inbound, fn *ssa.Function) bool {
	for f := fn; f != nil; f = f.Parent() {
		if f.Signature.Recv() != nil && implementsIface(f.Signature.Recv().Type(), ib.sender) {
			return true
		}
	}
	return false
}

// counterCall: v is the result of a call to a function all of whose returns
// derive from atomic.Add*(&recv.msgNum); returns the call.
func counterCall(p *Prog, v ssa.Value) *ssa.Call {
	for d := 0; d < 4; d++ {
		switch x := v.(type) {
		case *ssa.Call:
			c := x.Call.StaticCallee()
			if c == nil || c.Blocks == nil {
				return nil
			}
			// the callee increments the sender's counter atomically (sync/atomic.AddUint64 on the field, or the Add
			// method of a typed atomic field) and every value it returns derives from that increment
			var add *ssa.Call
			forEachCallOwn(c, func(site ssa.CallInstruction) {
				ac, isCall := site.(*ssa.Call)
				if !isCall {
					return
				}
				f := ac.Call.StaticCallee()
				if f == nil || fnPkgPath(f) != "sync/atomic" || !strings.HasPrefix(f.Name(), "Add") || len(ac.Call.Args) == 0 {
					return
				}
				if strings.HasSuffix(Path(ac.Call.Args[0]), "."+FN("Sender.msgNum")) {
					add = ac
				}
			})
			ok := add != nil
			if add != nil {
				t := forwardTaint(add)
				// the issued value is the incremented counter itself: arithmetic on it (a modulus, a mask, a
				// shift) maps distinct counter values to one message counter
				for _, b := range c.Blocks {
					for _, ins := range b.Instrs {
						if bo, isBO := ins.(*ssa.BinOp); isBO && (t[bo.X] || t[bo.Y]) {
							switch bo.Op {
							case token.REM, token.AND, token.SHR, token.QUO, token.AND_NOT, token.SUB, token.OR, token.XOR, token.MUL, token.SHL:
								ok = false
							}
						}
					}
				}
				for _, b := range c.Blocks {
					ret, isRet := b.Instrs[len(b.Instrs)-1].(*ssa.Return)
					if !isRet || len(ret.Results) != 1 {
						continue
					}
					if !t[ret.Results[0]] {
						ok = false
					}
				}
			}
			if ok {
				return x
			}
			return nil
		case *ssa.UnOp:
			if a, isA := x.X.(*ssa.Alloc); isA {
				if s := singleStore(a); s != nil {
					v = s
					continue
				}
			}
			return nil
		default:
			return nil
		}
	}
	return nil
}

func c13Builders(p *Prog, ib *inbound, r *Report) {
	n := 0
	for _, fn := range p.RepoFns("spine") {
		if !isSenderFn(ib, fn) {
			continue
		}
		calls := map[*ssa.Call]int{}
		nHdr := 0
		ok := true
		pos := ""
		for _, b := range fn.Blocks {
			for _, ins := range b.Instrs {
				st, isSt := ins.(*ssa.Store)
				if !isSt {
					continue
				}
				fa, isFA := st.Addr.(*ssa.FieldAddr)
				if !isFA || fieldOfAddr(fa) == nil || fieldOfAddr(fa).Name() != "MsgCounter" || !isNamed(fa.X.Type(), "model", "HeaderType") {
					continue
				}
				nHdr++
				pos = p.InstrPos(st)
				c := counterCall(p, st.Val)
				if c == nil || c.Parent() != fn {
					ok = false
				} else {
					calls[c]++
				}
			}
		}
		if nHdr == 0 {
			continue
		}
		n++
		for _, k := range calls {
			if k != 1 {
				ok = false
			}
		}
		r.Check("R2", FnName(fn), ok && len(calls) == nHdr, pos, fmt.Sprintf("%d headers built, %d own counter calls", nHdr, len(calls)))
	}
	r.Floor("R2", "header builders", n, 3)
}

func c13WhoMaySend(p *Prog, ib *inbound, r *Report) {
	n, ok := 0, true
	where := ""
	for _, fn := range p.RepoFns("spine", "model", "api", "util") {
		forEachCall(fn, func(site ssa.CallInstruction) {
			c := site.Common()
			if c.IsInvoke() && c.Method.Name() == "WriteShipMessageWithPayload" {
				n++
				if !isSenderFn(ib, fn) {
					ok = false
					where = FnName(fn) + " at " + p.InstrPos(site)
				}
			}
		})
	}
	r.Check("R3", "ship-writer", ok && n >= 1, "", fmt.Sprintf("%d call sites of the SHIP writer, all inside the sender %s", n, where))
}

// reachesShipWrite: the call (transitively, static callees inside the sender) invokes the SHIP writer.
func reachesShipWrite(p *Prog, fn *ssa.Function, depth int, seen map[*ssa.Function]bool) bool {
	if fn == nil || fn.Blocks == nil || seen[fn] || depth > 5 {
		return false
	}
	seen[fn] = true
	res := false
	forEachCall(fn, func(site ssa.CallInstruction) {
		c := site.Common()
		if c.IsInvoke() && c.Method.Name() == "WriteShipMessageWithPayload" {
			res = true
			return
		}
		if callee := c.StaticCallee(); callee != nil && p.IsRepoFn(callee) && reachesShipWrite(p, callee, depth+1, seen) {
			res = true
		}
	})
	return res
}

func transmitCalls(p *Prog, fn *ssa.Function) []*ssa.Call {
	var res []*ssa.Call
	forEachCall(fn, func(site ssa.CallInstruction) {
		c, ok := site.(*ssa.Call)
		if !ok {
			return
		}
		if callee := c.Call.StaticCallee(); callee != nil && p.IsRepoFn(callee) && reachesShipWrite(p, callee, 0, map[*ssa.Function]bool{}) {
			res = append(res, c)
		}
	})
	return res
}

func c13Notify(p *Prog, ib *inbound, ls *Lockset, r *Report) {
	impls := p.ImplsOf(ib.sender, "Notify")
	if len(impls) != 1 {
		r.Undecided("R4", "anchor:Notify", "", "implementation not found")
		return
	}
	fn := impls[0]
	p.InScope(fn, func() { c13NotifyBody(p, ib, ls, r, fn) })
}

func c13NotifyBody(p *Prog, ib *inbound, ls *Lockset, r *Report, fn *ssa.Function) {
	base := FnName(fn)
	var put *ssa.Call
	for _, a := range ls.accessesInScope(F("Sender.datagramNotifyCache"), fn) {
		if a.Kind == "CW" {
			put, _ = a.Ins.(*ssa.Call)
		}
	}
	tx := transmitCalls(p, fn)
	if put == nil || len(tx) != 1 {
		r.Undecided("R4", base+"|shape", p.Pos(fn.Pos()), fmt.Sprintf("cache store found=%v, transmit calls=%d", put != nil, len(tx)))
		return
	}
	r.Check("R4", base+"|order", instrDominates(put, tx[0]), p.InstrPos(put), "the datagram is cached before it is transmitted")
	// key and value
	args := put.Call.Args[1:]
	okKV := false
	detail := ""
	if len(args) == 2 {
		keyCall := counterCall(p, derefValue(substParam(args[0])))
		// the header's counter
		var hdrCall *ssa.Call
		for _, b := range fn.Blocks {
			for _, ins := range b.Instrs {
				if st, ok := ins.(*ssa.Store); ok {
					if fa, ok := st.Addr.(*ssa.FieldAddr); ok && fieldOfAddr(fa) != nil && fieldOfAddr(fa).Name() == "MsgCounter" && isNamed(fa.X.Type(), "model", "HeaderType") {
						hdrCall = counterCall(p, st.Val)
					}
				}
			}
		}
		sameDatagram := Path(args[1]) == Path(tx[0].Call.Args[len(tx[0].Call.Args)-1])
		if !sameDatagram {
			// the cached value may be a by-value copy handed to an extracted helper
			sameDatagram = Path(substParam(args[1])) == Path(tx[0].Call.Args[len(tx[0].Call.Args)-1])
		}
		okKV = keyCall != nil && keyCall == hdrCall && sameDatagram
		detail = fmt.Sprintf("key is the header's counter: %v; cached value %s, transmitted %s", keyCall != nil && keyCall == hdrCall, Path(args[1]), Path(tx[0].Call.Args[len(tx[0].Call.Args)-1]))
	}
	r.Check("R4", base+"|key-value", okKV, p.InstrPos(put), detail)
	// capacity
	okCap := false
	capDesc := ""
	for _, f2 := range p.RepoFns("spine") {
		forEachCall(f2, func(site ssa.CallInstruction) {
			c := site.Common().StaticCallee()
			if c == nil || !strings.HasSuffix(fnPkgPath(c), "/lrucache") || originName(c) != "New" {
				return
			}
			if k, ok := constInt(site.Common().Args[0]); ok {
				capDesc = fmt.Sprintf("%d in %s", k, FnName(f2))
				okCap = k >= 100
			}
		})
	}
	r.Check("R4", "capacity", okCap, "", "notify cache capacity "+capDesc)
}

func derefValue(v ssa.Value) ssa.Value {
	if u, ok := v.(*ssa.UnOp); ok && u.Op == token.MUL {
		return u.X
	}
	return v
}

func c13RWMode(p *Prog, ls *Lockset, r *Report) {
	n := 0
	for _, key := range []string{F("Sender.datagramNotifyCache"), F("Sender.reqMsgCache")} {
		for _, a := range ls.Accesses[key] {
			if a.Ctor {
				continue
			}
			n++
			readOnly := false
			for _, h := range a.heldOnSameObject() {
				if h.Read {
					readOnly = true
				}
			}
			anyWriteLock := false
			for _, h := range a.heldOnSameObject() {
				if !h.Read {
					anyWriteLock = true
				}
			}
			k := fmt.Sprintf("field:%s|fn:%s|%s", key, FnName(originOf(a.Fn)), a.Kind)
			if a.Write() {
				// a write needs some lock of the sender held in write mode that is the field's guard (C17 names it); here: not only read locks
				r.Check("R5", k, !(readOnly && !lockIsGuardInWriteMode(ls, key, a)), p.InstrPos(a.Ins), fmt.Sprintf("%s access with locks %s", a.Kind, a.Locks))
			} else {
				r.Pass("R5", k, p.InstrPos(a.Ins), fmt.Sprintf("%s access with locks %s", a.Kind, a.Locks))
			}
			_ = anyWriteLock
		}
	}
	if n < 8 {
		r.Undecided("R5", "floor:cache accesses", "", fmt.Sprintf("%d accesses to the two caches found", n))
	}
}

// lockIsGuardInWriteMode: the lock conventionally guarding the cache (mux*Cache) is held in write mode.
func lockIsGuardInWriteMode(ls *Lockset, key string, a Access) bool {
	g := guardOfField(ls, key)
	for name, h := range a.heldOnSameObject() {
		if g != "" && name == g && !h.Read {
			return true
		}
	}
	return false
}

func c13Request(p *Prog, ib *inbound, ls *Lockset, r *Report) {
	impls := p.ImplsOf(ib.sender, "Request")
	if len(impls) != 1 {
		r.Undecided("R6", "anchor:Request", "", "implementation not found")
		return
	}
	fn := impls[0]
	base := FnName(fn)
	ff := ls.Facts(F("Sender.reqMsgCache"))
	ips := ff.insertPoints(fn)
	rps := ff.readPoints(fn)
	tx := transmitCalls(p, fn)
	if len(ips) != 1 || len(rps) == 0 || len(tx) != 1 {
		r.Undecided("R6", base+"|shape", p.Pos(fn.Pos()), fmt.Sprintf("insertion points=%d look-ups=%d transmit calls=%d", len(ips), len(rps), len(tx)))
		return
	}
	ins := ips[0].Ins
	// transmit inside the same section as look-up and insertion
	sec := ls.CommonSections(rps[0].Ins, ins)
	inSec := false
	for _, lp := range sec {
		if ls.SameSection(rps[0].Ins, tx[0], lp) && ls.SameSection(tx[0], ins, lp) {
			inSec = true
		}
	}
	r.Check("R6", base+"|transmit-in-section", inSec, p.InstrPos(tx[0]), fmt.Sprintf("look-up, transmission and insertion share a critical section of %v", sec))
	// insertion only if the transmission returned nil
	okEdge := false
	for _, g := range Guards(ins.Block()) {
		if x, trueNil, ok := nilTest(g.Cond); ok && trueNil == g.Val && x == ssa.Value(tx[0]) {
			okEdge = true
		}
	}
	r.Check("R6", base+"|insert-on-success", okEdge && instrDominates(tx[0], ins), p.InstrPos(ins), "the request is cached only after the transmission returned no error")
	// a cached request is returned without transmitting: the transmit call is not reachable on the hit edge
	okHit := false
	for _, rp := range rps {
		if rp.Val == nil {
			continue
		}
		t := forwardTaint(rp.Val)
		if len(divertingIfs(fn, t, tx[0])) > 0 {
			okHit = true
		}
	}
	r.Check("R6", base+"|hit-withholds", okHit, p.InstrPos(tx[0]), "a cache hit diverts control away from the transmission")
}

func c13Bounded(p *Prog, ib *inbound, ls *Lockset, r *Report) {
	ff := ls.Facts(F("Sender.reqMsgCache"))
	for _, a0 := range ff.insAcc {
		a := a0
		fn := a.Fn
		p.InScope(fn, func() {
			okEvict := false
			desc := ""
			for _, d := range ls.accessesInScope(F("Sender.reqMsgCache"), fn) {
				call, ok := d.Ins.(*ssa.Call)
				if !ok || builtinName(&call.Call) != "delete" {
					continue
				}
				// guarded by len(cache) > const
				for _, g := range Guards(call.Block()) {
					bo, ok := g.Cond.(*ssa.BinOp)
					if !ok || !g.Val || (bo.Op != token.GTR && bo.Op != token.GEQ) {
						continue
					}
					lc, ok := bo.X.(*ssa.Call)
					k, isK := constInt(bo.Y)
					if ok && isK && builtinName(&lc.Call) == "len" && loadsField(lc.Call.Args[0], a.Field) && k <= 1000 {
						lc2 := liftInScope(call)
						okEvict = blockReaches(lc2.Block(), a.Ins.Block()) && !blockReaches(a.Ins.Block(), lc2.Block())
						desc = fmt.Sprintf("eviction when more than %d entries", k)
						// the bound test is the only thing deciding the eviction: any other condition (other than a
						// length test of the candidate list) lets the cache grow past the bound
						for _, g2 := range Guards(call.Block()) {
							if g2.Cond == g.Cond {
								continue
							}
							if ex, isEx := g2.Cond.(*ssa.Extract); isEx {
								if _, isNext := ex.Tuple.(*ssa.Next); isNext {
									continue // the loop collecting the keys has run to its end
								}
							}
							if bo2, isB := g2.Cond.(*ssa.BinOp); isB {
								if ph, isPh := bo2.X.(*ssa.Phi); isPh && isInductionPhi(ph) {
									continue // ... or a counting loop has
								}
								if bo3, isB3 := bo2.X.(*ssa.BinOp); isB3 {
									if ph, isPh := bo3.X.(*ssa.Phi); isPh && isInductionPhi(ph) {
										continue
									}
								}
								if lc3, isC := bo2.X.(*ssa.Call); isC && builtinName(&lc3.Call) == "len" {
									// "the candidate list is not empty" (before indexing it) is the only other test allowed
									if k2, isK2 := constInt(bo2.Y); isK2 && !loadsField(lc3.Call.Args[0], a.Field) {
										nonEmpty := (bo2.Op == token.GTR && k2 == 0 && g2.Val) || (bo2.Op == token.NEQ && k2 == 0 && g2.Val) || (bo2.Op == token.GEQ && k2 == 1 && g2.Val) ||
											(bo2.Op == token.EQL && k2 == 0 && !g2.Val) || (bo2.Op == token.LSS && k2 == 1 && !g2.Val) || (bo2.Op == token.LEQ && k2 == 0 && !g2.Val)
										if _, isSl := lc3.Call.Args[0].Type().Underlying().(*types.Slice); isSl && nonEmpty {
											continue
										}
									}
								}
							}
							okEvict = false
							desc += "; the eviction also depends on another condition (" + Path(g2.Cond) + "): when it does not hold the cache grows past the bound"
						}
						// the candidate list is built by appending to an empty slice: a slice made with a length is
						// zero-filled, appended keys come after the zeros, and the 'oldest' key found is the zero value
						for _, b3 := range call.Parent().Blocks {
							for _, i3 := range b3.Instrs {
								if mk, isMk := i3.(*ssa.MakeSlice); isMk && zeroFilledThenAppended(mk) {
									okEvict = false
									desc += "; the candidate list is made with a non-zero length and then appended to (" + p.InstrPos(mk) + "): its first elements are zero values, not keys of the cache"
								}
							}
						}
						// the evicted key is one of the cache's own keys (found by iterating the cache): only then does
						// every eviction remove an entry, whatever the history of counters was
						fromKeys := false
						for _, b2 := range call.Parent().Blocks {
							for _, i2 := range b2.Instrs {
								if rg, isR := i2.(*ssa.Range); isR && loadsField(rg.X, a.Field) {
									if forwardTaint(rg)[call.Call.Args[1]] {
										fromKeys = true
									}
								}
							}
						}
						if !fromKeys {
							okEvict = false
							desc += "; the evicted key (" + Path(call.Call.Args[1]) + ") is computed, not taken from the keys present in the cache, so the eviction may remove nothing and the cache grows without bound"
						}
					}
				}
			}
			r.Check("R7", fmt.Sprintf("fn:%s|bounded", FnName(originOf(fn))), okEvict, p.InstrPos(a.Ins), "the insertion is preceded by an eviction under a constant bound: "+desc)
		})
	}
	// inbound: reference cleared before the command is processed
	dri := p.LookupIface("api", "DeviceRemoteInterface")
	if dri == nil {
		r.Undecided("R7", "anchor:api.DeviceRemoteInterface", "", "interface not found")
		return
	}
	for _, fn := range p.ImplsOf(dri, "HandleSpineMesssage") {
		var clear, process *ssa.Call
		forEachCall(fn, func(site ssa.CallInstruction) {
			c, ok := site.(*ssa.Call)
			if !ok {
				return
			}
			if calleeIsIfaceMethod(&c.Call, ib.sender, "ProcessResponseForMsgCounterReference") {
				clear = c
			}
			if calleeIsIfaceMethod(&c.Call, ib.devLocal, "ProcessCmd") {
				process = c
			}
		})
		base := FnName(fn)
		if clear == nil || process == nil {
			r.Fail("R7", base+"|clears-reference", p.Pos(fn.Pos()), fmt.Sprintf("clear call found=%v, ProcessCmd call found=%v", clear != nil, process != nil))
			continue
		}
		okArg := strings.HasSuffix(Path(callArgs(&clear.Call)[0]), ".Header.MsgCounterReference")
		okOrder := blockReaches(clear.Block(), process.Block()) && !blockReaches(process.Block(), clear.Block())
		// the only condition on the clear call is the nil test of the reference itself
		okGuard := true
		for _, g := range Guards(clear.Block()) {
			x, _, isNil := nilTest(g.Cond)
			if isNil && strings.HasSuffix(Path(x), ".Header.MsgCounterReference") {
				continue
			}
			if isNil && strings.Contains(Path(x), "Unmarshal") {
				continue // decode error test
			}
			okGuard = false
		}
		// and it is on the same device's sender
		okSender := strings.HasPrefix(Path(clear.Call.Value), "recv.")
		r.Check("R7", base+"|clears-reference", okArg && okOrder && okGuard && okSender, p.InstrPos(clear), fmt.Sprintf("argument %s on %s; before ProcessCmd=%v; only guarded by its own nil test=%v", Path(callArgs(&clear.Call)[0]), Path(clear.Call.Value), okOrder, okGuard))
	}
	// the clear operation deletes exactly the referenced counter
	for _, fn := range p.ImplsOf(ib.sender, "ProcessResponseForMsgCounterReference") {
		ok := false
		for _, d := range ls.accessesIn(F("Sender.reqMsgCache"), fn) {
			if call, isCall := d.Ins.(*ssa.Call); isCall && builtinName(&call.Call) == "delete" {
				ok = strings.HasPrefix(Path(call.Call.Args[1]), "param:")
			}
		}
		r.Check("R7", FnName(fn)+"|deletes-reference", ok, p.Pos(fn.Pos()), "the referenced counter is deleted from the request cache")
		// ... and it does so exactly when a reference is given and cached (truth table over the two atoms)
		var del *ssa.Call
		for _, d := range ls.accessesIn(F("Sender.reqMsgCache"), fn) {
			if call, isCall := d.Ins.(*ssa.Call); isCall && builtinName(&call.Call) == "delete" {
				del = call
			}
		}
		if del != nil {
			bad := ""
			for m := 0; m < 4; m++ {
				given, cached := m&1 != 0, m&2 != 0
				atom := func(c ssa.Value) (bool, bool) {
					if x, trueNil, isNil := nilTest(c); isNil {
						if _, isP := x.(*ssa.Parameter); isP {
							return true, trueNil != given
						}
						return false, false
					}
					switch y := c.(type) {
					case *ssa.Call:
						// a presence test of the cache (a helper reading the cache and returning a boolean)
						if isBoolType(y.Type()) {
							for _, cal := range p.Callees(y) {
								if len(ls.accessesIn(F("Sender.reqMsgCache"), cal)) > 0 {
									return true, cached
								}
							}
						}
					case *ssa.Extract:
						if lk, isLk := y.Tuple.(*ssa.Lookup); isLk && lk.CommaOk && y.Index == 1 && strings.HasSuffix(Path(lk.X), "."+FN("Sender.reqMsgCache")) {
							return true, cached
						}
					}
					return false, false
				}
				reach := reachableUnderPhi(fn, del, atom)
				// deleting an absent key is harmless: only "given and cached => deleted" and "not given => not deleted" are required
				if given && cached && !reach {
					bad = "a reference that is given and cached is not deleted"
				}
				if !given && reach {
					bad = "the delete is reachable without a reference"
				}
			}
			r.Check("R7", FnName(fn)+"|deletes-iff-referenced", bad == "", p.InstrPos(del), "the answered request is forgotten whenever a response references a cached counter: "+bad)
		}
	}
}

func c13Hash(p *Prog, ib *inbound, r *Report) {
	impls := p.ImplsOf(ib.sender, "Request")
	if len(impls) != 1 {
		r.Undecided("R8", "anchor:Request", "", "implementation not found")
		return
	}
	fn := impls[0]
	// parameters by type
	var dst, cmd *ssa.Parameter
	for _, prm := range fn.Params {
		if isNamed(prm.Type(), "model", "FeatureAddressType") {
			dst = prm // the last address parameter is the destination
		}
		if sl, ok := prm.Type().Underlying().(*types.Slice); ok && isNamed(sl.Elem(), "model", "CmdType") {
			cmd = prm
		}
	}
	var hashCall *ssa.Call
	forEachCall(fn, func(site ssa.CallInstruction) {
		c, ok := site.(*ssa.Call)
		if !ok {
			return
		}
		callee := c.Call.StaticCallee()
		if callee == nil || !p.IsRepoFn(callee) {
			return
		}
		hasD, hasC := false, false
		for _, a := range c.Call.Args {
			if a == ssa.Value(dst) {
				hasD = true
			}
			if a == ssa.Value(cmd) {
				hasC = true
			}
		}
		if hasD && hasC {
			// the digest is computed inside
			digest := false
			forEachCall(callee, func(s2 ssa.CallInstruction) {
				if c2 := s2.Common().StaticCallee(); c2 != nil && strings.HasPrefix(fnPkgPath(c2), "crypto/") {
					digest = true
				}
			})
			if digest {
				hashCall = c
			}
		}
	})
	base := FnName(fn)
	if hashCall == nil || dst == nil || cmd == nil {
		r.Fail("R8", base+"|hash-args", p.Pos(fn.Pos()), "no hash helper called with both the destination address and the command")
		return
	}
	r.Pass("R8", base+"|hash-args", p.InstrPos(hashCall), "hash computed from "+Path(dst)+" and "+Path(cmd))
	// inside the helper both parameters reach the digest input
	h := hashCall.Call.StaticCallee()
	okBoth := true
	for _, a := range []ssa.Value{dst, cmd} {
		idx := -1
		for i, x := range hashCall.Call.Args {
			if x == a {
				idx = i
			}
		}
		reached := false
		if idx >= 0 && idx < len(h.Params) {
			t := contentTaint(h.Params[idx])
			forEachCall(h, func(s2 ssa.CallInstruction) {
				if c2 := s2.Common().StaticCallee(); c2 != nil && strings.HasPrefix(fnPkgPath(c2), "crypto/") {
					for _, x := range s2.Common().Args {
						if t[x] {
							reached = true
						}
					}
				}
			})
		}
		if !reached {
			okBoth = false
		}
	}
	r.Check("R8", FnName(h)+"|digest-input", okBoth, p.Pos(h.Pos()), "the content of destination and command both flow into the digest (not merely a length or a comparison result)")
	// the value looked up and the value cached are this hash
	ok := false
	forEachCall(fn, func(site ssa.CallInstruction) {
		for _, a := range site.Common().Args {
			if a == ssa.Value(hashCall) {
				ok = true
			}
		}
	})
	r.Check("R8", base+"|hash-used", ok, p.InstrPos(hashCall), "the look-up and the insertion use this hash")
}

func c13Alignment(p *Prog, ls *Lockset, r *Report) {
	sizes := types.SizesFor("gc", "386")
	n := 0
	for _, v := range guardTable(ls) {
		if !v.Atomic {
			continue
		}
		parts := strings.SplitN(v.Key, ".", 2)
		nt := p.LookupType("spine", parts[0])
		if nt == nil {
			continue
		}
		st, ok := nt.Underlying().(*types.Struct)
		if !ok {
			continue
		}
		var fields []*types.Var
		idx := -1
		for i := 0; i < st.NumFields(); i++ {
			fields = append(fields, st.Field(i))
			if st.Field(i).Name() == parts[1] {
				idx = i
			}
		}
		if idx < 0 {
			continue
		}
		if b, ok := fields[idx].Type().Underlying().(*types.Basic); !ok || (b.Kind() != types.Uint64 && b.Kind() != types.Int64) {
			continue
		}
		n++
		offs := sizes.Offsetsof(fields)
		r.Check("R9", "field:"+v.Key, offs[idx]%8 == 0, p.Pos(fields[idx].Pos()), fmt.Sprintf("offset %d under 386 sizes", offs[idx]))
	}
	// fields of type sync/atomic.Uint64 / Int64 are aligned by the type itself: they count as instances that hold
	nTyped := 0
	for _, tn := range []string{"Sender", "SubscriptionManager", "BindingManager", "HeartbeatManager"} {
		nt := p.LookupType("spine", tn)
		if nt == nil {
			continue
		}
		if st, ok := nt.Underlying().(*types.Struct); ok {
			for i := 0; i < st.NumFields(); i++ {
				if named := namedOf(st.Field(i).Type()); named != nil && named.Obj().Pkg() != nil && named.Obj().Pkg().Path() == "sync/atomic" && (named.Obj().Name() == "Uint64" || named.Obj().Name() == "Int64") {
					nTyped++
					r.Pass("R9", "field:"+tn+"."+st.Field(i).Name(), p.Pos(st.Field(i).Pos()), "typed atomic: 8-byte alignment is guaranteed by sync/atomic."+named.Obj().Name())
				}
			}
		}
	}
	r.Floor("R9", "64-bit atomic fields", n+nTyped, 4)
}

// zeroFilledThenAppended: the slice is made with a length that is not the constant 0, values are appended to it,
// and no element of it is ever assigned by index — the classic make([]T, n) + append mistake.
func zeroFilledThenAppended(mk *ssa.MakeSlice) bool {
	if k, isK := constInt(mk.Len); isK && k == 0 {
		return false
	}
	t := forwardTaint(mk)
	appended, assigned := false, false
	for v := range t {
		switch x := v.(type) {
		case *ssa.Call:
			if builtinName(&x.Call) == "append" && len(x.Call.Args) > 0 && t[x.Call.Args[0]] {
				appended = true
			}
			if builtinName(&x.Call) == "copy" && len(x.Call.Args) > 0 && t[x.Call.Args[0]] {
				assigned = true
			}
		case *ssa.IndexAddr:
			if x.Referrers() != nil {
				for _, ref := range *x.Referrers() {
					if st, isSt := ref.(*ssa.Store); isSt && st.Addr == ssa.Value(x) {
						assigned = true
					}
				}
			}
		}
	}
	return appended && !assigned
}

// contentTaint: forward flow of the content of a value — like forwardTaint, but a length, a capacity or the
// result of a comparison does not carry the content on.
func contentTaint(seeds ...ssa.Value) map[ssa.Value]bool {
	t := forwardTaint(seeds...)
	// remove what is reachable only through len/cap/comparisons: recompute with those cut
	cut := map[ssa.Value]bool{}
	for v := range t {
		switch x := v.(type) {
		case *ssa.Call:
			if bn := builtinName(&x.Call); bn == "len" || bn == "cap" {
				cut[v] = true
			}
		case *ssa.BinOp:
			switch x.Op {
			case token.EQL, token.NEQ, token.LSS, token.GTR, token.LEQ, token.GEQ:
				cut[v] = true
			}
		}
	}
	if len(cut) == 0 {
		return t
	}
	res := map[ssa.Value]bool{}
	var work []ssa.Value
	for _, s := range seeds {
		if s != nil {
			res[s] = true
			work = append(work, s)
		}
	}
	for len(work) > 0 {
		v := work[len(work)-1]
		work = work[:len(work)-1]
		refs := v.Referrers()
		if refs == nil {
			continue
		}
		for _, u := range *refs {
			switch x := u.(type) {
			case *ssa.Store:
				if x.Val == v {
					addr := x.Addr
					for d := 0; d < 4; d++ {
						switch y := addr.(type) {
						case *ssa.IndexAddr:
							addr = y.X
							continue
						case *ssa.FieldAddr:
							addr = y.X
							continue
						}
						break
					}
					if a, ok := addr.(*ssa.Alloc); ok && !res[a] {
						res[a] = true
						work = append(work, a)
					}
				}
			case ssa.Value:
				if cut[x] || res[x] {
					continue
				}
				res[x] = true
				work = append(work, x)
			}
		}
	}
	return res
}
