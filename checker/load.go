package main

import (
	"fmt"
	"go/ast"
	"go/token"
	"go/types"
	"os"
	"path/filepath"
	"sort"
	"strings"

	"golang.org/x/tools/go/callgraph"
	"golang.org/x/tools/go/callgraph/cha"
	"golang.org/x/tools/go/callgraph/vta"
	"golang.org/x/tools/go/packages"
	"golang.org/x/tools/go/ssa"
	"golang.org/x/tools/go/ssa/ssautil"
)

const repoMod = "github.com/enbility/spine-go"

// Prog is the loaded and resolved program, shared by all engines.
type Prog struct {
	scopeRoots map[string][]*ssa.Function
	scopes     map[*ssa.Function]*helperScope
	helperCand map[*ssa.Function]bool
	helperSite map[*ssa.Function]ssa.CallInstruction
	stableMemo map[*ssa.Function]string
	instances  map[*ssa.Function][]*ssa.Function
	RepoDir    string
	Fset       *token.FileSet
	Pkgs       map[string]*packages.Package // by import path (repo packages and their deps)
	All        []*packages.Package

	SSA     *ssa.Program
	SSAPkgs map[string]*ssa.Package
	AllFns  map[*ssa.Function]bool
	cg      *callgraph.Graph // VTA
	chaCG   *callgraph.Graph

	// statistics for evidence
	NumPackages  int
	NumFunctions int
	NumRepoFns   int

	overlay map[string][]byte
	goarch  string
	callers map[*ssa.Function][]ssa.CallInstruction
}

// envError marks failures of the environment (exit 2), as opposed to verdicts.
type envError struct{ msg string }

func (e envError) Error() string { return e.msg }

func envFail(format string, a ...any) { panic(envError{fmt.Sprintf(format, a...)}) }

type LoadOpts struct {
	RepoDir string
	Overlay map[string][]byte
	GOARCH  string
	NeedSSA bool
}

func Load(o LoadOpts) *Prog {
	env := []string{}
	for _, kv := range os.Environ() {
		if strings.HasPrefix(kv, "GOWORK=") || strings.HasPrefix(kv, "GOFLAGS=") || strings.HasPrefix(kv, "GOPROXY=") ||
			strings.HasPrefix(kv, "GOARCH=") || strings.HasPrefix(kv, "GOSUMDB=") {
			continue
		}
		env = append(env, kv)
	}
	env = append(env, "GOFLAGS=-mod=mod", "GOPROXY=off", "GOSUMDB=off", "GOWORK=off")
	if o.GOARCH != "" {
		env = append(env, "GOARCH="+o.GOARCH, "CGO_ENABLED=0")
	}
	mode := packages.LoadAllSyntax
	cfg := &packages.Config{Mode: mode, Dir: o.RepoDir, Env: env, Overlay: o.Overlay, Tests: false}
	pkgs, err := packages.Load(cfg, "./api", "./model", "./spine", "./util")
	if err != nil {
		envFail("cannot load packages: %v", err)
	}
	if len(pkgs) != 4 {
		envFail("expected 4 repository packages, loaded %d", len(pkgs))
	}
	p := &Prog{RepoDir: o.RepoDir, Pkgs: map[string]*packages.Package{}, overlay: o.Overlay, goarch: o.GOARCH}
	nerr := 0
	packages.Visit(pkgs, nil, func(pk *packages.Package) {
		p.Pkgs[pk.PkgPath] = pk
		p.All = append(p.All, pk)
		if strings.HasPrefix(pk.PkgPath, repoMod) {
			for _, e := range pk.Errors {
				fmt.Fprintf(os.Stderr, "load error: %v\n", e)
				nerr++
			}
		}
	})
	if nerr > 0 {
		envFail("%d type/load errors in repository packages", nerr)
	}
	for _, n := range []string{"api", "model", "spine", "util"} {
		pk := p.Pkgs[repoMod+"/"+n]
		if pk == nil || pk.Types == nil || len(pk.Syntax) == 0 {
			envFail("package %s not loaded with syntax", n)
		}
	}
	p.Fset = pkgs[0].Fset
	p.NumPackages = len(p.All)
	if o.NeedSSA {
		p.buildSSA(pkgs)
	}
	curProg = p
	return p
}

func (p *Prog) buildSSA(pkgs []*packages.Package) {
	// InstantiateGenerics: the concrete function-data types only come into existence through generic code;
	// without full instantiation their methods are not part of the program
	prog, spkgs := ssautil.AllPackages(pkgs, ssa.InstantiateGenerics)
	prog.Build()
	p.SSA = prog
	p.SSAPkgs = map[string]*ssa.Package{}
	for _, sp := range spkgs {
		if sp != nil {
			p.SSAPkgs[sp.Pkg.Path()] = sp
		}
	}
	for _, sp := range prog.AllPackages() {
		p.SSAPkgs[sp.Pkg.Path()] = sp
	}
	p.AllFns = ssautil.AllFunctions(prog)
	// instantiation wrappers of generic functions are created on demand and are
	// not part of AllFunctions: close the set under referenced functions so the
	// call graph has edges through them
	work := make([]*ssa.Function, 0, len(p.AllFns))
	for f := range p.AllFns {
		work = append(work, f)
	}
	for len(work) > 0 {
		f := work[len(work)-1]
		work = work[:len(work)-1]
		var ops []*ssa.Value
		for _, b := range f.Blocks {
			for _, ins := range b.Instrs {
				ops = ins.Operands(ops[:0])
				for _, op := range ops {
					if g, ok := (*op).(*ssa.Function); ok && !p.AllFns[g] {
						p.AllFns[g] = true
						work = append(work, g)
					}
				}
			}
		}
	}
	p.NumFunctions = len(p.AllFns)
	for f := range p.AllFns {
		if p.IsRepoFn(f) {
			p.NumRepoFns++
		}
	}
}

func (p *Prog) CG() *callgraph.Graph {
	if p.cg == nil {
		p.chaCG = cha.CallGraph(p.SSA)
		p.cg = vta.CallGraph(p.AllFns, p.chaCG)
	}
	return p.cg
}

func (p *Prog) CHA() *callgraph.Graph {
	p.CG()
	return p.chaCG
}

// Pkg returns the repository package "api", "model", "spine" or "util".
func (p *Prog) Pkg(short string) *packages.Package { return p.Pkgs[repoMod+"/"+short] }

func (p *Prog) TypesPkg(short string) *types.Package { return p.Pkg(short).Types }

// fnPkgPath returns the package path a function belongs to, also for
// instantiations, wrappers and anonymous functions (whose Pkg may be nil).
func fnPkgPath(f *ssa.Function) string {
	for f != nil {
		if f.Pkg != nil {
			return f.Pkg.Pkg.Path()
		}
		if o := f.Origin(); o != nil && o != f {
			f = o
			continue
		}
		if f.Parent() != nil {
			f = f.Parent()
			continue
		}
		if f.Object() != nil && f.Object().Pkg() != nil {
			return f.Object().Pkg().Path()
		}
		if f.Signature != nil && f.Signature.Recv() != nil {
			if n := namedOf(f.Signature.Recv().Type()); n != nil && n.Obj().Pkg() != nil {
				return n.Obj().Pkg().Path()
			}
		}
		return ""
	}
	return ""
}

func (p *Prog) IsRepoFn(f *ssa.Function) bool {
	return strings.HasPrefix(fnPkgPath(f), repoMod)
}

func namedOf(t types.Type) *types.Named {
	for {
		switch x := t.(type) {
		case *types.Pointer:
			t = x.Elem()
		case *types.Named:
			return x
		case *types.Alias:
			t = types.Unalias(x)
		default:
			return nil
		}
	}
}

func deref(t types.Type) types.Type {
	if p, ok := t.Underlying().(*types.Pointer); ok {
		return p.Elem()
	}
	return t
}

// LookupType finds a named type in a repository package; failure is an
// unresolved anchor (reported by the caller).
func (p *Prog) LookupType(short, name string) *types.Named {
	pk := p.Pkg(short)
	if pk == nil {
		return nil
	}
	o := pk.Types.Scope().Lookup(name)
	if o == nil {
		return nil
	}
	tn, ok := o.(*types.TypeName)
	if !ok {
		return nil
	}
	n, _ := tn.Type().(*types.Named)
	return n
}

func (p *Prog) LookupIface(short, name string) *types.Interface {
	n := p.LookupType(short, name)
	if n == nil {
		return nil
	}
	i, _ := n.Underlying().(*types.Interface)
	return i
}

// Method returns the SSA function of a method declared on (a pointer to) the
// named repository type, nil if absent.
func (p *Prog) Method(short, typ, method string) *ssa.Function {
	n := p.LookupType(short, typ)
	if n == nil {
		return nil
	}
	for _, t := range []types.Type{types.NewPointer(n), n} {
		ms := p.SSA.MethodSets.MethodSet(t)
		if sel := ms.Lookup(n.Obj().Pkg(), method); sel != nil {
			return p.SSA.MethodValue(sel)
		}
	}
	return nil
}

// Func returns a package-level function.
func (p *Prog) Func(short, name string) *ssa.Function {
	sp := p.SSAPkgs[repoMod+"/"+short]
	if sp == nil {
		return nil
	}
	return sp.Func(name)
}

// ImplsOf returns the SSA functions implementing iface.method among the
// concrete named types of the repository (package spine and model).
func (p *Prog) ImplsOf(iface *types.Interface, method string) []*ssa.Function {
	var res []*ssa.Function
	for _, short := range []string{"spine", "model", "api", "util"} {
		sc := p.TypesPkg(short).Scope()
		for _, name := range sc.Names() {
			tn, ok := sc.Lookup(name).(*types.TypeName)
			if !ok || tn.IsAlias() {
				continue
			}
			n, ok := tn.Type().(*types.Named)
			if !ok || n.TypeParams().Len() > 0 {
				continue
			}
			if _, isI := n.Underlying().(*types.Interface); isI {
				continue
			}
			pt := types.NewPointer(n)
			if !types.Implements(pt, iface) {
				continue
			}
			ms := p.SSA.MethodSets.MethodSet(pt)
			if sel := ms.Lookup(n.Obj().Pkg(), method); sel != nil {
				if f := p.SSA.MethodValue(sel); f != nil {
					res = append(res, f)
				}
			}
		}
	}
	sort.Slice(res, func(i, j int) bool { return res[i].String() < res[j].String() })
	return res
}

// Callees resolves a call site through the VTA graph (static callee first).
func (p *Prog) Callees(site ssa.CallInstruction) []*ssa.Function {
	if f := site.Common().StaticCallee(); f != nil {
		return []*ssa.Function{f}
	}
	fn := site.Parent()
	var r []*ssa.Function
	if n := p.CG().Nodes[fn]; n != nil {
		for _, e := range n.Out {
			if e.Site == site {
				r = append(r, e.Callee.Func)
			}
		}
	}
	if len(r) == 0 && site.Common().IsInvoke() {
		// VTA loses values that pass through type-parameter typed conversions
		// (the function-data factory): fall back to class hierarchy analysis
		if n := p.CHA().Nodes[fn]; n != nil {
			for _, e := range n.Out {
				if e.Site == site {
					r = append(r, e.Callee.Func)
				}
			}
		}
	}
	sort.Slice(r, func(i, j int) bool { return r[i].String() < r[j].String() })
	return r
}

func (p *Prog) Pos(pos token.Pos) string {
	if !pos.IsValid() {
		return "-"
	}
	ps := p.Fset.Position(pos)
	rel, err := filepath.Rel(p.RepoDir, ps.Filename)
	if err != nil || strings.HasPrefix(rel, "..") {
		rel = ps.Filename
	}
	return fmt.Sprintf("%s:%d", rel, ps.Line)
}

// InstrPos gives the best position for an instruction (falls back to the
// nearest positioned instruction of the block, then the function).
func (p *Prog) InstrPos(ins ssa.Instruction) string {
	if ins.Pos().IsValid() {
		return p.Pos(ins.Pos())
	}
	for _, op := range ins.Operands(nil) {
		if *op != nil && (*op).Pos().IsValid() {
			return p.Pos((*op).Pos())
		}
	}
	if b := ins.Block(); b != nil {
		for _, i2 := range b.Instrs {
			if i2.Pos().IsValid() {
				return p.Pos(i2.Pos())
			}
		}
	}
	if ins.Parent() != nil {
		return p.Pos(ins.Parent().Pos())
	}
	return "-"
}

// FnName is a stable, short, position-free name for a function.
// curProg is the program being analysed (one per process); used where a key
// builder has no Prog at hand.
var curProg *Prog

func FnName(f *ssa.Function) string {
	if f == nil {
		return "<nil>"
	}
	s := f.String()
	s = strings.ReplaceAll(s, repoMod+"/", "")
	return s
}

// StableName names a function for obligation keys in a way that survives the
// renaming of unexported helpers: an exported function (or a method of an
// exported type with an exported name) keeps its name; an unexported one is
// named after its position in the call structure, "<stable name of its
// alphabetically first caller>~<k>", k counting the distinct unexported
// repository callees of that caller in instruction order.
func (p *Prog) StableName(fn *ssa.Function) string {
	return p.stableName(originOf(fn), 0)
}

func isExportedFn(fn *ssa.Function) bool {
	if fn.Object() == nil || !fn.Object().Exported() {
		return false
	}
	if recv := fn.Signature.Recv(); recv != nil {
		if n := namedOf(recv.Type()); n != nil && !n.Obj().Exported() {
			return false
		}
	}
	return true
}

func (p *Prog) stableName(fn *ssa.Function, depth int) string {
	if fn == nil {
		return "<nil>"
	}
	if p.stableMemo == nil {
		p.stableMemo = map[*ssa.Function]string{}
	}
	if s, ok := p.stableMemo[fn]; ok {
		return s
	}
	if isExportedFn(fn) || depth > 4 || fn.Parent() != nil || fn.Object() == nil {
		return FnName(fn)
	}
	p.stableMemo[fn] = FnName(fn) // cycle guard
	best := ""
	if p.instances == nil {
		p.instances = map[*ssa.Function][]*ssa.Function{}
		for f := range p.AllFns {
			if o := f.Origin(); o != nil {
				p.instances[o] = append(p.instances[o], f)
			}
		}
	}
	var sites []ssa.CallInstruction
	sites = append(sites, p.Callers(fn)...)
	for _, inst := range p.instances[fn] {
		sites = append(sites, p.Callers(inst)...)
	}
	for _, site := range sites {
		if site.Common().StaticCallee() == nil || originOf(site.Common().StaticCallee()) != fn {
			continue
		}
		caller := originOf(site.Parent())
		for caller.Parent() != nil {
			caller = caller.Parent()
		}
		if caller == fn {
			continue
		}
		cn := p.stableName(caller, depth+1)
		// ordinal of fn among the distinct unexported repository callees of the caller
		seen := map[*ssa.Function]bool{}
		k, found := 0, 0
		body := site.Parent()
		for body.Parent() != nil {
			body = body.Parent()
		}
		var walk func(f *ssa.Function)
		walk = func(f *ssa.Function) {
			for _, b := range f.Blocks {
				for _, ins := range b.Instrs {
					if ci, ok := ins.(ssa.CallInstruction); ok {
						if c := ci.Common().StaticCallee(); c != nil {
							oc := originOf(c)
							if !seen[oc] && !isExportedFn(oc) && oc.Object() != nil && strings.HasPrefix(fnPkgPath(oc), repoMod) {
								seen[oc] = true
								k++
								if oc == fn {
									found = k
								}
							}
						}
					}
				}
			}
			for _, an := range f.AnonFuncs {
				walk(an)
			}
		}
		walk(body)
		name := fmt.Sprintf("%s~%d", cn, found)
		if best == "" || name < best {
			best = name
		}
	}
	if best == "" {
		best = FnName(fn)
	}
	p.stableMemo[fn] = best
	return best
}

// RepoFns returns all repository functions with bodies, sorted.
func (p *Prog) RepoFns(shorts ...string) []*ssa.Function { return p.repoFns(false, shorts...) }

// RepoFnsWithWrappers additionally returns the synthetic wrappers (promoted
// methods, bound methods, thunks) so that interprocedural facts flow through them.
func (p *Prog) RepoFnsWithWrappers(shorts ...string) []*ssa.Function {
	return p.repoFns(true, shorts...)
}

func isWrapper(f *ssa.Function) bool {
	return f.Synthetic != "" && !strings.HasPrefix(f.Synthetic, "instance of")
}

func (p *Prog) repoFns(wrappers bool, shorts ...string) []*ssa.Function {
	var r []*ssa.Function
	for f := range p.AllFns {
		if f.Blocks == nil {
			continue
		}
		if isUninstantiated(f) {
			continue // generic bodies are analysed through their instantiations
		}
		if isWrapper(f) && (!wrappers || strings.HasPrefix(f.Synthetic, "package init")) {
			continue // wrappers, thunks, package initialisers: no source of their own
		}
		pp := fnPkgPath(f)
		if !strings.HasPrefix(pp, repoMod) {
			continue
		}
		if len(shorts) > 0 {
			ok := false
			for _, s := range shorts {
				if pp == repoMod+"/"+s {
					ok = true
				}
			}
			if !ok {
				continue
			}
		}
		r = append(r, f)
	}
	sort.Slice(r, func(i, j int) bool {
		if r[i].String() != r[j].String() {
			return r[i].String() < r[j].String()
		}
		return r[i].Pos() < r[j].Pos()
	})
	return r
}

// FuncDecl finds the AST declaration of a function or method in a repository package.
func (p *Prog) FuncDecl(short, recv, name string) (*ast.FuncDecl, *packages.Package) {
	pk := p.Pkg(short)
	for _, f := range pk.Syntax {
		for _, d := range f.Decls {
			fd, ok := d.(*ast.FuncDecl)
			if !ok || fd.Name.Name != name {
				continue
			}
			if recv == "" && fd.Recv == nil {
				return fd, pk
			}
			if recv != "" && fd.Recv != nil && len(fd.Recv.List) == 1 {
				if recvTypeName(fd.Recv.List[0].Type) == recv {
					return fd, pk
				}
			}
		}
	}
	return nil, pk
}

func recvTypeName(e ast.Expr) string {
	for {
		switch x := e.(type) {
		case *ast.StarExpr:
			e = x.X
		case *ast.IndexExpr:
			e = x.X
		case *ast.IndexListExpr:
			e = x.X
		case *ast.ParenExpr:
			e = x.X
		case *ast.Ident:
			return x.Name
		default:
			return ""
		}
	}
}

// isUninstantiated reports whether f is the body of a generic function (or a
// function nested in one) that has not been instantiated.
func isUninstantiated(f *ssa.Function) bool {
	for g := f; g != nil; g = g.Parent() {
		if g.TypeParams().Len() > 0 && len(g.TypeArgs()) == 0 {
			return true
		}
		if g.Signature != nil && g.Signature.Recv() != nil {
			if n := namedOf(g.Signature.Recv().Type()); n != nil && n.TypeParams().Len() > 0 && n.TypeArgs().Len() == 0 {
				return true
			}
		}
	}
	return false
}

// Callers returns the call sites in repository functions that may call fn
// (resolved like Callees: static, VTA, CHA fallback).
func (p *Prog) Callers(fn *ssa.Function) []ssa.CallInstruction {
	if p.callers == nil {
		p.callers = map[*ssa.Function][]ssa.CallInstruction{}
		var fns []*ssa.Function
		for f := range p.AllFns {
			if f.Blocks != nil && p.IsRepoFn(f) {
				fns = append(fns, f)
			}
		}
		sort.Slice(fns, func(i, j int) bool {
			if fns[i].String() != fns[j].String() {
				return fns[i].String() < fns[j].String()
			}
			return fns[i].Pos() < fns[j].Pos()
		})
		for _, f := range fns {
			for _, b := range f.Blocks {
				for _, ins := range b.Instrs {
					if site, ok := ins.(ssa.CallInstruction); ok {
						for _, c := range p.Callees(site) {
							p.callers[c] = append(p.callers[c], site)
						}
					}
				}
			}
		}
	}
	return p.callers[fn]
}

// originName is the declared name of a function (without type arguments).
func originName(f *ssa.Function) string {
	if o := f.Origin(); o != nil {
		return o.Name()
	}
	return f.Name()
}
