package main

import (
	"fmt"
	"strings"

	"golang.org/x/tools/go/ssa"
)

// fanoutRule: structure of the implementation of DeviceLocalInterface.NotifySubscribers.
func fanoutRule(p *Prog, r *Report, rule string) {
	dli := p.LookupIface("api", "DeviceLocalInterface")
	si := p.LookupIface("api", "SenderInterface")
	smi := p.LookupIface("api", "SubscriptionManagerInterface")
	if dli == nil || si == nil || smi == nil {
		r.Undecided(rule, "anchor:api interfaces", "", "interface not found")
		return
	}
	impls := p.ImplsOf(dli, "NotifySubscribers")
	if len(impls) == 0 {
		r.Undecided(rule, "anchor:NotifySubscribers", "", "no implementation found")
		return
	}
	for _, fn := range impls {
		base := FnName(fn)
		var notifies []*ssa.Call
		var query *ssa.Call
		forEachCall(fn, func(site ssa.CallInstruction) {
			c, ok := site.(*ssa.Call)
			if !ok {
				return
			}
			if calleeIsIfaceMethod(&c.Call, si, "Notify") {
				notifies = append(notifies, c)
			}
			if calleeIsIfaceMethod(&c.Call, smi, "SubscriptionsOnFeature") {
				query = c
			}
		})
		pos := p.Pos(fn.Pos())
		if len(notifies) != 1 || query == nil {
			r.Fail(rule, base+"|shape", pos, fmt.Sprintf("%d Notify calls and query=%v found; exactly one Notify call fed by the per-feature query expected", len(notifies), query != nil))
			continue
		}
		n := notifies[0]
		// query argument derives from the feature address parameter
		qa := Path(callArgs(&query.Call)[0])
		r.Check(rule, base+"|query-arg", qa == "param:"+fn.Params[1].Name(), p.InstrPos(query), "the per-feature query is made with "+qa)
		// the Notify call is inside a loop over the query result and not otherwise conditional
		inLoop := blockReaches(n.Block(), n.Block()) && cyclic(n.Block())
		elem := "" // path of the loop element
		args := callArgs(&n.Call)
		recvPath := Path(callRecv(&n.Call))
		a0, a1, a2 := Path(args[0]), Path(args[1]), Path(args[2])
		if i := strings.Index(a0, ".ServerFeature.Address()"); i > 0 {
			elem = a0[:i]
		}
		fromQuery := strings.Contains(elem, "SubscriptionsOnFeature()")
		r.Check(rule, base+"|per-entry", inLoop && fromQuery, p.InstrPos(n), "Notify is called in a loop over the entries returned by the per-feature query (element: "+elem+")")
		extra := 0
		for _, g := range Guards(n.Block()) {
			// the loop bound test is the only condition allowed
			if bo, ok := g.Cond.(*ssa.BinOp); ok {
				if _, isLen := bo.Y.(*ssa.Call); isLen {
					continue
				}
			}
			extra++
		}
		r.Check(rule, base+"|unconditional", extra == 0, p.InstrPos(n), fmt.Sprintf("%d additional conditions guard the Notify call", extra))
		exits := loopEarlyExits(n.Block())
		r.Check(rule, base+"|no-early-exit", inLoop && len(exits) == 0, p.InstrPos(n), fmt.Sprintf("the fan-out loop is left only when the entries are exhausted (early exits: %v): a failed send must not keep the remaining subscribers from being notified", exits))
		okWire := elem != "" && recvPath == elem+".ClientFeature.Device().Sender()" && a0 == elem+".ServerFeature.Address()" && a1 == elem+".ClientFeature.Address()" && a2 == "param:"+fn.Params[2].Name()
		r.Check(rule, base+"|wiring", okWire, p.InstrPos(n), fmt.Sprintf("Notify on %s with (%s, %s, %s)", recvPath, a0, a1, a2))
	}
}

func cyclic(b *ssa.BasicBlock) bool {
	for _, s := range b.Succs {
		if blockReaches(s, b) {
			return true
		}
	}
	return false
}

// hasBindingRule (C09/C03): HasLocalFeatureRemoteBinding queries the bindings
// on its first argument and compares the entries' client address with its second.
func hasBindingRule(p *Prog, r *Report, rule string) {
	r.Rule(rule, "HasLocalFeatureRemoteBinding looks up the bindings on its local-address argument and reports true only for an entry whose client feature address equals its remote-address argument")
	bmi := p.LookupIface("api", "BindingManagerInterface")
	if bmi == nil {
		r.Undecided(rule, "anchor:api.BindingManagerInterface", "", "interface not found")
		return
	}
	for _, fn := range p.ImplsOf(bmi, "HasLocalFeatureRemoteBinding") {
		base := FnName(fn)
		var query *ssa.Call
		forEachCall(fn, func(site ssa.CallInstruction) {
			if c, ok := site.(*ssa.Call); ok && calleeIsIfaceMethod(&c.Call, bmi, "BindingsOnFeature") {
				query = c
			}
		})
		if query == nil {
			r.Undecided(rule, base+"|query", p.Pos(fn.Pos()), "no BindingsOnFeature call")
			continue
		}
		qa := Path(callArgs(&query.Call)[0])
		r.Check(rule, base+"|query-arg", qa == "param:"+fn.Params[1].Name(), p.InstrPos(query), "bindings are looked up on "+qa)
		// every "return true" is guarded by DeepEqual(elem.ClientFeature.Address(), remoteAddress) == true
		nTrue, okTrue := 0, true
		for _, b := range fn.Blocks {
			ret, ok := b.Instrs[len(b.Instrs)-1].(*ssa.Return)
			if !ok || len(ret.Results) != 1 {
				continue
			}
			if v, isC := constBool(ret.Results[0]); !isC || !v {
				continue
			}
			nTrue++
			found := false
			parts := map[string]bool{}
			for _, g := range Guards(b) {
				call, ok := g.Cond.(*ssa.Call)
				if !ok || !g.Val {
					continue
				}
				c := call.Call.StaticCallee()
				if c == nil || fnPkgPath(c) != "reflect" || c.Name() != "DeepEqual" {
					continue
				}
				l, rr := Path(call.Call.Args[0]), Path(call.Call.Args[1])
				want := "param:" + fn.Params[2].Name()
				isElem := func(s string) bool {
					return strings.Contains(s, "BindingsOnFeature()") && strings.HasSuffix(s, ".ClientFeature.Address()")
				}
				if (isElem(l) && rr == want) || (isElem(rr) && l == want) {
					found = true
				}
				// component-wise comparison: all three parts of the address must be compared
				for _, part := range []string{"Device", "Entity", "Feature"} {
					isElemPart := func(s string) bool {
						return strings.Contains(s, "BindingsOnFeature()") && strings.HasSuffix(s, ".ClientFeature.Address()."+part)
					}
					if (isElemPart(l) && rr == want+"."+part) || (isElemPart(rr) && l == want+"."+part) {
						parts[part] = true
					}
				}
			}
			if len(parts) == 3 {
				found = true
			}
			if !found {
				okTrue = false
			}
		}
		if nTrue == 0 {
			// the search may be delegated to slices.ContainsFunc over the query result with a predicate closure:
			// the predicate then must be the whole-address equality
			forEachCallOwn(fn, func(site ssa.CallInstruction) {
				c, ok := site.(*ssa.Call)
				if !ok {
					return
				}
				callee := c.Call.StaticCallee()
				if callee == nil || fnPkgPath(callee) != "slices" || originName(callee) != "ContainsFunc" || len(c.Call.Args) != 2 {
					return
				}
				if !strings.Contains(Path(c.Call.Args[0]), "BindingsOnFeature()") || !flowsToReturn(c) {
					return
				}
				var cl *ssa.Function
				switch x := c.Call.Args[1].(type) {
				case *ssa.MakeClosure:
					cl, _ = x.Fn.(*ssa.Function)
				case *ssa.Function:
					cl = x
				}
				if cl == nil || len(cl.Params) != 1 {
					return
				}
				for _, cb := range cl.Blocks {
					ret, isRet := cb.Instrs[len(cb.Instrs)-1].(*ssa.Return)
					if !isRet || len(ret.Results) != 1 {
						continue
					}
					nTrue++
					good := false
					if dc, isCall := ret.Results[0].(*ssa.Call); isCall {
						if dcal := dc.Call.StaticCallee(); dcal != nil && fnPkgPath(dcal) == "reflect" && dcal.Name() == "DeepEqual" {
							l, rr := Path(dc.Call.Args[0]), Path(dc.Call.Args[1])
							want := "param:" + fn.Params[2].Name()
							el := "param:" + cl.Params[0].Name() + ".ClientFeature.Address()"
							good = (l == el && rr == want) || (rr == el && l == want)
						}
					}
					if !good {
						okTrue = false
					}
				}
			})
		}
		r.Check(rule, base+"|match", nTrue > 0 && okTrue, p.Pos(fn.Pos()), "true is returned only under equality of the entry's whole client feature address (device, entity and feature) with the remote address argument")
	}
}

// loopEarlyExits returns the blocks of the innermost loop around b — other than
// the loop header — that have a successor outside the loop.
func loopEarlyExits(b *ssa.BasicBlock) []string {
	// header: the closest dominator of b that b can reach again (back edge target)
	var header *ssa.BasicBlock
	for d := b; d != nil; d = d.Idom() {
		isHeader := false
		for _, pr := range d.Preds {
			if d.Dominates(pr) && blockReachesOrSame(b, pr) {
				isHeader = true
			}
		}
		if isHeader {
			header = d
			break
		}
	}
	if header == nil {
		return []string{"no loop"}
	}
	inLoop := func(x *ssa.BasicBlock) bool {
		return header.Dominates(x) && (x == header || blockReaches(x, header))
	}
	var res []string
	for _, x := range b.Parent().Blocks {
		if x == header || !inLoop(x) {
			continue
		}
		for _, sx := range x.Succs {
			if !inLoop(sx) {
				res = append(res, fmt.Sprintf("block %d (%s)", x.Index, x.Comment))
			}
		}
		if _, isRet := x.Instrs[len(x.Instrs)-1].(*ssa.Return); isRet {
			res = append(res, fmt.Sprintf("block %d returns", x.Index))
		}
		if _, isPanic := x.Instrs[len(x.Instrs)-1].(*ssa.Panic); isPanic {
			res = append(res, fmt.Sprintf("block %d panics", x.Index))
		}
	}
	return res
}

func blockReachesOrSame(a, b *ssa.BasicBlock) bool { return a == b || blockReaches(a, b) }
