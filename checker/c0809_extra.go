package main

import (
	"fmt"
	"go/types"
	"strings"

	"golang.org/x/tools/go/ssa"
)

// fanoutRule: structure of the implementation of DeviceLocalInterface.NotifySubscribers.
func fanoutRule(p *Prog, r *Report, rule string) {
	dli := p.LookupIface("api", "DeviceLocalInterface")
	si := p.LookupIface("api", "SenderInterface")
	smi := p.LookupIface("api", "SubscriptionManagerInterface")
	if dli == nil || si == nil || smi == nil {
		r.Undecided(rule, "anchor:api interfaces", "", "interface not found")
		return
	}
	impls := p.ImplsOf(dli, "NotifySubscribers")
	if len(impls) == 0 {
		r.Undecided(rule, "anchor:NotifySubscribers", "", "no implementation found")
		return
	}
	for _, fn := range impls {
		base := FnName(fn)
		var notifies []*ssa.Call
		var query *ssa.Call
		forEachCall(fn, func(site ssa.CallInstruction) {
			c, ok := site.(*ssa.Call)
			if !ok {
				return
			}
			if calleeIsIfaceMethod(&c.Call, si, "Notify") {
				notifies = append(notifies, c)
			}
			if calleeIsIfaceMethod(&c.Call, smi, "SubscriptionsOnFeature") {
				query = c
			}
		})
		pos := p.Pos(fn.Pos())
		if len(notifies) != 1 || query == nil {
			r.Fail(rule, base+"|shape", pos, fmt.Sprintf("%d Notify calls and query=%v found; exactly one Notify call fed by the per-feature query expected", len(notifies), query != nil))
			continue
		}
		n := notifies[0]
		// query argument derives from the feature address parameter
		qa := Path(callArgs(&query.Call)[0])
		r.Check(rule, base+"|query-arg", qa == "param:"+fn.Params[1].Name(), p.InstrPos(query), "the per-feature query is made with "+qa)
		// the Notify call is inside a loop over the query result and not otherwise conditional
		inLoop := blockReaches(n.Block(), n.Block()) && cyclic(n.Block())
		elem := "" // path of the loop element
		args := callArgs(&n.Call)
		recvPath := Path(callRecv(&n.Call))
		a0, a1, a2 := Path(args[0]), Path(args[1]), Path(args[2])
		if i := strings.Index(a0, ".ServerFeature.Address()"); i > 0 {
			elem = a0[:i]
		}
		fromQuery := strings.Contains(elem, "SubscriptionsOnFeature()")
		r.Check(rule, base+"|per-entry", inLoop && fromQuery, p.InstrPos(n), "Notify is called in a loop over the entries returned by the per-feature query (element: "+elem+")")
		extra := 0
		for _, g := range Guards(n.Block()) {
			// the loop bound test is the only condition allowed
			if bo, ok := g.Cond.(*ssa.BinOp); ok {
				if _, isLen := bo.Y.(*ssa.Call); isLen {
					continue
				}
			}
			extra++
		}
		r.Check(rule, base+"|unconditional", extra == 0, p.InstrPos(n), fmt.Sprintf("%d additional conditions guard the Notify call", extra))
		exits := loopEarlyExits(n.Block())
		r.Check(rule, base+"|no-early-exit", inLoop && len(exits) == 0, p.InstrPos(n), fmt.Sprintf("the fan-out loop is left only when the entries are exhausted (early exits: %v): a failed send must not keep the remaining subscribers from being notified", exits))
		okWire := elem != "" && recvPath == elem+".ClientFeature.Device().Sender()" && a0 == elem+".ServerFeature.Address()" && a1 == elem+".ClientFeature.Address()" && a2 == "param:"+fn.Params[2].Name()
		r.Check(rule, base+"|wiring", okWire, p.InstrPos(n), fmt.Sprintf("Notify on %s with (%s, %s, %s)", recvPath, a0, a1, a2))
	}
}

func cyclic(b *ssa.BasicBlock) bool {
	for _, s := range b.Succs {
		if blockReaches(s, b) {
			return true
		}
	}
	return false
}

// hasBindingRule (C09/C03): HasLocalFeatureRemoteBinding queries the bindings
// on its first argument and compares the entries' client address with its second.
func hasBindingRule(p *Prog, r *Report, rule string) {
	r.Rule(rule, "HasLocalFeatureRemoteBinding looks up the bindings on its local-address argument and reports true only for an entry whose client feature address equals its remote-address argument")
	bmi := p.LookupIface("api", "BindingManagerInterface")
	if bmi == nil {
		r.Undecided(rule, "anchor:api.BindingManagerInterface", "", "interface not found")
		return
	}
	for _, fn := range p.ImplsOf(bmi, "HasLocalFeatureRemoteBinding") {
		base := FnName(fn)
		var query *ssa.Call
		forEachCall(fn, func(site ssa.CallInstruction) {
			if c, ok := site.(*ssa.Call); ok && calleeIsIfaceMethod(&c.Call, bmi, "BindingsOnFeature") {
				query = c
			}
		})
		if query == nil {
			r.Undecided(rule, base+"|query", p.Pos(fn.Pos()), "no BindingsOnFeature call")
			continue
		}
		qa := Path(callArgs(&query.Call)[0])
		r.Check(rule, base+"|query-arg", qa == "param:"+fn.Params[1].Name(), p.InstrPos(query), "bindings are looked up on "+qa)
		// every "return true" is guarded by DeepEqual(elem.ClientFeature.Address(), remoteAddress) == true
		nTrue, okTrue := 0, true
		for _, b := range fn.Blocks {
			ret, ok := b.Instrs[len(b.Instrs)-1].(*ssa.Return)
			if !ok || len(ret.Results) != 1 {
				continue
			}
			if v, isC := constBool(ret.Results[0]); !isC || !v {
				continue
			}
			nTrue++
			found := false
			parts := map[string]bool{}
			for _, g := range Guards(b) {
				call, ok := g.Cond.(*ssa.Call)
				if !ok || !g.Val {
					continue
				}
				c := call.Call.StaticCallee()
				if c == nil || fnPkgPath(c) != "reflect" || c.Name() != "DeepEqual" {
					continue
				}
				l, rr := Path(call.Call.Args[0]), Path(call.Call.Args[1])
				want := "param:" + fn.Params[2].Name()
				isElem := func(s string) bool {
					return strings.Contains(s, "BindingsOnFeature()") && strings.HasSuffix(s, ".ClientFeature.Address()")
				}
				if (isElem(l) && rr == want) || (isElem(rr) && l == want) {
					found = true
				}
				// component-wise comparison: all three parts of the address must be compared
				for _, part := range []string{"Device", "Entity", "Feature"} {
					isElemPart := func(s string) bool {
						return strings.Contains(s, "BindingsOnFeature()") && strings.HasSuffix(s, ".ClientFeature.Address()."+part)
					}
					if (isElemPart(l) && rr == want+"."+part) || (isElemPart(rr) && l == want+"."+part) {
						parts[part] = true
					}
				}
			}
			if len(parts) == 3 {
				found = true
			}
			if !found {
				okTrue = false
			}
		}
		if nTrue == 0 {
			// the search may be delegated to slices.ContainsFunc over the query result with a predicate closure:
			// the predicate then must be the whole-address equality
			forEachCallOwn(fn, func(site ssa.CallInstruction) {
				c, ok := site.(*ssa.Call)
				if !ok {
					return
				}
				callee := c.Call.StaticCallee()
				if callee == nil || fnPkgPath(callee) != "slices" || originName(callee) != "ContainsFunc" || len(c.Call.Args) != 2 {
					return
				}
				if !strings.Contains(Path(c.Call.Args[0]), "BindingsOnFeature()") || !flowsToReturn(c) {
					return
				}
				var cl *ssa.Function
				switch x := c.Call.Args[1].(type) {
				case *ssa.MakeClosure:
					cl, _ = x.Fn.(*ssa.Function)
				case *ssa.Function:
					cl = x
				}
				if cl == nil || len(cl.Params) != 1 {
					return
				}
				for _, cb := range cl.Blocks {
					ret, isRet := cb.Instrs[len(cb.Instrs)-1].(*ssa.Return)
					if !isRet || len(ret.Results) != 1 {
						continue
					}
					nTrue++
					good := false
					if dc, isCall := ret.Results[0].(*ssa.Call); isCall {
						if dcal := dc.Call.StaticCallee(); dcal != nil && fnPkgPath(dcal) == "reflect" && dcal.Name() == "DeepEqual" {
							l, rr := Path(dc.Call.Args[0]), Path(dc.Call.Args[1])
							want := "param:" + fn.Params[2].Name()
							// the predicate's parameter stands for an element of the searched slice
							isEl := func(s string) bool {
								return s == "param:"+cl.Params[0].Name()+".ClientFeature.Address()" ||
									(strings.Contains(s, "BindingsOnFeature()") && strings.HasSuffix(s, "[].ClientFeature.Address()"))
							}
							good = (isEl(l) && rr == want) || (isEl(rr) && l == want)
						}
					}
					if !good {
						okTrue = false
					}
				}
			})
		}
		r.Check(rule, base+"|match", nTrue > 0 && okTrue, p.Pos(fn.Pos()), "true is returned only under equality of the entry's whole client feature address (device, entity and feature) with the remote address argument")
	}
}

// loopEarlyExits returns the blocks of the innermost loop around b — other than
// the loop header — that have a successor outside the loop.
func loopEarlyExits(b *ssa.BasicBlock) []string {
	// header: the closest dominator of b that b can reach again (back edge target)
	var header *ssa.BasicBlock
	for d := b; d != nil; d = d.Idom() {
		isHeader := false
		for _, pr := range d.Preds {
			if d.Dominates(pr) && blockReachesOrSame(b, pr) {
				isHeader = true
			}
		}
		if isHeader {
			header = d
			break
		}
	}
	if header == nil {
		return []string{"no loop"}
	}
	inLoop := func(x *ssa.BasicBlock) bool {
		return header.Dominates(x) && (x == header || blockReaches(x, header))
	}
	var res []string
	for _, x := range b.Parent().Blocks {
		if x == header || !inLoop(x) {
			continue
		}
		for _, sx := range x.Succs {
			if !inLoop(sx) {
				res = append(res, fmt.Sprintf("block %d (%s)", x.Index, x.Comment))
			}
		}
		if _, isRet := x.Instrs[len(x.Instrs)-1].(*ssa.Return); isRet {
			res = append(res, fmt.Sprintf("block %d returns", x.Index))
		}
		if _, isPanic := x.Instrs[len(x.Instrs)-1].(*ssa.Panic); isPanic {
			res = append(res, fmt.Sprintf("block %d panics", x.Index))
		}
	}
	return res
}

func blockReachesOrSame(a, b *ssa.BasicBlock) bool { return a == b || blockReaches(a, b) }

// loopAbandoned lists the ways the innermost loop around b can be left before its
// collection is exhausted, other than by returning an error: a break (an exit edge
// to a block that is not an error return). An entry of the list processed after
// that point is silently skipped.
func loopAbandoned(b *ssa.BasicBlock) []string {
	var header *ssa.BasicBlock
	for d := b; d != nil; d = d.Idom() {
		isHeader := false
		for _, pr := range d.Preds {
			if d.Dominates(pr) && blockReachesOrSame(b, pr) {
				isHeader = true
			}
		}
		if isHeader {
			header = d
			break
		}
	}
	if header == nil {
		return []string{"no loop"}
	}
	inLoop := func(x *ssa.BasicBlock) bool {
		return header.Dominates(x) && (x == header || blockReaches(x, header))
	}
	errorReturn := func(x *ssa.BasicBlock) bool {
		// x (possibly through jumps) ends in a return whose last result is not the nil constant
		for d := 0; d < 4 && x != nil; d++ {
			switch last := x.Instrs[len(x.Instrs)-1].(type) {
			case *ssa.Return:
				if len(last.Results) == 0 {
					return false
				}
				return !isNilConst(last.Results[len(last.Results)-1])
			case *ssa.Jump:
				x = x.Succs[0]
			default:
				// rundefers / stores of spilled results precede the return in the same block; anything else is not a plain return
				return false
			}
		}
		return false
	}
	var res []string
	for _, x := range b.Parent().Blocks {
		if x == header || !inLoop(x) {
			continue
		}
		for _, sx := range x.Succs {
			if inLoop(sx) || errorReturn(sx) {
				continue
			}
			res = append(res, fmt.Sprintf("block %d (%s) leaves the loop without reporting an error", x.Index, x.Comment))
		}
	}
	return res
}

// sharedCellLint: a local variable whose address is stored into objects
// (x.LastStateChange = &v, a composite literal field &v) must be a fresh cell
// per object: it is assigned once, and not inside a loop that the variable is
// declared outside of. Otherwise all objects share one cell and read the value
// assigned last.
func sharedCellLint(p *Prog, r *Report, rule string, shorts ...string) {
	nCells := 0
	for _, fn := range p.RepoFns(shorts...) {
		if isWrapper(fn) {
			continue
		}
		for _, b := range fn.Blocks {
			for _, ins := range b.Instrs {
				al, ok := ins.(*ssa.Alloc)
				if !ok || !al.Heap || al.Referrers() == nil {
					continue
				}
				if _, isStruct := derefType(al.Type()).Underlying().(*types.Struct); isStruct {
					continue // objects, not cells: their fields are written through field addresses
				}
				var escapes, writes []*ssa.Store
				for _, ref := range *al.Referrers() {
					st, isSt := ref.(*ssa.Store)
					if !isSt {
						continue
					}
					if st.Val == ssa.Value(al) {
						switch st.Addr.(type) {
						case *ssa.FieldAddr, *ssa.IndexAddr:
							escapes = append(escapes, st)
						}
					} else if st.Addr == ssa.Value(al) {
						writes = append(writes, st)
					}
				}
				if len(escapes) == 0 {
					continue
				}
				nCells++
				bad := ""
				for _, e := range escapes {
					for _, w := range writes {
						after := false
						if e.Block() == w.Block() {
							for _, x := range e.Block().Instrs {
								if x == ssa.Instruction(e) {
									after = true
								} else if x == ssa.Instruction(w) && after {
									bad = "assigned again after its address was stored"
								}
							}
							if cyclic(e.Block()) && !cyclic(al.Block()) {
								bad = "assigned again in the next iteration of the loop that stores its address"
							}
						} else if blockReaches(e.Block(), w.Block()) {
							bad = "assigned again after its address was stored"
						}
					}
				}
				if bad != "" {
					r.Fail(rule, fmt.Sprintf("fn:%s|cell:%s", p.StableName(fn), al.Comment), p.InstrPos(escapes[0]), fmt.Sprintf("the address of local variable %s is stored into an object, and the variable is %s: every object that received the address reads the value assigned last", al.Comment, bad))
				}
			}
		}
	}
	r.Stat(rule+".local cells whose address is stored into an object", nCells)
	if nCells > 0 {
		r.Pass(rule, "cells", "", fmt.Sprintf("%d local cells whose address is stored into an object; none is assigned again after its address was handed to an object", nCells))
	}
	r.Floor(rule, "local cells whose address is stored into an object", nCells, 3)
}

// deletePrecheckRule: a binding delete is tied to the sending peer — the pre-check
// of RemoveBinding asks HasLocalFeatureRemoteBinding about the address of the
// feature resolved on the local device and the address of the feature resolved on
// the requesting device (not about address data copied from the request, whose
// device part the look-up ignores).
func deletePrecheckRule(p *Prog, r *Report, rule string) {
	bmi := p.LookupIface("api", "BindingManagerInterface")
	if bmi == nil {
		r.Undecided(rule, "anchor:api.BindingManagerInterface", "", "interface not found")
		return
	}
	n := 0
	for _, fn := range p.ImplsOf(bmi, "RemoveBinding") {
		if isWrapper(fn) || len(fn.Params) < 3 {
			continue
		}
		p.InScope(fn, func() {
			forEachCall(fn, func(site ssa.CallInstruction) {
				c, ok := site.(*ssa.Call)
				if !ok || !calleeIsIfaceMethod(&c.Call, bmi, "HasLocalFeatureRemoteBinding") && (c.Call.StaticCallee() == nil || originName(c.Call.StaticCallee()) != "HasLocalFeatureRemoteBinding") {
					return
				}
				n++
				args := callArgs(&c.Call)
				if len(args) < 2 {
					return
				}
				local, remote := Path(args[len(args)-2]), Path(args[len(args)-1])
				peer := "param:" + fn.Params[2].Name() + "."
				okLocal := strings.HasSuffix(local, ".Address()") && strings.Contains(local, "FeatureByAddress(") && !strings.HasPrefix(local, peer)
				okRemote := strings.HasSuffix(remote, ".Address()") && strings.HasPrefix(remote, peer) && strings.Contains(remote, "FeatureByAddress(")
				r.Check(rule, FnName(fn)+"|precheck-args", okLocal && okRemote, p.InstrPos(c), fmt.Sprintf("the pre-check is asked about (%s, %s); required: the address of the feature resolved on the local device and the address of the feature resolved on the requesting device", local, remote))
			})
		})
	}
	r.Floor(rule, "binding pre-checks in RemoveBinding", n, 1)
}

// fieldAddressEscapes: the address of a field of a long-lived object (a field of
// the receiver or of an object reached from it) is never returned or stored into
// another object: whoever holds such a pointer reads — without any lock —
// whatever is assigned to the field later, so a value handed out that way is not
// a snapshot. Addresses passed to calls (locks, atomics) are not escapes.
// Returns the number of field addresses examined.
func fieldAddressEscapes(p *Prog, r *Report, rule string, only func(fn *ssa.Function) bool, shorts ...string) {
	n, nBad := 0, 0
	for _, fn := range p.RepoFns(shorts...) {
		if isWrapper(fn) || (only != nil && !only(fn)) {
			continue
		}
		seenKey := map[string]bool{}
		for _, b := range fn.Blocks {
			for _, ins := range b.Instrs {
				fa, ok := ins.(*ssa.FieldAddr)
				if !ok || fa.Referrers() == nil {
					continue
				}
				// rooted at a parameter (receiver) or a value loaded from the heap, not at a local object under construction
				root := ssa.Value(fa)
				for d := 0; d < 8; d++ {
					if f2, isF := root.(*ssa.FieldAddr); isF {
						root = f2.X
						continue
					}
					break
				}
				if al, isAl := root.(*ssa.Alloc); isAl {
					if _, isStruct := derefType(al.Type()).Underlying().(*types.Struct); isStruct {
						continue // a struct being built in this function
					}
				}
				if _, isPar := root.(*ssa.Parameter); !isPar {
					if _, isLoad := root.(*ssa.UnOp); !isLoad {
						continue
					}
				}
				n++
				how := ""
				var walk func(v ssa.Value, d int)
				walk = func(v ssa.Value, d int) {
					if d > 4 || v.Referrers() == nil || how != "" {
						return
					}
					for _, ref := range *v.Referrers() {
						switch x := ref.(type) {
						case *ssa.Return:
							how = "returned"
						case *ssa.Store:
							if x.Val == v {
								if _, isLocal := x.Addr.(*ssa.Alloc); isLocal {
									// spilled result cell or a local pointer variable: follow its loads
									if al := x.Addr.(*ssa.Alloc); al.Referrers() != nil {
										for _, r2 := range *al.Referrers() {
											if ld, isLd := r2.(*ssa.UnOp); isLd {
												walk(ld, d+1)
											}
										}
									}
									continue
								}
								how = "stored into " + Path(x.Addr)
							}
						case *ssa.MakeInterface:
							walk(x, d+1)
						case *ssa.ChangeType:
							walk(x, d+1)
						case *ssa.Phi:
							walk(x, d+1)
						}
					}
				}
				walk(fa, 0)
				if how == "" {
					continue
				}
				fld := fieldOfAddr(fa)
				if !fieldMutatedAfterConstruction(p, fld) {
					continue // set once while the object is built: a pointer to it reads a constant
				}
				key := fmt.Sprintf("fn:%s|field:%s", p.StableName(fn), fld.Name())
				if seenKey[key] {
					continue
				}
				seenKey[key] = true
				nBad++
				r.Fail(rule, key, p.InstrPos(fa), fmt.Sprintf("the address of field %s of a long-lived object is %s: the holder of that pointer reads, without a lock, whatever is assigned to the field later", fld.Name(), how))
			}
		}
	}
	r.Stat(rule+".field addresses of long-lived objects examined", n)
	if nBad == 0 {
		r.Pass(rule, "field-addresses", "", fmt.Sprintf("%d field addresses of long-lived objects: none of a field that is assigned after construction is returned or stored into another object", n))
	}
	r.Floor(rule, "field addresses of long-lived objects examined", n, 20)
}

var mutatedFieldMemo map[*types.Var]bool

// fieldMutatedAfterConstruction: some function writes the field of an object it
// did not create itself (a store through a parameter / loaded pointer, or an
// atomic read-modify-write on the field's address).
func fieldMutatedAfterConstruction(p *Prog, fld *types.Var) bool {
	if mutatedFieldMemo == nil {
		mutatedFieldMemo = map[*types.Var]bool{}
		for _, fn := range p.RepoFns("spine", "model", "util") {
			if isWrapper(fn) {
				continue
			}
			for _, b := range fn.Blocks {
				for _, ins := range b.Instrs {
					fa, ok := ins.(*ssa.FieldAddr)
					if !ok || fa.Referrers() == nil || fieldOfAddr(fa) == nil {
						continue
					}
					root := ssa.Value(fa)
					for d := 0; d < 8; d++ {
						if f2, isF := root.(*ssa.FieldAddr); isF {
							root = f2.X
							continue
						}
						break
					}
					if al, isAl := root.(*ssa.Alloc); isAl {
						if _, isStruct := derefType(al.Type()).Underlying().(*types.Struct); isStruct {
							continue
						}
					}
					for _, ref := range *fa.Referrers() {
						switch x := ref.(type) {
						case *ssa.Store:
							if x.Addr == ssa.Value(fa) {
								mutatedFieldMemo[fieldOfAddr(fa)] = true
							}
						case *ssa.Call:
							if c := x.Call.StaticCallee(); c != nil && fnPkgPath(c) == "sync/atomic" && !strings.HasPrefix(c.Name(), "Load") {
								mutatedFieldMemo[fieldOfAddr(fa)] = true
							}
						}
					}
				}
			}
		}
	}
	return mutatedFieldMemo[fld]
}

// deepCopyRule (C08/C09): the address a delete request is matched with is a private copy of the request's client
// address. Two conditions keep it private and faithful:
//   - the destination handed to util.DeepCopy is a fresh local that nothing was stored into before (encoding/json
//     decodes *into* what a pointer field already points to: a destination pre-filled with the peer's own device
//     address gets that shared object overwritten by the request);
//   - util.DeepCopy copies through encoding/json, the codec the data model is written for (a codec that drops zero
//     values behind pointers turns feature number 0 into "no feature").
func deepCopyRule(p *Prog, r *Report, rule string, m mgrSpec) {
	r.Rule(rule, "the client address a delete request is matched with is a private, faithful copy: util.DeepCopy gets a fresh, untouched local as destination, and it copies through encoding/json")
	// the helper itself
	var helper *ssa.Function
	for _, fn := range p.RepoFns("util") {
		if originName(fn) == "DeepCopy" && fn.Signature.Recv() == nil && fn.Blocks != nil {
			helper = fn
		}
	}
	if helper == nil {
		r.Undecided(rule, "anchor:util.DeepCopy", "", "function not found")
		return
	}
	enc := map[string]bool{}
	forEachCallOwn(helper, func(site ssa.CallInstruction) {
		if c := site.Common().StaticCallee(); c != nil && strings.HasPrefix(fnPkgPath(c), "encoding/") {
			enc[fnPkgPath(c)+"."+c.Name()] = true
		}
	})
	okCodec := enc["encoding/json.Marshal"] && enc["encoding/json.Unmarshal"] && len(enc) == 2
	r.Check(rule, "util.DeepCopy|codec", okCodec, p.Pos(helper.Pos()), fmt.Sprintf("copies through %v", sortedKeys(enc)))
	// its destinations in the manager
	n := 0
	fn := p.Method("spine", m.Type, m.Remove)
	if fn == nil {
		r.Undecided(rule, "anchor:"+m.Type+"."+m.Remove, "", "method not found")
		return
	}
	p.InScope(fn, func() {
		forEachCall(fn, func(site ssa.CallInstruction) {
			c := site.Common().StaticCallee()
			if c == nil || originName(c) != "DeepCopy" || !strings.HasSuffix(fnPkgPath(c), "/util") || len(site.Common().Args) != 2 {
				return
			}
			n++
			dst := site.Common().Args[1]
			al, isAl := dst.(*ssa.Alloc)
			touched := ""
			if isAl && al.Referrers() != nil {
				var scan func(v ssa.Value, d int)
				scan = func(v ssa.Value, d int) {
					if d > 3 || v.Referrers() == nil {
						return
					}
					for _, ref := range *v.Referrers() {
						switch x := ref.(type) {
						case *ssa.Store:
							if x.Addr == v && instrDominates(x, site.(ssa.Instruction)) {
								if k, isK := x.Val.(*ssa.Const); !(isK && k.Value == nil) {
									touched = "assigned " + Path(x.Val) + " at " + p.InstrPos(x)
								}
							}
						case *ssa.FieldAddr:
							scan(x, d+1)
						}
					}
				}
				scan(al, 0)
			}
			r.Check(rule, fmt.Sprintf("spine.%s.%s|destination#%d", m.Type, m.Remove, n), isAl && touched == "", p.InstrPos(site.(ssa.Instruction)), fmt.Sprintf("destination %s is a fresh local: %v; before the copy it was %s", Path(dst), isAl, orStr(touched, "untouched")))
		})
	})
	r.Floor(rule, "DeepCopy calls in "+m.Remove, n, 1)
}

// featureTypeKept (C08/C09): the grant conditions compare the type a feature announces; the constructors of remote
// and local features hand the type they are given to the base feature unchanged (a constructor that maps unknown
// types to Generic makes every such feature pass the type check of any server).
func featureTypeKept(p *Prog, r *Report, rule string) {
	r.Rule(rule, "a feature keeps the type it was announced with: NewFeatureRemote and NewFeatureLocal pass their type parameter unchanged to the base feature (the role/type checker accepts Generic for any type)")
	n := 0
	for _, name := range []string{"NewFeatureRemote", "NewFeatureLocal"} {
		for _, fn := range p.RepoFns("spine") {
			if fn.Name() != name || fn.Signature.Recv() != nil || fn.Blocks == nil {
				continue
			}
			var ftypeParam *ssa.Parameter
			for _, prm := range fn.Params {
				if isNamed(prm.Type(), "model", "FeatureTypeType") {
					ftypeParam = prm
				}
			}
			forEachCallOwn(fn, func(site ssa.CallInstruction) {
				c := site.Common().StaticCallee()
				if c == nil || c.Name() != "NewFeature" || !p.IsRepoFn(c) {
					return
				}
				n++
				ok := false
				for _, a := range site.Common().Args {
					if isNamed(a.Type(), "model", "FeatureTypeType") {
						ok = ftypeParam != nil && a == ssa.Value(ftypeParam)
					}
				}
				r.Check(rule, "spine."+name+"|type-kept", ok, p.InstrPos(site.(ssa.Instruction)), "the base feature is built with the constructor's own type parameter")
			})
		}
	}
	r.Floor(rule, "feature constructors", n, 2)
}
