package main

import (
	"fmt"
	"go/types"
	"strings"

	"golang.org/x/tools/go/ssa"
)

func init() {
	register("C11", true,
		"Ownership analysis of the function-data store: computed write-through summaries for every function of model and spine (stores through pointer parameters, element stores, reflect.Value.Set on values derived from reflect.ValueOf(param).Elem(), in-place library sorts), propagated along the call graph from the stored object down to the sites that write elements of a slice somebody else owns; plus alias rules on the store field (no caller object stored, stored pointer never returned or handed out, copy taken under the lock) and dominance rules (every store to the field only under persist). Decided: which code can write memory shared between the store, snapshots handed out and event payloads. Not decided: aliasing created outside the repository, sharing below the first level by design of DataCopy (a shallow copy), races while encoding.",
		checkC11)
}

// ownedWriteKeys assigns stable keys (with an occurrence index per function/callee/root) to bottom sites.
func ownedWriteKeys(p *Prog, sites []elemWrite) map[string]elemWrite {
	res := map[string]elemWrite{}
	count := map[string]int{}
	// sites arrive sorted by key; order equal keys by position in the function
	for _, w := range sites {
		k := w.Key()
		count[k]++
		res[fmt.Sprintf("%s#%d", k, count[k])] = w
	}
	return res
}

func isFunctionDataFn(fn *ssa.Function) bool {
	if fn.Signature.Recv() == nil {
		return false
	}
	n := namedOf(fn.Signature.Recv().Type())
	return n != nil && (n.Obj().Name() == "FunctionData" || n.Obj().Name() == "FunctionDataCmd") && n.Obj().Pkg() != nil && n.Obj().Pkg().Path() == repoMod+"/spine"
}

func checkC11(p *Prog, r *Report) {
	r.Rule("O1", "no alias in: the function-data store never stores an object that came in through a parameter")
	r.Rule("O2", "no alias out: the stored pointer is never returned, stored elsewhere or passed outside; DataCopy returns a copy taken while the store lock is held")
	r.Rule("O2s", "the list handed back by an update is not the list that was just persisted")
	r.Rule("O3", "copy-on-write below the first level: no function writes elements of a slice that is reachable from the store or from a snapshot handed out (computed write-through summaries, propagated from the stored object and from DataCopy results)")
	r.Rule("O6", "failure is never lost in the generic engine (C04-R9): a stage failure on the path makes the engine return false, so the persist guard (O4) sees it")
	r.Rule("O4", "the per-type update assigns the merged list only under success && persist (C02-R1/S4)")
	r.Rule("O5", "every store to the function-data field happens only when persisting")

	// one body stands for all instantiations
	seenOrigin := map[*ssa.Function]bool{}
	nStores, nLoads, nRets := 0, 0, 0
	nDeref := 0
	lsC11 := BuildLockset(p, "spine", "model")
	// an extracted helper of a store method is analysed in the scope of that method
	// (the persist guard of its call site holds inside it)
	type scoped struct{ fn, root *ssa.Function }
	var work []scoped
	inSomeScope := map[*ssa.Function]bool{}
	for _, root := range p.RepoFns("spine") {
		if !isFunctionDataFn(root) || seenOrigin[originOf(root)] || p.helperCandidate(root) && len(p.Callers(root)) > 0 {
			continue
		}
		seenOrigin[originOf(root)] = true
		for _, sf := range p.ScopeFns(root) {
			if isFunctionDataFn(sf) && !inSomeScope[sf] && (sf == root || !seenOrigin[originOf(sf)]) {
				inSomeScope[sf] = true
				seenOrigin[originOf(sf)] = true
				work = append(work, scoped{sf, root})
			}
		}
	}
	for _, fn := range p.RepoFns("spine") {
		if isFunctionDataFn(fn) && !seenOrigin[originOf(fn)] && !inSomeScope[fn] {
			seenOrigin[originOf(fn)] = true
			work = append(work, scoped{fn, fn}) // helper shared by several methods: stands for itself
		}
	}
	for _, w := range work {
		fn, root := w.fn, w.root
		p.InScope(root, func() { c11StoreFn(p, r, lsC11, fn, root, &nStores, &nLoads, &nRets, &nDeref) })
	}
	r.Rule("O7", "no value handed out points into live state: the address of a field of a long-lived object (e.g. a running counter) is never returned or stored into another object — data built from such a pointer changes after it was handed out")
	fieldAddressEscapes(p, r, "O7", nil, "spine")
	sharedGlobalCells(p, r, "O8")
	// O9 (shared with C20-R1): an unlocked copy-modify-store cycle on the use-case data lets two appends write the
	// same spare slot of a backing array that a snapshot taken in between already shares
	if eli, fli := p.LookupIface("api", "EntityLocalInterface"), p.LookupIface("api", "FeatureLocalInterface"); eli != nil && fli != nil {
		useCaseCycleRule(p, r, lsC11, eli, fli, "O9", "")
	} else {
		r.Undecided("O9", "anchor:api.EntityLocalInterface/FeatureLocalInterface", "", "interface not found")
	}
	singleApplicationRule(p, r, "O10")
	r.Floor("O1", "stores to FunctionData.data", nStores, 2)
	r.Floor("O2", "loads of FunctionData.data", nLoads, 3)
	c11Rest(p, r, lsC11)
}

func c11StoreFn(p *Prog, r *Report, lsC11 *Lockset, fn, root *ssa.Function, pnStores, pnLoads, pnRets, pnDeref *int) {
	nStores, nLoads, nRets, nDeref := *pnStores, *pnLoads, *pnRets, *pnDeref
	defer func() { *pnStores, *pnLoads, *pnRets, *pnDeref = nStores, nLoads, nRets, nDeref }()
	{
		base := FnName(originOf(fn))
		storeIdx := 0
		// the objects this function puts into the store: none of them may also be handed to the caller
		storedObjs := map[ssa.Value]bool{}
		for _, b := range fn.Blocks {
			for _, ins := range b.Instrs {
				if x, isSt := ins.(*ssa.Store); isSt {
					if fa, ok := x.Addr.(*ssa.FieldAddr); ok && fieldOfAddr(fa) != nil && fieldOfAddr(fa).Name() == "data" {
						for _, o := range ptrOrigins(x.Val) {
							if _, isAl := o.(*ssa.Alloc); isAl {
								storedObjs[o] = true
							}
						}
					}
				}
			}
		}
		for _, b := range fn.Blocks {
			for _, ins := range b.Instrs {
				switch x := ins.(type) {
				case *ssa.Store:
					fa, ok := x.Addr.(*ssa.FieldAddr)
					if !ok || fieldOfAddr(fa) == nil || fieldOfAddr(fa).Name() != "data" {
						continue
					}
					nStores++
					storeIdx++
					okIn := true
					var srcs []string
					for _, o := range ptrOrigins(x.Val) {
						srcs = append(srcs, Path(o))
						if _, isParam := o.(*ssa.Parameter); isParam {
							okIn = false
						}
						if paramIndex(fn, o) >= 0 {
							okIn = false
						}
					}
					r.Check("O1", fmt.Sprintf("%s|store#%d", base, storeIdx), okIn, p.InstrPos(x), fmt.Sprintf("stored value comes from %v", srcs))
					// O5: guarded by persist
					guarded := false
					for _, g := range Guards(b) {
						if !g.Val {
							continue
						}
						if prm, ok := substParam(g.Cond).(*ssa.Parameter); ok && len(root.Params) > 2 && prm == root.Params[2] {
							guarded = true
						}
					}
					r.Check("O5", fmt.Sprintf("%s|store#%d", base, storeIdx), guarded, p.InstrPos(x), "the store is reached only on the true edge of the persist parameter")
				case *ssa.UnOp:
					// a dereference of the stored pointer (copying the stored struct) happens under the store's lock
					if inner, isLd := x.X.(*ssa.UnOp); isLd {
						if fa2, ok := inner.X.(*ssa.FieldAddr); ok && fieldOfAddr(fa2) != nil && fieldOfAddr(fa2).Name() == "data" {
							if _, isPtr := inner.Type().Underlying().(*types.Pointer); isPtr {
								nDeref++
								held := false
								for lp := range lsC11.At(x) {
									if strings.HasPrefix(lp, "recv.") {
										held = true
									}
								}
								r.Check("O2", fmt.Sprintf("%s|deref#%d", base, nDeref), held, p.InstrPos(x), fmt.Sprintf("the stored struct is read through the stored pointer with the locks %s held (a lock of the function-data object is required: a concurrent update assigns into that struct)", lsC11.At(x)))
							}
						}
					}
					fa, ok := x.X.(*ssa.FieldAddr)
					if !ok || fieldOfAddr(fa) == nil || fieldOfAddr(fa).Name() != "data" {
						continue
					}
					nLoads++
					// uses of the stored pointer
					bad := pointerEscapes(p, x, map[ssa.Value]bool{}, 0)
					if lastStoreIsNil(x) {
						bad = "" // the field was set to nil just before in the same block: the value is nil
					}
					r.Check("O2", fmt.Sprintf("%s|load#%d", base, nLoads), bad == "", p.InstrPos(x), "the stored pointer "+orStr(bad, "is only dereferenced, compared and used as receiver of the in-repository update"))
				case *ssa.Return:
					for i, res := range x.Results {
						for _, o := range ptrOrigins(res) {
							if storedObjs[o] {
								nRets++
								r.Fail("O2", fmt.Sprintf("%s|return-of-stored-object#%d", base, i), p.InstrPos(x), "the object just put into the store ("+Path(o)+") is also returned: the caller holds the store's own struct, which the next update assigns into")
							}
							if u, ok := o.(*ssa.UnOp); ok {
								if fa, ok := u.X.(*ssa.FieldAddr); ok && fieldOfAddr(fa) != nil && fieldOfAddr(fa).Name() == "data" {
									if lastStoreIsNil(u) {
										continue // the field was set to nil just before in the same block: nil is returned
									}
									nRets++
									r.Fail("O2", fmt.Sprintf("%s|return#%d", base, i), p.InstrPos(x), "the stored pointer itself is returned")
								}
							}
						}
					}
				}
			}
		}
		// DataCopy: returns the address of a local into which *data was copied, under the lock
		if originName(fn) == "DataCopy" {
			ok := false
			for _, b := range fn.Blocks {
				ret, isRet := b.Instrs[len(b.Instrs)-1].(*ssa.Return)
				if !isRet || len(ret.Results) != 1 {
					continue
				}
				for _, s := range p.SourcesOpt(ret.Results[0], false, nil, true) {
					if al, isAl := s.Val.(*ssa.Alloc); isAl && s.Kind == "alloc" {
						for _, ref := range *al.Referrers() {
							if st, isSt := ref.(*ssa.Store); isSt && st.Addr == ssa.Value(al) {
								if u, isU := st.Val.(*ssa.UnOp); isU {
									if ld, isLd := u.X.(*ssa.UnOp); isLd {
										if fa, isFA := ld.X.(*ssa.FieldAddr); isFA && fieldOfAddr(fa).Name() == "data" {
											ok = true
										}
									}
								}
							}
						}
					}
				}
			}
			r.Check("O2", base+"|copy", ok, p.Pos(fn.Pos()), "DataCopy returns the address of a local copy of the stored value")
		}
	}
}

func c11Rest(p *Prog, r *Report, lsC11 *Lockset) {

	// O2s: the list returned by the update is the persisted list
	for _, fn := range p.RepoFns("spine") {
		if !isFunctionDataFn(fn) || originName(fn) != "UpdateData" {
			continue
		}
		upd := p.LookupIface("model", "Updater")
		var call *ssa.Call
		forEachCall(fn, func(site ssa.CallInstruction) {
			if c, ok := site.(*ssa.Call); ok && calleeIsIfaceMethod(&c.Call, upd, "UpdateList") {
				call = c
			}
		})
		if call == nil {
			continue
		}
		returned := false
		for _, b := range fn.Blocks {
			if ret, ok := b.Instrs[len(b.Instrs)-1].(*ssa.Return); ok && len(ret.Results) > 0 {
				for _, s := range p.Sources(ret.Results[0], false) {
					if s.Val == ssa.Value(call) {
						returned = true
					}
				}
			}
		}
		r.Check("O2s", "spine.FunctionData.UpdateData|returns-persisted-list", !returned, p.InstrPos(call), "the list returned by Updater.UpdateList — the very slice the per-type method has just assigned to the stored object when persisting — is handed to the caller without a copy")
		// O5: the per-type method is told the store's own persist flag (it assigns the merged list to the stored object
		// under 'success && persist': a constant true makes a non-persisting update change the store)
		p.InScope(fn, func() {
			args := callArgs(&call.Call)
			if len(args) == 5 && len(fn.Params) >= 6 {
				got := unwrapIface(substParam(args[1]))
				want := ssa.Value(fn.Params[2]) // receiver, remoteWrite, persist, …
				r.Check("O5", "spine.FunctionData.UpdateData|persist-passed-on", got == want, p.InstrPos(call), "Updater.UpdateList receives "+Path(args[1])+" as its persist argument (the function's own persist parameter is required)")
			}
		})
		break
	}

	// O3
	o := BuildOwnership(p, "model", "spine", "util")
	sites := o.StoreOwnedWrites("")
	keyed := ownedWriteKeys(p, sites)
	for _, k := range sortedKeys(keyed) {
		w := keyed[k]
		r.Fail("O3", k, p.InstrPos(w.Ins), fmt.Sprintf("elements of a slice owned by the store or a snapshot (%s) are written in place via %s", w.Root, w.How))
	}
	if len(sites) == 0 {
		r.Pass("O3", "repository", "", "no in-place write to store-owned elements")
	}
	nSum := 0
	for f, s := range o.sum {
		if !s.empty() && !isWrapper(f) {
			nSum++
		}
	}
	r.Stat("O3.functions with a write-through summary", nSum)
	r.Stat("O3.element-write sites examined", len(o.Sites))
	r.Floor("O3", "functions with a write-through summary", nSum, 100)
	// the two exported reflective helpers must be recognised as writers (positive control of the summary computation)
	for _, want := range []struct {
		name string
		idx  int
	}{{"CopyNonNilDataFromItemToItem", 1}, {"RemoveElementFromItem", 0}} {
		found := false
		for f, s := range o.sum {
			if originName(f) == want.name && fnPkgPath(f) == repoMod+"/model" && s.Through[want.idx] {
				found = true
			}
		}
		r.Check("O3", "summary:model."+want.name, found, "", fmt.Sprintf("recognised as writing through parameter %d by reflection", want.idx))
	}

	// O4: sibling template S4
	t := BuildTables(p)
	tmp := NewReport("C11", r.Tier, r.Seed)
	for _, nt := range t.Updaters {
		updateListTemplate(p, tmp, "O4", nt)
	}
	n4 := 0
	for _, ob := range tmp.Obs {
		if strings.HasSuffix(ob.Key, "|S4") {
			n4++
			r.Check("O4", ob.Key, ob.OK, ob.Pos, ob.Detail)
		}
	}
	r.Floor("O4", "Updater implementations", n4, 80)
	engineFailureRule(p, r, "O6")
	r.Assumes("DataCopy is a shallow copy by design: lists below the first level share their backing arrays with the store, which is safe only because nothing writes them in place (O3)",
		"reflection is summarised by the pattern ValueOf(param).Elem()…Set*")
}

func orStr(a, b string) string {
	if a != "" {
		return a
	}
	return b
}

// pointerEscapes follows the uses of the stored pointer: returns a description
// of the first escaping use ("" if none).
func pointerEscapes(p *Prog, v ssa.Value, seen map[ssa.Value]bool, depth int) string {
	if seen[v] || depth > 8 || v.Referrers() == nil {
		return ""
	}
	seen[v] = true
	for _, u := range *v.Referrers() {
		switch x := u.(type) {
		case *ssa.UnOp, *ssa.BinOp, *ssa.If, *ssa.FieldAddr, *ssa.DebugRef:
			// dereference, comparison, field address: not an escape of the pointer
		case *ssa.Phi:
			if s := pointerEscapes(p, x, seen, depth+1); s != "" {
				return s
			}
		case *ssa.MakeInterface:
			if s := pointerEscapes(p, x, seen, depth+1); s != "" {
				return s
			}
		case *ssa.TypeAssert:
			if s := pointerEscapes(p, x, seen, depth+1); s != "" {
				return s
			}
		case *ssa.ChangeInterface:
			if s := pointerEscapes(p, x, seen, depth+1); s != "" {
				return s
			}
		case *ssa.Extract:
			if s := pointerEscapes(p, x, seen, depth+1); s != "" {
				return s
			}
		case *ssa.Store:
			if x.Val == v {
				if fa, ok := x.Addr.(*ssa.FieldAddr); ok && fieldOfAddr(fa).Name() == "data" {
					continue // written back to the same field
				}
				if _, isAlloc := x.Addr.(*ssa.Alloc); isAlloc {
					continue // local variable
				}
				return "is stored to " + Path(x.Addr)
			}
		case *ssa.Return:
			return "is returned"
		case *ssa.Call:
			// receiver of an in-repository method or interface of package model: allowed
			if x.Call.IsInvoke() && x.Call.Value == v {
				continue
			}
			if c := x.Call.StaticCallee(); c != nil && p.IsRepoFn(c) {
				// as the receiver of a repository method: fine. As an ordinary argument the callee may keep it
				// (createCmd puts its argument into the command it returns): accepted only if the callee neither
				// returns nor stores anything that could carry it
				if c.Signature.Recv() != nil && len(x.Call.Args) > 0 && x.Call.Args[0] == v {
					continue
				}
				if !calleeMayRetain(c) {
					continue
				}
				return "is passed to " + FnName(originOf(c)) + ", which returns or stores data built from its arguments"
			}
			return "is passed to " + Path(x)
		}
	}
	return ""
}

// ptrOrigins: where a pointer value itself comes from (identity, not contents):
// follows phis and interface/type conversions only.
func ptrOrigins(v ssa.Value) []ssa.Value {
	var res []ssa.Value
	seen := map[ssa.Value]bool{}
	var walk func(v ssa.Value, d int)
	walk = func(v ssa.Value, d int) {
		if v == nil || seen[v] || d > 10 {
			return
		}
		seen[v] = true
		switch x := v.(type) {
		case *ssa.Phi:
			for _, e := range x.Edges {
				walk(e, d+1)
			}
		case *ssa.MakeInterface:
			walk(x.X, d+1)
		case *ssa.ChangeInterface:
			walk(x.X, d+1)
		case *ssa.ChangeType:
			walk(x.X, d+1)
		case *ssa.TypeAssert:
			walk(x.X, d+1)
		case *ssa.UnOp:
			// load of a local pointer variable: what was stored into it
			if a, ok := x.X.(*ssa.Alloc); ok {
				n := 0
				for _, ref := range *a.Referrers() {
					if st, ok := ref.(*ssa.Store); ok && st.Addr == ssa.Value(a) {
						walk(st.Val, d+1)
						n++
					}
				}
				if n > 0 {
					return
				}
			}
			res = append(res, v)
		default:
			res = append(res, v)
		}
	}
	walk(v, 0)
	return res
}

// lastStoreIsNil: the load of the data field is preceded, in its block, by a
// store of the nil constant to the same field with no other store in between.
func lastStoreIsNil(load *ssa.UnOp) bool {
	var last *ssa.Store
	for _, ins := range load.Block().Instrs {
		if ins == ssa.Instruction(load) {
			break
		}
		if st, ok := ins.(*ssa.Store); ok {
			if fa, ok := st.Addr.(*ssa.FieldAddr); ok && fieldOfAddr(fa) != nil && fieldOfAddr(fa).Name() == "data" {
				last = st
			}
		}
	}
	return last != nil && isNilConst(last.Val)
}

// calleeMayRetain: the pointer handed to the callee as one of its arguments may be
// kept by it — returned, stored into the heap, or handed on to a function that may
// keep it (reflection and unknown library code count as "may keep"). Dereferencing,
// comparing and copying the pointee do not keep the pointer.
func calleeMayRetain(c *ssa.Function) bool {
	for i := range c.Params {
		if _, isPtr := c.Params[i].Type().Underlying().(*types.Pointer); !isPtr {
			if _, isIface := c.Params[i].Type().Underlying().(*types.Interface); !isIface {
				continue
			}
		}
		if paramMayEscape(c, i, 0, map[*ssa.Function]bool{}) {
			return true
		}
	}
	return false
}

var nonRetainingExternals = map[string]bool{
	"encoding/json.Marshal": true, "reflect.DeepEqual": true, "fmt.Sprintf": true, "fmt.Sprint": true, "fmt.Errorf": true, "fmt.Sprintln": true,
	"reflect.TypeOf": true,
}

func paramMayEscape(fn *ssa.Function, idx int, depth int, visiting map[*ssa.Function]bool) bool {
	if fn == nil || fn.Blocks == nil || depth > 4 || idx >= len(fn.Params) {
		return true
	}
	if visiting[fn] {
		return false
	}
	visiting[fn] = true
	defer delete(visiting, fn)
	seen := map[ssa.Value]bool{}
	var walk func(v ssa.Value) bool
	walk = func(v ssa.Value) bool {
		if seen[v] || v.Referrers() == nil {
			return false
		}
		seen[v] = true
		for _, ref := range *v.Referrers() {
			switch x := ref.(type) {
			case *ssa.Return:
				return true
			case *ssa.Store:
				if x.Val != v {
					continue
				}
				if al, isLocal := x.Addr.(*ssa.Alloc); isLocal {
					if al.Referrers() != nil {
						for _, r2 := range *al.Referrers() {
							if ld, isLd := r2.(*ssa.UnOp); isLd && walk(ld) {
								return true
							}
						}
					}
					continue
				}
				return true
			case *ssa.Phi, *ssa.MakeInterface, *ssa.ChangeType, *ssa.ChangeInterface, *ssa.TypeAssert, *ssa.Extract, *ssa.Convert:
				if walk(x.(ssa.Value)) {
					return true
				}
			case *ssa.MapUpdate, *ssa.Send:
				return true
			case *ssa.MakeClosure:
				return true
			case ssa.CallInstruction:
				com := x.Common()
				if builtinName(com) != "" {
					continue
				}
				args := argsWithRecv(com)
				callee := com.StaticCallee()
				for ai, a := range args {
					if a != v {
						continue
					}
					if callee == nil {
						return true // dynamic call: unknown
					}
					if callee.Blocks == nil || !strings.HasPrefix(fnPkgPath(callee), repoMod) {
						if nonRetainingExternals[fnPkgPath(callee)+"."+callee.Name()] {
							continue
						}
						return true
					}
					if paramMayEscape(callee, ai, depth+1, visiting) {
						return true
					}
				}
				if _, isGo := x.(*ssa.Go); isGo {
					return true
				}
			}
		}
		return false
	}
	return walk(fn.Params[idx])
}

// noAliasIn (C11-O1, shared with C17): the function-data store never keeps an
// object its caller still holds — what is stored is a private copy.
func noAliasIn(p *Prog, r *Report, rule string) {
	n := 0
	seen := map[*ssa.Function]bool{}
	for _, fn := range p.RepoFns("spine") {
		if !isFunctionDataFn(fn) || seen[originOf(fn)] {
			continue
		}
		seen[originOf(fn)] = true
		idx := 0
		for _, b := range fn.Blocks {
			for _, ins := range b.Instrs {
				st, ok := ins.(*ssa.Store)
				if !ok {
					continue
				}
				fa, ok := st.Addr.(*ssa.FieldAddr)
				if !ok || fieldOfAddr(fa) == nil || fieldOfAddr(fa).Name() != "data" {
					continue
				}
				n++
				idx++
				okIn := true
				var srcs []string
				for _, o := range ptrOrigins(st.Val) {
					srcs = append(srcs, Path(o))
					if _, isParam := o.(*ssa.Parameter); isParam || paramIndex(fn, o) >= 0 {
						okIn = false
					}
				}
				r.Check(rule, fmt.Sprintf("%s|store#%d", FnName(originOf(fn)), idx), okIn, p.InstrPos(st), fmt.Sprintf("stored value comes from %v (a caller's object kept in the store is written under the store's lock while the caller, or an event handler that got it, reads it without)", srcs))
			}
		}
	}
	r.Floor(rule, "stores to FunctionData.data", n, 2)
}
