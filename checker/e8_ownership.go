package main

// E8 — ownership: computed write-through summaries and the sites where memory
// that is shared with the function-data store (or with snapshots handed out) is
// written in place.

import (
	"fmt"
	"go/token"
	"go/types"
	"sort"
	"strings"

	"golang.org/x/tools/go/ssa"
)

type ownSummary struct {
	Through    map[int]bool            // writes through pointer parameter i (fields of the pointee, *p, reflect Set)
	Elems      map[int]bool            // writes into elements of slice parameter i
	FieldElems map[int]map[string]bool // writes into elements of the slice in field F of the struct parameter i points to
}

func newOwnSummary() *ownSummary {
	return &ownSummary{Through: map[int]bool{}, Elems: map[int]bool{}, FieldElems: map[int]map[string]bool{}}
}

func (s *ownSummary) empty() bool {
	return len(s.Through) == 0 && len(s.Elems) == 0 && len(s.FieldElems) == 0
}

func (s *ownSummary) String() string {
	var parts []string
	for i := range s.Through {
		parts = append(parts, fmt.Sprintf("through#%d", i))
	}
	for i := range s.Elems {
		parts = append(parts, fmt.Sprintf("elems#%d", i))
	}
	for i, m := range s.FieldElems {
		for f := range m {
			parts = append(parts, fmt.Sprintf("elems#%d.%s", i, f))
		}
	}
	sort.Strings(parts)
	return strings.Join(parts, ",")
}

// elemWrite is one site where elements of a non-fresh slice are written.
type elemWrite struct {
	Fn     *ssa.Function
	Ins    ssa.Instruction
	Slice  ssa.Value // the slice whose elements are written
	How    string    // "store" or "call:<callee>"
	Callee *ssa.Function
	Root   string // param:<name> | param:<name>.<F> | local.<F> | pointer.<F> | other
	// RootParam: index of the parameter the slice is (a field of), -1 otherwise; RootField: the field
	RootParam int
	RootField string
	// CalleeElems: the callee itself only forwards the slice (it writes elements of its parameter CalleeParam)
	CalleeElems bool
	CalleeParam int
	CalleeField string
}

type Ownership struct {
	p     *Prog
	sum   map[*ssa.Function]*ownSummary
	Sites []elemWrite
	fns   []*ssa.Function
}

func paramIndex(fn *ssa.Function, v ssa.Value) int {
	for i, prm := range fn.Params {
		if ssa.Value(prm) == v {
			return i
		}
	}
	// a spilled parameter (address taken or captured): Alloc with a single store of the parameter
	if u, ok := v.(*ssa.UnOp); ok && u.Op == token.MUL {
		if a, ok := u.X.(*ssa.Alloc); ok {
			if s := singleStore(a); s != nil {
				return paramIndex(fn, s)
			}
		}
	}
	return -1
}

// isFreshSlice: the backing array was allocated in this call tree and is not shared.
func isFreshSlice(p *Prog, v ssa.Value, depth int) bool {
	return isFreshSliceV(p, v, depth, map[ssa.Value]bool{})
}

// isFreshSliceV: visiting is the set of values on the current derivation; meeting one
// again (a loop that appends to its own accumulator) is consistent with freshness.
func isFreshSliceV(p *Prog, v ssa.Value, depth int, visiting map[ssa.Value]bool) bool {
	if depth > 12 || v == nil {
		return false
	}
	if visiting[v] {
		return true
	}
	visiting[v] = true
	defer delete(visiting, v)
	isFreshSlice := func(p *Prog, v ssa.Value, d int) bool { return isFreshSliceV(p, v, d, visiting) }
	switch x := v.(type) {
	case *ssa.MakeSlice:
		return true
	case *ssa.Const:
		return x.IsNil()
	case *ssa.Slice:
		if a, ok := x.X.(*ssa.Alloc); ok {
			_ = a
			return true // slice of a local array (composite literal)
		}
		return isFreshSlice(p, x.X, depth+1)
	case *ssa.Phi:
		for _, e := range x.Edges {
			if !isFreshSlice(p, e, depth+1) {
				return false
			}
		}
		return len(x.Edges) > 0
	case *ssa.ChangeType:
		return isFreshSlice(p, x.X, depth+1)
	case *ssa.Extract:
		if c, ok := x.Tuple.(*ssa.Call); ok {
			return callReturnsFresh(p, c, x.Index, depth+1)
		}
	case *ssa.Call:
		if builtinName(&x.Call) == "append" {
			return isFreshSlice(p, x.Call.Args[0], depth+1)
		}
		return callReturnsFresh(p, x, 0, depth+1)
	case *ssa.UnOp:
		if x.Op == token.MUL {
			if a, ok := x.X.(*ssa.Alloc); ok {
				// local variable: every store is fresh
				n := 0
				for _, ref := range *a.Referrers() {
					if st, ok := ref.(*ssa.Store); ok && st.Addr == ssa.Value(a) {
						n++
						if !isFreshSlice(p, st.Val, depth+1) {
							return false
						}
					}
				}
				return n > 0
			}
		}
	}
	return false
}

var freshRetMemo = map[string]int{}

func callReturnsFresh(p *Prog, c *ssa.Call, idx int, depth int) bool {
	callee := c.Call.StaticCallee()
	if callee == nil {
		return false
	}
	if fnPkgPath(callee) == "slices" && originName(callee) == "Clone" {
		return true
	}
	if callee.Blocks == nil || !p.IsRepoFn(callee) {
		return false
	}
	key := fmt.Sprintf("%p#%d", callee, idx)
	if v, ok := freshRetMemo[key]; ok {
		return v == 1
	}
	freshRetMemo[key] = 0
	n := 0
	for _, b := range callee.Blocks {
		ret, ok := b.Instrs[len(b.Instrs)-1].(*ssa.Return)
		if !ok || idx >= len(ret.Results) {
			continue
		}
		n++
		if !isFreshSlice(p, ret.Results[idx], depth+1) {
			return false
		}
	}
	if n > 0 {
		freshRetMemo[key] = 1
	}
	return n > 0
}

// sliceOf: for an element address (IndexAddr chains, field addresses inside
// elements) returns the outermost slice whose backing array is written.
func sliceOf(addr ssa.Value) ssa.Value {
	var found ssa.Value
	for d := 0; d < 12; d++ {
		switch x := addr.(type) {
		case *ssa.IndexAddr:
			if _, isSlice := x.X.Type().Underlying().(*types.Slice); isSlice {
				found = x.X
				// continue outwards: the slice itself may be loaded from inside another element
				addr = x.X
				continue
			}
			addr = x.X
		case *ssa.FieldAddr:
			addr = x.X
		case *ssa.UnOp:
			if x.Op != token.MUL {
				return found
			}
			addr = x.X
		default:
			return found
		}
	}
	return found
}

// rootOfSlice classifies where a slice value comes from.
func rootOfSlice(fn *ssa.Function, s ssa.Value) (kind string, idx int, field string) {
	if i := paramIndex(fn, s); i >= 0 {
		return "param", i, ""
	}
	switch x := s.(type) {
	case *ssa.UnOp:
		if x.Op == token.MUL {
			if fa, ok := x.X.(*ssa.FieldAddr); ok {
				f := fieldOfAddr(fa)
				if i := paramIndex(fn, fa.X); i >= 0 {
					return "paramfield", i, f.Name()
				}
				// field of a local struct copy
				if a, ok := fa.X.(*ssa.Alloc); ok {
					_ = a
					return "localfield", -1, f.Name()
				}
				return "field", -1, f.Name()
			}
		}
	case *ssa.Slice:
		return rootOfSlice(fn, x.X)
	case *ssa.ChangeType:
		return rootOfSlice(fn, x.X)
	case *ssa.Phi:
		// any non-fresh edge decides
		for _, e := range x.Edges {
			if k, i, f := rootOfSlice(fn, e); k != "other" {
				return k, i, f
			}
		}
	}
	return "other", -1, ""
}

func BuildOwnership(p *Prog, shorts ...string) *Ownership {
	o := &Ownership{p: p, sum: map[*ssa.Function]*ownSummary{}}
	o.fns = p.RepoFnsWithWrappers(shorts...)
	for _, f := range o.fns {
		o.sum[f] = newOwnSummary()
	}
	for round := 0; round < 10; round++ {
		changed := false
		for _, f := range o.fns {
			if o.scan(f, false) {
				changed = true
			}
		}
		if !changed {
			break
		}
	}
	for _, f := range o.fns {
		if !isWrapper(f) {
			o.scan(f, true)
		}
	}
	return o
}

func (o *Ownership) Summary(f *ssa.Function) *ownSummary {
	if s, ok := o.sum[f]; ok {
		return s
	}
	return newOwnSummary()
}

// freshFieldBefore: for a local struct variable a, field F holds a fresh slice
// at instruction at (a dominating store of a fresh value, no later non-fresh store on the way).
func (o *Ownership) freshFieldBefore(a *ssa.Alloc, field string, at ssa.Instruction) bool {
	ok := false
	for _, ref := range *a.Referrers() {
		fa, isFA := ref.(*ssa.FieldAddr)
		if !isFA || fieldOfAddr(fa).Name() != field {
			continue
		}
		for _, r2 := range *fa.Referrers() {
			st, isSt := r2.(*ssa.Store)
			if !isSt || st.Addr != ssa.Value(fa) {
				continue
			}
			if instrDominates(st, at) {
				if isFreshSlice(o.p, st.Val, 0) {
					ok = true
				} else {
					return false
				}
			}
		}
	}
	return ok
}

// scan updates the summary of f; with report=true it records the sites.
func (o *Ownership) scan(f *ssa.Function, report bool) bool {
	s := o.sum[f]
	changed := false
	set := func(m map[int]bool, i int) {
		if !m[i] {
			m[i] = true
			changed = true
		}
	}
	setF := func(i int, field string) {
		if s.FieldElems[i] == nil {
			s.FieldElems[i] = map[string]bool{}
		}
		if !s.FieldElems[i][field] {
			s.FieldElems[i][field] = true
			changed = true
		}
	}
	// noteElemWrite: elements of slice sl are written at ins
	curCalleeElems, curCalleeParam, curCalleeField := false, -1, ""
	noteElemWrite := func(sl ssa.Value, ins ssa.Instruction, how string, callee *ssa.Function) {
		if isFreshSlice(o.p, sl, 0) {
			return
		}
		kind, idx, field := rootOfSlice(f, sl)
		root := kind
		switch kind {
		case "param":
			set(s.Elems, idx)
			root = fmt.Sprintf("param:%s", f.Params[idx].Name())
		case "paramfield":
			setF(idx, field)
			root = fmt.Sprintf("param:%s.%s", f.Params[idx].Name(), field)
		case "localfield":
			// field of a local copy: shared unless a fresh slice was stored into it before
			if u, ok := sl.(*ssa.UnOp); ok {
				if fa, ok := u.X.(*ssa.FieldAddr); ok {
					if a, ok := fa.X.(*ssa.Alloc); ok && o.freshFieldBefore(a, field, ins) {
						return
					}
					// the local copy came from somewhere: attribute to that origin when it is an element of a parameter's slice
					if a, ok := fa.X.(*ssa.Alloc); ok {
						if sv := singleStore(a); sv != nil {
							if l, ok := sv.(*ssa.UnOp); ok {
								if outer := sliceOf(l.X); outer != nil {
									k2, i2, f2 := rootOfSlice(f, outer)
									switch k2 {
									case "param":
										set(s.Elems, i2)
									case "paramfield":
										setF(i2, f2)
									}
								}
							}
						}
					}
				}
			}
			root = "local." + field
		}
		if report {
			rp := -1
			if kind == "param" || kind == "paramfield" {
				rp = idx
			}
			o.Sites = append(o.Sites, elemWrite{Fn: f, Ins: ins, Slice: sl, How: how, Callee: callee, Root: root, RootParam: rp, RootField: field, CalleeElems: curCalleeElems, CalleeParam: curCalleeParam, CalleeField: curCalleeField})
		}
	}
	reflTaint := o.reflectTaint(f)
	for _, b := range f.Blocks {
		for _, ins := range b.Instrs {
			switch x := ins.(type) {
			case *ssa.Store:
				if _, isAlloc := x.Addr.(*ssa.Alloc); isAlloc {
					continue
				}
				if sl := sliceOf(x.Addr); sl != nil {
					noteElemWrite(sl, x, "store", nil)
					continue
				}
				// field of / whole pointee of a pointer parameter
				base := x.Addr
				for d := 0; d < 6; d++ {
					if fa, ok := base.(*ssa.FieldAddr); ok {
						base = fa.X
						continue
					}
					break
				}
				if i := paramIndex(f, base); i >= 0 {
					if _, isPtr := f.Params[i].Type().Underlying().(*types.Pointer); isPtr {
						set(s.Through, i)
					}
				}
			case *ssa.Call:
				// reflect.Value.Set* on a value derived from reflect.ValueOf(param).Elem()
				if callee := x.Call.StaticCallee(); callee != nil && fnPkgPath(callee) == "reflect" && strings.HasPrefix(callee.Name(), "Set") && len(x.Call.Args) > 0 {
					if i, ok := reflTaint[x.Call.Args[0]]; ok {
						set(s.Through, i)
					}
					continue
				}
				// append to a reslice (s[:0], s[:k]) reuses and overwrites the backing array of s; copy writes into its destination
				if bn := builtinName(&x.Call); bn == "append" && len(x.Call.Args) > 0 {
					for _, base := range resliceBases(x.Call.Args[0], x, map[ssa.Value]bool{}, 0) {
						noteElemWrite(base, x, "append-to-reslice", nil)
					}
					continue
				} else if bn == "copy" && len(x.Call.Args) == 2 {
					if _, isSl := x.Call.Args[0].Type().Underlying().(*types.Slice); isSl {
						noteElemWrite(x.Call.Args[0], x, "copy-into", nil)
					}
					continue
				}
				// in-place library routines on slices
				if callee := x.Call.StaticCallee(); callee != nil && (fnPkgPath(callee) == "sort" || fnPkgPath(callee) == "slices") && len(x.Call.Args) > 0 {
					name := originName(callee)
					if name == "Slice" || name == "SliceStable" || name == "Sort" || name == "SortFunc" || name == "SortStableFunc" || name == "Reverse" ||
						name == "DeleteFunc" || name == "Delete" || name == "Insert" || name == "Compact" || name == "CompactFunc" || name == "Replace" {
						arg := unwrapIface(x.Call.Args[0])
						if _, isSl := arg.Type().Underlying().(*types.Slice); isSl {
							noteElemWrite(arg, x, "call:"+fnPkgPath(callee)+"."+name, callee)
						}
					}
					continue
				}
				for _, callee := range o.p.Callees(x) {
					cs, ok := o.sum[callee]
					if !ok || cs.empty() {
						continue
					}
					args := x.Call.Args
					if x.Call.IsInvoke() {
						args = append([]ssa.Value{x.Call.Value}, x.Call.Args...)
					}
					for ai, a := range args {
						pi := ai
						a = unwrapIface(a)
						if cs.Through[pi] {
							// &slice[i] handed to a writer: element write (a pointer merely stored in an element is not)
							if sl := elemAddrSlice(a); sl != nil {
								noteElemWrite(sl, x, "call:"+FnName(originOf(callee)), callee)
							} else {
								base := a
								for d := 0; d < 6; d++ {
									if fa, ok := base.(*ssa.FieldAddr); ok {
										base = fa.X
										continue
									}
									break
								}
								if i := paramIndex(f, base); i >= 0 {
									if _, isPtr := f.Params[i].Type().Underlying().(*types.Pointer); isPtr {
										set(s.Through, i)
									}
								}
							}
						}
						if cs.Elems[pi] {
							if _, isSl := a.Type().Underlying().(*types.Slice); isSl {
								curCalleeElems, curCalleeParam = true, pi
								noteElemWrite(a, x, "call:"+FnName(originOf(callee)), callee)
								curCalleeElems, curCalleeParam = false, -1
							}
						}
						for field := range cs.FieldElems[pi] {
							// callee writes into the backing of (*a).field
							fw := elemWrite{Fn: f, Ins: x, Slice: a, How: "call:" + FnName(originOf(callee)), Callee: callee, RootParam: -1, CalleeElems: true, CalleeParam: pi, CalleeField: field}
							if i := paramIndex(f, a); i >= 0 {
								setF(i, field)
								if report {
									fw.Root = fmt.Sprintf("param:%s.%s", f.Params[i].Name(), field)
									fw.RootParam, fw.RootField = i, field
									o.Sites = append(o.Sites, fw)
								}
								continue
							}
							if al, ok := a.(*ssa.Alloc); ok {
								if o.freshFieldBefore(al, field, x) {
									continue
								}
								// local copy of an element whose slice field is still shared
								if sv := singleStore(al); sv != nil {
									if l, ok := sv.(*ssa.UnOp); ok {
										if outer := sliceOf(l.X); outer != nil {
											targets := []ssa.Value{outer}
											if isFreshSlice(o.p, outer, 0) {
												// the element was copied out of a shallow clone: its inner slice is still the source's
												// (slices.Clip, a reslice or nothing at all in place of the inner clone leave it shared)
												targets = shallowCloneSources(outer, 0)
											}
											for _, t := range targets {
												curCalleeElems, curCalleeParam, curCalleeField = true, pi, field
												noteElemWrite(t, x, "call:"+FnName(originOf(callee))+" (field "+field+" of a copied element)", callee)
												curCalleeElems, curCalleeParam, curCalleeField = false, -1, ""
											}
											continue
										}
									}
								}
								if report {
									fw.Root = "local." + field
									o.Sites = append(o.Sites, fw)
								}
								continue
							}
							// pointer to an element of a slice: the element's field backing is reachable from that slice
							if sl := elemAddrSlice(a); sl != nil {
								targets := []ssa.Value{sl}
								suffix := " (field " + field + ")"
								if isFreshSlice(o.p, sl, 0) {
									// a shallow clone: the elements' inner slices are still those of the source
									if elemFieldFreshBefore(o.p, sl, a, field, x) {
										continue
									}
									targets = shallowCloneSources(sl, 0)
									suffix = " (field " + field + " of an element of a shallow clone)"
								}
								for _, t := range targets {
									curCalleeElems, curCalleeParam, curCalleeField = true, pi, field
									noteElemWrite(t, x, "call:"+FnName(originOf(callee))+suffix, callee)
									curCalleeElems, curCalleeParam, curCalleeField = false, -1, ""
								}
								continue
							}
							// any other pointer (e.g. the result of DataCopy, the stored object): the top of a chain
							if report {
								fw.Root = "pointer." + field
								o.Sites = append(o.Sites, fw)
							}
						}
					}
				}
			}
		}
	}
	return changed
}

// reflectTaint maps reflect.Value values derived from reflect.ValueOf(param)[.Elem()…] to the parameter index.
func (o *Ownership) reflectTaint(f *ssa.Function) map[ssa.Value]int {
	res := map[ssa.Value]int{}
	for _, b := range f.Blocks {
		for _, ins := range b.Instrs {
			c, ok := ins.(*ssa.Call)
			if !ok {
				continue
			}
			callee := c.Call.StaticCallee()
			if callee == nil || fnPkgPath(callee) != "reflect" {
				continue
			}
			if callee.Name() == "ValueOf" && len(c.Call.Args) == 1 {
				if i := paramIndex(f, unwrapIface(c.Call.Args[0])); i >= 0 {
					if _, isPtr := f.Params[i].Type().Underlying().(*types.Pointer); isPtr {
						res[c] = i
					}
				}
			}
		}
	}
	// propagate through methods of reflect.Value returning reflect.Value (Elem, Field, FieldByName, Index) — only after Elem()
	isReflectValue := func(t types.Type) bool {
		n := namedOf(t)
		return n != nil && n.Obj().Pkg() != nil && n.Obj().Pkg().Path() == "reflect" && n.Obj().Name() == "Value"
	}
	for changed := true; changed; {
		changed = false
		for _, b := range f.Blocks {
			for _, ins := range b.Instrs {
				// one result of a helper call that was given a derived value
				if ex, isEx := ins.(*ssa.Extract); isEx {
					if _, done := res[ex]; !done && isReflectValue(ex.Type()) {
						if i, ok := res[ex.Tuple]; ok {
							res[ex] = i
							changed = true
						}
					}
					continue
				}
				c, ok := ins.(*ssa.Call)
				if !ok {
					continue
				}
				if _, done := res[c]; done {
					continue
				}
				callee := c.Call.StaticCallee()
				// a small unexported repository helper that looks a field up ("settableFieldByName(v, name)") hands the
				// derived value on: its reflect.Value results still denote memory of the same parameter
				if callee != nil && callee.Blocks != nil && strings.HasPrefix(fnPkgPath(callee), repoMod) && !isExportedFn(originOf(callee)) {
					returnsValue := false
					rs := callee.Signature.Results()
					for k := 0; k < rs.Len(); k++ {
						if isReflectValue(rs.At(k).Type()) {
							returnsValue = true
						}
					}
					if returnsValue {
						for _, a := range c.Call.Args {
							if i, ok := res[a]; ok {
								res[c] = i
								changed = true
								break
							}
						}
					}
					continue
				}
				if callee == nil || fnPkgPath(callee) != "reflect" || len(c.Call.Args) == 0 {
					continue
				}
				switch callee.Name() {
				case "Elem", "Field", "FieldByName", "Index":
					if i, ok := res[c.Call.Args[0]]; ok {
						res[c] = i
						changed = true
					}
				}
			}
		}
	}
	return res
}

// siteKey is the stable key of an element-write site.
func (w elemWrite) Key() string {
	// rename-stable: unexported functions by call-structure role, parameters by index
	root := w.Root
	if strings.HasPrefix(root, "param:") && w.RootParam >= 0 {
		rest := ""
		if i := strings.Index(root, "."); i >= 0 {
			rest = root[i:]
		}
		root = fmt.Sprintf("param#%d%s", w.RootParam, rest)
	}
	how := w.How
	fnName := FnName(originOf(w.Fn))
	if curProg != nil {
		fnName = curProg.StableName(w.Fn)
		if w.Callee != nil && strings.HasPrefix(fnPkgPath(w.Callee), repoMod) {
			how = strings.Replace(how, FnName(originOf(w.Callee)), curProg.StableName(w.Callee), 1)
		}
	}
	return fmt.Sprintf("fn:%s|%s|%s", fnName, how, root)
}

// StoreOwnedWrites returns the bottom sites (a store into an element, a pointer
// to an element handed to a writer, an in-place library routine) that are reached
// with a slice owned by somebody else: starting from call sites that pass a slice
// loaded from a field of the receiver (or of another non-local object), following
// parameters that are merely forwarded.
func (o *Ownership) StoreOwnedWrites(inPkg string) []elemWrite {
	type pk struct {
		fn    *ssa.Function
		idx   int
		field string
	}
	marked := map[pk]bool{}
	var res []elemWrite
	seen := map[string]bool{}
	emit := func(w elemWrite) {
		k := w.Key() + "@" + o.p.InstrPos(w.Ins)
		if !seen[k] {
			seen[k] = true
			res = append(res, w)
		}
	}
	isTop := func(w elemWrite) bool {
		return strings.HasPrefix(w.Root, "pointer.") || strings.HasPrefix(w.Root, "local.") || w.Root == "field" || w.Root == "other"
	}
	for changed := true; changed; {
		changed = false
		for _, w := range o.Sites {
			if inPkg != "" && fnPkgPath(w.Fn) != inPkg {
				continue
			}
			src := isTop(w) || (w.RootParam >= 0 && marked[pk{w.Fn, w.RootParam, w.RootField}])
			if !src {
				continue
			}
			if w.CalleeElems && w.Callee != nil {
				k := pk{w.Callee, w.CalleeParam, w.CalleeField}
				if !marked[k] {
					marked[k] = true
					changed = true
				}
				continue
			}
			emit(w)
		}
	}
	sort.Slice(res, func(i, j int) bool { return res[i].Key() < res[j].Key() })
	return res
}

// elemAddrSlice: a is the address of (a field of) an element, computed without
// loading a pointer on the way (&s[i], &s[i].f); returns the slice s.
func elemAddrSlice(a ssa.Value) ssa.Value {
	for d := 0; d < 8; d++ {
		switch x := a.(type) {
		case *ssa.FieldAddr:
			a = x.X
		case *ssa.IndexAddr:
			if _, isSlice := x.X.Type().Underlying().(*types.Slice); isSlice {
				return x.X
			}
			a = x.X
		default:
			return nil
		}
	}
	return nil
}

// shallowCloneSources: the slices whose elements were copied (one level) into v.
func shallowCloneSources(v ssa.Value, depth int) []ssa.Value {
	if depth > 8 || v == nil {
		return nil
	}
	switch x := v.(type) {
	case *ssa.Call:
		if callee := x.Call.StaticCallee(); callee != nil && fnPkgPath(callee) == "slices" && originName(callee) == "Clone" && len(x.Call.Args) == 1 {
			return []ssa.Value{x.Call.Args[0]}
		}
		if builtinName(&x.Call) == "append" && len(x.Call.Args) == 2 {
			res := shallowCloneSources(x.Call.Args[0], depth+1)
			// append(dst, src...) copies the elements of src
			if _, isSl := x.Call.Args[1].Type().Underlying().(*types.Slice); isSl {
				if _, fromArr := x.Call.Args[1].(*ssa.Slice); !fromArr {
					res = append(res, x.Call.Args[1])
				}
			}
			return res
		}
	case *ssa.Phi:
		var res []ssa.Value
		for _, e := range x.Edges {
			res = append(res, shallowCloneSources(e, depth+1)...)
		}
		return res
	case *ssa.ChangeType:
		return shallowCloneSources(x.X, depth+1)
	case *ssa.UnOp:
		if a, ok := x.X.(*ssa.Alloc); ok && x.Op == token.MUL {
			var res []ssa.Value
			for _, ref := range *a.Referrers() {
				if st, ok := ref.(*ssa.Store); ok && st.Addr == ssa.Value(a) {
					res = append(res, shallowCloneSources(st.Val, depth+1)...)
				}
			}
			return res
		}
	}
	return nil
}

// elemFieldFreshBefore: a fresh slice was stored into sl[i].field (same index
// expression as the element address ea) on every path before ins.
func elemFieldFreshBefore(p *Prog, sl ssa.Value, ea ssa.Value, field string, ins ssa.Instruction) bool {
	ia, ok := ea.(*ssa.IndexAddr)
	if !ok {
		return false
	}
	want := Path(ia.Index)
	for _, b := range ins.Parent().Blocks {
		for _, i2 := range b.Instrs {
			st, ok := i2.(*ssa.Store)
			if !ok {
				continue
			}
			fa, ok := st.Addr.(*ssa.FieldAddr)
			if !ok || fieldOfAddr(fa) == nil || fieldOfAddr(fa).Name() != field {
				continue
			}
			ia2, ok := fa.X.(*ssa.IndexAddr)
			if !ok || ia2.X != sl || Path(ia2.Index) != want {
				continue
			}
			if isFreshSlice(p, st.Val, 0) && instrDominates(st, ins) {
				return true
			}
		}
	}
	return false
}

// resliceBases: v is (an accumulator that starts as) a reslice s[:k] of a slice s:
// appending to it overwrites the backing array of s. Follows phis and earlier
// appends of the same accumulator; self is the append being examined.
func resliceBases(v ssa.Value, self *ssa.Call, seen map[ssa.Value]bool, depth int) []ssa.Value {
	if v == nil || seen[v] || depth > 8 {
		return nil
	}
	seen[v] = true
	switch x := v.(type) {
	case *ssa.Slice:
		if x.High != nil && x.Max == nil { // s[:k:k] caps the capacity: the next append allocates, nothing of s is overwritten
			if _, isSl := x.X.Type().Underlying().(*types.Slice); isSl {
				return []ssa.Value{x.X}
			}
		}
	case *ssa.Phi:
		var res []ssa.Value
		for _, e := range x.Edges {
			res = append(res, resliceBases(e, self, seen, depth+1)...)
		}
		return res
	case *ssa.Call:
		if builtinName(&x.Call) == "append" && len(x.Call.Args) > 0 {
			return resliceBases(x.Call.Args[0], self, seen, depth+1)
		}
	}
	return nil
}
