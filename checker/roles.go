package main

// State-field roles. The rules talk about a handful of unexported state fields
// (the subscription list, the pending-approval map, ...). A role is written
// "Struct.field" with today's field name; F resolves it against the analysed
// tree: if the struct still has a field of that name it is used, otherwise the
// unique field of the struct that has the role's type takes its place. Renaming
// such a field therefore does not change any verdict; a role that cannot be
// resolved is left as written and the rules that need it report "undecided".

import (
	"go/types"
	"strings"
)

// role -> type of the field, written with package names as qualifiers
var roleTypes = map[string]string{
	"EntityLocal.features":                    "[]api.FeatureLocalInterface",
	"EntityRemote.features":                   "[]api.FeatureRemoteInterface",
	"Entity.fIdGenerator":                     "func() uint",
	"DeviceLocal.entities":                    "[]api.EntityLocalInterface",
	"DeviceRemote.entities":                   "[]api.EntityRemoteInterface",
	"DeviceLocal.remoteDevices":               "map[string]api.DeviceRemoteInterface",
	"SubscriptionManager.subscriptionEntries": "[]*api.SubscriptionEntry",
	"SubscriptionManager.subscriptionNum":     "uint64",
	"BindingManager.bindingEntries":           "[]*api.BindingEntry",
	"BindingManager.bindingNum":               "uint64",
	"FeatureLocal.pendingWriteApprovals":      "map[string]map[model.MsgCounterType]*time.Timer",
	"FeatureLocal.writeApprovalReceived":      "map[string]map[model.MsgCounterType]int",
	"FeatureLocal.writeApprovalCallbacks":     "[]api.WriteApprovalCallbackFunc",
	"FeatureLocal.responseMsgCallback":        "map[model.MsgCounterType][]func(result api.ResponseMessage)",
	"FeatureLocal.resultCallbacks":            "[]func(result api.ResponseMessage)",
	"Sender.msgNum":                           "uint64",
	"Sender.reqMsgCache":                      "spine.reqMsgCacheData|~map[model.MsgCounterType]string",
	"Sender.datagramNotifyCache":              "*lrucache.LRUCache[model.MsgCounterType, model.DatagramType]",
	"events.handlers":                         "[]spine.eventHandlerItem|~[]struct",
	"HeartbeatManager.stopHeartbeatC":         "chan struct{}",
	"HeartbeatManager.heartBeatNum":           "uint64",
	"HeartbeatManager.heartBeatTimeout":       "*model.DurationType",
	"HeartbeatManager.localFeature":           "api.FeatureLocalInterface",
	"Feature.operations":                      "map[model.FunctionType]api.OperationsInterface",
	// two fields of one type: resolved by name only
	"FeatureLocal.subscriptions": "",
	"FeatureLocal.bindings":      "",
}

var roleMemo = map[string]string{}

func roleQualifier(p *types.Package) string { return p.Name() }

// F resolves a role to the "Struct.field" key of the analysed tree.
func F(role string) string {
	if s, ok := roleMemo[role]; ok {
		return s
	}
	res := role
	if curProg == nil {
		return res
	}
	defer func() { roleMemo[role] = res }()
	dot := strings.Index(role, ".")
	if dot < 0 {
		return res
	}
	sname, fname := role[:dot], role[dot+1:]
	obj := curProg.TypesPkg("spine").Scope().Lookup(sname)
	if obj == nil {
		return res
	}
	st, ok := obj.Type().Underlying().(*types.Struct)
	if !ok {
		return res
	}
	for i := 0; i < st.NumFields(); i++ {
		if st.Field(i).Name() == fname {
			return res
		}
	}
	want := roleTypes[role]
	if want == "" {
		return res
	}
	found := ""
	n := 0
	// alternatives separated by "|"; "~T" matches the underlying type (an unexported named type may be renamed),
	// "~[]struct" a slice of some struct type
	for _, alt := range strings.Split(want, "|") {
		if n > 0 {
			break
		}
		for i := 0; i < st.NumFields(); i++ {
			ft := st.Field(i).Type()
			match := false
			switch {
			case alt == "~[]struct":
				if sl, ok := ft.Underlying().(*types.Slice); ok {
					_, match = sl.Elem().Underlying().(*types.Struct)
				}
			case strings.HasPrefix(alt, "~"):
				match = types.TypeString(ft.Underlying(), roleQualifier) == alt[1:]
			default:
				match = types.TypeString(ft, roleQualifier) == alt
			}
			if match {
				found = st.Field(i).Name()
				n++
			}
		}
		if n != 1 {
			n, found = 0, ""
		}
	}
	if n == 1 {
		res = sname + "." + found
	}
	return res
}

// FN is the field-name part of F(role).
func FN(role string) string {
	k := F(role)
	return k[strings.Index(k, ".")+1:]
}
