package main

import (
	"fmt"
	"go/token"
	"go/types"
	"regexp"
	"sort"
	"strings"

	"golang.org/x/tools/go/ssa"
)

func init() {
	register("C01", true,
		"Path-sensitive effect counting over a finite abstraction of the inbound datagram (classifier x ackRequest x approval callbacks x payload kind = 84 valuations): every path of the call tree rooted at the ProcessCmd implementation (callee summaries through both HandleMessage implementations, the managers and the feature code) is enumerated with branches on the dimensions decided, and the numbers of error results, success results and replies on each path class are compared with the SPINE classifier table. Plus value-provenance rules on the two response builders (message counter reference, destination, source with the local device address) and on every result/reply call site (request header, address of the addressed local feature), and who-may-send rules. Decided: how many responses of which kind every path sends, and how the responses are addressed. Not decided: that the reply payload equals the current data (values), datagram sequences and prior state.",
		checkC01)
}

func classSig(o Outcome) string {
	var ks []string
	for k, v := range o.Eff {
		if v != 0 {
			ks = append(ks, fmt.Sprintf("%s=%d", k, v))
		}
	}
	sort.Strings(ks)
	return strings.Join(o.Ret, ",") + "|" + strings.Join(ks, ",")
}

func inScope(o Outcome) bool {
	return !(o.HasEvent("headerAddressMissing=true") || o.HasEvent("emptyPayload=true") || o.HasEvent("sourceFeatureUnknown=true") || o.HasEvent("classifierMissing=true"))
}

func checkC01(p *Prog, r *Report) {
	ib := newInbound(p)
	for _, m := range ib.missing {
		r.Undecided("R0", "anchor:"+m, "", "anchor not found")
	}
	if len(ib.missing) > 0 {
		return
	}
	r.Rule("R1", "for classifier result no path sends a result or a reply")
	r.Rule("R2", "no path sends more than one result or more than one reply")
	r.Rule("R3", "prescribed counts past the scope exits: rejected and not a result ⇒ exactly one error result; accepted read ⇒ one reply, no result; accepted reply/notify/call ⇒ success result iff ackRequest, no error result; write without approval callbacks ⇒ error result iff the store failed, else success result iff ackRequest; write with approval callbacks ⇒ nothing now")
	r.Rule("R3s", "side conditions of the counting: one writer of Message.CmdClassifier (the header's classifier), no response effect inside a loop, enumeration complete")
	r.Rule("R4", "the response builders fill msgCounterReference from the request's msgCounter, the destination from the request's source, the source from a copy of the request's destination whose device is the sender address's device, with the constant classifier result resp. reply")
	r.Rule("R5", "every result/reply call site passes the inbound request header and the address of the addressed local feature (exception: the requested destination when it is unknown)")
	r.Rule("R6", "only the sender writes to the SHIP connection and only the sender builds headers with a result or reply classifier")
	r.Rule("R7", "the reply to a read carries ReplyCmdType of the function-data object looked up with the inbound command's own function")

	nClasses, nVals := 0, 0
	var incomplete []string
	engines := []*PathEngine{}
	for _, v := range allInboundVals() {
		ib.val = v
		e := ib.engine()
		outs := e.Summarize(ib.processCmd, v.String(), nil, 0)
		engines = append(engines, e)
		incomplete = append(incomplete, e.Incomplete...)
		nVals++
		okR1, okR2, okR3 := true, true, true
		for _, o := range outs {
			nClasses++
			res := o.N("resErr") + o.N("resOk")
			rep := o.N("reply")
			trace := strings.Join(o.Trace, " ")
			key := fmt.Sprintf("%s|class:%s", v, classSig(o))
			if v.Cls == "result" && res+rep > 0 {
				okR1 = false
				r.Fail("R1", key, firstPos(o), "a result is answered: "+trace)
			}
			if res > 1 || rep > 1 {
				okR2 = false
				r.Fail("R2", key, firstPos(o), "more than one response: "+trace)
			}
			if !inScope(o) {
				continue
			}
			if v.Result != (v.Cls == "result") {
				continue // payload kind and classifier disagree: not a well-formed datagram
			}
			if len(o.Ret) != 1 || o.Ret[0] == "?" || o.Ret[0] == "panic" {
				if len(o.Ret) == 1 && o.Ret[0] == "panic" {
					continue // explicit panics are C05's
				}
				okR3 = false
				r.Undecided("R3", key, firstPos(o), "acceptance of this path class cannot be decided: "+trace)
				continue
			}
			rejected := o.Ret[0] == "nonnil"
			ack := 0
			if v.Ack == "true" {
				ack = 1
			}
			bad := ""
			switch {
			case v.Cls == "result":
				// R1
			case rejected:
				if o.N("resErr") != 1 || o.N("resOk") != 0 {
					bad = "a rejected message must be answered with exactly one error result"
				}
			case v.Cls == "read":
				if rep != 1 || res != 0 {
					bad = "an accepted read must be answered with exactly one reply and no result"
				}
			case v.Cls == "reply" || v.Cls == "notify":
				if rep != 0 || o.N("resErr") != 0 || o.N("resOk") != ack {
					bad = "an accepted reply/notify must be answered with a success result iff ackRequest, and nothing else"
				}
			case v.Cls == "call":
				if rep > 1 || o.N("resErr") != 0 || o.N("resOk") != ack {
					bad = "an accepted call must be answered with a success result iff ackRequest and no error result"
				}
			case v.Cls == "write" && v.Approval:
				if res != 0 || rep != 0 {
					bad = "a write waiting for approval must not be answered yet"
				}
			case v.Cls == "write":
				stored := o.N("storeRemoteWrite")+o.N("storeLocal")+o.N("storeParam") > 0
				if stored {
					if o.N("resErr") != 0 || o.N("resOk") != ack || rep != 0 {
						bad = "an applied write must be answered with a success result iff ackRequest"
					}
				} else if o.N("resErr") != 1 || o.N("resOk") != 0 || rep != 0 {
					bad = "a write that was not applied must be answered with exactly one error result"
				}
			default:
				bad = "a message with an unknown classifier must be rejected"
			}
			if bad != "" {
				okR3 = false
				r.Fail("R3", key, firstPos(o), bad+": "+trace)
			}
		}
		if v.Cls == "result" && okR1 {
			r.Pass("R1", v.String(), "", fmt.Sprintf("%d path classes", len(outs)))
		}
		if okR2 {
			r.Pass("R2", v.String(), "", fmt.Sprintf("%d path classes", len(outs)))
		}
		if okR3 && v.Result == (v.Cls == "result") {
			r.Pass("R3", v.String(), "", fmt.Sprintf("%d path classes", len(outs)))
		}
	}
	r.Stat("valuations", nVals)
	r.Stat("path classes", nClasses)
	r.Floor("R3", "path classes", nClasses, 100)
	// side conditions
	if len(incomplete) > 0 {
		r.Undecided("R3s", "enumeration", "", strings.Join(uniqStrings(incomplete), "; "))
	} else {
		r.Pass("R3s", "enumeration", "", "no depth or budget limit was hit")
	}
	loops := map[string]bool{}
	fnsSeen := map[*ssa.Function]bool{}
	for _, e := range engines {
		for f := range e.nFns {
			fnsSeen[f] = true
		}
		for _, l := range e.effectsInLoops(map[string]bool{"publish": true, "notify": true, "remoteStore": true, "storeLocal": true, "storeParam": true, "storeRemoteWrite": true, "startApprovalCallback": true, "startResponseCallback": true, "startResultCallback": true}) {
			loops[l] = true
		}
	}
	if len(loops) > 0 {
		for l := range loops {
			r.Fail("R3s", "loop:"+strings.SplitN(l, " at ", 2)[0], "", "response effect inside a loop: "+l)
		}
	} else {
		r.Pass("R3s", "loops", "", "no result or reply is sent inside a loop")
	}
	r.Stat("functions on inbound paths", len(fnsSeen))
	r.Floor("R3s", "functions on inbound paths", len(fnsSeen), 10)
	classifierWriterRule(p, r, "R3s")

	c01Builders(p, ib, r)
	c01CallSites(p, ib, r)
	// a timeout left running after its peer is gone answers (or swallows the answer of) a later write with the same counter
	lsC01 := BuildLockset(p, "spine", "model")
	timersStoppedRule(p, lsC01, r, "R9")
	approvalCleanupRule(p, r, "R10")
	r.Rule("R11", "a write that waits for approval is answered once: whoever removes the pending entry and then answers (verdict or timeout) claims it — the comma-ok look-up and the delete share one critical section and every answer is sent only on the found edge (shared with C12-R2)")
	claimRule(p, lsC01, ib, r, "R11")
	r.Rule("R14", "bookkeeping of one write never touches another write of the same peer: a function that addresses the per-peer approval maps by message counter deletes only at the counter level (shared with C12-R7) — otherwise a unanimously approved write is answered with the timeout error")
	perWriteBookkeepingRule(p, lsC01, r, "R14", F("FeatureLocal.writeApprovalReceived"), F("FeatureLocal.pendingWriteApprovals"))
	r.Rule("R13", "the function a message is dispatched under is the function of the payload it carries: CmdType.Data derives the function from the tag of the field whose value it returns, never from the command's own function element (which builders leave empty for filtered reads) — otherwise a filtered read is answered with an error result instead of the reply (shared with C18-R7d)")
	cmdDataSameField(p, r, "R13")
	r.Rule("R15", "the command builders of the function-data object (read, reply, notify/write) are free of side effects: they assign no field of the object — a reply built once and kept is stale after the next data change")
	c01PureBuilders(p, r, "R15")
	hasBindingRule(p, r, "R16")
	capturedStateMapRule(p, r, "R18")
	r.Rule("R17", "a result is sent whenever it is asked for: in the sender's result builder the transmission does not depend on the request's ackRequest (that element decides about success results only, and the callers decide that) — otherwise a rejected message without ackRequest gets no error result")
	c01ResultUnconditional(p, ib, r, "R17")
	r.Rule("R12", "a read is answered on a server and on a special feature and rejected on a client feature: truth table of the role tests in front of the Reply of the generic read handler over role ∈ {client, server, special}")
	c01ReadRoleTable(p, ib, r, "R12")
	r.Rule("R8", "the destination look-up decides 'exists' by equality of whole addresses: every hand-written element-wise comparison of two slices compares their lengths for equality (shared lint, C20-R6)")
	sliceEqualityHelpers(p, r, "R8")
	c01WhoMaySend(p, ib, r)
	c01ReplyPayload(p, ib, r)
	r.Assumes("inbound datagrams are abstracted to classifier x ackRequest x approval callbacks x payload-is-resultData; all other branch conditions are explored both ways",
		"a block is visited at most once per path (loops run zero or one time)",
		"the sender's methods send one datagram per call (their construction is checked by R4)")
}

func uniqStrings(s []string) []string {
	m := map[string]bool{}
	for _, x := range s {
		m[x] = true
	}
	return sortedKeys(m)
}

func firstPos(o Outcome) string {
	for _, t := range o.Trace {
		if i := strings.LastIndex(t, "@"); i >= 0 {
			pos := t[i+1:]
			pos = strings.TrimRight(pos, "]")
			if j := strings.Index(pos, " "); j > 0 {
				pos = pos[:j]
			}
			return pos
		}
	}
	return ""
}

// classifierWriterRule: Message.CmdClassifier has one writer, storing the header's classifier.
func classifierWriterRule(p *Prog, r *Report, rule string) {
	n := 0
	ok := true
	pos := ""
	for _, fn := range p.RepoFns("spine", "api", "model") {
		for _, b := range fn.Blocks {
			for _, ins := range b.Instrs {
				st, isSt := ins.(*ssa.Store)
				if !isSt {
					continue
				}
				fa, isFA := st.Addr.(*ssa.FieldAddr)
				if !isFA || fieldOfAddr(fa) == nil || fieldOfAddr(fa).Name() != "CmdClassifier" || !isNamed(fa.X.Type(), "api", "Message") {
					continue
				}
				n++
				pos = p.InstrPos(st)
				if !strings.HasSuffix(Path(st.Val), ".Header.CmdClassifier") {
					ok = false
				}
			}
		}
	}
	r.Check(rule, "classifier-writer", n == 1 && ok, pos, fmt.Sprintf("%d stores to api.Message.CmdClassifier; the stored value is the dereferenced header classifier", n))
}

// ---- R4: response builders ----

func c01Builders(p *Prog, ib *inbound, r *Report) {
	nBuilders := 0
	for _, fn0 := range p.ScopeRoots("spine") {
		fn := fn0
		if fn.Signature.Recv() == nil || !implementsIface(fn.Signature.Recv().Type(), ib.sender) {
			continue
		}
		p.InScope(fn, func() {
			// a builder: stores a constant classifier result/reply into a HeaderType — in the function itself or in an
			// extracted helper of it (whose parameters then stand for the arguments)
			var bodies []*ssa.Function
			bodies = append(bodies, fn)
			for h := range p.scopeOf(fn).site {
				bodies = append(bodies, h)
			}
			sort.Slice(bodies, func(i, j int) bool { return bodies[i].String() < bodies[j].String() })
			for _, body := range bodies {
				for _, b := range body.Blocks {
					for _, ins := range b.Instrs {
						st, isSt := ins.(*ssa.Store)
						if !isSt {
							continue
						}
						fa, isFA := st.Addr.(*ssa.FieldAddr)
						if !isFA || fieldOfAddr(fa) == nil || fieldOfAddr(fa).Name() != "CmdClassifier" || !isNamed(fa.X.Type(), "model", "HeaderType") {
							continue
						}
						cls := ""
						for _, s := range p.Sources(st.Val, false) {
							if s.Kind == "const" {
								if k, ok := s.Val.(*ssa.Const); ok {
									if cs, ok := constString(k); ok {
										cls += cs
									}
								}
							}
						}
						if cls == "" {
							// the classifier may be a parameter of an extracted builder helper: the constant at its call site
							if pth := Path(st.Val); strings.HasPrefix(pth, "const:") {
								cls = strings.Trim(strings.TrimPrefix(pth, "const:"), "\"")
							}
						}
						if cls != "result" && cls != "reply" {
							continue
						}
						nBuilders++
						base := FnName(fn) + "|" + cls
						hdr := fa.X // address of the header
						got := map[string]ssa.Value{}
						if hdr.Referrers() != nil {
							for _, ref := range *hdr.Referrers() {
								f2, ok := ref.(*ssa.FieldAddr)
								if !ok {
									continue
								}
								for _, r2 := range *f2.Referrers() {
									if s2, ok := r2.(*ssa.Store); ok && s2.Addr == ssa.Value(f2) {
										got[fieldOfAddr(f2).Name()] = s2.Val
									}
								}
							}
						}
						pos := p.InstrPos(st)
						reqParam := ""
						sndParam := ""
						for _, prm := range fn.Params[1:] {
							if isNamed(prm.Type(), "model", "HeaderType") {
								reqParam = "param:" + prm.Name()
							} else if isNamed(prm.Type(), "model", "FeatureAddressType") && sndParam == "" {
								sndParam = "param:" + prm.Name()
							}
						}
						ref := ""
						if v := got["MsgCounterReference"]; v != nil {
							ref = Path(v)
						}
						r.Check("R4", base+"|msgCounterReference", reqParam != "" && ref == reqParam+".MsgCounter", pos, "MsgCounterReference = "+ref)
						dst := ""
						if v := got["AddressDestination"]; v != nil {
							dst = Path(v)
						}
						r.Check("R4", base+"|destination", reqParam != "" && dst == reqParam+".AddressSource", pos, "AddressDestination = "+dst)
						// source: address of a local copy of *request.AddressDestination with Device = sender.Device
						srcOK, srcDesc := false, ""
						if v := got["AddressSource"]; v != nil {
							if al, ok := v.(*ssa.Alloc); ok {
								whole, dev := "", ""
								for _, ref := range *al.Referrers() {
									switch y := ref.(type) {
									case *ssa.Store:
										if y.Addr == ssa.Value(al) {
											whole = Path(y.Val)
										}
									case *ssa.FieldAddr:
										for _, r2 := range *y.Referrers() {
											if s2, ok := r2.(*ssa.Store); ok && s2.Addr == ssa.Value(y) {
												if fieldOfAddr(y).Name() == "Device" {
													dev = Path(s2.Val)
												} else {
													dev = "other field " + fieldOfAddr(y).Name()
												}
											}
										}
									}
								}
								srcDesc = fmt.Sprintf("copy of %s with Device = %s", whole, dev)
								srcOK = whole == reqParam+".AddressDestination" && dev == sndParam+".Device"
							} else {
								srcDesc = Path(v)
							}
						}
						r.Check("R4", base+"|source", srcOK, pos, "AddressSource = "+srcDesc)
						// msgCounter: result of a call (the counter function), see C13
						mc := ""
						if v := got["MsgCounter"]; v != nil {
							mc = Path(v)
						}
						r.Check("R4", base+"|msgCounter", strings.HasSuffix(mc, "()") && strings.HasPrefix(mc, "recv."), pos, "MsgCounter = "+mc)
					}
				}
			}
		})
	}
	r.Floor("R4", "response builders", nBuilders, 2)
	c01ResultNumber(p, ib, r)
}

// ---- R5: call sites ----

func c01CallSites(p *Prog, ib *inbound, r *Report) {
	nRes, nRep := 0, 0
	fli := p.LookupIface("api", "FeatureLocalInterface")
	for _, fn := range p.RepoFns("spine") {
		if fn.Signature.Recv() != nil && implementsIface(fn.Signature.Recv().Type(), ib.sender) {
			continue
		}
		forEachCall(fn, func(site ssa.CallInstruction) {
			c := site.Common()
			kind := ""
			switch {
			case calleeIsIfaceMethod(c, ib.sender, "ResultError"), calleeIsIfaceMethod(c, ib.sender, "ResultSuccess"):
				kind = "result"
				nRes++
			case calleeIsIfaceMethod(c, ib.sender, "Reply"):
				kind = "reply"
				nRep++
			default:
				return
			}
			args := callArgs(c)
			base := fmt.Sprintf("%s|%s", FnName(originOf(fn)), kind)
			pos := p.InstrPos(site)
			// header: the inbound request header
			hdrOK := true
			var hs []string
			for _, s := range p.SourcesOpt(args[0], true, nil, false) {
				hs = append(hs, s.String())
				switch {
				case s.Kind == "field" && s.Desc == "Message.RequestHeader":
				case s.Kind == "addr" && strings.HasSuffix(s.Desc, ".Header"):
				case s.Kind == "param" && isNamed(s.Val.Type(), "model", "HeaderType"):
					// an exported entry point taking the header
				default:
					hdrOK = false
				}
			}
			// sender address: Address() of the addressed local feature
			addr := Path(args[1])
			addrOK := false
			switch {
			case recvAddressRe.MatchString(addr) && fli != nil && fn.Signature.Recv() != nil && implementsIface(fn.Signature.Recv().Type(), fli):
				addrOK = true
			case fn.Parent() != nil && recvAddressRe.MatchString(addr):
				addrOK = true // closure of a local feature method (approval timeout)
			case strings.Contains(addr, "FeatureByAddress().Address()"):
				// the destination look-up result in ProcessCmd: FeatureByAddress on the local device itself (the
				// receiver), with the datagram's destination — not the look-up of the sending feature on the peer
				if ac, ok := args[1].(*ssa.Call); ok {
					if fb, ok := unwrapIface(callRecv(&ac.Call)).(*ssa.Call); ok && callRecv(&fb.Call) != nil {
						fa := callArgs(&fb.Call)
						addrOK = Path(callRecv(&fb.Call)) == "recv" && len(fa) == 1 && strings.HasSuffix(Path(fa[0]), ".AddressDestination")
					}
				}
			case strings.HasSuffix(addr, ".Header.AddressDestination"):
				// the requested destination: only where the destination is unknown or the classifier missing
				for _, g := range Guards(site.Block()) {
					if x, trueNil, ok := nilTest(g.Cond); ok && trueNil == g.Val {
						px := Path(x)
						if strings.Contains(px, "FeatureByAddress()") || strings.HasSuffix(px, ".CmdClassifier") {
							addrOK = true
						}
					}
				}
			}
			r.Check("R5", fmt.Sprintf("%s#%d", base, nRes+nRep), hdrOK && addrOK, pos, fmt.Sprintf("header from %v; sender address %s", hs, addr))
		})
	}
	r.Floor("R5", "result call sites", nRes, 4)
	r.Floor("R5", "reply call sites", nRep, 3)
}

// ---- R6: who may send ----

func c01WhoMaySend(p *Prog, ib *inbound, r *Report) {
	nWrites := 0
	ok := true
	detail := ""
	for _, fn := range p.RepoFns("spine", "model", "api", "util") {
		isSender := fn.Signature.Recv() != nil && implementsIface(fn.Signature.Recv().Type(), ib.sender)
		forEachCall(fn, func(site ssa.CallInstruction) {
			c := site.Common()
			if c.IsInvoke() && c.Method.Name() == "WriteShipMessageWithPayload" {
				nWrites++
				if !isSender {
					ok = false
					detail = FnName(fn) + " at " + p.InstrPos(site)
				}
			}
		})
		if isSender {
			continue
		}
		for _, b := range fn.Blocks {
			for _, ins := range b.Instrs {
				st, isSt := ins.(*ssa.Store)
				if !isSt {
					continue
				}
				fa, isFA := st.Addr.(*ssa.FieldAddr)
				if !isFA || fieldOfAddr(fa) == nil || fieldOfAddr(fa).Name() != "CmdClassifier" || !isNamed(fa.X.Type(), "model", "HeaderType") {
					continue
				}
				for _, s := range p.Sources(st.Val, false) {
					if k, isC := s.Val.(*ssa.Const); isC {
						if cs, isS := constString(k); isS && (cs == "result" || cs == "reply") {
							r.Fail("R6", "header:"+FnName(originOf(fn)), p.InstrPos(st), "a header with classifier "+cs+" is built outside the sender")
						}
					}
				}
			}
		}
	}
	r.Check("R6", "ship-writer", ok && nWrites >= 1, "", fmt.Sprintf("%d call sites of the SHIP writer, all inside the sender %s", nWrites, detail))
}

// ---- R7: reply payload ----

func c01ReplyPayload(p *Prog, ib *inbound, r *Report) {
	fli := p.LookupIface("api", "FeatureLocalInterface")
	cmdI := p.LookupIface("api", "FunctionDataCmdInterface")
	if fli == nil || cmdI == nil {
		r.Undecided("R7", "anchor:api.FeatureLocalInterface", "", "interface not found")
		return
	}
	n := 0
	for _, fn := range p.RepoFns("spine") {
		if fn.Signature.Recv() == nil {
			continue
		}
		if nt := namedOf(fn.Signature.Recv().Type()); nt == nil || nt.Obj().Name() != "FeatureLocal" {
			continue
		}
		forEachCall(fn, func(site ssa.CallInstruction) {
			c := site.Common()
			if !calleeIsIfaceMethod(c, ib.sender, "Reply") {
				return
			}
			n++
			args := callArgs(c)
			// cmd = X.ReplyCmdType(..) with X = look-up(function parameter)
			okCmd := false
			fparam := ""
			if call, ok := args[2].(*ssa.Call); ok && calleeIsIfaceMethod(&call.Call, cmdI, "ReplyCmdType") {
				if lk, ok := unwrapIface(call.Call.Value).(*ssa.Call); ok {
					for _, a := range lk.Call.Args {
						if prm, ok := a.(*ssa.Parameter); ok && isNamed(prm.Type(), "model", "FunctionType") {
							fparam = prm.Name()
							okCmd = true
						}
					}
				}
			}
			// at the callers, that parameter is the function of the inbound command
			okFn := okCmd
			var srcs []string
			if okCmd {
				for _, prm := range fn.Params {
					if prm.Name() != fparam {
						continue
					}
					for _, s := range p.SourcesOpt(prm, true, nil, false) {
						srcs = append(srcs, s.String())
						if !(s.Kind == "field" && s.Desc == "CmdData.Function") {
							okFn = false
						}
					}
				}
			}
			r.Check("R7", FnName(fn)+"|reply-payload", okCmd && okFn, p.InstrPos(site), fmt.Sprintf("reply built by ReplyCmdType of the function data looked up with parameter %q, which comes from %v", fparam, srcs))
		})
	}
	r.Floor("R7", "reply sites in FeatureLocal", n, 1)
}

var _ = types.Identical

// the Address() of the receiver itself, possibly through embedded structs (recv.Feature.Address())
var recvAddressRe = regexp.MustCompile(`^recv(\.[A-Z]\w*)*\.Address\(\)$`)

// c01ReadRoleTable: a read is answered with the function's data on a server and
// on a special feature and rejected on a client feature — truth table of the
// role tests in front of the Reply in the generic read handler.
func c01ReadRoleTable(p *Prog, ib *inbound, r *Report, rule string) {
	n := 0
	for _, fn := range p.RepoFns("spine") {
		if fn.Signature.Recv() == nil || !isNamed(fn.Signature.Recv().Type(), "spine", "FeatureLocal") || isWrapper(fn) {
			continue
		}
		var reply *ssa.Call
		forEachCallOwn(fn, func(site ssa.CallInstruction) {
			if c, ok := site.(*ssa.Call); ok && ib.effect(site, nil) == "reply" {
				reply = c
			}
		})
		if reply == nil {
			continue
		}
		n++
		roleAtom := func(role string) func(c ssa.Value) (bool, bool) {
			return func(c ssa.Value) (bool, bool) {
				bo, ok := c.(*ssa.BinOp)
				if !ok || (bo.Op != token.EQL && bo.Op != token.NEQ) {
					return false, false
				}
				x, y := bo.X, bo.Y
				if _, isK := constString(x); isK {
					x, y = y, x
				}
				s, isK := constString(y)
				px := Path(x)
				if !isK || !(strings.HasSuffix(px, "."+FN("Feature.role")) || strings.HasSuffix(px, ".Role()")) {
					return false, false
				}
				return true, (s == role) == (bo.Op == token.EQL)
			}
		}
		var got []string
		ok := true
		for _, role := range []string{"client", "server", "special"} {
			reach := reachableUnder(fn, reply, roleAtom(role))
			got = append(got, fmt.Sprintf("%s: reply reachable=%v", role, reach))
			if reach != (role != "client") {
				ok = false
			}
		}
		r.Check(rule, FnName(fn)+"|reply-by-role", ok, p.InstrPos(reply), strings.Join(got, "; ")+" (required: server and special answered, client rejected)")
	}
	r.Floor(rule, "functions of the local feature replying to a read", n, 1)
}

// c01ResultNumber: the result builder reports the error it was given — with an error the result's number is the
// error's own number, without one it is the constant "no error". A success number on the error branch turns every
// rejection into an acknowledgement.
func c01ResultNumber(p *Prog, ib *inbound, r *Report) {
	n := 0
	for _, body := range p.RepoFns("spine") {
		if !isSenderFn(ib, body) {
			continue
		}
		base := FnName(body)
		for _, b := range body.Blocks {
			for _, ins := range b.Instrs {
				st, isSt := ins.(*ssa.Store)
				if !isSt {
					continue
				}
				fa, isFA := st.Addr.(*ssa.FieldAddr)
				if !isFA || fieldOfAddr(fa) == nil || fieldOfAddr(fa).Name() != "ErrorNumber" || !isNamed(fa.X.Type(), "model", "ResultDataType") {
					continue
				}
				// which branch of the test of the error parameter?
				branch := ""
				for _, g := range Guards(b) {
					x, trueNil, isNil := nilTest(g.Cond)
					if !isNil || !isNamed(x.Type(), "model", "ErrorType") {
						continue
					}
					if _, isPar := x.(*ssa.Parameter); !isPar {
						continue
					}
					if trueNil == g.Val {
						branch = "no-error"
					} else {
						branch = "error"
					}
				}
				if branch == "" {
					continue
				}
				n++
				val := Path(st.Val)
				switch branch {
				case "error":
					ok := strings.HasPrefix(val, "param:") && strings.HasSuffix(val, ".ErrorNumber")
					r.Check("R4", base+"|error-number", ok, p.InstrPos(st), "with an error the result carries the error's own number: ErrorNumber = "+val)
				case "no-error":
					v := st.Val
					// util.Ptr(constant): a one-argument helper returning a pointer to its argument's type
					if c, isC := v.(*ssa.Call); isC && len(c.Call.Args) == 1 && !c.Call.IsInvoke() {
						if pt, isP := c.Type().Underlying().(*types.Pointer); isP && types.Identical(pt.Elem(), c.Call.Args[0].Type()) {
							v = c.Call.Args[0]
						}
					}
					kv, isK := constInt(v)
					r.Check("R4", base+"|success-number", isK && kv == 0, p.InstrPos(st), "without an error the result carries the number 0 (no error): ErrorNumber = "+Path(v))
				}
			}
		}
	}
	if n < 2 {
		r.Undecided("R4", "result-builder|error-number", "", fmt.Sprintf("%d stores of the result's error number under a test of the error parameter found, 2 expected (error branch and success branch)", n))
	}
}

// c01PureBuilders: ReadCmdType, ReplyCmdType and NotifyOrWriteCmdType of every implementation of
// api.FunctionDataCmdInterface (and their helpers) store into no field of the receiver.
func c01PureBuilders(p *Prog, r *Report, rule string) {
	iface := p.LookupIface("api", "FunctionDataCmdInterface")
	if iface == nil {
		r.Undecided(rule, "anchor:api.FunctionDataCmdInterface", "", "interface not found")
		return
	}
	n := 0
	seen := map[string]bool{}
	for _, fn := range p.RepoFns("spine") {
		if fn.Signature.Recv() == nil || fn.Blocks == nil || !implementsIface(fn.Signature.Recv().Type(), iface) {
			continue
		}
		switch originName(fn) {
		case "ReadCmdType", "ReplyCmdType", "NotifyOrWriteCmdType":
		default:
			continue
		}
		base := FnName(originOf(fn))
		if seen[base] {
			continue // one instantiation of the generic body is enough
		}
		seen[base] = true
		n++
		var bad []string
		p.InScope(fn, func() {
			for _, body := range p.ScopeFns(fn) {
				for _, b := range body.Blocks {
					for _, ins := range b.Instrs {
						if st, ok := ins.(*ssa.Store); ok {
							if fa, ok := st.Addr.(*ssa.FieldAddr); ok && strings.HasPrefix(Path(fa), "recv.") {
								bad = append(bad, fmt.Sprintf("assigns %s at %s", Path(fa), p.InstrPos(st)))
							}
						}
					}
				}
			}
		})
		r.Check(rule, base+"|no-side-effect", len(bad) == 0, p.Pos(fn.Pos()), fmt.Sprintf("the builder assigns no field of the function-data object: %v", bad))
	}
	r.Floor(rule, "command builders", n, 3)
}

// c01ResultUnconditional: in the sender functions that build a result header, no condition mentions the request's
// AckRequest element.
func c01ResultUnconditional(p *Prog, ib *inbound, r *Report, rule string) {
	n := 0
	seen := map[*ssa.Function]bool{}
	var mentionsAck func(v ssa.Value, d int) bool
	mentionsAck = func(v ssa.Value, d int) bool {
		if d > 5 || v == nil {
			return false
		}
		if strings.Contains(Path(v), ".AckRequest") {
			return true
		}
		switch x := v.(type) {
		case *ssa.BinOp:
			return mentionsAck(x.X, d+1) || mentionsAck(x.Y, d+1)
		case *ssa.UnOp:
			return mentionsAck(x.X, d+1)
		case *ssa.Phi:
			for _, e := range x.Edges {
				if mentionsAck(e, d+1) {
					return true
				}
			}
		}
		return false
	}
	// the result builders: the sender's implementations of ResultError / ResultSuccess with everything they call
	// inside the sender (the shared body, extracted header builders)
	for _, m := range []string{"ResultError", "ResultSuccess"} {
		for _, root := range p.ImplsOf(ib.sender, m) {
			var visit func(fn *ssa.Function, d int)
			visit = func(fn *ssa.Function, d int) {
				if seen[fn] || d > 3 || fn.Blocks == nil || !isSenderFnOrHelper(p, ib, fn) {
					return
				}
				seen[fn] = true
				n++
				var bad []string
				for _, b := range fn.Blocks {
					if ifi, ok := b.Instrs[len(b.Instrs)-1].(*ssa.If); ok && mentionsAck(ifi.Cond, 0) {
						bad = append(bad, p.InstrPos(ifi))
					}
				}
				r.Check(rule, FnName(fn)+"|not-conditional-on-ack", len(bad) == 0, p.Pos(fn.Pos()), fmt.Sprintf("conditions on the request's ackRequest in the result builder: %v", bad))
				forEachCallOwn(fn, func(site ssa.CallInstruction) {
					if c := site.Common().StaticCallee(); c != nil {
						visit(c, d+1)
					}
				})
			}
			visit(root, 0)
		}
	}
	r.Floor(rule, "result builders", n, 1)
}

// isSenderFnOrHelper: a method of the sender, or an unexported function of package spine (an extracted helper).
func isSenderFnOrHelper(p *Prog, ib *inbound, fn *ssa.Function) bool {
	if isSenderFn(ib, fn) {
		return true
	}
	return p.IsRepoFn(fn) && fnPkgPath(fn) == repoMod+"/spine" && fn.Object() != nil && !fn.Object().Exported() && fn.Signature.Recv() == nil
}
